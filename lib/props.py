"""Per-property configuration of the checks (see DESIGN.md section 6)."""

PROPS = {
    "C09": {
        "counts": {"quick": 160, "thorough": 6000},
        "rule": "one case = a WAL program (append/batch/rotate/reopen/read-from) run through pkg/wal and the "
                "extracted WalCodec model; file bytes (length+CRC), replayed entries, statuses and sequence "
                "numbers compared; non-trivial = at least 2 entries appended and (a fragmented entry or a "
                "batch or more than one file); distinct by case text",
        "trusted_base": [],
        "assumptions": ["bufio/os deliver the bytes written; file names sort in creation order (UnixNano timestamps)"],
        "partial": "",
    },
    "C01": {
        "counts": {"quick": 240, "thorough": 12000},
        "rule": "one case = a sequential program over the embedded API (put/delete/get/ApplyBatch/transaction "
                "commit+rollback/flush/close+reopen/layer dump) with a small memtable so that data moves through "
                "active table, immutable tables and SSTables; every Get, the reported last sequence and the "
                "logical content of every layer are compared with the extracted Engine model; oracle = map replay "
                "of the acknowledged writes; non-trivial = data in >= 2 kinds of layers and at least one "
                "overwrite/delete of a key after a flush or reopen; distinct by case text",
        "assumptions": ["background flush goroutine parked at a verifhook gate (layer placement decided by the "
                        "program's explicit flushes); age-based memtable switching disabled (MaxMemTableAge=0)"],
        "partial": "single client; concurrency is C06",
    },
    "C08": {
        "counts": {"quick": 200, "thorough": 10000},
        "rule": "same programs as C01 weighted to flush (WAL rotation) and reopen; the last sequence reported by "
                "statistics after every write, after every reopen, and the next WAL sequence are compared with "
                "the model; oracle = strictly greater after every acknowledged write, never smaller after reopen; "
                "non-trivial as for C01",
        "assumptions": ["as C01"],
        "partial": "",
    },
    "C20": {
        "counts": {"quick": 400, "thorough": 20000},
        "rule": "one case = a program over one database directory and one in-memory Config (field assignments "
                "around the validity boundaries, Validate, SaveManifest, LoadConfigFromManifest, tampering with the "
                "stored manifest: every truncation, every single bit flip, hand-made JSON; NewEngineFacade "
                "load-or-create with data written before the reopen); outcomes, the loaded configuration field by "
                "field, and the manifest text (length+CRC-32, scratch root replaced by $R) are compared with the "
                "extracted Config model; oracle = documented constraints table, save/load equality, nothing written "
                "on rejection, every strict prefix fails, open fails on an unreadable manifest or on a missing one over "
                "existing files and otherwise uses the stored WAL directory with earlier data readable; non-trivial = a successful save followed by a "
                "load, or a rejected save, or a tampering step, or an engine open; distinct by case text",
        "assumptions": ["compaction_ratio is modelled as the exact decimal of the float64's shortest representation: "
                        "strconv.FormatFloat(f,-1)/ParseFloat agree with decimal arithmetic on such values (Go's "
                        "shortest-round-trip guarantee); tampered manifests keep the ratio at <= 15 significant digits",
                        "file system: os.WriteFile + os.Rename replace MANIFEST atomically; no I/O errors other than "
                        "'file does not exist'; encoding/json nesting limit (10000) not reached"],
        "partial": "the engine's use of the loaded configuration is observed through the WAL directory it opens and "
                   "the readability of earlier data (no public accessor for EngineFacade.cfg; hook VerifConfig requested); "
                   "pkg/config/manifest.go (unused by the engine) is covered by the oracle only",
    },
}
