"""Per-property configuration of the checks (see DESIGN.md section 6)."""

PROPS = {
    "C09": {
        "counts": {"quick": 160, "thorough": 6000},
        "rule": "one case = a WAL program (append/batch/rotate/reopen/read-from) run through pkg/wal and the "
                "extracted WalCodec model; file bytes (length+CRC), replayed entries, statuses and sequence "
                "numbers compared; non-trivial = at least 2 entries appended and (a fragmented entry or a "
                "batch or more than one file); distinct by case text",
        "trusted_base": [],
        "assumptions": ["bufio/os deliver the bytes written; file names sort in creation order (UnixNano timestamps)"],
        "partial": "",
    },
    "C01": {
        "counts": {"quick": 240, "thorough": 12000},
        "rule": "one case = a sequential program over the embedded API (put/delete/get/ApplyBatch/transaction "
                "commit+rollback/flush/close+reopen/layer dump) with a small memtable so that data moves through "
                "active table, immutable tables and SSTables; every Get, the reported last sequence and the "
                "logical content of every layer are compared with the extracted Engine model; oracle = map replay "
                "of the acknowledged writes; non-trivial = data in >= 2 kinds of layers and at least one "
                "overwrite/delete of a key after a flush or reopen; distinct by case text",
        "assumptions": ["background flush goroutine parked at a verifhook gate (layer placement decided by the "
                        "program's explicit flushes); age-based memtable switching disabled (MaxMemTableAge=0)"],
        "partial": "single client; concurrency is C06",
    },
    "C08": {
        "counts": {"quick": 200, "thorough": 10000},
        "rule": "same programs as C01 weighted to flush (WAL rotation) and reopen; the last sequence reported by "
                "statistics after every write, after every reopen, and the next WAL sequence are compared with "
                "the model; oracle = strictly greater after every acknowledged write, never smaller after reopen; "
                "non-trivial as for C01",
        "assumptions": ["as C01"],
        "partial": "",
    },
    "C18": {
        "counts": {"quick": 400, "thorough": 30000},
        "rule": "sequential cases: insert/delete sequences with arbitrary (non-monotone, repeated, extreme) sequence "
                "numbers on pkg/memtable.MemTable, with Get, full iteration, Seek, SetImmutable, compared with the "
                "extracted Memtable model and with an independent sort-based oracle; every 10th case is concurrent: "
                "one writer, three readers doing iteration/Get, each observation checked (sorted, nothing missing that "
                "was inserted before it began, nothing invented); non-trivial = a key with several versions and >= 3 inserts",
        "assumptions": ["Go atomics are sequentially consistent (skip list next pointers are atomic.Pointer)"],
        "partial": "concurrent clause: proved on the store-by-store model (SkipConc.v, see Props/C18.v for what is "
                   "complete); real interleavings are sampled",
    },
    "C10": {
        "counts": {"quick": 32, "thorough": 1200},
        "rule": "per case a log is written through pkg/wal; small logs: EVERY truncation offset and every byte position x "
                "{xor 1, xor 0x80, :=0, :=0xff, +1} of the newest file is replayed by wal.ReplayWALFile and by the extracted "
                "WalCodec model (entry count, status, digest compared); logs with a fragmented entry: sampled cuts and flips "
                "incl. record headers; directory replays with the newest file cut (older files must stay); every 4th case "
                "drives the engine: damage the newest log of a closed database, reopen (must succeed, state = some prefix "
                "state, no backup of logs), write more, reopen again (post-recovery writes recovered). Oracle: entries "
                "completely before the first damaged byte recovered in order, nothing returned that was not appended. "
                "non-trivial = >= 2 entries and > 10 damaged replays",
        "assumptions": ["CRC-32 detects the damage: the theorem's escape clause (checksum accepted altered bytes) is the only "
                        "way a single altered byte can change an entry"],
        "partial": "process/file-system level effects beyond cut and byte alteration of the newest file are not modelled",
    },
    "C12": {
        "counts": {"quick": 150, "thorough": 5000},
        "model_input": "impl",
        "rule": "one case = a program over the embedded API (put/delete/ApplyBatch/transaction commit, flush, full flush, "
                "TriggerCompaction, CompactRange, background cycle, close+reopen with the log kept or with the flushed log "
                "files retired) with MaxMemTables 2..4, SSTableMaxSize 1..3 entries or unlimited, CompactionRatio 2/10/off; after "
                "every flush/compaction/reopen the SST directory is read back with sstable.OpenReader (level, number, entries "
                "with sequence numbers) and every Get is recorded; the extracted Compaction+Engine model recomputes all of it "
                "from the operations and the observed file sizes (ACCEPT/REJECT); oracle = ground-truth replay with per-version "
                "write stamps: outputs sorted/unique, newest input version kept, deletion markers dropped only when no older "
                "version survives elsewhere, every Get after reopen = latest write; non-trivial = at least one executed "
                "compaction whose inputs hold two versions of a key or a deletion marker, followed by a reopen; distinct by case text",
        "assumptions": ["background flush goroutine parked at a verifhook gate; CompactionInterval 3600 s except in the 'auto' "
                        "operation; file sizes (os.Stat) and the tombstone tracker's 24 h wall-clock retention are inputs/abstracted",
                        "log retirement = removing, while the database is closed, exactly the log files recorded right after a "
                        "full flush (all of whose entries are in SSTables)"],
        "partial": "the tracker's wall-clock retention is not modelled (every tracked key counts as recent); keys are non-empty "
                   "(an SSTable holding the empty key reads back as empty: C11's subject); level < 10 and file numbers < 10^6 "
                   "(name order = numeric order)",
    },
}
