"""Per-property configuration of the checks (see DESIGN.md section 6)."""

PROPS = {
    "C09": {
        "counts": {"quick": 160, "thorough": 6000},
        "rule": "one case = a WAL program (append/batch/rotate/reopen/read-from) run through pkg/wal and the "
                "extracted WalCodec model; file bytes (length+CRC), replayed entries, statuses and sequence "
                "numbers compared; non-trivial = at least 2 entries appended and (a fragmented entry or a "
                "batch or more than one file); distinct by case text",
        "trusted_base": [],
        "assumptions": ["bufio/os deliver the bytes written; file names sort in creation order (UnixNano timestamps)"],
        "partial": "",
    },
    "C01": {
        "counts": {"quick": 240, "thorough": 12000},
        "rule": "one case = a sequential program over the embedded API (put/delete/get/ApplyBatch/transaction "
                "commit+rollback/flush/close+reopen/layer dump) with a small memtable so that data moves through "
                "active table, immutable tables and SSTables; every Get, the reported last sequence and the "
                "logical content of every layer are compared with the extracted Engine model; oracle = map replay "
                "of the acknowledged writes; non-trivial = data in >= 2 kinds of layers and at least one "
                "overwrite/delete of a key after a flush or reopen; distinct by case text",
        "assumptions": ["background flush goroutine parked at a verifhook gate (layer placement decided by the "
                        "program's explicit flushes); age-based memtable switching disabled (MaxMemTableAge=0)"],
        "partial": "single client; concurrency is C06",
    },
    "C08": {
        "counts": {"quick": 200, "thorough": 10000},
        "rule": "same programs as C01 weighted to flush (WAL rotation) and reopen; the last sequence reported by "
                "statistics after every write, after every reopen, and the next WAL sequence are compared with "
                "the model; oracle = strictly greater after every acknowledged write, never smaller after reopen; "
                "non-trivial as for C01",
        "assumptions": ["as C01"],
        "partial": "",
    },
    "C16": {
        "counts": {"quick": 100, "thorough": 5000},
        "rule": "one case = one node (real EngineFacade + replication.Manager started in the header's mode + "
                "KevoServiceServer behind an in-process gRPC server) and a sequential program mixing client calls "
                "through every mutating entry point (embedded API by reflection on the method name, remote API by "
                "the service descriptor; entry points the harness has no dedicated line for are found by "
                "reflection and driven by signature), replicated entries through replication.EngineApplier, reads "
                "and GetNodeInfo; every result, read, scan and node-information answer is compared with the "
                "extracted ReadOnly model; one table case compares the dynamic classification of every entry "
                "point (does it change the data of a writable node?) with the generated fact table gen/Api.v; "
                "oracle = reference map that only applied entries may change on a replica + read-only error "
                "class for every mutation attempt + node info against configuration and behaviour; "
                "non-trivial = replica case with >= 3 refused mutation attempts of >= 3 kinds, >= 2 applied "
                "entries and >= 1 read; distinct by case text",
        "assumptions": ["the replica's network loop is left dialling a dead address (DialTimeout 20 ms); replicated "
                        "entries are handed to replication.EngineApplier, the applier type the manager builds",
                        "programs are sequential: a call that would wait for the transaction lock is skipped by "
                        "harness and model alike (result 'blocked'); background flush parked as for C01",
                        "a node 'running as a replica' = replication.Manager started with Mode=replica, "
                        "Enabled, ForceReadOnly (what cmd/kevo always passes)"],
        "partial": "interleavings are proved in the model (C16_ro_trace over all action sequences); the harness "
                   "runs sequential programs plus one racing scenario (corpus, finding F2)",
    },
}
