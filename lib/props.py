"""Per-property configuration of the checks: one file per property in lib/props.d/<id>.py
defining PROP = {...} (counts per tier, rule, assumptions, partial, optional model_input / extra /
trusted_base / timeout / shard)."""
import os

PROPS = {}
_d = os.path.join(os.path.dirname(os.path.abspath(__file__)), "props.d")
for _fn in sorted(os.listdir(_d)):
    if _fn.endswith(".py"):
        _g = {}
        with open(os.path.join(_d, _fn)) as _f:
            exec(compile(_f.read(), _fn, "exec"), _g)
        PROPS[_fn[:-3]] = _g["PROP"]
