"""Per-property configuration of the checks (see DESIGN.md section 6)."""

PROPS = {
    "C09": {
        "counts": {"quick": 160, "thorough": 6000},
        "rule": "one case = a WAL program (append/batch/rotate/reopen/read-from) run through pkg/wal and the "
                "extracted WalCodec model; file bytes (length+CRC), replayed entries, statuses and sequence "
                "numbers compared; non-trivial = at least 2 entries appended and (a fragmented entry or a "
                "batch or more than one file); distinct by case text",
        "trusted_base": [],
        "assumptions": ["bufio/os deliver the bytes written; file names sort in creation order (UnixNano timestamps)"],
        "partial": "",
    },
    "C01": {
        "counts": {"quick": 240, "thorough": 12000},
        "rule": "one case = a sequential program over the embedded API (put/delete/get/ApplyBatch/transaction "
                "commit+rollback/flush/close+reopen/layer dump) with a small memtable so that data moves through "
                "active table, immutable tables and SSTables; every Get, the reported last sequence and the "
                "logical content of every layer are compared with the extracted Engine model; oracle = map replay "
                "of the acknowledged writes; non-trivial = data in >= 2 kinds of layers and at least one "
                "overwrite/delete of a key after a flush or reopen; distinct by case text",
        "assumptions": ["background flush goroutine parked at a verifhook gate (layer placement decided by the "
                        "program's explicit flushes); age-based memtable switching disabled (MaxMemTableAge=0)"],
        "partial": "single client; concurrency is C06",
    },
    "C08": {
        "counts": {"quick": 200, "thorough": 10000},
        "rule": "same programs as C01 weighted to flush (WAL rotation) and reopen; the last sequence reported by "
                "statistics after every write, after every reopen, and the next WAL sequence are compared with "
                "the model; oracle = strictly greater after every acknowledged write, never smaller after reopen; "
                "non-trivial as for C01",
        "assumptions": ["as C01"],
        "partial": "",
    },
    "C18": {
        "counts": {"quick": 400, "thorough": 30000},
        "rule": "sequential cases: insert/delete sequences with arbitrary (non-monotone, repeated, extreme) sequence "
                "numbers on pkg/memtable.MemTable, with Get, full iteration, Seek, SetImmutable, compared with the "
                "extracted Memtable model and with an independent sort-based oracle; every 10th case is concurrent: "
                "one writer, three readers doing iteration/Get, each observation checked (sorted, nothing missing that "
                "was inserted before it began, nothing invented); non-trivial = a key with several versions and >= 3 inserts",
        "assumptions": ["Go atomics are sequentially consistent (skip list next pointers are atomic.Pointer)"],
        "partial": "concurrent clause: proved on the store-by-store model (SkipConc.v, see Props/C18.v for what is "
                   "complete); real interleavings are sampled",
    },
    "C10": {
        "counts": {"quick": 32, "thorough": 1200},
        "rule": "per case a log is written through pkg/wal; small logs: EVERY truncation offset and every byte position x "
                "{xor 1, xor 0x80, :=0, :=0xff, +1} of the newest file is replayed by wal.ReplayWALFile and by the extracted "
                "WalCodec model (entry count, status, digest compared); logs with a fragmented entry: sampled cuts and flips "
                "incl. record headers; directory replays with the newest file cut (older files must stay); every 4th case "
                "drives the engine: damage the newest log of a closed database, reopen (must succeed, state = some prefix "
                "state, no backup of logs), write more, reopen again (post-recovery writes recovered). Oracle: entries "
                "completely before the first damaged byte recovered in order, nothing returned that was not appended. "
                "non-trivial = >= 2 entries and > 10 damaged replays",
        "assumptions": ["CRC-32 detects the damage: the theorem's escape clause (checksum accepted altered bytes) is the only "
                        "way a single altered byte can change an entry"],
        "partial": "process/file-system level effects beyond cut and byte alteration of the newest file are not modelled",
    },
    "C11": {
        "counts": {"quick": 200, "thorough": 5000},
        "rule": "one case = one table written by sstable.Writer from a strictly ascending entry list (1..3000 entries, "
                "15/16/17/32/33 entries, 1..7 blocks of 64 KB, long shared prefixes, binary keys, tombstones and empty "
                "values) and read back through sstable.Reader: iterator scripts (SeekToFirst/Seek/Next/SeekToLast, raw and "
                "through IteratorAdapter; ~30 seeks at present/between/before/after/block-boundary targets), Get, the "
                "block iterator itself on a data block and on the index block (Seek/SeekForPrev/SeekToLast/Next), byte-exact "
                "layout of every region (data blocks, filter section, index block, footer with the timestamp masked; "
                "footer.Encode with a given timestamp and xxhash.Sum64 compared exactly), and single-byte alterations "
                "(16 cases = 2 small files x every byte x {bit flip, 0x00, 0xff, +1}; sampled positions elsewhere), each "
                "observed through a full scan plus Get/Seek of probes; all compared with the extracted SSTable/Block/SSTFile "
                "models. Oracle = positions tracked in the sorted input list; for altered files: open error, or only written "
                "entries in order, never a crash. non-trivial = at least 2 entries and at least one scan, seek, block script "
                "or alteration; distinct by case text",
        "assumptions": ["the file system returns the bytes written",
                        "NewBloomFilter(0.01, 1000) yields 9586 bits and 7 hash functions (floating point; the stored filter "
                        "header is compared byte for byte on every run)",
                        "an altered block or footer is accepted only if the checksum comparison itself accepts the altered "
                        "bytes (XXH64 collision, or the legacy-version footer comparison): the explicit escape clause of "
                        "C11_corrupt_block / C11_corrupt_footer"],
        "partial": "proved: logical layer for arbitrary partitions, cut rule, block and footer round trips, the whole file "
                   "(OpenReader on Finish's bytes reads back es: C11_file_reads_back), concrete filter without false "
                   "negatives, single altered byte per region (block, footer) and the only-verified-blocks invariant. "
                   "Kept as definitions: C11_corrupt_statement (composition of the region lemmas over a whole file) and "
                   "C11_block_seek_statement (binary search over restart points on bytes = position in the list; checked "
                   "by the block scripts of the correspondence and by ex_block_seek). Guards: key 1..65535 bytes, value "
                   "< 2^32-1 bytes, file < 4 GB; outside them see C11_empty_key_refuted, C11_long_key_refuted and the "
                   "corpus guard-* cases",
    },
}
