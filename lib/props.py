"""Per-property configuration of the checks: one file per property in lib/props.d/<id>.py
defining PROP = {...} (counts per tier, rule, assumptions, partial, optional model_input / extra /
trusted_base / timeout / shard)."""
import os

<<<<<<< HEAD
PROPS = {
    "C09": {
        "counts": {"quick": 160, "thorough": 6000},
        "rule": "one case = a WAL program (append/batch/rotate/reopen/read-from) run through pkg/wal and the "
                "extracted WalCodec model; file bytes (length+CRC), replayed entries, statuses and sequence "
                "numbers compared; non-trivial = at least 2 entries appended and (a fragmented entry or a "
                "batch or more than one file); distinct by case text",
        "trusted_base": [],
        "assumptions": ["bufio/os deliver the bytes written; file names sort in creation order (UnixNano timestamps)"],
        "partial": "",
    },
    "C01": {
        "counts": {"quick": 240, "thorough": 12000},
        "rule": "one case = a sequential program over the embedded API (put/delete/get/ApplyBatch/transaction "
                "commit+rollback/flush/close+reopen/layer dump) with a small memtable so that data moves through "
                "active table, immutable tables and SSTables; every Get, the reported last sequence and the "
                "logical content of every layer are compared with the extracted Engine model; oracle = map replay "
                "of the acknowledged writes; non-trivial = data in >= 2 kinds of layers and at least one "
                "overwrite/delete of a key after a flush or reopen; distinct by case text",
        "assumptions": ["background flush goroutine parked at a verifhook gate (layer placement decided by the "
                        "program's explicit flushes); age-based memtable switching disabled (MaxMemTableAge=0)"],
        "partial": "single client; concurrency is C06",
    },
    "C08": {
        "counts": {"quick": 200, "thorough": 10000},
        "rule": "same programs as C01 weighted to flush (WAL rotation) and reopen; the last sequence reported by "
                "statistics after every write, after every reopen, and the next WAL sequence are compared with "
                "the model; oracle = strictly greater after every acknowledged write, never smaller after reopen; "
                "non-trivial as for C01",
        "assumptions": ["as C01"],
        "partial": "",
    },
    "C18": {
        "counts": {"quick": 400, "thorough": 30000},
        "rule": "sequential cases: insert/delete sequences with arbitrary (non-monotone, repeated, extreme) sequence "
                "numbers on pkg/memtable.MemTable, with Get, full iteration, Seek, SetImmutable, compared with the "
                "extracted Memtable model and with an independent sort-based oracle; every 10th case is concurrent: "
                "one writer, three readers doing iteration/Get, each observation checked (sorted, nothing missing that "
                "was inserted before it began, nothing invented); non-trivial = a key with several versions and >= 3 inserts",
        "assumptions": ["Go atomics are sequentially consistent (skip list next pointers are atomic.Pointer)"],
        "partial": "concurrent clause: proved on the store-by-store model (SkipConc.v, see Props/C18.v for what is "
                   "complete); real interleavings are sampled",
    },
    "C10": {
        "counts": {"quick": 32, "thorough": 1200},
        "rule": "per case a log is written through pkg/wal; small logs: EVERY truncation offset and every byte position x "
                "{xor 1, xor 0x80, :=0, :=0xff, +1} of the newest file is replayed by wal.ReplayWALFile and by the extracted "
                "WalCodec model (entry count, status, digest compared); logs with a fragmented entry: sampled cuts and flips "
                "incl. record headers; directory replays with the newest file cut (older files must stay); every 4th case "
                "drives the engine: damage the newest log of a closed database, reopen (must succeed, state = some prefix "
                "state, no backup of logs), write more, reopen again (post-recovery writes recovered). Oracle: entries "
                "completely before the first damaged byte recovered in order, nothing returned that was not appended. "
                "non-trivial = >= 2 entries and > 10 damaged replays",
        "assumptions": ["CRC-32 detects the damage: the theorem's escape clause (checksum accepted altered bytes) is the only "
                        "way a single altered byte can change an entry"],
        "partial": "process/file-system level effects beyond cut and byte alteration of the newest file are not modelled",
    },
    "C02": {
        "counts": {"quick": 48, "thorough": 2000},
        "model_input": "both",
        "rule": "per case a write program (put/delete/batch/commit/flush/reopen; sync mode none/batch/immediate; small "
                "memtables) and 8 crash directives: a CHILD process runs the program with a verifhook site armed and dies "
                "(os.Exit(137), no cleanup) at the n-th hit of the site (WAL append/sync, between log append and memtable "
                "insert, inside a batch, each step of log rotation, SSTable write/rename/publish, close) or closes cleanly; "
                "the parent records which writes were acknowledged/issued and how many bytes of every log file survived, "
                "reopens, reads every key, writes three more operations, reopens again. Model: the extracted Engine/WalCodec "
                "model cut at exactly the surviving lengths. Oracle: recovered state = state after m writes, acknowledged "
                "<= m <= issued with synchronous logging (0 <= m otherwise), batches whole; after the extra writes and a clean "
                "reopen = prefix(m) + those writes. non-trivial = at least one armed site was hit and >= 3 writes",
        "assumptions": ["process stop, not power loss: bytes handed to the OS by write() survive; fsync ordering, lost renames "
                        "and torn pages are outside the model (DESIGN.md section 8)"],
        "partial": "crash points are the hook sites (between system calls), not arbitrary instructions; the theorems quantify "
                   "over every cut of the newest log file",
    },
    "C05": {
        "counts": {"quick": 200, "thorough": 8000},
        "rule": "one case = a data set built by a C01-style program (put/delete/ApplyBatch/commit/rollback/flush/reopen, small "
                "memtable so that versions and tombstones spread over active table, immutable tables and SSTables; every 20th "
                "with a multi-block SSTable) followed by 8 iterator sections (engine full/range iterator, transaction "
                "full/range iterator with buffered puts/deletes, optionally wrapped in prefix/suffix filters as service.Scan "
                "does) each with a script of SeekToFirst/Seek/Next/SeekToLast and Scan-loop calls with limit; targets and bounds "
                "from present keys, gaps, before-first, after-last, nil, empty and inverted ranges. Every position "
                "(return value, Valid, Key, Value, IsTombstone) and every scan result is compared with the extracted Iter "
                "model over the Engine model; oracle = sorted reference map of the acknowledged writes plus the "
                "transaction's operations. Every 25th case is concurrent (writers on other keys, flushes, background "
                "flusher on/off, while full/range/read-only-tx scans run): oracle only. non-trivial = data in >= 2 sources and "
                "(a key with versions in >= 2 sources or a tombstone) and >= 2 live keys and >= 3 iterator operations; "
                "concurrent: > 20 writes during the scans and >= 3 old live keys; distinct by case text",
        "assumptions": ["as C01 (background flush parked, age-based switching off) for the sequential cases",
                        "keys are non-empty (service limit 1..4096 bytes): a nil key would read as 'no previous key' in "
                        "HierarchicalIterator.findNextUniqueKey",
                        "an SSTable reads back what was written (C11): tables are modelled by their logical entries"],
        "partial": "concurrent clause: proved for the model of memtable snapshot filter + append-only entry lists + immutable "
                   "SSTables (iterators keep their own source list; each iterator call atomic with respect to writer steps); "
                   "real interleavings are sampled.",
    },
}
=======
PROPS = {}
_d = os.path.join(os.path.dirname(os.path.abspath(__file__)), "props.d")
for _fn in sorted(os.listdir(_d)):
    if _fn.endswith(".py"):
        _g = {}
        with open(os.path.join(_d, _fn)) as _f:
            exec(compile(_f.read(), _fn, "exec"), _g)
        PROPS[_fn[:-3]] = _g["PROP"]
>>>>>>> main
