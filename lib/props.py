"""Per-property configuration of the checks (see DESIGN.md section 6)."""

PROPS = {
    "C09": {
        "counts": {"quick": 160, "thorough": 6000},
        "rule": "one case = a WAL program (append/batch/rotate/reopen/read-from) run through pkg/wal and the "
                "extracted WalCodec model; file bytes (length+CRC), replayed entries, statuses and sequence "
                "numbers compared; non-trivial = at least 2 entries appended and (a fragmented entry or a "
                "batch or more than one file); distinct by case text",
        "trusted_base": [],
        "assumptions": ["bufio/os deliver the bytes written; file names sort in creation order (UnixNano timestamps)"],
        "partial": "",
    },
    "C01": {
        "counts": {"quick": 240, "thorough": 12000},
        "rule": "one case = a sequential program over the embedded API (put/delete/get/ApplyBatch/transaction "
                "commit+rollback/flush/close+reopen/layer dump) with a small memtable so that data moves through "
                "active table, immutable tables and SSTables; every Get, the reported last sequence and the "
                "logical content of every layer are compared with the extracted Engine model; oracle = map replay "
                "of the acknowledged writes; non-trivial = data in >= 2 kinds of layers and at least one "
                "overwrite/delete of a key after a flush or reopen; distinct by case text",
        "assumptions": ["background flush goroutine parked at a verifhook gate (layer placement decided by the "
                        "program's explicit flushes); age-based memtable switching disabled (MaxMemTableAge=0)"],
        "partial": "single client; concurrency is C06",
    },
    "C08": {
        "counts": {"quick": 200, "thorough": 10000},
        "rule": "same programs as C01 weighted to flush (WAL rotation) and reopen; the last sequence reported by "
                "statistics after every write, after every reopen, and the next WAL sequence are compared with "
                "the model; oracle = strictly greater after every acknowledged write, never smaller after reopen; "
                "non-trivial as for C01",
        "assumptions": ["as C01"],
        "partial": "",
    },
    "C18": {
        "counts": {"quick": 400, "thorough": 30000},
        "rule": "sequential cases: insert/delete sequences with arbitrary (non-monotone, repeated, extreme) sequence "
                "numbers on pkg/memtable.MemTable, with Get, full iteration, Seek, SetImmutable, compared with the "
                "extracted Memtable model and with an independent sort-based oracle; every 10th case is concurrent: "
                "one writer, three readers doing iteration/Get, each observation checked (sorted, nothing missing that "
                "was inserted before it began, nothing invented); non-trivial = a key with several versions and >= 3 inserts",
        "assumptions": ["Go atomics are sequentially consistent (skip list next pointers are atomic.Pointer)"],
        "partial": "concurrent clause: proved on the store-by-store model (SkipConc.v, see Props/C18.v for what is "
                   "complete); real interleavings are sampled",
    },
    "C10": {
        "counts": {"quick": 32, "thorough": 1200},
        "rule": "per case a log is written through pkg/wal; small logs: EVERY truncation offset and every byte position x "
                "{xor 1, xor 0x80, :=0, :=0xff, +1} of the newest file is replayed by wal.ReplayWALFile and by the extracted "
                "WalCodec model (entry count, status, digest compared); logs with a fragmented entry: sampled cuts and flips "
                "incl. record headers; directory replays with the newest file cut (older files must stay); every 4th case "
                "drives the engine: damage the newest log of a closed database, reopen (must succeed, state = some prefix "
                "state, no backup of logs), write more, reopen again (post-recovery writes recovered). Oracle: entries "
                "completely before the first damaged byte recovered in order, nothing returned that was not appended. "
                "non-trivial = >= 2 entries and > 10 damaged replays",
        "assumptions": ["CRC-32 detects the damage: the theorem's escape clause (checksum accepted altered bytes) is the only "
                        "way a single altered byte can change an entry"],
        "partial": "process/file-system level effects beyond cut and byte alteration of the newest file are not modelled",
    },
    "C02": {
        "counts": {"quick": 48, "thorough": 2000},
        "model_input": "both",
        "rule": "per case a write program (put/delete/batch/commit/flush/reopen; sync mode none/batch/immediate; small "
                "memtables) and 8 crash directives: a CHILD process runs the program with a verifhook site armed and dies "
                "(os.Exit(137), no cleanup) at the n-th hit of the site (WAL append/sync, between log append and memtable "
                "insert, inside a batch, each step of log rotation, SSTable write/rename/publish, close) or closes cleanly; "
                "the parent records which writes were acknowledged/issued and how many bytes of every log file survived, "
                "reopens, reads every key, writes three more operations, reopens again. Model: the extracted Engine/WalCodec "
                "model cut at exactly the surviving lengths. Oracle: recovered state = state after m writes, acknowledged "
                "<= m <= issued with synchronous logging (0 <= m otherwise), batches whole; after the extra writes and a clean "
                "reopen = prefix(m) + those writes. non-trivial = at least one armed site was hit and >= 3 writes",
        "assumptions": ["process stop, not power loss: bytes handed to the OS by write() survive; fsync ordering, lost renames "
                        "and torn pages are outside the model (DESIGN.md section 8)"],
        "partial": "crash points are the hook sites (between system calls), not arbitrary instructions; the theorems quantify "
                   "over every cut of the newest log file",
    },
    "C06": {
        "counts": {"quick": 40, "thorough": 4000},
        "model_input": "impl",
        "rule": "one case = 4-16 client goroutines running random put/get/delete programs on 1-4 keys against one engine "
                "with a 64-512 byte memtable (log rotation every few writes, background flush running), 0-2 goroutines "
                "calling FlushImMemTables, 0-1 calling TriggerCompaction, verifhook yield perturbation at every hook site, "
                "optionally a directed delay of the rotating goroutine; every call bracketed by tickets of one atomic "
                "counter; final reads of every key, in a third of the cases again after close+reopen. The recorded history "
                "is judged by the extracted lin_check (proved sound) and by an independent Go search (oracle). non-trivial = "
                ">= 2 threads, >= 3 overlapping pairs of calls on one key, >= 1 log rotation, >= 1 read of another thread's write",
        "assumptions": ["Go's sync.Mutex/RWMutex give mutual exclusion and atomics are sequentially consistent (the LTS takes "
                        "the critical sections as atomic steps)",
                        "tickets of one atomic counter taken before the call and after the return: recorded precedence implies "
                        "real-time precedence"],
        "partial": "locality (per-key linearizability => linearizability of the whole history) is the Herlihy-Wing theorem, not "
                   "re-proved: lin_check establishes linearizable_per_key. The theorem quantifies over all interleavings of the "
                   "model's critical sections; real schedules are sampled. Concurrent iteration of the live active table by "
                   "the flusher is one atomic step in the model. C06_error_no_effect holds only without a status flip between "
                   "Append's two checks (C06_error_no_effect_refuted, corpus/C06/flip-*.case)",
        "shrink": False,
    },
}
