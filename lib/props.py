"""Per-property configuration of the checks (see DESIGN.md section 6)."""

PROPS = {
    "C09": {
        "counts": {"quick": 160, "thorough": 6000},
        "rule": "one case = a WAL program (append/batch/rotate/reopen/read-from) run through pkg/wal and the "
                "extracted WalCodec model; file bytes (length+CRC), replayed entries, statuses and sequence "
                "numbers compared; non-trivial = at least 2 entries appended and (a fragmented entry or a "
                "batch or more than one file); distinct by case text",
        "trusted_base": [],
        "assumptions": ["bufio/os deliver the bytes written; file names sort in creation order (UnixNano timestamps)"],
        "partial": "",
    },
    "C01": {
        "counts": {"quick": 240, "thorough": 12000},
        "rule": "one case = a sequential program over the embedded API (put/delete/get/ApplyBatch/transaction "
                "commit+rollback/flush/close+reopen/layer dump) with a small memtable so that data moves through "
                "active table, immutable tables and SSTables; every Get, the reported last sequence and the "
                "logical content of every layer are compared with the extracted Engine model; oracle = map replay "
                "of the acknowledged writes; non-trivial = data in >= 2 kinds of layers and at least one "
                "overwrite/delete of a key after a flush or reopen; distinct by case text",
        "assumptions": ["background flush goroutine parked at a verifhook gate (layer placement decided by the "
                        "program's explicit flushes); age-based memtable switching disabled (MaxMemTableAge=0)"],
        "partial": "single client; concurrency is C06",
    },
    "C08": {
        "counts": {"quick": 200, "thorough": 10000},
        "rule": "same programs as C01 weighted to flush (WAL rotation) and reopen; the last sequence reported by "
                "statistics after every write, after every reopen, and the next WAL sequence are compared with "
                "the model; oracle = strictly greater after every acknowledged write, never smaller after reopen; "
                "non-trivial as for C01",
        "assumptions": ["as C01"],
        "partial": "",
    },
    "C04": {
        "counts": {"quick": 100, "thorough": 6000},
        "model_input": "impl",
        "rule": "one case = the programs of 2-8 client goroutines (begin ro/rw, get, put, delete, full and range scans "
                "through the transaction iterators, commit/rollback, calls after the end, writes in read-only "
                "transactions; keys from an alphabet of 2-4, every written value unique) run concurrently (mode=free, "
                "seeded Gosched/sleep between calls and verifhook yields inside the storage manager) or in a scripted "
                "interleaving (mode=sched) against one engine, `reps` times; every call is recorded with tickets taken "
                "before it is issued and after it returned; each recorded history must be accepted by the extracted, "
                "proved-sound Txn.ser_check (serial order = order in which the Begin calls returned); oracle = direct "
                "checks of own-writes / no-dirty-read / read-only snapshot / error contract plus a complete search for "
                "a serial order consistent with real time; non-trivial = some pair of transactions overlaps in real "
                "time, at least two read-write transactions, and some Get returns a value committed by another "
                "transaction; distinct by case text",
        "assumptions": ["Go's sync.RWMutex provides mutual exclusion and happens-before; atomics are sequentially "
                        "consistent (Go memory model)",
                        "no writes outside transactions (the property excludes them); a client goroutine holds at "
                        "most one transaction at a time (two would self-deadlock on the single lock)",
                        "Commit's ApplyBatch succeeds (a failing batch is C03); TTL/idle cleanup of the registry is C17"],
        "partial": "the for-all over interleavings is proved for the transition system of coq/Txn.v; the schedules of "
                   "the real code are sampled (recorded histories), not enumerated",
        "shrink": True,
    },
}
