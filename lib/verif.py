#!/usr/bin/env python3
"""Orchestrator for the kevo verification checks (see DESIGN.md section 2).

  check <Cxx> [quick|thorough] [--replay <file>]

Stages: build (gofacts -> coq/gen, make, extraction, OCaml model, Go harness, all from
/repo's working tree) -> proof obligations (coq/Props/<Cxx>.v + Print Assumptions) ->
corpus + generated cases through harness and model -> classification -> evidence.
"""
import fcntl
import hashlib
import json
import os
import re
import shutil
import subprocess
import sys
import tempfile
import time

ROOT = os.path.dirname(os.path.dirname(os.path.abspath(__file__)))
REPO = os.environ.get("VERIF_REPO", "/repo")
BUILD = os.path.join(ROOT, "build")
COQ = os.path.join(ROOT, "coq")
HARNESS = os.path.join(BUILD, "kevo_harness")
MODEL = os.path.join(BUILD, "kevo_model")
NCPU = int(os.environ.get("VERIF_JOBS", str(os.cpu_count() or 4)))

GOENV = dict(os.environ, GOFLAGS="-mod=mod", GOPROXY="off")
GOENV.pop("GOTOOLCHAIN", None)
GOENV.pop("GOSUMDB", None)

sys.path.insert(0, os.path.join(ROOT, "lib"))
from props import PROPS  # noqa: E402


def log(*a):
    print(*a, file=sys.stderr, flush=True)


def sh(cmd, cwd=None, env=None, timeout=1800, inp=None):
    """Run a command; returns (rc, stdout, stderr)."""
    try:
        p = subprocess.run(cmd, cwd=cwd, env=env, timeout=timeout, input=inp,
                           stdout=subprocess.PIPE, stderr=subprocess.PIPE, text=True,
                           errors="replace")
        return p.returncode, p.stdout, p.stderr
    except subprocess.TimeoutExpired as e:
        return 124, (e.stdout or b"").decode("utf8", "replace") if isinstance(e.stdout, bytes) else (e.stdout or ""), "timeout after %ds" % timeout


class BuildError(Exception):
    def __init__(self, stage, detail):
        super().__init__(stage)
        self.stage = stage
        self.detail = detail


def write_if_changed(path, text):
    try:
        if open(path).read() == text:
            return False
    except OSError:
        pass
    os.makedirs(os.path.dirname(path), exist_ok=True)
    with open(path + ".tmp", "w") as f:
        f.write(text)
    os.replace(path + ".tmp", path)
    return True


def tree_hash(paths, exts):
    h = hashlib.sha256()
    for base in paths:
        for d, dirs, files in sorted(os.walk(base)):
            dirs.sort()
            for fn in sorted(files):
                if fn.endswith(exts):
                    p = os.path.join(d, fn)
                    h.update(p.encode())
                    with open(p, "rb") as f:
                        h.update(f.read())
    return h.hexdigest()


def build(only_proofs_ok=False):
    """Rebuild everything from /repo's working tree. Returns dict of notes.
    Raises BuildError(stage, detail)."""
    os.makedirs(BUILD, exist_ok=True)
    notes = {}
    lock = open(os.path.join(BUILD, ".lock"), "w")
    fcntl.flock(lock, fcntl.LOCK_EX)
    try:
        t0 = time.time()
        # 1. translator: facts from the Go source -> coq/gen/*.v
        gofacts = os.path.join(BUILD, "gofacts")
        gf_src = os.path.join(ROOT, "gofacts")
        stamp = os.path.join(BUILD, ".gofacts.stamp")
        hsh = tree_hash([gf_src], (".go", ".mod"))
        if not os.path.exists(gofacts) or not os.path.exists(stamp) or open(stamp).read() != hsh:
            rc, o, e = sh(["go", "build", "-o", gofacts, "."], cwd=gf_src, env=GOENV, timeout=600)
            if rc != 0:
                raise BuildError("gofacts-build", o + e)
            open(stamp, "w").write(hsh)
        rc, o, e = sh([gofacts, REPO, os.path.join(BUILD, "gen")], cwd=REPO, env=GOENV, timeout=600)
        if rc != 0:
            raise BuildError("gofacts-run", o + e)
        changed = []
        gen_out = os.path.join(BUILD, "gen")
        for fn in sorted(os.listdir(gen_out)):
            if fn.endswith(".v"):
                if write_if_changed(os.path.join(COQ, "gen", fn), open(os.path.join(gen_out, fn)).read()):
                    changed.append(fn)
        notes["gen_changed"] = changed
        notes["t_gofacts"] = round(time.time() - t0, 1)
        # 2. Coq: full .vo build
        t1 = time.time()
        if not os.path.exists(os.path.join(COQ, "Makefile")) or \
                os.path.getmtime(os.path.join(COQ, "Makefile")) < os.path.getmtime(os.path.join(COQ, "_CoqProject")):
            rc, o, e = sh(["coq_makefile", "-f", "_CoqProject", "-o", "Makefile"], cwd=COQ)
            if rc != 0:
                raise BuildError("coq_makefile", o + e)
        rc, o, e = sh(["make", "-j%d" % NCPU, "-k"], cwd=COQ, timeout=3000)
        notes["t_coq"] = round(time.time() - t1, 1)
        notes["coq_ok"] = (rc == 0)
        notes["coq_log"] = ("\n".join(l for l in (o + e).splitlines() if not l.startswith(("COQC", "COQDEP", "CLEAN")))[:6000]) if rc != 0 else ""
        # 3. extraction + OCaml model (needs only the model .vo files)
        t2 = time.time()
        ex = os.path.join(BUILD, "extract")
        os.makedirs(ex, exist_ok=True)
        model_srcs = [os.path.join(ROOT, "model")]
        vo_hash = tree_hash([COQ], (".v",)) + tree_hash(model_srcs, (".ml",))
        mstamp = os.path.join(BUILD, ".model.stamp")
        if not os.path.exists(MODEL) or not os.path.exists(mstamp) or open(mstamp).read() != vo_hash:
            for fn in os.listdir(ex):
                os.unlink(os.path.join(ex, fn))
            rc2, o2, e2 = sh(["coqc", "-Q", COQ, "KV", "-o", "Extract.vo", os.path.join(COQ, "Extract.v")], cwd=ex, timeout=900)
            if rc2 != 0:
                raise BuildError("extraction", o2 + e2)
            for fn in os.listdir(os.path.join(ROOT, "model")):
                if fn.endswith(".ml"):
                    shutil.copy(os.path.join(ROOT, "model", fn), ex)
            mls = sorted(f for f in os.listdir(ex) if f.endswith((".ml", ".mli")))
            rc2, o2, e2 = sh(["ocamlfind", "ocamldep", "-sort"] + mls, cwd=ex)
            if rc2 != 0:
                raise BuildError("ocamldep", o2 + e2)
            order = o2.split()
            rc2, o2, e2 = sh(["ocamlfind", "ocamlopt", "-O3", "-w", "-a", "-o", MODEL] + order, cwd=ex, timeout=900)
            if rc2 != 0:
                raise BuildError("ocaml", o2 + e2)
            open(mstamp, "w").write(vo_hash)
        notes["t_model"] = round(time.time() - t2, 1)
        # 4. Go harness against /repo's working tree, hooks on
        t3 = time.time()
        hs = os.path.join(ROOT, "harness")
        try:
            shutil.copy(os.path.join(REPO, "go.sum"), os.path.join(hs, "go.sum"))
        except OSError:
            pass
        modargs = []
        if os.path.realpath(REPO) != "/repo":
            # development aid: build against another checkout (e.g. a scratch worktree with a mutation)
            mf = os.path.join(BUILD, "harness.mod")
            open(mf, "w").write(open(os.path.join(hs, "go.mod")).read().replace("=> /repo", "=> " + os.path.realpath(REPO)))
            shutil.copy(os.path.join(REPO, "go.sum"), os.path.join(BUILD, "harness.sum"))
            modargs = ["-modfile=" + mf]
        rc, o, e = sh(["go", "build"] + modargs + ["-tags", "verif", "-o", HARNESS, "."], cwd=hs, env=GOENV, timeout=1200)
        if rc != 0:
            raise BuildError("harness-build", o + e)
        notes["t_harness"] = round(time.time() - t3, 1)
        return notes
    finally:
        fcntl.flock(lock, fcntl.LOCK_UN)
        lock.close()


def check_proofs(prop):
    """Compile Props/<prop>.v (its dependencies were built by make) and collect the theorems
    and their Print Assumptions. Returns (obligations, discharged, assumptions_text, failures)."""
    src = os.path.join(COQ, "Props", prop + ".v")
    if not os.path.exists(src):
        return [], [], "", ["Props/%s.v missing" % prop]
    text = open(src).read()
    theorems = re.findall(r"^\s*(?:Theorem|Lemma|Corollary)\s+([A-Za-z0-9_']+)", text, re.M)
    rc, o, e = sh(["coqc", "-Q", COQ, "KV", src], cwd=COQ, timeout=1200)
    failures = []
    discharged = []
    if rc != 0:
        failures.append("coqc Props/%s.v: %s" % (prop, (o + e)[-3000:]))
        # which dependencies failed?
    else:
        discharged = list(theorems)
    bad = re.findall(r"(?m)^\s*(Admitted|admit)\b", text)
    if bad:
        failures.append("Admitted/admit in Props/%s.v" % prop)
        discharged = []
    # hygiene over the whole development: nothing admitted, no axioms declared, no checks off
    pat = re.compile(r"(?m)^\s*(Admitted\.|admit\.|Axiom\s|Axioms\s|Parameter\s|Parameters\s|Conjecture\s|Admit Obligations|"
                     r"Unset Guard Checking|Unset Positivity Checking|Unset Universe Checking)|bypass_check|-type-in-type|give_up")
    for d, _, files in os.walk(COQ):
        for fn in files:
            if fn.endswith(".v"):
                src_text = open(os.path.join(d, fn), errors="replace").read()
                src_nc = re.sub(r"\(\*.*?\*\)", "", src_text, flags=re.S)
                m = pat.search(src_nc)
                if m:
                    failures.append("forbidden construct %r in %s" % (m.group(0).strip(), os.path.relpath(os.path.join(d, fn), COQ)))
                    discharged = []
    return theorems, discharged, (o + e).strip(), failures


def run_coqchk(prop):
    """Thorough tier: re-check the compiled property module and everything it depends on with
    the independent checker; cached by the hash of the .vo files."""
    import glob
    h = hashlib.sha256()
    for f in sorted(glob.glob(os.path.join(COQ, "**", "*.vo"), recursive=True)):
        h.update(f.encode())
        h.update(open(f, "rb").read())
    key = h.hexdigest()[:16]
    cache = os.path.join(BUILD, "coqchk-%s-%s.txt" % (prop, key))
    if os.path.exists(cache):
        return open(cache).read(), True
    rc, o, e = sh(["coqchk", "-silent", "-o", "-Q", COQ, "KV", "KV.Props." + prop], cwd=COQ, timeout=5400)
    text = "rc=%d\n%s%s" % (rc, o[-3000:], e[-1500:])
    if rc == 0:
        open(cache, "w").write(text)
    return text, rc == 0


def split_cases(path, nshards, outdir, tag):
    """Split a case file into shards of whole cases."""
    shards = [[] for _ in range(nshards)]
    cur = []
    idx = 0
    with open(path) as f:
        for line in f:
            if line.startswith("case ") and cur:
                shards[idx % nshards].append("".join(cur))
                idx += 1
                cur = []
            cur.append(line)
    if cur:
        shards[idx % nshards].append("".join(cur))
    paths = []
    for i, s in enumerate(shards):
        if not s:
            continue
        p = os.path.join(outdir, "%s.%d.cases" % (tag, i))
        with open(p, "w") as f:
            f.write("".join(s))
        paths.append(p)
    return paths


def _big_stack():
    # the extracted model recurses over long lists (megabyte values, large tables)
    import resource
    try:
        resource.setrlimit(resource.RLIMIT_STACK, (resource.RLIM_INFINITY, resource.RLIM_INFINITY))
    except (ValueError, OSError):
        pass


def run_parallel(cmds, timeout, env=None):
    """cmds: list of (argv, outpath). Runs up to NCPU at once. Returns list of rc."""
    procs = []
    rcs = [None] * len(cmds)
    pending = list(enumerate(cmds))
    running = []
    deadline = time.time() + timeout
    while pending or running:
        while pending and len(running) < NCPU:
            i, (argv, outp) = pending.pop(0)
            fo = open(outp, "w")
            fe = open(outp + ".err", "w")
            running.append((i, subprocess.Popen(argv, stdout=fo, stderr=fe, env=env, preexec_fn=_big_stack), fo, fe))
        still = []
        for (i, p, fo, fe) in running:
            rc = p.poll()
            if rc is None:
                if time.time() > deadline:
                    p.kill()
                    rcs[i] = 124
                    fo.close(); fe.close()
                else:
                    still.append((i, p, fo, fe))
            else:
                rcs[i] = rc
                fo.close(); fe.close()
        running = still
        if running:
            time.sleep(0.02)
    return rcs


def parse_out(paths):
    """-> dict case_id -> list of lines (without id)."""
    d = {}
    for p in paths:
        with open(p, errors="replace") as f:
            for line in f:
                line = line.rstrip("\n")
                if not line:
                    continue
                sp = line.split(" ", 1)
                d.setdefault(sp[0], []).append(sp[1] if len(sp) > 1 else "")
    return d


SPECIAL = ("ORACLE", "META", "KF", "NOTE")


CRASHES = []   # (case id, case text, message) of shards the Go runtime ended; filled by run_cases


def run_cases(prop, casefile, work, tag, timeout=3000):
    """Run harness and model on a case file (sharded). Returns (impl, model) dicts and errors."""
    cfg = PROPS[prop]
    shards = split_cases(casefile, NCPU if cfg.get("shard", True) else 1, work, tag)
    env = dict(os.environ, VERIF_TMP=work)
    impl_cmds = [([HARNESS, "run", prop, s], s + ".impl") for s in shards]
    rcs = run_parallel(impl_cmds, timeout, env)
    errors = []
    for (argv, outp), rc in zip(impl_cmds, rcs):
        if rc != 0:
            msg = "harness rc=%s on %s: %s" % (rc, os.path.basename(outp), open(outp + ".err").read()[-2000:])
            # the shard did not finish: name the case that was running (the first one of the shard
            # without an oracle verdict) so that it can be replayed
            try:
                done = {ln.split(" ", 1)[0] for ln in open(outp, errors="replace") if " ORACLE " in ln}
                shard_texts = read_case_texts(argv[3])
                hung = [cid for cid in shard_texts if cid not in done]
            except Exception:
                hung, shard_texts = [], {}
            if rc == 124 and hung:
                msg = ("the implementation did not finish case %s within the time limit of %d s "
                       "(shard killed; the cases behind it were not run)\n%s\n%s"
                       % (hung[0], timeout, shard_texts[hung[0]][:3000], msg))
            elif rc != 124 and hung:
                err_text = open(outp + ".err", errors="replace").read()
                m = re.search(r"^(panic: .*|fatal error: .*)$", err_text, re.M)
                if m:
                    # the Go runtime ended the process while the implementation ran this case (a panic in
                    # a goroutine of the code under test, a fatal error such as a concurrent map write):
                    # a failing input, replayable on its own
                    CRASHES.append((hung[0], shard_texts[hung[0]],
                                    "the process running the implementation died on this case: %s" % m.group(1)[:300]))
                    continue
            errors.append(msg)
    if cfg.get("model_input", "cases") == "impl":
        model_cmds = [([MODEL, prop, s + ".impl"], s + ".model") for s in shards]
    elif cfg.get("model_input") == "both":
        model_cmds = [([MODEL, prop, s, s + ".impl"], s + ".model") for s in shards]
    else:
        model_cmds = [([MODEL, prop, s], s + ".model") for s in shards]
    rcs = run_parallel(model_cmds, timeout, env)
    # a model shard killed by a signal (the machine ran out of memory with 16 shards side by side) is
    # run again, one at a time; its verdict is what the second run says
    for i, ((argv, outp), rc) in enumerate(zip(model_cmds, rcs)):
        if rc is not None and rc < 0:
            rcs[i] = run_parallel([(argv, outp)], timeout, env)[0]
    for (argv, outp), rc in zip(model_cmds, rcs):
        if rc != 0:
            errors.append("model rc=%s on %s: %s" % (rc, os.path.basename(outp), open(outp + ".err").read()[-2000:]))
    impl = parse_out([s + ".impl" for s in shards])
    model = parse_out([s + ".model" for s in shards])
    return impl, model, errors


def read_case_texts(casefile):
    d = {}
    cur = None
    buf = []
    with open(casefile) as f:
        for line in f:
            if line.startswith("case "):
                if cur:
                    d[cur] = "".join(buf)
                cur = line.split()[1]
                buf = []
            buf.append(line)
    if cur:
        d[cur] = "".join(buf)
    return d


def load_known():
    p = os.path.join(ROOT, "known_findings.json")
    try:
        return json.load(open(p))
    except OSError:
        return {"findings": [], "fixed": []}


def classify(prop, impl, model, mode):
    """Returns dict with lists: oracle_fail (id,msg,kf), diverge (id, first diff), nontrivial ids, meta."""
    res = {"oracle_fail": [], "diverge": [], "nontrivial": set(), "meta": {}, "missing_oracle": [], "panics": []}
    for cid, lines in impl.items():
        obs = [l for l in lines if l.split(" ", 1)[0] not in SPECIAL]
        orc = [l for l in lines if l.startswith("ORACLE")]
        kf = [l.split(" ", 1)[1] for l in lines if l.startswith("KF ")]
        for l in lines:
            if l.startswith("META"):
                for kv in l.split()[1:]:
                    if "=" in kv:
                        k, v = kv.split("=", 1)
                        res["meta"].setdefault(k, []).append(v)
                if "nontrivial=1" in l:
                    res["nontrivial"].add(cid)
            if l.startswith("IMPL-PANIC") or l.startswith("IMPL-ERROR"):
                res["panics"].append((cid, l))
        fails = [l for l in orc if l.startswith("ORACLE FAIL")]
        if fails:
            res["oracle_fail"].append((cid, fails[0][len("ORACLE FAIL "):], kf))
        elif not orc:
            res["missing_oracle"].append(cid)
        if mode == "impl":
            m = model.get(cid, [])
            rej = [l for l in m if not l.startswith("ACCEPT")]
            if rej or not m:
                res["diverge"].append((cid, "model checker: " + (rej[0] if rej else "no verdict")))
        else:
            m = model.get(cid)
            if m is None and obs:
                res["diverge"].append((cid, "model produced no output"))
            elif m is not None and m != obs:
                k = 0
                while k < min(len(m), len(obs)) and m[k] == obs[k]:
                    k += 1
                res["diverge"].append((cid, "line %d: impl=%r model=%r" % (
                    k, obs[k] if k < len(obs) else None, m[k] if k < len(m) else None)))
    return res


def shrink(prop, case_text, work, pred_kind="oracle"):
    """ddmin over the op lines of one case; keeps the 'case' header. The predicate is that the
    harness still reports ORACLE FAIL (outside known classes) for it."""
    lines = case_text.splitlines()
    header = lines[0]
    body = [l for l in lines[1:] if l.strip() != "end"]

    t_start = time.time()
    limit = [600]   # per attempt; tightened to 3 x the time of the first (full) reproduction
    total_budget = int(os.environ.get("VERIF_SHRINK_SECONDS", "240"))

    def fails(cand):
        p = os.path.join(work, "shrink.cases")
        with open(p, "w") as f:
            f.write(header + "\n" + "\n".join(cand) + ("\n" if cand else "") + "end\n")
        rc, o, e = sh([HARNESS, "run", prop, p], env=dict(os.environ, VERIF_TMP=work), timeout=limit[0])
        bad = False
        kf = False
        for l in o.splitlines():
            sp = l.split(" ", 1)
            if len(sp) > 1 and sp[1].startswith("ORACLE FAIL"):
                bad = True
            if len(sp) > 1 and sp[1].startswith("KF "):
                kf = True
        return bad and not kf

    t0 = time.time()
    if not fails(body):
        return case_text  # not reproducible in isolation (schedule dependent): keep as is
    limit[0] = max(20, int(3 * (time.time() - t0)) + 5)
    n = 2
    budget = 200
    while len(body) >= 2 and budget > 0 and time.time() - t_start < total_budget:
        chunk = max(1, len(body) // n)
        reduced = False
        for i in range(0, len(body), chunk):
            cand = body[:i] + body[i + chunk:]
            budget -= 1
            if cand and fails(cand):
                body = cand
                n = max(n - 1, 2)
                reduced = True
                break
            if budget <= 0 or time.time() - t_start >= total_budget:
                break
        if not reduced:
            if chunk == 1:
                break
            n = min(len(body), n * 2)
    return header + "\n" + "\n".join(body) + "\nend\n"


def git_head(path):
    rc, o, e = sh(["git", "-C", path, "rev-parse", "--short", "HEAD"])
    return o.strip()


def main():
    args = sys.argv[1:]
    if not args:
        print(__doc__)
        return 2
    prop = args[0]
    tier = os.environ.get("VERIF_TIER", "quick")
    replay = None
    i = 1
    while i < len(args):
        if args[i] in ("quick", "thorough"):
            tier = args[i]
        elif args[i] == "--replay":
            replay = args[i + 1]
            i += 1
        i += 1
    if prop not in PROPS:
        print("unknown property", prop)
        return 2
    cfg = PROPS[prop]
    seed = int(os.environ.get("VERIF_SEED", "1"))
    t0 = time.time()
    os.makedirs(os.path.join(ROOT, "evidence"), exist_ok=True)
    os.makedirs(os.path.join(ROOT, "replays"), exist_ok=True)
    work = tempfile.mkdtemp(prefix="verif-%s-" % prop, dir=os.environ.get("VERIF_WORK", BUILD if os.path.isdir(BUILD) else None))
    violations = []       # (replay_path, no_input_found, text)
    known_lines = []
    broken = []           # proof / correspondence breaks without failing input (yet)
    notes = {}
    ev_cov = {}
    try:
        # ---- stage 0: build
        try:
            notes = build()
        except BuildError as be:
            rp = os.path.join(ROOT, "replays", "%s-build-%s.txt" % (prop, be.stage))
            with open(rp, "w") as f:
                f.write("build stage %s failed; the model/harness can no longer be tied to /repo's tree\n\n%s\n" % (be.stage, be.detail[-8000:]))
            violations.append((rp, True, "build stage %s failed" % be.stage))
            return finish(prop, tier, seed, t0, cfg, violations, known_lines, ev_cov, notes, [], [], "", work)
        # ---- stage 1: proof obligations
        obligations, discharged, assumptions, pfail = check_proofs(prop)
        # generated-fact lemmas and every file the property's theorems depend on are in the
        # make run; a failure there that touches this property shows up as a Props failure
        for f in pfail:
            broken.append("proof obligation: " + f)
        if pfail and notes.get("coq_log"):
            # the first error of the full build usually names the lemma that no longer holds
            broken.append("make -C coq (first failure): " + notes["coq_log"][:2500])
        if tier == "thorough" and not replay and os.environ.get("VERIF_NO_COQCHK") is None:
            chk, okc = run_coqchk(prop)
            ev_cov["coqchk"] = chk[-2500:]
            if not okc:
                broken.append("coqchk failed for KV.Props.%s: %s" % (prop, chk[-800:]))
        # ---- stage 2+3: corpus, generated cases
        casefiles = []
        if replay:
            casefiles.append(("replay", replay))
        else:
            cdir = os.path.join(ROOT, "corpus", prop)
            if os.path.isdir(cdir):
                cat = os.path.join(work, "corpus.cases")
                with open(cat, "w") as out:
                    for fn in sorted(os.listdir(cdir)):
                        if fn.endswith(".case"):
                            out.write(open(os.path.join(cdir, fn)).read().rstrip("\n") + "\n")
                if os.path.getsize(cat) > 0:
                    casefiles.append(("corpus", cat))
            n = cfg.get("counts", {}).get(tier, 0)
            n = int(os.environ.get("VERIF_CASES", n))
            if n > 0 and cfg.get("harness", True):
                gen = os.path.join(work, "gen.cases")
                rc, o, e = sh([HARNESS, "gen", prop, str(seed), str(n), tier], timeout=600)
                if rc != 0:
                    broken.append("generator failed: " + e[-500:])
                open(gen, "w").write(o)
                casefiles.append(("gen", gen))
        total = 0
        all_ids = set()
        nontrivial = set()
        meta = {}
        samples = []
        disagreements = 0
        fail_msgs = []
        seen_kf = {}
        known = load_known()
        kf_for_prop = {k["class"]: k for k in known.get("findings", []) if k["property"] == prop}
        for tag, cf in casefiles:
            texts = read_case_texts(cf)
            impl, model, errors = run_cases(prop, cf, work, tag, timeout=cfg.get("timeout", {}).get(tier, 900 if tier == "quick" else 3000))
            for e in errors:
                broken.append("run: " + e)
            while CRASHES:
                cid, ctext, cmsg = CRASHES.pop(0)
                rp = os.path.join(ROOT, "replays", "%s-%d-%s.case" % (prop, seed, re.sub(r"[^A-Za-z0-9_.-]", "_", cid)))
                with open(rp, "w") as f:
                    f.write("# VIOLATION of %s: %s\n# replay: ./check %s --replay %s\n" % (prop, cmsg, prop, rp))
                    f.write(ctext)
                violations.append((rp, False, cmsg))
                fail_msgs.append(cmsg)
            res = classify(prop, impl, model, cfg.get("model_input", "cases"))
            total += len(texts)
            all_ids |= set(texts)
            nontrivial |= res["nontrivial"]
            for k, v in res["meta"].items():
                meta.setdefault(k, []).extend(v)
            if not samples:
                for cid in list(texts)[:2]:
                    samples.append({"case": texts[cid][:1500], "impl": impl.get(cid, [])[:12]})
            for cid in res["missing_oracle"]:
                if cid in texts:
                    broken.append("case %s: harness gave no oracle verdict (%s)" % (cid, "; ".join(impl.get(cid, [])[:2])))
            div_ids = {cid for cid, _ in res["diverge"]}
            for cid, msg, kfs in res["oracle_fail"]:
                kfs_listed = [k for k in kfs if k in kf_for_prop]
                model_level_ok = all((not kf_for_prop[k].get("model_predicts", False)) or (cid not in div_ids) for k in kfs_listed)
                if kfs_listed and model_level_ok:
                    for k in kfs_listed:
                        seen_kf.setdefault(k, (cid, msg))
                    continue
                # genuine, unlisted failure: shrink and report
                txt = texts.get(cid, "")
                small = shrink(prop, txt, work) if txt and cfg.get("shrink", True) else txt
                rp = os.path.join(ROOT, "replays", "%s-%d-%s.case" % (prop, seed, re.sub(r"[^A-Za-z0-9_.-]", "_", cid)))
                with open(rp, "w") as f:
                    f.write("# VIOLATION of %s: %s\n# replay: ./check %s --replay %s\n" % (prop, msg, prop, rp))
                    f.write(small)
                violations.append((rp, False, msg))
                fail_msgs.append(msg)
                if len(violations) >= 3:
                    break
            for cid, d in res["diverge"]:
                disagreements += 1
                if cid in [c for c, _, _ in res["oracle_fail"]]:
                    continue
                broken.append("correspondence: case %s: %s\n%s" % (cid, d, texts.get(cid, "")[:3000]))
            if len(violations) >= 3:
                break
        # property-specific extra stage (static facts, probes)
        extra = cfg.get("extra")
        if extra and not replay:
            import importlib
            mod = importlib.import_module(extra)
            xr = mod.run(prop, tier, seed, work, dict(HARNESS=HARNESS, MODEL=MODEL, ROOT=ROOT, REPO=REPO, GOENV=GOENV, known=kf_for_prop))
            for v in xr.get("violations", []):
                violations.append(v)
            for b in xr.get("broken", []):
                broken.append(b)
            for k, v in xr.get("known", {}).items():
                seen_kf.setdefault(k, v)
            ev_cov.update(xr.get("coverage", {}))
            total += xr.get("evaluations", 0)
            nontrivial |= set(xr.get("nontrivial", []))
            samples.extend(xr.get("samples", []))
        for k, (cid, msg) in sorted(seen_kf.items()):
            known_lines.append("KNOWN-FINDING: property=%s %s (%s; e.g. case %s: %s)" % (prop, kf_for_prop[k]["id"], k, cid, msg[:160]))
        # broken proof/correspondence without a failing input
        if broken and not violations:
            rp = os.path.join(ROOT, "replays", "%s-%d-unproved.txt" % (prop, seed))
            with open(rp, "w") as f:
                f.write("# %s is no longer shown to hold: the following proof obligations / correspondences no longer check.\n" % prop)
                f.write("# The search of this run (%d cases) found no input on which the property oracle fails on the implementation.\n\n" % total)
                for b in broken[:20]:
                    f.write(b + "\n\n")
            violations.append((rp, True, broken[0][:200]))
        dist = {}
        for k, v in meta.items():
            try:
                nums = [float(x) for x in v]
                dist[k] = {"min": min(nums), "max": max(nums), "mean": round(sum(nums) / len(nums), 2), "sum": sum(nums)}
            except ValueError:
                cnt = {}
                for x in v:
                    cnt[x] = cnt.get(x, 0) + 1
                dist[k] = cnt
        ev_cov.update({
            "evaluations": total + ev_cov.get("evaluations", 0),
            "distinct_nontrivial": len(nontrivial) + ev_cov.get("distinct_nontrivial", 0),
            "rule": cfg.get("rule", ""),
            "samples": samples[:4],
            "disagreements_checked": disagreements,
            "input_distribution": dist,
            "proof_or_correspondence_breaks": broken[:10],
        })
        return finish(prop, tier, seed, t0, cfg, violations, known_lines, ev_cov, notes, obligations, discharged, assumptions, work)
    finally:
        shutil.rmtree(work, ignore_errors=True)


def finish(prop, tier, seed, t0, cfg, violations, known_lines, cov, notes, obligations, discharged, assumptions, work):
    for l in known_lines:
        print(l)
    for rp, noinput, msg in violations:
        print("VIOLATION property=%s replay=%s%s" % (prop, rp, " no-failing-input-found" if noinput else ""))
    coqv = "8.16.1"
    cov.setdefault("evaluations", 0)
    cov.setdefault("distinct_nontrivial", 0)
    cov.update({
        "obligations": max(len(obligations), 1),
        "discharged": len(discharged),
        "theorems": obligations,
        "checker_cmd": "make -C coq (coqc %s, full .vo build) && coqc -Q coq KV coq/Props/%s.v" % (coqv, prop),
        "trusted_base": cfg.get("trusted_base", []) + TRUSTED_COMMON,
        "print_assumptions": assumptions[-4000:],
        "build_notes": {k: v for k, v in notes.items() if k != "coq_log"},
        "repo_head": git_head(REPO),
        "partial": cfg.get("partial", ""),
    })
    ev = {
        "property_id": prop,
        "tier": tier,
        "seed": seed,
        "level": "proof",
        "coverage": cov,
        "assumptions": cfg.get("assumptions", []),
        "wall_s": round(time.time() - t0, 2),
        "violations": len(violations),
    }
    with open(os.path.join(ROOT, "evidence", prop + ".json"), "w") as f:
        json.dump(ev, f, indent=1, sort_keys=True)
        f.write("\n")
    log("%s %s: %d cases, %d/%d obligations, %d violations, %.1fs" % (
        prop, tier, cov.get("evaluations", 0), len(discharged), len(obligations), len(violations), time.time() - t0))
    return 1 if violations else 0


TRUSTED_COMMON = [
    "Coq 8.16.1 kernel (coqc; vm_compute used for finite-table lemmas and _refuted witnesses; no native_compute)",
    "no Axiom/Parameter/Admitted in the development; Print Assumptions output is recorded under print_assumptions",
    "extraction to OCaml with ExtrOcamlBasic only (bool, option, list, prod, unit, sumbool mapped to OCaml's; no Extract Constant); N/Z/positive/nat stay Coq datatypes",
    "the hand-written OCaml driver (model/*.ml), the Go harness and its oracles (harness/*.go), the translator gofacts, this Python orchestrator",
    "the Go code itself is modelled, not verified: the tie is the per-run correspondence (same cases through /repo's packages and the extracted model) plus the regenerated facts in coq/gen",
]

if __name__ == "__main__":
    sys.exit(main())
