"""C07 extra stage: (a) the static lock table report, (b) the race-detector stress runs.

(a) gofacts has already written build/gen/locks_report.txt and coq/gen/Locks.v; the Coq lemmas
    C07_fields_protected / C07_lock_order_acyclic are checked by the proof stage.  Here the report
    is copied to build/locks_report.txt, its numbers go into the evidence, and when the table
    flags something the flagged rows are named (so that the replay of a broken lemma says WHICH
    location lost its lock).
(b) generated stress cases (harness/c07.go -> harness/stress built with -race) run a few at a
    time, each in its own process; the extracted model (model/drv_c07.ml) cross-checks every
    reported race against the lock table.  A finding is written to replays/ with the full race
    report / traceback / goroutine dump as comment lines above the case (seed in the header).
"""
import os
import re
import shutil
import subprocess
import time

COUNTS = {"quick": 9, "thorough": 108}
PARALLEL = {"quick": 2, "thorough": 3}


def _sh(cmd, env=None, timeout=3600):
    try:
        p = subprocess.run(cmd, env=env, timeout=timeout, stdout=subprocess.PIPE, stderr=subprocess.PIPE,
                           text=True, errors="replace")
        return p.returncode, p.stdout, p.stderr
    except subprocess.TimeoutExpired:
        return 124, "", "timeout"


def static_report(ctx, out):
    root = ctx["ROOT"]
    src = os.path.join(root, "build", "gen", "locks_report.txt")
    dst = os.path.join(root, "build", "locks_report.txt")
    try:
        text = open(src).read()
    except OSError:
        out["broken"].append("static lock table: build/gen/locks_report.txt missing (gofacts did not produce lock facts)")
        return
    shutil.copyfile(src, dst)
    m = re.search(r"summary: (.*)", text)
    summ = {}
    if m:
        for kv in m.group(1).split():
            k, v = kv.split("=")
            summ[k] = int(v)
    flagged = []
    blocks = text.split("\n\n")
    for b in blocks:
        first = b.split("\n", 1)[0]
        if "UNPROTECTED" in first:
            flagged.append(b.strip())
    reacq = [l.strip() for l in text.splitlines() if "RE-ACQUIRED" in l]
    loaderr = [l for l in text.splitlines() if l.startswith("LOAD ERROR")]
    for b in flagged:
        out["broken"].append("static lock table (build/locks_report.txt): no lock is common to all accesses of\n" + b[:3000])
    for l in reacq:
        out["broken"].append("static lock table: a lock is acquired while it is already held: " + l)
    for l in loaderr:
        out["broken"].append("static lock table: " + l)
    allow = len(re.findall(r"(?m)^ALLOWED ", text))
    # allow-list entries marked FINDING are genuine unprotected accesses in kevo (reported, excluded
    # from the table so that the lemma about the rest still compiles): named in the evidence
    finding_locs = re.findall(r"(?m)^ALLOWED (\S+): FINDING", text)
    out["coverage"]["lock_table"] = dict(summ, flagged_locations=len(flagged), reacquired=len(reacq),
                                         allow_list_entries=allow, finding_locations=finding_locs,
                                         report="build/locks_report.txt")


def parse(path):
    d = {}
    try:
        for line in open(path, errors="replace"):
            line = line.rstrip("\n")
            if line:
                sp = line.split(" ", 1)
                d.setdefault(sp[0], []).append(sp[1] if len(sp) > 1 else "")
    except OSError:
        pass
    return d


def run(prop, tier, seed, work, ctx):
    out = {"violations": [], "broken": [], "known": {}, "coverage": {}, "evaluations": 0, "nontrivial": [], "samples": []}
    static_report(ctx, out)
    n = int(os.environ.get("VERIF_C07_CASES", COUNTS.get(tier, 8)))
    if n <= 0:
        return out
    H, M, root = ctx["HARNESS"], ctx["MODEL"], ctx["ROOT"]
    rc, o, e = _sh([H, "gen", prop, str(seed), str(n), tier], timeout=120)
    if rc != 0:
        out["broken"].append("C07 generator failed: " + e[-400:])
        return out
    cases = []
    cur = []
    for line in o.splitlines(True):
        if line.startswith("case ") and cur:
            cases.append("".join(cur))
            cur = []
        cur.append(line)
    if cur:
        cases.append("".join(cur))
    k = max(1, min(PARALLEL.get(tier, 2), len(cases)))
    env = dict(os.environ, VERIF_TMP=work)
    t0 = time.time()
    shards = []
    for i in range(k):
        p = os.path.join(work, "c07x.%d.cases" % i)
        open(p, "w").write("".join(cases[i::k]))
        shards.append(p)
    # first shard's first case triggers the build under a file lock; the others wait on the lock
    procs = []
    for p in shards:
        fo = open(p + ".impl", "w")
        fe = open(p + ".err", "w")
        procs.append((p, subprocess.Popen([H, "run", prop, p], stdout=fo, stderr=fe, env=env), fo, fe))
    limit = 1800 + 90 * n
    for p, pr, fo, fe in procs:
        try:
            rc = pr.wait(timeout=max(60, limit - (time.time() - t0)))
        except subprocess.TimeoutExpired:
            pr.kill()
            rc = 124
        fo.close()
        fe.close()
        if rc != 0:
            out["broken"].append("C07 stress shard %s: harness rc=%s %s" % (os.path.basename(p), rc, open(p + ".err").read()[-800:]))
    texts = {c.split()[1]: c for c in cases}
    kinds = {}
    calls = 0
    for p in shards:
        rc, mo, me = _sh([M, prop, p, p + ".impl"], timeout=600)
        open(p + ".model", "w").write(mo)
        if rc != 0:
            out["broken"].append("C07 model runner rc=%s: %s" % (rc, me[-400:]))
        impl = parse(p + ".impl")
        model = parse(p + ".model")
        for cid, lines in impl.items():
            out["evaluations"] += 1
            obs = [l for l in lines if l.split(" ", 1)[0] not in ("ORACLE", "META", "KF", "NOTE")]
            orc = [l for l in lines if l.startswith("ORACLE")]
            kfs = [l.split(" ", 1)[1] for l in lines if l.startswith("KF ")]
            for l in lines:
                if l.startswith("META"):
                    if "nontrivial=1" in l:
                        out["nontrivial"].append(cid)
                    mm = re.search(r"calls=(\d+)", l)
                    if mm:
                        calls += int(mm.group(1))
                    for key in ("mix", "build", "gor", "failed_writes", "failed_writes_visible", "call_errors"):
                        mm = re.search(r"\b%s=(\S+)" % key, l)
                        if mm:
                            kinds.setdefault(key, {}).setdefault(mm.group(1), 0)
                            kinds[key][mm.group(1)] += 1
                if l.startswith("IMPL-"):
                    out["broken"].append("C07 case %s: %s" % (cid, l))
            if not orc:
                out["broken"].append("C07 case %s: no oracle verdict (%s)" % (cid, "; ".join(lines[:2])))
            fails = [l for l in orc if l.startswith("ORACLE FAIL")]
            mlines = model.get(cid, [])
            if mlines != obs:
                bad = [l for l in mlines if l.startswith("UNEXPLAINED")]
                out["broken"].append("C07 correspondence: case %s: the lock table (protectedb = true for the functions involved) "
                                     "does not predict a race the detector reported: %s" % (cid, (bad or mlines or obs)[:2]))
            if fails:
                known = ctx.get("known", {})
                listed = [c for c in kfs if c in known]
                if listed:
                    for c in listed:
                        out["known"].setdefault(c, (cid, fails[0][len("ORACLE FAIL "):]))
                    continue
                msg = fails[0][len("ORACLE FAIL "):]
                rp = os.path.join(root, "replays", "%s-%d-%s.case" % (prop, seed, re.sub(r"[^A-Za-z0-9_.-]", "_", cid)))
                rep = ""
                mm = re.search(r"report=(\S+)", msg)
                if mm:
                    try:
                        rep = open(mm.group(1), errors="replace").read()
                    except OSError:
                        pass
                with open(rp, "w") as f:
                    f.write("# VIOLATION of %s: %s\n# replay: ./check %s --replay %s   (schedule dependent: the seed fixes the operation\n"
                            "# streams and the yield perturbation, not the interleaving; repeat or lengthen ms= if it does not show)\n" % (prop, msg, prop, rp))
                    for l in rep.splitlines()[:400]:
                        f.write("# " + l + "\n")
                    f.write(texts.get(cid, ""))
                if len(out["violations"]) < 3:
                    out["violations"].append((rp, False, msg))
            if len(out["samples"]) < 2:
                out["samples"].append({"case": texts.get(cid, "")[:300], "impl": lines[:6]})
    out["coverage"]["stress"] = {"cases": out["evaluations"], "calls_total": calls, "distribution": kinds,
                                 "wall_s": round(time.time() - t0, 1), "parallel": k}
    return out
