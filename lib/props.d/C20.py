"""C20: configuration is validated and persists with the database."""
PROP = {
        "counts": {"quick": 400, "thorough": 20000},
        "rule": "one case = a program over one database directory and one in-memory Config (field assignments "
                "around the validity boundaries, Validate, SaveManifest, LoadConfigFromManifest, tampering with the "
                "stored manifest: every truncation, every single bit flip, hand-made JSON; NewEngineFacade "
                "load-or-create with data written before the reopen); outcomes, the loaded configuration field by "
                "field, and the manifest text (length+CRC-32, scratch root replaced by $R) are compared with the "
                "extracted Config model; oracle = documented constraints table, save/load equality, nothing written "
                "on rejection, every strict prefix fails, open fails on an unreadable manifest or on a missing one over "
                "existing files and otherwise uses the stored configuration (EngineFacade.VerifConfig, field by field) with earlier data readable; non-trivial = a successful save followed by a "
                "load, or a rejected save, or a tampering step, or an engine open; distinct by case text"
                " Added later: left-over MANIFEST.tmp of any length, stored-text oracle (a manifest that is invalid when read on a zero configuration must not load), overflow-sized values for every bounded integer.",
        "assumptions": ["compaction_ratio is modelled as the exact decimal of the float64's shortest representation: "
                        "strconv.FormatFloat(f,-1)/ParseFloat agree with decimal arithmetic on such values (Go's "
                        "shortest-round-trip guarantee); tampered manifests keep the ratio at <= 15 significant digits",
                        "file system: os.WriteFile + os.Rename replace MANIFEST atomically; no I/O errors other than "
                        "'file does not exist'; encoding/json nesting limit (10000) not reached"],
        "partial": "pkg/config/manifest.go (second manifest API, unused by the engine) is covered by the oracle only; "
                   "the general float guard (float_roundtrip_statement) is checked on a grid, not proved",
    }
