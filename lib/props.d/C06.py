PROP = {
"counts": {"quick": 40, "thorough": 4000},
"model_input": "impl",
"rule": "one case = 4-16 client goroutines running random put/get/delete programs on 1-4 keys against one engine "
        "with a 64-512 byte memtable (log rotation every few writes, background flush running), 0-2 goroutines "
        "calling FlushImMemTables, 0-1 calling TriggerCompaction, verifhook yield perturbation at every hook site, "
        "optionally a directed delay of the rotating goroutine (writers then fail with ErrWALRotating) or of a writer "
        "that has loaded the log pointer until the rotation has closed that log (ErrWALClosed), or of the rotation "
        "between the sequence hand-over and the pointer swap while clients overwrite the same keys in one memtable; "
        "every call bracketed by tickets of one atomic "
        "counter; final reads of every key, in a third of the cases again after close+reopen. The recorded history "
        "is judged by the extracted lin_check (proved sound) and by an independent Go search (oracle). non-trivial = "
        ">= 2 threads, >= 3 overlapping pairs of calls on one key, >= 1 log rotation, >= 1 read of another thread's write"
        " Added later: every case registers an observer of the log's sync notifications (what the replication primary publishes as last synced sequence): the reported numbers never go back, across rotations too (the clause of C08 on the replication protocol).",
"assumptions": ["Go's sync.Mutex/RWMutex give mutual exclusion and atomics are sequentially consistent (the LTS takes "
                "the critical sections as atomic steps)",
                "tickets of one atomic counter taken before the call and after the return: recorded precedence implies "
                "real-time precedence"],
"partial": "locality (per-key linearizability => linearizability of the whole history) is the Herlihy-Wing theorem, not "
           "re-proved: lin_check establishes linearizable_per_key. The theorem quantifies over all interleavings of the "
           "model's critical sections; real schedules are sampled (yield perturbation + directed delays of the rotating "
           "goroutine and of a writer that has loaded the log pointer). Concurrent iteration of the live active table by "
           "the flusher is one atomic step in the model. I/O errors after a record was buffered are not modelled",
"shrink": False,
}
