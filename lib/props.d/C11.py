"""Configuration of the C11 check (see DESIGN.md section 6)."""
PROP = {
        "counts": {"quick": 200, "thorough": 5000},
        "rule": "one case = one table written by sstable.Writer from a strictly ascending entry list (1..3000 entries, "
                "15/16/17/32/33 entries, 1..7 blocks of 64 KB, long shared prefixes, binary keys, tombstones and empty "
                "values) and read back through sstable.Reader: iterator scripts (SeekToFirst/Seek/Next/SeekToLast, raw and "
                "through IteratorAdapter; ~30 seeks at present/between/before/after/block-boundary targets), Get, the "
                "block iterator itself on a data block and on the index block (Seek/SeekForPrev/SeekToLast/Next), byte-exact "
                "layout of every region (data blocks, filter section, index block, footer with the timestamp masked; "
                "footer.Encode with a given timestamp and xxhash.Sum64 compared exactly), and single-byte alterations "
                "(16 cases = 2 small files x every byte x {bit flip, 0x00, 0xff, +1}; sampled positions elsewhere), each "
                "observed through a full scan plus Get/Seek of probes; all compared with the extracted SSTable/Block/SSTFile "
                "models. Oracle = positions tracked in the sorted input list; for altered files: open error, or only written "
                "entries in order, never a crash. non-trivial = at least 2 entries and at least one scan, seek, block script "
                "or alteration; distinct by case text",
        "assumptions": ["the file system returns the bytes written",
                        "NewBloomFilter(0.01, 1000) yields 9586 bits and 7 hash functions (floating point; the stored filter "
                        "header is compared byte for byte on every run)",
                        "an altered block or footer is accepted only if the checksum comparison itself accepts the altered "
                        "bytes (XXH64 collision, or the legacy-version footer comparison): the explicit escape clause of "
                        "C11_corrupt_block / C11_corrupt_footer"],
        "partial": "proved: logical layer for arbitrary partitions, cut rule, block and footer round trips, the whole file "
                   "(OpenReader on Finish's bytes reads back es: C11_file_reads_back), concrete filter without false "
                   "negatives, single altered byte per region (block, footer) and the only-verified-blocks invariant. "
                   "Kept as definitions: C11_corrupt_statement (composition of the region lemmas over a whole file) and "
                   "C11_block_seek_statement (binary search over restart points on bytes = position in the list; checked "
                   "by the block scripts of the correspondence and by ex_block_seek). Guards: key 1..65535 bytes, value "
                   "< 2^32-1 bytes, file < 4 GB; outside them see C11_empty_key_ok (the empty key reads back since f30cabd), C11_long_key_refuted and the "
                   "corpus guard-* cases",
}
