"""Configuration of the C17 check (see DESIGN.md section 6)."""
PROP = {'counts': {'quick': 200, 'thorough': 5000},
 'model_input': 'both',
 'rule': 'one case = one real engine + transaction.RegistryImpl (short idle limit) + transaction.Manager '
         '(short lifetimes over the engine storage manager, or the engine facade own manager) + optionally '
         'KevoServiceServer behind an in-process gRPC server, and a script of calls from 1-4 clients '
         '(begin ro/rw with deadlines, reads/writes by handle and on the kept object, commit, rollback, double '
         'finish, use after the end, abandon, sleep, CleanupStaleTransactions, CleanupConnection, '
         'GracefulShutdown, injected ApplyBatch failure, final fresh read-write probe); every answer, every '
         'Begin that completes or times out later, the number of registered transactions and the state of '
         'the lock (TryLock/TryRLock) after every line are compared with the extracted Registry model run on '
         'the same script with the same logical times; oracle = client-side bookkeeping from the property '
         'text (calls after the end refused, cleanup obligations, final probe, data = acknowledged commits, '
         'manager counters); non-trivial = at least one Begin had to wait, one call after the end, and one '
         'time-out or server-side cleanup; distinct by case text',
 'assumptions': ['time is logical in the model; the harness places sleeps and deadlines on one real-time axis, '
                 'the generator keeps every comparison 20 ms from its threshold and a run that executes a line '
                 'more than 12 ms late is repeated with the axis stretched (x2, x4)',
                 'the script is sequential: after each line the harness waits until every goroutine of the '
                 'implementation has finished or is parked in sync.RWMutex (goroutine dump); concurrency is in the '
                 'Begins that wait, time out and are granted later',
                 'before a Begin through the service the harness runs CleanupStaleTransactions itself and lets '
                 'the woken goroutines run (the service does the same cleanup inside the call, where the order '
                 'of the woken writer and the new request is decided by the Go scheduler)',
                 'the 10 s of RegistryImpl.Begin is replaced by context deadlines in the quick tier'],
 'partial': 'timers are logical in the model; a client holding two transactions is outside the quantifier'}
