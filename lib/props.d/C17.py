"""Configuration of the C17 check (see DESIGN.md section 6)."""
PROP = {'counts': {'quick': 200, 'thorough': 5000},
 'model_input': 'both',
 'rule': 'one case = one real engine + transaction.RegistryImpl (short idle limit) + transaction.Manager '
         '(short lifetimes over the engine storage manager, or the engine facade own manager) + optionally '
         'KevoServiceServer behind an in-process gRPC server, and a script of calls from 1-4 clients '
         '(begin ro/rw with deadlines, reads/writes by handle and on the kept object, commit, rollback, double '
         'finish, use after the end, abandon, sleep, CleanupStaleTransactions, CleanupConnection, '
         'GracefulShutdown, injected ApplyBatch failure, final fresh read-write probe); every answer, every '
         'Begin that completes or times out later, the number of registered transactions and the state of '
         'the lock (TryLock/TryRLock) after every line are compared with the extracted Registry model run on '
         'the same script at the times the harness measured; plus two racing scenarios per run (kind=race: '
         'the holder commits within microseconds of the deadline of a waiting Begin; oracle only); oracle = '
         'client-side bookkeeping from the property text (calls after the end refused, cleanup obligations, '
         'no early end inside both limits, a Begin that reported an error leaves no live transaction, final '
         'probe, data = acknowledged commits, one applied batch per commit, manager counters balanced); '
         'non-trivial = at least one Begin had to wait, one call after the end, and one time-out or '
         'server-side cleanup (racing cases: both outcomes occurred); distinct by case text.'
         ' Added later: one-shot service calls (BatchWrite) — the transactions the service begins, uses and '
         'ends by ITSELF inside one call: line `oneshot C ok|del|emptykey|longkey|badtype|bigvalue K V` (svc=1) '
         'calls the real BatchWrite over the in-process connection when the lock is free (else `R C busy`, '
         'the real call would wait uninterruptibly), with one valid put/delete or a valid put followed by an '
         'operation the service rejects (empty key, 4097-byte key, unknown operation type, value of 10 MiB + '
         '1); the answer (ok / invalid / fail by injected ApplyBatch failure), the lock state and the registry '
         'size are compared with the model event EOneShot; oracle independent of the model: once the call has '
         'returned the lock is free again and the registered transactions are unchanged, and the call returns '
         'within 5 s (a handler found parked in a lock or asleep after 5 s is a failure; one in a system call '
         'is the machine: timing ambiguity)',
 'assumptions': ['time is logical in the model and MEASURED in the harness: before each line the harness notes the '
                 'milliseconds since the start of the case (after waiting out any Begin deadline closer than 60 '
                 'ms x scale) and the model runner moves the model clock to that instant; limits of the header '
                 'are multiplied by the scale; whenever a limit of the implementation (idle, lifetime, deadline) '
                 'falls inside the uncertainty bracket of a comparison it influences, the run is declared '
                 'ambiguous and the case repeated with the axis stretched x2 (up to x16)',
                 'the script is sequential: after each line the harness waits until every goroutine of the '
                 'implementation has finished or is parked in sync.RWMutex (runtime goroutine dump, no '
                 'expectation involved); concurrency is in the Begins that wait, time out and are granted '
                 'later, and in the racing scenarios',
                 'before a Begin through the service the harness runs CleanupStaleTransactions itself until it '
                 'changes nothing and lets the woken goroutines run (the service runs the same cleanup inside '
                 'the call, where the order of a woken writer and the new request is decided by the Go '
                 'scheduler); the model runner does the same',
                 "the 10 s of RegistryImpl.Begin is replaced by context deadlines in the quick tier; the value "
                 'itself is read from the source (coq/gen/TxFacts.v) and exercised in the thorough tier',
                 'wrappers that only observe: the engine handed to the registry/service routes '
                 'BeginTransaction to the manager under test and records the creating goroutine; the storage '
                 'backend of the short-lifetime manager counts ApplyBatch and injects one failure on demand'],
 'partial': 'timers are logical in the model; a client holding two transactions is outside the quantifier; '
            'fairness of the grant order (that one particular waiter is served before newcomers) is the '
            "Go runtime's RWMutex and not proved"}
