"""Configuration of the C08 check (see DESIGN.md section 6)."""
PROP = {'counts': {'quick': 200, 'thorough': 10000},
 'rule': 'same programs as C01 weighted to flush (WAL rotation) and reopen; the last sequence reported by '
         'statistics after every write, after every reopen, and the next WAL sequence are compared with the '
         'model; oracle = strictly greater after every acknowledged write, never smaller after reopen; '
         'non-trivial as for C01; '
         'programs also hold ApplyBatch calls with merge operands (mbatch: merge-only, mixed, empty; model '
         'Engine.merge_batch / mixed_batch, theorems C08_*_m of EngineMerge.v), with a directed family where a '
         'merge-only batch is the last write before a reopen; the bar of the oracle is never lowered by a reopen',
 'assumptions': ['as C01'],
 'partial': ''}
