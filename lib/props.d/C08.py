"""Configuration of the C08 check (see DESIGN.md section 6)."""
PROP = {'counts': {'quick': 200, 'thorough': 10000},
 'rule': 'same programs as C01 weighted to flush (WAL rotation) and reopen; the last sequence reported by '
         'statistics after every write, after every reopen, and the next WAL sequence are compared with the '
         'model; oracle = strictly greater after every acknowledged write, never smaller after reopen; '
         'non-trivial as for C01; '
         'programs also hold ApplyBatch calls with merge operands (mbatch: merge-only, mixed, empty; model '
         'Engine.merge_batch / mixed_batch, theorems C08_*_m of EngineMerge.v), with a directed family where a '
         'merge-only batch is the last write before a reopen; the bar of the oracle is never lowered by a reopen'
         ' Added later: crash recoveries (level=crash: the crash programs of C02 run by its runner, a child process dies at an armed site; oracle follows last_sequence over the recovery, the writes after it and a clean restart; oracle only), and the retention rule of the log as the code spells it (gen/RetentionFacts.v, C08_retention_keeps_highest_number).',
 'assumptions': ['as C01'],
 'partial': ''}
