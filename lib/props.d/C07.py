"""Configuration of the C07 check (see DESIGN.md section 6)."""
PROP = {'counts': {'quick': 0, 'thorough': 0},
 'shard': False,
 'shrink': False,
 'model_input': 'both',
 'extra': 'c07_extra',
 'rule': 'WEAKEST TIE OF THE TWENTY. Static half: gofacts/locks.go regenerates coq/gen/Locks.v from the Go '
         'source (47 written locations, ~470 rows (location, function, read/write, locks held with modes), '
         '~95 lock-order edges; since w-C15L the primary side of pkg/replication is covered: session map, '
         'sessions, batcher, heartbeat monitor, replication manager); C07_fields_protected / '
         'C07_lock_order_acyclic are recomputed by vm_compute on that table, and lockset_sound / '
         'ranked_no_deadlock say what the table implies for every conforming trace. Dynamic half: one case = '
         'one process running harness/stress for 2.5 s (quick) / 5 s (thorough): 8-32 goroutines on ONE open '
         'engine issue a seeded mix (all, delete, putflush, tx, compact, scan, stats, registry) of '
         'Put/Delete/Get/IsDeleted/GetIterator/GetRangeIterator (drained)/ApplyBatch/read-only and '
         'read-write '
         'transactions/FlushImMemTables/TriggerCompaction/CompactRange/GetStats/GetCompactionStats/GetWAL/transaction-manager '
         'stats/transaction registry (Begin, Get, Remove, CleanupConnection, CleanupStaleTransactions)/a '
         'free-standing stats collector, with tiny memtables (2-16 KB), 1 s compaction interval, then a '
         'quiescent GetStats + Close; built with the race detector, alternately with the verif tag '
         '(verifhook.SetYield(seed)) and without (no hook synchronisation). Oracle = stderr/exit status '
         "only: any 'WARNING: DATA RACE' block (distinct by the pair of kevo functions), 'fatal error:', "
         "'panic:', a call not back within 30 s (in-process watchdog, goroutine dump) or another abnormal "
         'exit. The extracted table cross-checks each reported race (must touch a location the table flags, '
         'or uncovered code). non-trivial = the stress phase ended normally with >= 100 calls and >= 1 '
         'SSTable written, or a finding; distinct by seed/mix/build'
         " Added later: gen/LockLeaks.v (gofacts/lockleaks.go: no return / continue / break leaves an explicit Lock()/Unlock() region with the mutex locked, and no Unlock is reached on a path that has released the mutex already; one reviewed entry), gen/NilChecks.v (gofacts/nilchecks.go: the nil answer of a look-up function is tested before the result is used), a first-samples prologue of the stress binary (fresh statistics collectors read while names are first recorded) and slow log rotations in the verif stress build (writes and commits fail with 'WAL is rotating', so error paths run under load).",
 'trusted_base': ['C07 lock table (gofacts/locks.go) — every item is an approximation the Coq lemmas do NOT '
                  'cover: (1) a lock / location is Type.field, one instance per type; a pointer field '
                  'initialised with &x.mutex is that mutex (TransactionImpl.rwLock = Manager.txLock); (2) '
                  'covered packages: pkg/engine/storage, pkg/engine, pkg/memtable, pkg/compaction, '
                  'pkg/engine/compaction, pkg/stats, pkg/transaction, pkg/sstable, pkg/wal, pkg/config, '
                  'pkg/engine/iterator, pkg/replication EXCEPT its replica side (files replica.go, state.go: '
                  'lockExcludeFiles; functions declared there are treated like functions of an uncovered '
                  'package); calls into other packages (common/iterator/*, sstable/block, bloom, '
                  'gRPC/protobuf ...) have no lock effect and no accesses; (3) roots = exported methods of '
                  'engine.EngineFacade, storage.Manager, transaction.Manager/TransactionImpl/RegistryImpl, '
                  'engine/compaction.Manager, compaction.DefaultCompactionCoordinator, '
                  'stats.AtomicCollector, the sstable/memtable iterators and the iterator factory, '
                  'replication.Primary (gRPC handlers StreamWAL/Acknowledge/NegativeAcknowledge entered '
                  'WITHOUT the no-close assumption because the network starts them; WAL observer callbacks '
                  'OnWALEntryWritten/OnWALBatchWritten/OnWALSync entered with wal.WAL.mu held exclusively — '
                  'the WAL calls them between Lock and Unlock — and also reached through the interface call '
                  "in wal.notify*Observers with the caller's real set; OnWALRotated, GetReplicaInfo, "
                  'GetLastSequence, Close) and replication.Manager (Status, GetNodeInfo, Stop), plus every '
                  'go statement of the covered packages (ReplicaSession.sendLoop, '
                  'heartbeatManager.monitorLoop, sessionContext watcher, gRPC Serve goroutine included); '
                  'Start and everything reached only from constructors (New*, Open*, recoverFromWAL, '
                  "loadSSTables) is pre-publication and not analysed; (4) 'Close is not concurrent with "
                  "client calls' is encoded as a pseudo lock assume:no-close-during-calls (client roots "
                  'shared, Close/Stop/GracefulShutdown exclusive, background goroutines not at all), so '
                  "Close IS checked against the engine's own goroutines; a transaction's methods start with "
                  'Manager.txLock held shared (held from Begin to Commit); (5) context-sensitive walk: a '
                  'callee is analysed per distinct held set; its net effect is the intersection over its '
                  'normal exits; interface calls go to every implementation in the covered packages; calls '
                  "of func-typed fields, method values and reflection (Registry.Begin's MethodByName) are "
                  "not followed; (6) 'held at this statement' is block structured: a branch ending in "
                  'return/break/continue/panic does not leak its lock changes, joins intersect (Ex with Sh '
                  'gives Sh), loop bodies may run zero times, defer Unlock releases at exit, other deferred '
                  'calls are analysed where the defer statement stands; (7) function literals are analysed '
                  'where they are called or passed as an argument, literals stored elsewhere where they are '
                  'written, go statements with the empty set; (8) a location is listed only if reachable '
                  'code writes it (74 fields are initialised before publication and only read afterwards); '
                  'composite-literal initialisation and accesses through a local that holds a freshly '
                  'constructed object (&T{}, new, New*/Open* call) are not shared accesses UNTIL the first '
                  'statement that hands the local to other code (call argument, store into a '
                  'field/map/slice/composite literal/channel, operand of go, capture by a go literal; method '
                  'calls on the local do not publish it); &x.f counts as a read; element stores and delete() '
                  'count as writes of the container field; a method call on a field whose type is a struct '
                  'from outside the module (bufio.Writer, rand.Rand ...; not sync, atomic, os, time, '
                  'context) counts as a write of the field; (9) mutexes, channels and sync/atomic-typed '
                  'fields are synchronised by construction; sync/atomic FUNCTION calls on a plain field hold '
                  'the pseudo lock atomic(field) exclusively (so mixed atomic/plain use is flagged); (10) '
                  'fields of thread-confined types are not listed (gofacts/locks.go confinedTypes: '
                  'iterators, SSTable writer parts, transaction buffer, WAL reader/batch/entry values, '
                  "compaction task values, skip-list nodes/entries); (11) no filter 'reachable from more "
                  "than one method': the same method may run in two goroutines; (12) allow-list (lockAllow): "
                  '4 entries, all marked FINDING = genuine unprotected accesses in kevo that are reported, '
                  'not refinements (replication.ReplicaSession.Connected, .Active, .LastAckSequence, '
                  '.LastActivity: flags / counter / timestamp of a session written under the session mutex '
                  'and read under Primary.mu shared or no lock; three confirmed by the race detector on the '
                  'C15 session-churn probe); their rows are NOT in gen_accesses, so the lemma says nothing '
                  'about them; sizes in the evidence (lock_table.allow_list_entries, lock_table.findings); '
                  '(13) external packages are imported through the one source importer of gofacts (gRPC '
                  'type-checked once).',
                  'Go runtime semantics of sync.Mutex/RWMutex/atomic (mutual exclusion, the happens-before '
                  'edges of the Go memory model: Unlock -> later Lock/RLock, RUnlock -> later Lock) are the '
                  '`wf`/`hb` definitions of LockDiscipline.v, not proved of the runtime',
                  'the race detector (ThreadSanitizer) reports only races of the interleavings that happen; '
                  "with the verif tag the hook's package mutex adds happens-before edges at hook sites (half "
                  'of the cases are built without the tag for that reason)'],
 'assumptions': ['Close/Stop/GracefulShutdown are not called while client calls are in flight; each '
                 'goroutine has at most one open transaction (a second Begin under an own read-only '
                 'transaction is a recursive RLock)',
                 'panics from nil/bounds and hangs on channels are only observed dynamically; the table '
                 'speaks about mutexes only'],
 'partial': 'the theorems are about abstract traces and about the generated table (finite, vm_compute); that '
            "every execution of the Go code is a trace conforming to the table is the translator's claim "
            '(trusted base items 1-12), sampled by the race-detector runs; no model of panics/fatal errors '
            'other than observation'}
