"""C05 — scans return exactly the live keys, once, in order, within bounds (see DESIGN.md section 6)."""

PROP = {
        "counts": {"quick": 200, "thorough": 8000},
        "rule": "one case = a data set built by a C01-style program (put/delete/ApplyBatch/commit/rollback/flush/reopen, small "
                "memtable so that versions and tombstones spread over active table, immutable tables and SSTables; every 20th "
                "with a multi-block SSTable) followed by 8 iterator sections (engine full/range iterator, transaction "
                "full/range iterator with buffered puts/deletes, optionally wrapped in prefix/suffix filters as service.Scan "
                "does) each with a script of SeekToFirst/Seek/Next/SeekToLast and Scan-loop calls with limit; targets and bounds "
                "from present keys, gaps, before-first, after-last, nil, empty and inverted ranges. Every position "
                "(return value, Valid, Key, Value, IsTombstone) and every scan result is compared with the extracted Iter "
                "model over the Engine model; oracle = sorted reference map of the acknowledged writes plus the "
                "transaction's operations. Every 25th case is concurrent (writers on other keys, flushes, background "
                "flusher on/off, while full/range/read-only-tx scans run): oracle only. non-trivial = data in >= 2 sources and "
                "(a key with versions in >= 2 sources or a tombstone) and >= 2 live keys and >= 3 iterator operations; "
                "concurrent: > 20 writes during the scans and >= 3 old live keys; distinct by case text"
                " Added later: directed interleavings in the concurrent cases (another client's write between iterator creation and positioning, latest values only in the active memtable) and an explicit stack with a table of more than 16 data blocks.",
        "assumptions": ["as C01 (background flush parked, age-based switching off) for the sequential cases",
                        "keys are non-empty (service limit 1..4096 bytes): a nil key would read as 'no previous key' in "
                        "HierarchicalIterator.findNextUniqueKey",
                        "an SSTable reads back what was written (C11): tables are modelled by their logical entries"],
        "partial": "concurrent clause: proved for the model of memtable snapshot filter + append-only entry lists + immutable "
                   "SSTables (iterators keep their own source list; each iterator call atomic with respect to writer steps); "
                   "real interleavings are sampled.",
    }
