"""Configuration of the C09 check (see DESIGN.md section 6)."""
PROP = {'counts': {'quick': 160, 'thorough': 6000},
 'rule': 'one case = a WAL program (append/batch/rotate/reopen/read-from) run through pkg/wal and the '
         'extracted WalCodec model; file bytes (length+CRC), replayed entries, statuses and sequence numbers '
         'compared; non-trivial = at least 2 entries appended and (a fragmented entry or a batch or more '
         'than one file); distinct by case text',
 'trusted_base': [],
 'assumptions': ['bufio/os deliver the bytes written; file names sort in creation order (UnixNano '
                 'timestamps)'],
 'partial': ''}
