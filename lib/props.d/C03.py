"""Configuration of the C03 check (see DESIGN.md section 6)."""
PROP = {'counts': {'quick': 64, 'thorough': 3200},
 'model_input': 'both',
 'rule': 'five kinds of cases (of 16: 10 seq, 2 gate, 2 conc, 1 crash, 1 torn). seq: programs with '
         'transactions whose bodies repeat keys, delete, read their own writes, and end by commit / rollback '
         '/ rollback then commit on the same handle / abandonment (engine closed with the transaction open) / '
         'commit on a closed engine, with every key and value buffer overwritten right after the call; '
         'observations compared line by line with the extracted Engine model (tx_commit = ApplyBatch of '
         'buffer_ops). gate: a batch is stopped between two memtable inserts (verifhook mgr.batch.insert) '
         'while Gets, a new scan and a scan of an older iterator look. conc: one writer commits 12-40 '
         'stamped batches of 2-299 keys through transactions and ApplyBatch, four readers make ~100 '
         'observations (iterator scans, read-only transactions, pairs of Gets) under seeded yields with the '
         'background flush running; the recorded history projected on 6 keys is judged by the extracted '
         'checker TxnAtomic.atomic_check (proved sound and complete for "every read returns the value after '
         'a write-granular prefix"), the full observations by the Go oracle. crash: C02 child-process '
         'machinery, sites inside AppendBatch/ApplyBatch, batches of 60-200 KB (larger than the 64 KB log '
         'buffer), model cut at the surviving log lengths. torn: the newest log ends with a multi-key batch '
         'and is truncated at EVERY byte offset inside it (sampled at record boundaries for batches > 700 '
         'bytes), reopened, compared with the model (WalCodec.replay_file + Engine.reopen). Oracle: a '
         'committed batch is visible wholly or not at all; rollback / failed / abandoned transactions '
         'leave state, sequence counter and log unchanged; the log holds exactly the acknowledged effects. '
         'non-trivial = seq: a transaction with a repeated key or a no-effect ending and >= 2 writes; gate: '
         'the batch was stopped; conc: >= 3 observations concurrent with a commit and >= 5 multi-key; '
         'crash: a site was hit and a batch exceeds 64 KB; torn: >= 2 operations and > 10 cuts',
 'assumptions': ['Go sync.RWMutex gives mutual exclusion and happens-before (the LTS takes a critical '
                 'section of Manager.mu as one step; the section boundaries are re-derived from the source '
                 'into coq/gen/TxnLocks.v on every run)',
                 'process stop, not power loss: one write() of the log buffer reaches the file wholly or '
                 'not at all (DESIGN.md section 8); a torn write is the separate clause C03_torn_*',
                 'the hierarchical merge iterator returns, per key, the newest source holding the key (C05)'],
 'partial': 'a log cut inside a batch recovers a strict subset (no commit marker in the log format): known '
            'finding D13, C03_torn_refuted; schedules of the real code are sampled (seeded yields and one '
            'directed stop inside the batch), the for-all over interleavings is the theorem about the LTS',
 'timeout': {'quick': 600, 'thorough': 3000}}
