"""Configuration of the C04 check (see DESIGN.md section 6)."""
PROP = {'counts': {'quick': 100, 'thorough': 6000},
 'model_input': 'impl',
 'rule': 'one case = the programs of 2-8 client goroutines (begin ro/rw, get, put, delete, full and range '
         'scans through the transaction iterators, commit/rollback, calls after the end, writes in read-only '
         'transactions; keys from an alphabet of 2-4, every written value unique) run concurrently '
         '(mode=free, seeded Gosched/sleep between calls and verifhook yields inside the storage manager) or '
         'in a scripted interleaving (mode=sched) against one engine, `reps` times; every call is recorded '
         'with tickets taken before it is issued and after it returned; each recorded history must be '
         'accepted by the extracted, proved-sound Txn.ser_check (serial order = order in which the Begin '
         'calls returned); oracle = direct checks of own-writes / no-dirty-read / read-only snapshot / error '
         'contract plus a complete search for a serial order consistent with real time; non-trivial = some '
         'pair of transactions overlaps in real time, at least two read-write transactions, and some Get '
         'returns a value committed by another transaction; distinct by case text'
         ' Added later: gen/TxFacts.v tx_mu_whole (every operation of a transaction object is one critical section of its own mutex: TxnFacts.tx_ops_atomic_ok, C04_operations_atomic) and a corpus case with values of length zero.',
 'assumptions': ["Go's sync.RWMutex provides mutual exclusion and happens-before; atomics are sequentially "
                 'consistent (Go memory model)',
                 'no writes outside transactions (the property excludes them); a client goroutine holds at '
                 'most one transaction at a time (two would self-deadlock on the single lock)',
                 "Commit's ApplyBatch succeeds (a failing batch is C03); TTL/idle cleanup of the registry is "
                 'C17'],
 'partial': 'the for-all over interleavings is proved for the transition system of coq/Txn.v; the schedules '
            'of the real code are sampled (recorded histories), not enumerated',
 'shrink': True}
