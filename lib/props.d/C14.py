"""Configuration of the C14 check (see DESIGN.md section 6)."""
PROP = {'counts': {'quick': 7, 'thorough': 60},
 'timeout': {'quick': 600, 'thorough': 3000},
 'rule': 'one case = one loopback cluster of the real packages (primary engine + replication.Manager in '
         'primary mode, replica engine + replication.Manager in replica mode, a TCP forwarder in between) '
         'and a scenario: primary workload (single puts/deletes, transactions, ApplyBatch, long runs of '
         'writes, transactions around the 100-entry response limit, FlushImMemTables = log rotation) '
         'interleaved with the replica joining, being stopped/restarted/reopened, and the link being cut '
         'and healed; at every settle the harness waits until the full scans of both engines are equal '
         'and stay equal for 1 s, or until the bound (12 s quick, 30 s thorough); the '
         "replica's scan and last applied sequence at each settle are compared with the extracted ReplProto "
         'model; oracle = equality of the full scans within the bound for a running replica with the link '
         'up; non-trivial = at least one settle, >= 3 sequence numbers, a transaction or delete, and a '
         'restart, cut, flush, transaction or more than 100 entries; distinct by case text'
         ' Added later: idle op, idle-across-rotation, long-backlog and long-key workloads; a case during which the Go runtime ends the process (panic in a handler goroutine of the in-process primary) is a violation with that case as replay.',
 'assumptions': ['the replica is configured through replication.ReplicaConfig with RetryBaseDelay 300 ms '
                 '(default 1 s) and DialTimeout 2 s; everything else is what cmd/kevo passes (nil primary '
                 'config = defaults, ForceReadOnly)',
                 'memtables are large (no automatic flush): the primary rotates its log at the explicit '
                 'FlushImMemTables of the scenario',
                 'the replica never sends an acknowledgement (its loop never observes the ACKNOWLEDGING state), '
                 'so a session\'s LastAckSequence stays StartSequence-1 and the catch-up always re-fetches from the '
                 'session start: modelled as such; convergence does not depend on acknowledgements',
                 'the first response of a fresh stream reaches the waiting receiver (a stall of more than 1 s '
                 'between opening a stream and its first response is not modelled)'],
 'partial': '"bounded time" is rounds in the model (C14_converges: 2*(lacking sequence numbers)+3 rounds plus '
            'the number of lost / side-lined deliveries) and a wall-clock bound in the run; the schedule of the '
            "replica's state machine (which receiver gets a message, which handler applies it) is quantified "
            'over in the theorem and sampled by the run'}
