"""Configuration of the C12 check (see DESIGN.md section 6)."""
PROP = {'counts': {'quick': 150, 'thorough': 5000},
 'model_input': 'impl',
 'rule': 'one case = a program over the embedded API (put/delete/ApplyBatch/transaction commit, flush, full '
         'flush, TriggerCompaction, CompactRange, background cycle, close+reopen with the log kept or with '
         'the flushed log files retired) with MaxMemTables 2..4, SSTableMaxSize 1..3 entries or unlimited, '
         'CompactionRatio 2/10/off; after every flush/compaction/reopen the SST directory is read back with '
         'sstable.OpenReader (level, number, entries with sequence numbers) and every Get is recorded; the '
         'extracted Compaction+Engine model recomputes all of it from the operations and the observed file '
         'sizes (ACCEPT/REJECT); oracle = ground-truth replay with per-version write stamps: outputs '
         'sorted/unique, newest input version kept, deletion markers dropped only when no older version '
         'survives elsewhere, every Get after reopen = latest write; non-trivial = at least one executed '
         'compaction whose inputs hold two versions of a key or a deletion marker, followed by a reopen; '
         'distinct by case text'
         ' Added later: restart-then-size-ratio, deep-tombstone and fault-injected families (mode=fault, oracle only: a compaction cycle whose output cannot be completed because no file can be opened after the first finished output table — through TriggerCompaction and inside the background worker — must leave its input tables alone).',
 'assumptions': ['the model describes the REPAIRED compaction code (/repo deebfc9, cf3362d, ca9115b, 390f6e5, f30cabd); the pre-fix model and its witnesses live in coq/CompactionBefore*.v',
                 'background flush goroutine parked at a verifhook gate; CompactionInterval 3600 s except in '
                 "the 'auto' operation; file sizes (os.Stat) and the tombstone tracker's 24 h wall-clock "
                 'retention are inputs/abstracted',
                 'log retirement = wal.ManageRetention (MaxFileCount) on the engine\'s WAL before the close, removing exactly the '
                 'log files recorded right after a full flush (all of whose entries are in SSTables)'],
 'partial': "C12_reopen is proved for log retirement right after a FULL flush (retirement at other points: known finding KF-C12-7) and for runs without recovery-budget overflow (D11); " 
            "the tracker's wall-clock retention is not modelled (every tracked key counts as recent); "
            "level < 10 and file numbers < 10^6 (name order = numeric order)"}
