"""Configuration of the C19 check (see DESIGN.md section 6)."""
PROP = {'counts': {'quick': 100, 'thorough': 5000},
 'rule': 'one case = a real EngineFacade behind a real KevoServiceServer on an in-process gRPC server (loopback, '
         'server options as cmd/kevo/server.go passes them for message sizes) driven through the generated client '
         'stubs by a sequential request program (get/put/delete/batch write/scan with every option combination/'
         'transactions by handle, interleaved read-only handles/stats/compact/node info, flushes of the engine in '
         'between), plus a twin engine receiving the same operations through the embedded API; every response and '
         'the final content are compared with the extracted Service model; oracle = same result as the embedded '
         'operation on the twin + reference map of the acknowledged writes + documented limits (key 1..4096, value '
         '<= 10 MB, batch <= 1000) rejected without effect + dead/unknown handles answer not-found; non-trivial = '
         'a transaction read or scan that sees its own buffered write, a filtered/ranged/limited scan that returns '
         'rows and at least one rejected request; distinct by case text'
         ' Added later: scan-option sweep case (every prefix/suffix, plain and by handle), concurrent BeginTransaction burst, unexpected waits bounded at 20 s; the harness server also takes the grpc.MaxSendMsgSize option of cmd/kevo/server.go (gen/ServiceLimits.v svc_server_max_send, ServiceProofs.admitted_values_can_be_sent: every admitted key + value fits a response), and a value of exactly the limit is read back by Get, TxGet, Scan and TxScan, once under a 4096-byte key.',
 'assumptions': ['programs are sequential: a call that has to wait for the transaction lock is issued only where '
                 'waiting has no later effect (Scan, GetStats, BeginTransaction while a read-write handle is open) '
                 'and is observed as "blocked" through a 300 ms client deadline',
                 'background flush parked as for C01; registry TTL/idle cleanup (30 s) never fires within a case',
                 'values of megabytes only in corpus cases (the extracted model holds a value as a list)'],
 'partial': 'single client connection, sequential; concurrency of handles is C04/C17; read-only engines are C16'}
