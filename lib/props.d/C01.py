"""Configuration of the C01 check (see DESIGN.md section 6)."""
PROP = {'counts': {'quick': 240, 'thorough': 6000},
 'rule': 'one case = a sequential program over the embedded API (put/delete/get/ApplyBatch/transaction '
         'commit+rollback/flush/close+reopen/layer dump) with a small memtable so that data moves through '
         'active table, immutable tables and SSTables; every Get, the reported last sequence and the logical '
         'content of every layer are compared with the extracted Engine model; oracle = map replay of the '
         'acknowledged writes; non-trivial = data in >= 2 kinds of layers and at least one overwrite/delete '
         'of a key after a flush or reopen; distinct by case text'
         ' Added later: sync mode in the program header (none/batch/immediate), big-batch family (records waiting in the log buffer, then a batch larger than the buffer, clean reopen), the empty key in the shared alphabet, merge-operand batches (mbatch against Engine.mixed_batch), handed buffers scribbled over.',
 'assumptions': ['background flush goroutine parked at a verifhook gate (layer placement decided by the '
                 "program's explicit flushes); age-based memtable switching disabled (MaxMemTableAge=0)"],
 'partial': 'single client; concurrency is C06'}
