"""Configuration of the C10 check (see DESIGN.md section 6)."""
PROP = {'counts': {'quick': 32, 'thorough': 1200},
 'rule': 'per case a log is written through pkg/wal; small logs: EVERY truncation offset and every byte '
         'position x {xor 1, xor 0x80, :=0, :=0xff, +1} of the newest file is replayed by wal.ReplayWALFile '
         'and by the extracted WalCodec model (entry count, status, digest compared); logs with a fragmented '
         'entry: sampled cuts and flips incl. record headers; directory replays with the newest file cut '
         '(older files must stay); every 4th case drives the engine: damage the newest log of a closed '
         'database, reopen (must succeed, state = some prefix state, no backup of logs), write more, reopen '
         'again (post-recovery writes recovered). Oracle: entries completely before the first damaged byte '
         'recovered in order, nothing returned that was not appended. non-trivial = >= 2 entries and > 10 '
         'damaged replays',
 'assumptions': ["CRC-32 detects the damage: the theorem's escape clause (checksum accepted altered bytes) "
                 'is the only way a single altered byte can change an entry'],
 'partial': 'process/file-system level effects beyond cut and byte alteration of the newest file are not '
            'modelled'}
