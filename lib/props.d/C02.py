"""Configuration of the C02 check (see DESIGN.md section 6)."""
PROP = {'counts': {'quick': 48, 'thorough': 2000},
 'model_input': 'both',
 'rule': 'per case a write program (put/delete/batch/commit/flush/reopen; sync mode none/batch/immediate; '
         'small memtables) and 8 crash directives: a CHILD process runs the program with a verifhook site '
         'armed and dies (os.Exit(137), no cleanup) at the n-th hit of the site (WAL append/sync, between '
         'log append and memtable insert, inside a batch, each step of log rotation, SSTable '
         'write/rename/publish, close) or closes cleanly; the parent records which writes were '
         'acknowledged/issued and how many bytes of every log file survived, reopens, reads every key, '
         'writes three more operations, reopens again. Model: the extracted Engine/WalCodec model cut at '
         'exactly the surviving lengths. Oracle: recovered state = state after m writes, acknowledged <= m '
         '<= issued with synchronous logging (0 <= m otherwise), batches whole; after the extra writes and a '
         'clean reopen = prefix(m) + those writes. non-trivial = at least one armed site was hit and >= 3 '
         'writes'
         ' Added later: fragment-boundary crash family (the log file ends exactly between two fragments; recovery, more writes, clean reopen) and Engine.retain with C02_retention_refuted for finding D20.',
 'assumptions': ['process stop, not power loss: bytes handed to the OS by write() survive; fsync ordering, '
                 'lost renames and torn pages are outside the model (DESIGN.md section 8)'],
 'partial': 'crash points are the hook sites (between system calls), not arbitrary instructions; the '
            'theorems quantify over every cut of the newest log file'}
