"""Configuration of the C18 check (see DESIGN.md section 6)."""
PROP = {'counts': {'quick': 400, 'thorough': 16000},
 'rule': 'sequential cases: insert/delete sequences with arbitrary (non-monotone, repeated, extreme) '
         'sequence numbers on pkg/memtable.MemTable, with Get, full iteration, Seek, SetImmutable, compared '
         'with the extracted Memtable model and with an independent sort-based oracle; every 10th case is '
         'concurrent: one writer, three readers doing iteration/Get, each observation checked (sorted, '
         'nothing missing that was inserted before it began, nothing invented); non-trivial = a key with '
         'several versions and >= 3 inserts'
         ' Added later: held iterators (hnew/hfirst/hseek/hnext/hdrain against Memtable.h_*; theorems C18_held_*), the memtable pool (mode=pool against MemPool.v; C18_pool_get_last_write), and buffers handed to Put/Delete are scribbled over after the call.',
 'assumptions': ['Go atomics are sequentially consistent (skip list next pointers are atomic.Pointer)'],
 'partial': 'concurrent clause: proved on the store-by-store model (SkipConc.v, see Props/C18.v for what is '
            'complete); real interleavings are sampled'}
