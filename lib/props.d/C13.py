"""Configuration of the C13 check (see DESIGN.md section 6)."""
PROP = {'counts': {'quick': 500, 'thorough': 50000},
 'rule': 'TODO',
 'trusted_base': [],
 'assumptions': [],
 'partial': ''}
