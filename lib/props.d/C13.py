"""Configuration of the C13 check (see DESIGN.md section 6)."""
PROP = {'counts': {'quick': 500, 'thorough': 50000},
 'rule': 'one case = a primary write history (singles, deletes, batches/transactions of 1..150 entries with '
         'colliding keys and values) written through the real pkg/wal (kind sched) or a real EngineFacade '
         '(kind engine), read back with GetEntriesFrom and serialised with WALEntryToProto, plus a delivery '
         'schedule over it (pieces L[i,j) cut at or inside transaction boundaries, duplicates, overlaps, one '
         'reordering, drops answered by a resend, the fetch of the primary (100 entries extended to the end of the '
         'transaction), selections with holes, '
         'literal malformed wire entries, failing applyFn calls, connection resets, restarts, acks) driven '
         'into the real replication.WALBatchApplier (kind engine: applyFn = real EngineApplier on a read-only '
         'engine); after every delivery the result class, GetMaxApplied, GetExpectedNext and the entries handed '
         'to applyFn are compared with the extracted Repl model; oracle = applied list is the next piece of the '
         'log position by position, cursor monotone, <= number of the last applied entry and below everything '
         'not applied, rejected deliveries change nothing, exact continuations are applied completely, replica '
         'scan = real primary state after the same operations; non-trivial = log >= 4 entries with a '
         'multi-entry transaction, >= 3 deliveries, >= 3 entries applied and at least one duplicate / overlap / '
         'gap / failure / reset / restart; distinct by case text. Plus kind=emit (real Primary driven through '
         'StreamWAL/Acknowledge/NegativeAcknowledge with an in-memory stream; 7-8 generated (transaction straddling the 100-entry limit, mostly as the newest thing in the log, sliding windows, later start numbers) + 5 corpus; never excused '
         'by a known-finding class) and kind=replica (real Replica '
         'over loopback gRPC against a scripted primary) corpus scenarios: oracle only',
 'trusted_base': ['compression codecs (klauspost zstd, snappy) are external: C13_wire assumes decompress (compress p) = p '
                  'and that a non-empty payload does not compress to nothing; the harness checks both on generated payloads'],
 'assumptions': ['a connection reset leaves the Replica object and with it the WALBatchApplier alive (replica.go keeps '
                 'r.batchApplier across reconnects; the new stream asks for GetExpectedNext); a restart is '
                 'NewWALBatchApplier(0), which is what manager.startReplica -> NewReplica(0, ..) builds',
                 'the primary log is gap-free: numbers start+1, start+2, ... (C08), entries of one AppendBatch share one',
                 'sequence numbers stay below 2^64 - 1 (the uint64 wrap is in the model, excluded by the theorems)',
                 'FragmentType and Checksum of a wire entry are not read by the replica (neither is in the model)'],
 'partial': 'C13_prefix / C13_no_skip_no_dup are proved for every schedule whose deliveries start and end at '
            'transaction boundaries (any order, duplicates, overlaps, drops, failing applies, resets) and, one '
            'delivery at a time (C13_safe_step, C13_progress), for pieces cut inside a transaction that start at '
            'the first entry of the newest applied number or exactly where the applied entries end; everything the '
            'primary fetches for a replica lies between two boundaries (C13_fetch_aligned), so C13_prefix_polls covers '
            'every poll-produced schedule; the statement '
            'for every schedule of arbitrary pieces is refuted (C13_prefix_statement_refuted, C13_cut_indistinguishable: '
            'no applier reporting a sequence number can handle a cut inside a transaction; and more witnesses, each '
            'a known-finding class replayed on the real applier); C13_cursor is proved for all deliveries '
            'whatsoever (restarts excluded: C13_restart_refuted)'}
