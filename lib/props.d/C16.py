"""Configuration of the C16 check (see DESIGN.md section 6)."""
PROP = {'counts': {'quick': 100, 'thorough': 5000},
 'rule': "one case = one node (real EngineFacade + replication.Manager started in the header's mode + "
         'KevoServiceServer behind an in-process gRPC server) and a sequential program mixing client calls '
         'through every mutating entry point (embedded API by reflection on the method name, remote API by '
         'the service descriptor; entry points the harness has no dedicated line for are found by reflection '
         'and driven by signature), replicated entries through replication.EngineApplier, reads and '
         'GetNodeInfo; every result, read, scan and node-information answer is compared with the extracted '
         'ReadOnly model; one table case compares the dynamic classification of every entry point (does it '
         'change the data of a writable node?) with the generated fact table gen/Api.v; oracle = reference '
         'map that only applied entries may change on a replica + read-only error class for every mutation '
         'attempt + node info against configuration and behaviour; non-trivial = replica case with >= 3 '
         'refused mutation attempts of >= 3 kinds, >= 2 applied entries and >= 1 read; distinct by case text'
         ' Added later: the accessor result taken before the node became a replica (l begin .. early), the race scenario with replicated deletes and mixed entry types, gen/ApplierFacts.v (every interface the applier asserts on its engine is satisfied by EngineFacade, decided by go/types).',
 'assumptions': ["the replica's network loop is left dialling a dead address (DialTimeout 20 ms); replicated "
                 'entries are handed to replication.EngineApplier, the applier type the manager builds',
                 'programs are sequential: a call that would wait for the transaction lock is skipped by '
                 "harness and model alike (result 'blocked'); background flush parked as for C01",
                 "a node 'running as a replica' = replication.Manager started with Mode=replica, Enabled, "
                 'ForceReadOnly (what cmd/kevo always passes)'],
 'partial': 'interleavings are proved in the model (C16_ro_trace over all action sequences); the harness '
            'runs sequential programs plus one racing scenario (corpus, finding F2)'}
