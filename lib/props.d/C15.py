"""Configuration of the C15 check (see DESIGN.md section 6)."""
PROP = {'counts': {'quick': 2, 'thorough': 20},
 'timeout': {'quick': 600, 'thorough': 3000},
 'model_input': 'both',
 'shrink': False,
 'rule': 'static, regenerated on every run: gen/Blocking.v (gofacts/blocking.go: what the write path can block '
         'on) AND, since w-C15L, the replication slice of the C07 lock table gen/Locks.v (gofacts/locks.go, '
         'type-checked: every written field of Primary / ReplicaSession / WALBatcher / WALEntriesBuffer / '
         'heartbeatManager / replication.Manager with the locks held at each access; '
         'ReplLocksFacts.repl_fields_protected, repl_sessions_under_primary_mu, repl_lock_order_acyclic, '
         'repl_no_self_nesting by vm_compute: a map write of the session map under a shared lock, a new lock '
         'nesting cycle or a re-acquired replication lock breaks them) AND the pkg/replication rows of gen/LockLeaks.v (gofacts/lockleaks.go: no way out of a function or loop iteration with an explicitly taken mutex still locked, no Unlock on a path that has released it already - the runtime would abort the primary; ReplLocksFacts.repl_locks_released_exactly_once) AND the pkg/replication rows of gen/NilChecks.v (gofacts/nilchecks.go: results of look-up functions - one pointer result, nil when the thing is not there, e.g. Primary.getSession - are compared with nil before any other use; ReplLocksFacts.repl_lookups_tested_before_use). Dynamic: one case = one dynamic probe: a real primary (engine + replication.Manager, heartbeat interval/timeout '
         'shortened through PrimaryConfig.HeartbeatConfig), real healthy replicas, and one misbehaving raw gRPC '
         'client of the replication service (never reads its stream / reads but never acknowledges / reads '
         'slowly / rotated log with one lagging and two continuously acknowledging replicas / connection reset through a TCP forwarder / connection frozen through the forwarder / none: '
         'continuous writer against healthy replicas only / session-churn: in a CHILD process, 48 raw replicas that stream and acknowledge and whose streams all end on one signal, ten rounds, under two writers and a GetNodeInfo+Status reader, judged by the child\'s stderr and exit status: a runtime fatal error such as concurrent map iteration and map write is the failure); 320+ Put of 16 KB (more than the HTTP/2 flow-control '
         'windows), Get and two-key transactions, each under a 5 s watchdog; when an operation does not return '
         'the goroutine stacks are captured and the call chain of the blocked operation is checked by the '
         'extracted table functions (BlockView.known_blocked_path / known_inversion) against gen/Blocking.v, '
         'regenerated from the source by gofacts on every run; oracle = every operation within the bound, the '
         'stalled/cut peer leaves GetNodeInfo within timeout + 2 intervals + 3 s, every healthy replica '
         'converges within 40 s; non-trivial = more than 256 KB written (beyond the flow-control windows) or an operation blocked; distinct by '
         'case text',
 'trusted_base': ['the translators gofacts/blocking.go (syntactic call graph / lock sets) and gofacts/locks.go (lock '
                  'table; for C15 its rows of replication.* locations and its whole lock-order graph): that every '
                  'execution of the Go code is a trace conforming to the tables is their claim, not a theorem; '
                  'approximations of the lock table = items 1-13 of the trusted base of C07'],
 'assumptions': ['the lock table (gofacts/locks.go) covers the PRIMARY side of pkg/replication only (replica.go, '
                 'state.go left out); its approximations are items 1-13 of the trusted base of C07 (one lock / '
                 'location per (type, field); roots = exported methods of replication.Primary and Manager, gRPC '
                 'handlers without the no-close assumption, WAL observer callbacks with WAL.mu held; fresh locals '
                 'private until handed over); the allow list is empty since kevo commit fe6e3ed (session flags, acknowledged sequence and activity time are read under the session mutex)',
                 'the blocking table is syntactic (gofacts/blocking.go): block-structured lock sets, one lock per '
                 '(type, field), interface calls resolved to every implementing type of pkg/wal, '
                 'pkg/engine/storage, pkg/replication; its approximations are listed in the generated file',
                 'probes use loopback TCP; grpc-go default flow-control windows'],
 'partial': 'TCP and HTTP/2 flow control are not modelled: the session model (ReplSession.v) abstracts a '
            'transport as the number of responses it still accepts; the stall itself is only exhibited by the '
            'probes. The static table treats the direct stream write kept for sessions without a sender '
            '(hand-built in tests) as unreachable because every construction of a session in the analysed '
            "code sets its queue (generated fact always_set_fields)"}
