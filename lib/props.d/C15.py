"""Configuration of the C15 check (see DESIGN.md section 6)."""
PROP = {'counts': {'quick': 2, 'thorough': 20},
 'timeout': {'quick': 600, 'thorough': 3000},
 'model_input': 'both',
 'shrink': False,
 'rule': 'one case = one dynamic probe: a real primary (engine + replication.Manager, heartbeat interval/timeout '
         'shortened through PrimaryConfig.HeartbeatConfig), real healthy replicas, and one misbehaving raw gRPC '
         'client of the replication service (never reads its stream / reads but never acknowledges / reads '
         'slowly / rotated log with one lagging and two continuously acknowledging replicas / connection reset through a TCP forwarder / connection frozen through the forwarder / none: '
         'continuous writer against healthy replicas only); 320+ Put of 16 KB (more than the HTTP/2 flow-control '
         'windows), Get and two-key transactions, each under a 5 s watchdog; when an operation does not return '
         'the goroutine stacks are captured and the call chain of the blocked operation is checked by the '
         'extracted table functions (BlockView.known_blocked_path / known_inversion) against gen/Blocking.v, '
         'regenerated from the source by gofacts on every run; oracle = every operation within the bound, the '
         'stalled/cut peer leaves GetNodeInfo within timeout + 2 intervals + 3 s, every healthy replica '
         'converges within 40 s; non-trivial = more than 256 KB written (beyond the flow-control windows) or an operation blocked; distinct by '
         'case text',
 'assumptions': ['the static table is syntactic (gofacts/blocking.go): block-structured lock sets, one lock per '
                 '(type, field), interface calls resolved to every implementing type of pkg/wal, '
                 'pkg/engine/storage, pkg/replication; its approximations are listed in the generated file',
                 'probes use loopback TCP; grpc-go default flow-control windows'],
 'partial': 'TCP and HTTP/2 flow control are not modelled: the session model (ReplSession.v) abstracts a '
            'transport as the number of responses it still accepts; the stall itself is only exhibited by the '
            'probes. The static table treats the direct stream write kept for sessions without a sender '
            '(hand-built in tests) as unreachable because every construction of a session in the analysed '
            "code sets its queue (generated fact always_set_fields)"}
