package main

// C11: an SSTable reads back exactly what was written into it.
// One case = one table. Case lines (mirrored by model/drv_c11.ml):
//   header: bloom=0|1  guard=ok|<name> (a case outside the guards of the theorem: the oracle is not applied)
//   e K SEQ V        entry; V is a byte token, "~" = deletion marker, "-" = empty value
//   it               a fresh iterator (Reader.NewIterator)            adapter 0|1: wrap it in IteratorAdapter
//   first | next | last | seek T     one call on the current iterator ->  P <op> ret=<b> valid=<b> <entry|->
//   scan             fresh iterator, SeekToFirst, Next until invalid  ->  E <entry> ... Z <count> err=<b>
//   nscan            fresh iterator, Next only until invalid          ->  same
//   get K                                                             ->  G notfound | G tomb | G v:<value> | G err
//   layout           byte regions of the file                         ->  R <region> <offset> <len> <crc32>
//   xxh T            xxhash.Sum64 of a byte string                    ->  X <hash>
//   footer TS IO IS NE BO BS   footer.NewFooter(..).Encode() with the given timestamp -> F <hex>
//   corrupt OFF MODE ARG       alter one byte of the file, reopen, scan, seek, get  ->  C ... lines
// <entry> = <key> <seq> <value|~>
//
// Oracle (from the property text, independent of the model): positions are tracked in the sorted
// entry list the case was built from.

import (
	"bufio"
	"bytes"
	"errors"
	"fmt"
	"hash/crc32"
	"math/rand"
	"os"
	"os/exec"
	"path/filepath"
	"sort"
	"strconv"
	"strings"

	"github.com/KevoDB/kevo/pkg/sstable"
	"github.com/KevoDB/kevo/pkg/sstable/block"
	"github.com/KevoDB/kevo/pkg/sstable/footer"
	"github.com/cespare/xxhash/v2"
)

func init() {
	register("C11", &Prop{Gen: genC11, Run: runC11})
}

type sEntry struct {
	key []byte
	val []byte // nil = deletion marker
	seq uint64
}

// the iterator surface shared by *sstable.Iterator and *sstable.IteratorAdapter
type sstIter interface {
	SeekToFirst()
	SeekToLast()
	Seek([]byte) bool
	Next() bool
	Key() []byte
	Value() []byte
	Valid() bool
	IsTombstone() bool
	SequenceNumber() uint64
}

func valTok(v []byte) string {
	if v == nil {
		return "~"
	}
	return render(v)
}

func c11EntryStr(it sstIter) string {
	if !it.Valid() {
		return "-"
	}
	v := it.Value()
	s := fmt.Sprintf("%s %s %s", render(it.Key()), num(it.SequenceNumber()), valTok(v))
	// IsTombstone must agree with the nil value; a disagreement is made visible in the observation
	if it.IsTombstone() != (v == nil) {
		s += fmt.Sprintf(" tombflag=%v", it.IsTombstone())
	}
	return s
}

func c11b01(b bool) int {
	if b {
		return 1
	}
	return 0
}

type c11Table struct {
	dir   string
	path  string
	es    []sEntry
	bloom bool
}

func c11Write(dir string, es []sEntry, bloom bool) (string, error) {
	path := filepath.Join(dir, "t.sst")
	opts := sstable.DefaultWriterOptions()
	opts.EnableBloomFilter = bloom
	w, err := sstable.NewWriterWithOptions(path, opts)
	if err != nil {
		return "", err
	}
	for _, e := range es {
		if err := w.AddWithSequence(e.key, e.val, e.seq); err != nil {
			w.Abort()
			return "", err
		}
	}
	if err := w.Finish(); err != nil {
		return "", err
	}
	return path, nil
}

// lowerBound: index of the first entry with key >= t
func c11Lower(es []sEntry, t []byte) int {
	return sort.Search(len(es), func(i int) bool { return bytes.Compare(es[i].key, t) >= 0 })
}

func c11Same(it sstIter, e sEntry) string {
	if !bytes.Equal(it.Key(), e.key) {
		return fmt.Sprintf("key %x, written %x", it.Key(), e.key)
	}
	v := it.Value()
	if (v == nil) != (e.val == nil) || !bytes.Equal(v, e.val) {
		return fmt.Sprintf("key %x: value nil=%v len=%d, written nil=%v len=%d", e.key, v == nil, len(v), e.val == nil, len(e.val))
	}
	if it.IsTombstone() != (e.val == nil) {
		return fmt.Sprintf("key %x: IsTombstone=%v, written deletion=%v", e.key, it.IsTombstone(), e.val == nil)
	}
	if it.SequenceNumber() != e.seq {
		return fmt.Sprintf("key %x: sequence %d, written %d", e.key, it.SequenceNumber(), e.seq)
	}
	return ""
}

func runC11(c *Case, out func(string)) {
	if hdrVal(c.Hdr, "mode", "") == "child" {
		c11Child(c, out)
		return
	}
	dir := tmpDir("c11-")
	defer os.RemoveAll(dir)
	bloom := hdrVal(c.Hdr, "bloom", "1") == "1"
	guard := hdrVal(c.Hdr, "guard", "ok")
	var es []sEntry
	var ops [][]string
	var probes [][]byte
	for _, l := range c.Lines {
		if l[0] == "probe" {
			probes = append(probes, tok(l[1]))
			continue
		}
		if l[0] == "e" {
			e := sEntry{key: tok(l[1]), seq: parseNum(l[2])}
			if l[3] != "~" {
				e.val = tok(l[3])
			}
			es = append(es, e)
		} else {
			ops = append(ops, l)
		}
	}
	oracleOK := true
	fail := func(m string) {
		if oracleOK && guard == "ok" {
			out("ORACLE FAIL " + m)
		}
		if guard == "ok" {
			oracleOK = false
		}
	}
	stat := map[string]int{}
	var path string
	var rd *sstable.Reader
	if len(es) > 0 {
		var err error
		path, err = c11Write(dir, es, bloom)
		if err != nil {
			out("W err " + c11Err(err))
			if guard == "ok" {
				fail("writing the table failed: " + err.Error())
			}
		} else {
			out("W ok")
			rd, err = sstable.OpenReader(path)
			if err != nil {
				out("O err " + c11Err(err))
				fail("opening the table just written failed: " + err.Error())
				rd = nil
			} else {
				defer rd.Close()
			}
		}
	}
	var it sstIter
	var blk c11Blk
	adapter := false
	pos := -2 // oracle's position: -2 unknown (no constraint), -1 invalid, >= 0 index into es
	fresh := true
	newIt := func() {
		raw := rd.NewIterator()
		if adapter {
			it = sstable.NewIteratorAdapter(raw)
		} else {
			it = raw
		}
		fresh = true
		pos = -2
	}
	checkPos := func(what string) {
		if pos == -2 {
			return
		}
		if pos == -1 {
			if it.Valid() {
				fail(fmt.Sprintf("%s: iterator valid at key %x, expected invalid", what, it.Key()))
			}
			return
		}
		if !it.Valid() {
			fail(fmt.Sprintf("%s: iterator invalid, expected entry %d (key %x)", what, pos, es[pos].key))
			return
		}
		if m := c11Same(it, es[pos]); m != "" {
			fail(what + ": " + m)
		}
	}
	scan := func(useFirst bool) {
		newIt()
		n := 0
		if useFirst {
			it.SeekToFirst()
		} else {
			it.Next()
		}
		for it.Valid() && n <= len(es)+8 {
			out("E " + c11EntryStr(it))
			if n < len(es) {
				if m := c11Same(it, es[n]); m != "" {
					fail(fmt.Sprintf("forward iteration, entry %d: %s", n, m))
				}
			} else {
				fail(fmt.Sprintf("forward iteration yields more than the %d written entries (extra key %x)", len(es), it.Key()))
			}
			n++
			it.Next()
		}
		if n < len(es) {
			fail(fmt.Sprintf("forward iteration ended after %d of %d entries", n, len(es)))
		}
		ierr := c11IterErr(it)
		out(fmt.Sprintf("Z %d err=%s", n, c11ErrFlag(it)))
		if ierr != nil {
			fail("forward iteration reported an error: " + ierr.Error())
		}
		stat["scans"]++
		fresh = false
		pos = -2
	}
	for _, l := range ops {
		switch l[0] {
		case "xxh":
			out("X " + num(xxhash.Sum64(tok(l[1]))))
			continue
		case "footer":
			ft := footer.NewFooter(parseNum(l[2]), uint32(parseNum(l[3])), uint32(parseNum(l[4])), 0, 0, parseNum(l[5]), uint32(parseNum(l[6])))
			ft.Timestamp = int64(parseNum(l[1]))
			enc := ft.Encode()
			out("F " + fmt.Sprintf("%x", enc))
			dec, err := footer.Decode(enc)
			if err != nil || dec.IndexOffset != parseNum(l[2]) || dec.BloomFilterOffset != parseNum(l[5]) {
				fail("footer does not decode to what was encoded")
			}
			continue
		}
		if rd == nil {
			out("SKIP " + l[0])
			continue
		}
		switch l[0] {
		case "adapter":
			adapter = l[1] == "1"
		case "it":
			newIt()
		case "scan":
			scan(true)
		case "nscan":
			scan(false)
		case "first", "next", "last", "seek":
			if it == nil {
				newIt()
			}
			ret := -1
			switch l[0] {
			case "first":
				it.SeekToFirst()
				pos = 0
			case "last":
				it.SeekToLast()
				pos = len(es) - 1
			case "seek":
				t := tok(l[1])
				ret = c11b01(it.Seek(t))
				pos = c11Lower(es, t)
				if pos == len(es) {
					pos = -1
				}
				stat["seeks"]++
				if pos == -1 {
					stat["seek_past_end"]++
				} else if bytes.Equal(es[pos].key, t) {
					stat["seek_present"]++
				}
			case "next":
				ret = c11b01(it.Next())
				switch {
				case fresh:
					pos = 0 // Next on a fresh iterator starts the forward iteration
				case pos >= 0:
					pos++
					if pos == len(es) {
						pos = -1
					}
				default:
					pos = -2 // Next on an exhausted iterator: the property says nothing
				}
			}
			fresh = false
			rs := "-"
			if ret >= 0 {
				rs = strconv.Itoa(ret)
				if pos != -2 && (ret == 1) != it.Valid() {
					fail(fmt.Sprintf("%s returned %d but Valid()=%v", l[0], ret, it.Valid()))
				}
			}
			out(fmt.Sprintf("P %s ret=%s valid=%d err=%s %s", l[0], rs, c11b01(it.Valid()), c11ErrFlag(it), c11EntryStr(it)))
			checkPos(strings.Join(l, " "))
		case "get":
			k := tok(l[1])
			v, err := rd.Get(k)
			i := c11Lower(es, k)
			present := i < len(es) && bytes.Equal(es[i].key, k)
			stat["gets"]++
			switch {
			case err == nil && v == nil:
				out("G tomb")
				if !present || es[i].val != nil {
					fail(fmt.Sprintf("Get(%x) reports a deletion marker that was not written", k))
				}
			case err == nil:
				out("G v:" + render(v))
				if !present || es[i].val == nil || !bytes.Equal(es[i].val, v) {
					fail(fmt.Sprintf("Get(%x) returns a value that was not written for this key", k))
				}
			case errors.Is(err, sstable.ErrNotFound):
				out("G notfound")
				if present {
					fail(fmt.Sprintf("Get(%x): written key not found", k))
				}
			default:
				out("G err " + c11Err(err))
				fail(fmt.Sprintf("Get(%x) failed: %v", k, err))
			}
			if present {
				stat["get_present"]++
			}
		case "layout":
			c11Layout(path, out, fail)
		case "bit", "bfirst", "blast", "bnext", "bseek", "bprev":
			c11BlockOp(path, l, &blk, out, fail)
			stat["blockops"]++
		case "corrupt":
			c11Corrupt(dir, path, es, probes, l[1:], out, fail, stat)
		default:
			out("IMPL-ERROR bad line " + strings.Join(l, " "))
		}
	}
	if guard != "ok" {
		out("NOTE outside-guard " + guard)
	}
	if oracleOK {
		out("ORACLE ok")
	}
	nblocks := c11CutCount(es)
	tombs, empties := 0, 0
	for _, e := range es {
		if e.val == nil {
			tombs++
		} else if len(e.val) == 0 {
			empties++
		}
	}
	nt := 0
	if len(es) >= 2 && (stat["seeks"] > 0 || stat["scans"] > 0 || stat["corruptions"] > 0 || stat["blockops"] > 0) {
		nt = 1
	}
	out(fmt.Sprintf("META entries=%d blocks=%d tombstones=%d empty_values=%d seeks=%d seek_present=%d seek_past_end=%d gets=%d get_present=%d scans=%d blockops=%d corruptions=%d corrupt_open_err=%d corrupt_open_ok=%d corrupt_crash=%d corrupt_incomplete_scan=%d corrupt_get_missing=%d bloom=%d guard=%s nontrivial=%d",
		len(es), nblocks, tombs, empties, stat["seeks"], stat["seek_present"], stat["seek_past_end"], stat["gets"], stat["get_present"], stat["scans"], stat["blockops"], stat["corruptions"], stat["corrupt_open_err"], stat["corrupt_open_ok"], stat["corrupt_crash"], stat["corrupt_incomplete_scan"], stat["corrupt_get_missing"], c11b01(bloom), guard, nt))
}

// c11ErrFlag: "0"/"1" for the raw iterator's Error(), "-" through the adapter (which hides it).
func c11ErrFlag(it sstIter) string {
	if raw, ok := it.(*sstable.Iterator); ok {
		return strconv.Itoa(c11b01(raw.Error() != nil))
	}
	return "-"
}

// c11IterErr returns the iterator's error state (raw iterator only; the adapter hides it).
func c11IterErr(it sstIter) error {
	if raw, ok := it.(*sstable.Iterator); ok {
		return raw.Error()
	}
	return nil
}

func c11Err(err error) string {
	s := err.Error()
	switch {
	case strings.Contains(s, "checksum mismatch"):
		return "checksum"
	case strings.Contains(s, "invalid footer magic"):
		return "magic"
	case strings.Contains(s, "invalid SSTable structure"):
		return "structure"
	case strings.Contains(s, "strictly increasing"):
		return "order"
	case strings.Contains(s, "incomplete unshared"):
		return "unshared"
	case strings.Contains(s, "invalid bloom filter"):
		return "bloomsize"
	case strings.Contains(s, "too small"):
		return "toosmall"
	case strings.Contains(s, "invalid restart points"):
		return "restarts"
	}
	if i := strings.Index(s, "/"); i >= 0 {
		s = s[:i]
	}
	return "other:" + strings.ReplaceAll(s, " ", "_")
}

// c11CutCount mirrors the writer's flush rule (used for META and by the generator only).
func c11CutCount(es []sEntry) int {
	return len(c11Cuts(es))
}

// c11Cuts returns the index of the first entry of every data block.
func c11Cuts(es []sEntry) []int {
	var starts []int
	var size uint32
	n := 0
	for i, e := range es {
		if n == 0 {
			starts = append(starts, i)
		}
		size += uint32(len(e.key) + len(e.val) + 16)
		n++
		est := size + uint32((n+15)/16*4) + 12
		if est >= sstable.IndexKeyInterval {
			size, n = 0, 0
		}
	}
	return starts
}

// ---- byte layout ----

type c11Region struct {
	name     string
	off, len int
}

// c11Regions splits the file into data blocks, filter section, index block and footer using the
// real footer and index decoders.
func c11Regions(data []byte) ([]c11Region, error) {
	if len(data) < footer.FooterSize {
		return nil, fmt.Errorf("short file")
	}
	ft, err := footer.Decode(data[len(data)-footer.FooterSize:])
	if err != nil {
		return nil, err
	}
	ib, err := block.NewReader(data[ft.IndexOffset : ft.IndexOffset+uint64(ft.IndexSize)])
	if err != nil {
		return nil, err
	}
	var rs []c11Region
	bi := ib.Iterator()
	j := 0
	// Key() != nil rather than Valid(): an index entry with an empty key is not "valid" but is there
	for bi.SeekToFirst(); bi.Key() != nil; bi.Next() {
		loc, err := sstable.ParseBlockLocator(bi.Key(), bi.Value())
		if err != nil {
			return nil, err
		}
		rs = append(rs, c11Region{fmt.Sprintf("data%d", j), int(loc.Offset), int(loc.Size)})
		j++
	}
	if ft.BloomFilterOffset > 0 {
		rs = append(rs, c11Region{"filters", int(ft.BloomFilterOffset), int(ft.BloomFilterSize)})
	}
	rs = append(rs, c11Region{"index", int(ft.IndexOffset), int(ft.IndexSize)})
	rs = append(rs, c11Region{"footer", len(data) - footer.FooterSize, footer.FooterSize})
	return rs, nil
}

func c11Layout(path string, out func(string), fail func(string)) {
	data, err := os.ReadFile(path)
	if err != nil {
		out("R err")
		return
	}
	rs, err := c11Regions(data)
	if err != nil {
		out("R err " + c11Err(err))
		fail("layout: " + err.Error())
		return
	}
	next := 0
	for _, r := range rs {
		if r.off != next {
			fail(fmt.Sprintf("layout: region %s starts at %d, previous region ended at %d", r.name, r.off, next))
		}
		next = r.off + r.len
		b := append([]byte(nil), data[r.off:r.off+r.len]...)
		switch {
		case r.name == "footer":
			// the creation timestamp (12..20) and the checksum that covers it (60..68) are masked
			if xxhash.Sum64(b[:60]) != c11U64(b[60:68]) {
				fail("layout: footer checksum is not the XXH64 of its first 60 bytes")
			}
			for i := 12; i < 20; i++ {
				b[i] = 0
			}
			for i := 60; i < 68; i++ {
				b[i] = 0
			}
			out(fmt.Sprintf("R %s %d %d %s", r.name, r.off, r.len, fmt.Sprintf("%x", b)))
		case r.name == "filters":
			// per filter additionally the block offset it is registered under and its size
			out(fmt.Sprintf("R %s %d %d %08x", r.name, r.off, r.len, crc32.ChecksumIEEE(b)))
			p := 0
			for p+12 <= len(b) {
				bo, sz := c11U64(b[p:p+8]), int(c11U32(b[p+8:p+12]))
				out(fmt.Sprintf("R filter blockoffset=%d size=%d", bo, sz))
				p += 12 + sz
			}
		default:
			out(fmt.Sprintf("R %s %d %d %08x", r.name, r.off, r.len, crc32.ChecksumIEEE(b)))
		}
	}
	if next != len(data) {
		fail("layout: regions do not cover the file")
	}
}

func c11U64(b []byte) uint64 {
	var x uint64
	for i := 7; i >= 0; i-- {
		x = x<<8 | uint64(b[i])
	}
	return x
}

func c11U32(b []byte) uint32 {
	var x uint32
	for i := 3; i >= 0; i-- {
		x = x<<8 | uint32(b[i])
	}
	return x
}

// ---- block scripts: the real block.Reader / block.Iterator on one block of the file ----

type c11Blk struct {
	it *block.Iterator
}

func c11BlockOp(path string, l []string, st *c11Blk, out func(string), fail func(string)) {
	if l[0] == "bit" {
		st.it = nil
		data, err := os.ReadFile(path)
		if err != nil {
			out("Q err")
			return
		}
		rs, err := c11Regions(data)
		if err != nil {
			out("Q err")
			return
		}
		name := "index"
		if l[1] != "i" {
			name = "data" + l[1]
		}
		for _, r := range rs {
			if r.name == name {
				br, err := block.NewReader(append([]byte(nil), data[r.off:r.off+r.len]...))
				if err != nil {
					out("Q bit " + l[1] + " err")
					fail("block.NewReader rejects a block of the file just written: " + err.Error())
					return
				}
				st.it = br.Iterator()
				out("Q bit " + l[1] + " ok")
				return
			}
		}
		out("Q bit " + l[1] + " err")
		return
	}
	if st.it == nil {
		out("Q " + l[0] + " noblock")
		return
	}
	ret := "-"
	switch l[0] {
	case "bfirst":
		st.it.SeekToFirst()
	case "blast":
		st.it.SeekToLast()
	case "bnext":
		ret = strconv.Itoa(c11b01(st.it.Next()))
	case "bseek":
		ret = strconv.Itoa(c11b01(st.it.Seek(tok(l[1]))))
	case "bprev":
		ret = strconv.Itoa(c11b01(st.it.SeekForPrev(tok(l[1]))))
	}
	e := "-"
	if st.it.Valid() {
		v := st.it.Value()
		e = fmt.Sprintf("%s %s %s", render(st.it.Key()), num(st.it.SequenceNumber()), valTok(v))
		if st.it.IsTombstone() != (v == nil) {
			e += fmt.Sprintf(" tombflag=%v", st.it.IsTombstone())
		}
	}
	out(fmt.Sprintf("Q %s ret=%s valid=%d %s", l[0], ret, c11b01(st.it.Valid()), e))
}

// ---- corruption: one byte of the file altered ----

func c11ModeByte(mode string, off int, old byte) byte {
	switch mode {
	case "x":
		return old ^ (1 << uint((off*7+3)%8))
	case "z":
		return 0
	case "o":
		return 255
	case "i":
		return old + 1
	case "n":
		return old
	}
	panic("bad corruption mode " + mode)
}

// c11Observe opens the file and prints what can be read from it, in the model's format:
//   open=<ok|err:class> scan=<n>:<crc32 of the rendered entries>:<err> then per probe g=<n|t|e|v<crc>> s=<ret><crc|->:<err>
// and checks the property's clause for altered files: whatever is returned was written.
func c11Observe(path string, es []sEntry, probes [][]byte, bad func(string), stat map[string]int) string {
	rd, err := sstable.OpenReader(path)
	if err != nil {
		if stat != nil {
			stat["corrupt_open_err"]++
		}
		return "open=err:" + c11Err(err)
	}
	defer rd.Close()
	if stat != nil {
		stat["corrupt_open_ok"]++
	}
	var sb strings.Builder
	it := rd.NewIterator()
	n := 0
	var acc strings.Builder
	last := -1
	for it.SeekToFirst(); it.Valid() && n <= len(es)+8; it.Next() {
		acc.WriteString(c11EntryStr(it))
		acc.WriteByte('\n')
		// only written entries, each at most once, in order
		i := c11Lower(es, it.Key())
		if i >= len(es) || c11Same(it, es[i]) != "" {
			bad(fmt.Sprintf("iteration yields an entry that was not written (key %x)", it.Key()))
		} else if i <= last {
			bad(fmt.Sprintf("iteration yields key %x out of order or twice", it.Key()))
		} else {
			last = i
		}
		n++
	}
	if n < len(es) && stat != nil {
		stat["corrupt_incomplete_scan"]++
	}
	fmt.Fprintf(&sb, "open=ok scan=%d:%08x:%d", n, crc32.ChecksumIEEE([]byte(acc.String())), c11b01(it.Error() != nil))
	for _, k := range probes {
		g := ""
		v, err := rd.Get(k)
		i := c11Lower(es, k)
		present := i < len(es) && bytes.Equal(es[i].key, k)
		switch {
		case err == nil && v == nil:
			g = "t"
			if !present || es[i].val != nil {
				bad(fmt.Sprintf("Get(%x) reports a deletion marker that was not written", k))
			}
		case err == nil:
			g = fmt.Sprintf("v%08x", crc32.ChecksumIEEE([]byte(render(v))))
			if !present || es[i].val == nil || !bytes.Equal(es[i].val, v) {
				bad(fmt.Sprintf("Get(%x) returns a value that was not written for this key", k))
			}
		case errors.Is(err, sstable.ErrNotFound):
			g = "n"
			if present && stat != nil {
				stat["corrupt_get_missing"]++
			}
		default:
			g = "e"
		}
		sit := rd.NewIterator()
		ret := sit.Seek(k)
		s := "-"
		if sit.Valid() {
			s = fmt.Sprintf("%08x", crc32.ChecksumIEEE([]byte(c11EntryStr(sit))))
			j := c11Lower(es, sit.Key())
			if j >= len(es) || c11Same(sit, es[j]) != "" {
				bad(fmt.Sprintf("Seek(%x) lands on an entry that was not written (key %x)", k, sit.Key()))
			}
		}
		fmt.Fprintf(&sb, " g=%s s=%d%s:%d", g, c11b01(ret), s, c11b01(sit.Error() != nil))
	}
	return sb.String()
}

// c11Child: "case <id> mode=child path=<file>" + e/probe lines: observe an existing file. Used for
// alterations that may kill the process (fatal out-of-memory cannot be recovered from).
func c11Child(c *Case, out func(string)) {
	var es []sEntry
	var probes [][]byte
	for _, l := range c.Lines {
		switch l[0] {
		case "e":
			e := sEntry{key: tok(l[1]), seq: parseNum(l[2])}
			if l[3] != "~" {
				e.val = tok(l[3])
			}
			es = append(es, e)
		case "probe":
			probes = append(probes, tok(l[1]))
		}
	}
	var bads []string
	obs := c11Observe(hdrVal(c.Hdr, "path", ""), es, probes, func(m string) { bads = append(bads, m) }, nil)
	out("OBS " + obs)
	for _, b := range bads {
		out("BAD " + b)
	}
}

// c11Risky: the altered byte lies in the size fields of a stored filter. Before the header was
// validated (fix c46567a) LoadBloomFilter allocated what the header said and the process died with
// an unrecoverable out-of-memory error; such alterations are observed in a child process so that a
// regression there is reported instead of killing the harness.
func c11Risky(rs []c11Region, data []byte, off int) bool {
	for _, r := range rs {
		if r.name != "filters" || off < r.off || off >= r.off+r.len {
			continue
		}
		p := r.off
		for p+12 <= r.off+r.len {
			sz := int(c11U32(data[p+8 : p+12]))
			if off >= p+8 && off < p+12+16 { // stored filter length, bit count, hash function count
				return true
			}
			p += 12 + sz
		}
	}
	return false
}

func c11Corrupt(dir, path string, es []sEntry, probes [][]byte, args []string, out func(string), fail func(string), stat map[string]int) {
	data, err := os.ReadFile(path)
	if err != nil {
		out("C err")
		return
	}
	rs, err := c11Regions(data)
	if err != nil {
		out("C err")
		return
	}
	// the creation timestamp is the only part of the file the model cannot predict: re-encode the
	// footer with timestamp 0 (footer.Encode recomputes its checksum) before altering bytes
	if ft, err := footer.Decode(data[len(data)-footer.FooterSize:]); err == nil {
		ft.Timestamp = 0
		copy(data[len(data)-footer.FooterSize:], ft.Encode())
	}
	cpath := filepath.Join(dir, "c.sst")
	one := func(off int, mode string) {
		nb := c11ModeByte(mode, off, data[off])
		if nb == data[off] && mode != "n" {
			out(fmt.Sprintf("C %d %s same", off, mode))
			return
		}
		alt := append([]byte(nil), data...)
		alt[off] = nb
		if err := os.WriteFile(cpath, alt, 0644); err != nil {
			out("C err")
			return
		}
		stat["corruptions"]++
		what := fmt.Sprintf("file byte %d altered %02x->%02x: ", off, data[off], nb)
		var obs string
		if c11Risky(rs, data, off) {
			obs = c11RunChild(dir, cpath, es, probes, func(m string) { fail(what + m) })
		} else {
			func() {
				defer func() {
					if r := recover(); r != nil {
						obs = "open=crash:panic"
					}
				}()
				obs = c11Observe(cpath, es, probes, func(m string) { fail(what + m) }, stat)
			}()
		}
		if strings.HasPrefix(obs, "open=crash") {
			stat["corrupt_crash"]++
			out("KF altered_filter_header_crashes_open")
			fail(what + "opening the file kills the process (" + obs[5:] + ") instead of returning an error")
		}
		out(fmt.Sprintf("C %d %s %s", off, mode, obs))
	}
	switch args[0] {
	case "at":
		off, _ := strconv.Atoi(args[1])
		if off < len(data) {
			one(off, args[2])
		}
	case "frac":
		f, _ := strconv.Atoi(args[1])
		one(len(data)*f/10000, args[2])
	case "all":
		start, _ := strconv.Atoi(args[1])
		stride, _ := strconv.Atoi(args[2])
		for off := start; off < len(data); off += stride {
			for _, m := range args[3] {
				one(off, string(m))
			}
		}
	}
}

// c11RunChild observes the file in a child process (this binary, "run C11" on a child case).
func c11RunChild(dir, cpath string, es []sEntry, probes [][]byte, bad func(string)) string {
	cf := filepath.Join(dir, "child.case")
	var sb strings.Builder
	fmt.Fprintf(&sb, "case child mode=child path=%s\n", cpath)
	for _, e := range es {
		v := "~"
		if e.val != nil {
			v = mkTok(e.val)
		}
		fmt.Fprintf(&sb, "e %s %s %s\n", mkTok(e.key), num(e.seq), v)
	}
	for _, p := range probes {
		fmt.Fprintf(&sb, "probe %s\n", mkTok(p))
	}
	sb.WriteString("end\n")
	if err := os.WriteFile(cf, []byte(sb.String()), 0644); err != nil {
		return "open=childerr"
	}
	exe, err := os.Executable()
	if err != nil {
		return "open=childerr"
	}
	cmd := exec.Command(exe, "run", "C11", cf)
	var so, se bytes.Buffer
	cmd.Stdout, cmd.Stderr = &so, &se
	runErr := cmd.Run()
	obs := ""
	for _, l := range strings.Split(so.String(), "\n") {
		switch {
		case strings.HasPrefix(l, "child OBS "):
			obs = l[len("child OBS "):]
		case strings.HasPrefix(l, "child BAD "):
			bad(l[len("child BAD "):])
		case strings.HasPrefix(l, "child IMPL-PANIC"):
			obs = "open=crash:panic"
		}
	}
	if obs != "" {
		return obs
	}
	es2 := se.String()
	switch {
	case strings.Contains(es2, "out of memory") || strings.Contains(es2, "cannot allocate memory"):
		return "open=crash:oom"
	case strings.Contains(es2, "panic:") || strings.Contains(es2, "fatal error"):
		return "open=crash:panic"
	}
	return fmt.Sprintf("open=childerr:%v", runErr)
}

// ---- generator ----

var c11Prefixes = []string{
	"tenant-0001/users/profile/attribute/",
	"tenant-0001/users/profile/attribute/extended/",
	"tenant-0001/users/settings/",
	"tenant-0002/",
	"",
}

// c11GenKeys returns n distinct sorted keys with long shared prefixes, binary tails and keys that
// are prefixes of other keys.
func c11GenKeys(r *rand.Rand, n int) [][]byte {
	set := make(map[string]bool, n)
	small := r.Intn(3) == 0
	for len(set) < n {
		p := c11Prefixes[r.Intn(len(c11Prefixes))]
		var k []byte
		switch r.Intn(5) {
		case 0:
			k = []byte(fmt.Sprintf("%s%07d", p, r.Intn(4*n+10)))
		case 1:
			k = []byte(fmt.Sprintf("%s%08x", p, r.Uint32()))
			for j := r.Intn(6); j > 0; j-- {
				k = append(k, byte('a'+r.Intn(3)))
			}
		case 2:
			k = []byte(p)
			for j := 1 + r.Intn(5); j > 0; j-- {
				k = append(k, []byte{0x00, 0x01, 0x7f, 0xfe, 0xff}[r.Intn(5)])
			}
		case 3:
			k = []byte(fmt.Sprintf("%s%04d", p, r.Intn(n+10)))
		default:
			if small {
				k = append([]byte(nil), genKey(r, 12)...)
			} else {
				k = make([]byte, 1+r.Intn(3))
				for j := range k {
					k[j] = []byte{0x00, 0x61, 0x62, 0xff}[r.Intn(4)]
				}
			}
		}
		if len(k) == 0 {
			continue
		}
		set[string(k)] = true
	}
	// the empty key (legal since /repo f30cabd; always the first entry of the table, of block 0 and
	// of the index block) in one table out of six. It is outside the guard of the byte-level
	// theorems (keys_ok: non-empty keys) but inside the oracle and the correspondence.
	if n > 1 && r.Intn(6) == 0 {
		for k := range set {
			delete(set, k)
			break
		}
		set[""] = true
	}
	keys := make([]string, 0, n)
	for k := range set {
		keys = append(keys, k)
	}
	sort.Strings(keys)
	res := make([][]byte, n)
	for i, k := range keys {
		res[i] = []byte(k)
	}
	return res
}

type c11GenEntry struct {
	key  []byte
	vtok string
	vlen int
	seq  uint64
}

func c11GenEntries(r *rand.Rand, n, valLo, valHi int) []c11GenEntry {
	keys := c11GenKeys(r, n)
	es := make([]c11GenEntry, n)
	for i, k := range keys {
		e := c11GenEntry{key: k}
		switch r.Intn(6) {
		case 0:
			e.seq = uint64(r.Intn(4))
		case 1:
			e.seq = r.Uint64()
		case 2:
			e.seq = []uint64{1<<64 - 1, 1 << 63, 1<<32 - 1, 1 << 32, 255, 256}[r.Intn(6)]
		default:
			e.seq = uint64(r.Intn(1 << 20))
		}
		switch v := r.Intn(10); {
		case v == 0:
			e.vtok = "~"
		case v == 1:
			e.vtok = "-"
		default:
			e.vlen = valLo + r.Intn(valHi-valLo+1)
			if e.vlen == 0 {
				e.vtok = "-"
			} else if e.vlen <= 24 {
				b := make([]byte, e.vlen)
				r.Read(b)
				e.vtok = mkTok(b)
			} else {
				e.vtok = fmt.Sprintf("@%d:%d", e.vlen, r.Intn(1<<20))
			}
		}
		es[i] = e
	}
	return es
}

// c11Targets: seek targets around the given entry indexes plus the fixed outer ones.
func c11Targets(r *rand.Rand, es []c11GenEntry, idx []int) [][]byte {
	var ts [][]byte
	for _, i := range idx {
		k := es[i].key
		switch r.Intn(6) {
		case 0, 1:
			ts = append(ts, k)
		case 2:
			ts = append(ts, append(append([]byte(nil), k...), 0x00))
		case 3:
			ts = append(ts, append(append([]byte(nil), k...), 0xff))
		case 4:
			if len(k) > 1 {
				ts = append(ts, k[:len(k)-1])
			} else {
				ts = append(ts, k)
			}
		default:
			d := append([]byte(nil), k...)
			if len(d) > 0 && d[len(d)-1] > 0 {
				d[len(d)-1]--
			}
			ts = append(ts, d)
		}
	}
	return ts
}

func c11WriteCase(w *bufio.Writer, r *rand.Rand, id string, es []c11GenEntry, bloom bool, guard string, nseek int, ncorrupt int, extra []string) {
	fmt.Fprintf(w, "case %s bloom=%d guard=%s\n", id, c11b01(bloom), guard)
	plain := make([]sEntry, len(es))
	for i, e := range es {
		fmt.Fprintf(w, "e %s %s %s\n", mkTok(e.key), num(e.seq), e.vtok)
		plain[i] = sEntry{key: e.key, val: make([]byte, e.vlen)}
	}
	n := len(es)
	fmt.Fprintf(w, "layout\n")
	for _, x := range extra {
		fmt.Fprintf(w, "%s\n", x)
	}
	if nseek == 0 {
		fmt.Fprintf(w, "end\n")
		return
	}
	fmt.Fprintf(w, "scan\n")
	if r.Intn(2) == 0 {
		fmt.Fprintf(w, "nscan\n")
	}
	// indexes of interest: block boundaries (first and last entry of every block), the restart
	// boundaries 15/16/17, the ends, random ones
	var idx []int
	cuts := c11Cuts(plain)
	for _, s := range cuts {
		idx = append(idx, s)
		if s > 0 {
			idx = append(idx, s-1)
		}
	}
	for _, s := range []int{0, 1, 15, 16, 17, 31, 32, 33, n - 2, n - 1} {
		if s >= 0 && s < n {
			idx = append(idx, s)
		}
	}
	r.Shuffle(len(idx), func(a, b int) { idx[a], idx[b] = idx[b], idx[a] })
	if len(idx) > nseek/2 {
		idx = idx[:nseek/2]
	}
	for len(idx) < nseek {
		idx = append(idx, r.Intn(n))
	}
	ts := c11Targets(r, es, idx)
	outer := [][]byte{{}, {0x00}, []byte("a"), []byte("tenant-0001/"), []byte("tenant-0003"), []byte("zzz"), {0xff, 0xff, 0xff, 0xff},
		append(append([]byte(nil), es[n-1].key...), 0x00)}
	for i := 0; i < 3; i++ {
		ts = append(ts, outer[r.Intn(len(outer))])
	}
	useAdapter := r.Intn(3) == 0
	if useAdapter {
		fmt.Fprintf(w, "adapter 1\n")
	}
	fmt.Fprintf(w, "it\n")
	for _, t := range ts {
		if r.Intn(4) == 0 {
			fmt.Fprintf(w, "it\n")
		}
		fmt.Fprintf(w, "seek %s\n", mkTok(t))
		for k := r.Intn(4); k > 0; k-- {
			fmt.Fprintf(w, "next\n")
		}
		if r.Intn(3) == 0 {
			fmt.Fprintf(w, "get %s\n", mkTok(t))
		}
		switch r.Intn(12) {
		case 0:
			fmt.Fprintf(w, "last\nnext\n")
		case 1:
			fmt.Fprintf(w, "first\nnext\n")
		case 2:
			fmt.Fprintf(w, "last\n")
		}
	}
	if useAdapter {
		fmt.Fprintf(w, "adapter 0\n")
	}
	fmt.Fprintf(w, "it\nlast\nnext\nnext\nit\nnext\nnext\n")
	for i := 0; i < 6; i++ {
		fmt.Fprintf(w, "get %s\n", mkTok(es[r.Intn(n)].key))
	}
	// the block iterator itself, on one data block and on the index block
	for _, b := range []string{strconv.Itoa(r.Intn(len(cuts))), "i"} {
		fmt.Fprintf(w, "bit %s\n", b)
		for k := 0; k < 5; k++ {
			t := ts[r.Intn(len(ts))]
			switch r.Intn(6) {
			case 0:
				fmt.Fprintf(w, "bfirst\nbnext\n")
			case 1:
				fmt.Fprintf(w, "blast\nbnext\n")
			case 2, 3:
				fmt.Fprintf(w, "bseek %s\nbnext\n", mkTok(t))
			default:
				fmt.Fprintf(w, "bprev %s\nbnext\n", mkTok(t))
			}
		}
	}
	// single-byte alterations spread over the file (the last 1% holds the index block and the footer
	// of small files), observed through a full scan and Get/Seek of a few probes
	if ncorrupt > 0 {
		for _, i := range []int{0, n / 2, n - 1} {
			fmt.Fprintf(w, "probe %s\n", mkTok(es[i].key))
		}
		fmt.Fprintf(w, "probe %s\n", mkTok(append(append([]byte(nil), es[n/2].key...), 0x01)))
		modes := "xzoi"
		for k := 0; k < ncorrupt; k++ {
			f := r.Intn(10000)
			if k%3 == 2 {
				f = 9000 + r.Intn(1000)
			}
			fmt.Fprintf(w, "corrupt frac %d %c\n", f, modes[r.Intn(4)])
		}
	}
	fmt.Fprintf(w, "end\n")
}

func genC11(w *bufio.Writer, seed int64, n int, tier string) {
	r := rand.New(rand.NewSource(seed*104729 + 11))
	// two small files whose every byte is altered in four ways, spread over 16 cases
	small := [2][]c11GenEntry{}
	rs := rand.New(rand.NewSource(seed*7919 + 5))
	small[0] = c11GenEntries(rs, 3+rs.Intn(3), 0, 12)
	small[1] = c11GenEntries(rs, 18+rs.Intn(4), 0, 6)
	for ci := 0; ci < n; ci++ {
		id := fmt.Sprintf("c11-%d-%d", seed, ci)
		if ci < 16 && n >= 32 {
			t := ci / 8
			es := small[t]
			extra := []string{
				"probe " + mkTok(es[0].key), "probe " + mkTok(es[len(es)-1].key),
				"probe " + mkTok(append(append([]byte(nil), es[len(es)/2].key...), 0x00)),
				fmt.Sprintf("corrupt all %d 8 xzoi", ci%8),
			}
			c11WriteCase(w, r, id, es, t == 0, "ok", 0, 0, extra)
			continue
		}
		bloom := r.Intn(8) != 0
		var es []c11GenEntry
		ncorrupt := 0
		var extra []string
		switch k := ci % 20; {
		case k < 10: // small tables around the restart interval
			cnt := []int{1, 2, 3, 15, 16, 17, 31, 32, 33, 34, 48, 49, 5, 8, 20, 40, 64, 65}[r.Intn(18)]
			if r.Intn(3) == 0 {
				cnt = 1 + r.Intn(70)
			}
			es = c11GenEntries(r, cnt, 0, 40)
			ncorrupt = 6
			if r.Intn(4) == 0 {
				b := make([]byte, r.Intn(120))
				r.Read(b)
				extra = append(extra, "xxh "+mkTok(b),
					fmt.Sprintf("footer %s %d %d %d %d %d", num(uint64(r.Int63())), r.Intn(1<<30), r.Intn(1<<20), 1+r.Intn(1000), r.Intn(1<<30), r.Intn(1<<16)))
			}
		case k < 16: // one block, many restart points
			es = c11GenEntries(r, 80+r.Intn(500), 0, 30)
			ncorrupt = 2
		case k < 18: // two or three blocks
			es = c11GenEntries(r, 120+r.Intn(160), 300, 700)
			ncorrupt = 1
		case k < 19: // several blocks, larger values
			es = c11GenEntries(r, 60+r.Intn(80), 1500, 4000)
			ncorrupt = 1
		default: // many entries, several blocks
			if ci%40 == 39 {
				// more than 16 data blocks: the index block gets a second restart point
				// (seeks that land in the last block before it, then scan on)
				es = c11GenEntries(r, 340+r.Intn(60), 3600, 4400)
				ncorrupt = 0
				break
			}
			cnt := 1200 + r.Intn(1200)
			if tier == "thorough" && r.Intn(3) == 0 {
				cnt = 4000 + r.Intn(1001)
			}
			es = c11GenEntries(r, cnt, 20, 120)
			ncorrupt = 0
			if tier == "thorough" {
				ncorrupt = 1
			}
		}
		c11WriteCase(w, r, id, es, bloom, "ok", 30, ncorrupt, extra)
	}
}
