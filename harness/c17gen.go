package main

// Generator of C17 programs. It carries its own small simulation of the lock queue and of the
// registry (only to steer the choice of the next line towards contention, time-outs, cleanup and
// use after the end); what is checked is the Coq model against the implementation, never this.
//
// Time grid: sleeps are multiples of 100 ms, the limits sit at odd multiples of 50 ms and the Begin
// deadlines at 125/325 ms (the harness waits out a deadline that is about to fire, which shifts the
// following lines by that much), so every comparison the implementation makes is nominally at least
// 25 ms away from its threshold.

import (
	"fmt"
	"math/rand"
	"strings"
)

type g17Obj struct {
	b, client, conn int
	ro, active      bool
	created, last   int
	registered      bool
	abandoned       bool // by its client
}

type g17Pend struct {
	b, client, deadline int
	aband               bool
}

type g17 struct {
	r                  *rand.Rand
	svc, peer          bool
	wiring             string
	idle, ttlro, ttlrw int
	lines              []string
	now                int
	wq, rd, rq         []int
	wact               bool
	objs               map[int]*g17Obj
	pends              []*g17Pend
	nextB              int
	cur                map[int]int
	ncl                int
	shut               bool
	hadFail            bool
	slow               bool
}

func newG17(r *rand.Rand, i int) *g17 {
	g := &g17{r: r, objs: map[int]*g17Obj{}, cur: map[int]int{}, idle: 150, ttlro: 650, ttlrw: 450, wiring: "ttl", peer: true}
	g.svc = r.Intn(100) < 40
	if g.svc {
		g.peer = r.Intn(100) < 50
	} else {
		g.peer = r.Intn(100) < 85
	}
	if r.Intn(100) < 20 {
		g.wiring = "facade"
		g.ttlro, g.ttlrw = 180000, 60000
	}
	g.ncl = 1 + pick(r, 1, 3, 4, 3)
	return g
}

func (g *g17) header() string {
	b2 := func(b bool) int {
		if b {
			return 1
		}
		return 0
	}
	h := fmt.Sprintf("svc=%d peer=%d wiring=%s idle=%d ttlro=%d ttlrw=%d", b2(g.svc), b2(g.peer), g.wiring, g.idle, g.ttlro, g.ttlrw)
	if g.slow {
		h += " maxscale=1" // the registry's 10 s do not stretch with the axis
	}
	return h
}

func (g *g17) emit(f string, a ...interface{}) { g.lines = append(g.lines, fmt.Sprintf(f, a...)) }

// ----- simulation -----

func rm(l []int, b int) []int {
	var o []int
	for _, x := range l {
		if x != b {
			o = append(o, x)
		}
	}
	return o
}

func has(l []int, b int) bool {
	for _, x := range l {
		if x == b {
			return true
		}
	}
	return false
}

func (g *g17) holder(b int) bool {
	if g.wact {
		return len(g.wq) > 0 && g.wq[0] == b
	}
	return has(g.rd, b)
}

func (g *g17) acquire(ro bool, b int) {
	if ro {
		if len(g.wq) == 0 {
			g.rd = append(g.rd, b)
		} else {
			g.rq = append(g.rq, b)
		}
		return
	}
	if len(g.wq) == 0 {
		g.wq = []int{b}
		g.wact = len(g.rd) == 0
	} else {
		g.wq = append(g.wq, b)
	}
}

func (g *g17) release(b int) {
	if g.wact {
		if len(g.wq) > 0 && g.wq[0] == b {
			g.wq = g.wq[1:]
			g.rd, g.rq = g.rq, nil
			g.wact = len(g.wq) > 0 && len(g.rd) == 0
		}
		return
	}
	if has(g.rd, b) {
		g.rd = rm(g.rd, b)
		g.wact = len(g.wq) > 0 && len(g.rd) == 0
	}
}

func (g *g17) finishObj(b int) {
	if o := g.objs[b]; o != nil && o.active {
		o.active = false
		g.release(b)
	}
}

func (g *g17) settle() {
	for {
		var p *g17Pend
		for _, q := range g.pends {
			if g.holder(q.b) {
				p = q
				break
			}
		}
		if p == nil {
			return
		}
		var np []*g17Pend
		for _, q := range g.pends {
			if q != p {
				np = append(np, q)
			}
		}
		g.pends = np
		if p.aband {
			g.finishObj(p.b)
		} else {
			o := g.objs[p.b]
			o.registered = true
			g.cur[p.client] = p.b
		}
	}
}

func (g *g17) all() []*g17Obj {
	var l []*g17Obj
	for b := 0; b < g.nextB; b++ {
		if o := g.objs[b]; o != nil {
			l = append(l, o)
		}
	}
	return l
}

func (g *g17) connOf(c int) int {
	if g.peer {
		return c
	}
	return 0
}

func (g *g17) stale() {
	for _, o := range g.all() {
		if !o.registered {
			continue
		}
		ttl := g.ttlrw
		if o.ro {
			ttl = g.ttlro
		}
		if g.now-o.created > ttl || g.now-o.last > g.idle {
			g.finishObj(o.b)
			o.registered = false
		}
	}
	g.settle()
}

func (g *g17) begin(c int, ro bool, d int) {
	if g.svc {
		g.stale()
	}
	b := g.nextB
	g.nextB++
	g.objs[b] = &g17Obj{b: b, client: c, conn: g.connOf(c), ro: ro, active: true, created: g.now, last: g.now}
	g.acquire(ro, b)
	dl := g.now + 10000
	if d > 0 {
		dl = g.now + d
	}
	g.pends = append(g.pends, &g17Pend{b: b, client: c, deadline: dl})
	g.settle()
}

func (g *g17) tick(n int) {
	g.now += n
	for _, p := range g.pends {
		if !p.aband && p.deadline <= g.now {
			p.aband = true
		}
	}
}

// what the client believes
func (g *g17) view(c int) string {
	for _, p := range g.pends {
		if p.client == c && !p.aband {
			return "pending"
		}
	}
	b, ok := g.cur[c]
	if !ok {
		return "none"
	}
	o := g.objs[b]
	if o.abandoned {
		return "abandoned"
	}
	if o.active {
		return "live"
	}
	return "done"
}

func (g *g17) wouldWait(ro bool) bool {
	if ro {
		return len(g.wq) > 0
	}
	return len(g.wq) > 0 || len(g.rd) > 0
}

// ----- lines -----

func (g *g17) lineBegin(c int) {
	ro := g.r.Intn(100) < 40
	d := 0
	if g.wouldWait(ro) {
		d = []int{125, 125, 325, 325, 325, 0}[g.r.Intn(6)]
	} else if g.r.Intn(100) < 30 {
		d = 325
	}
	m := "rw"
	if ro {
		m = "ro"
	}
	g.emit("begin %d %s %d", c, m, d)
	g.begin(c, ro, d)
}

func (g *g17) key() int {
	if g.svc && g.r.Intn(100) < 6 {
		return 0 // invalid for the service
	}
	return 1 + g.r.Intn(4)
}

func (g *g17) touch(c int) {
	if b, ok := g.cur[c]; ok {
		if o := g.objs[b]; o.active && o.registered {
			o.last = g.now
		}
	}
}

// an operation of client c on its current handle
func (g *g17) lineOp(c int) {
	pre := ""
	if !g.svc && g.r.Intn(100) < 35 {
		pre = "o"
	}
	b, ok := g.cur[c]
	k := g.key()
	switch pick(g.r, 5, 4, 2) {
	case 0:
		g.emit("%sput %d %d %d", pre, c, k, 1+g.r.Intn(50))
	case 1:
		if g.svc && k != 0 && g.r.Intn(3) == 0 {
			g.emit("scan %d", c) // by handle: activity like a get (the line contains no "get": see below)
			k = 99
			g.lines[len(g.lines)-1] += "" // (kept for clarity)
		} else {
			g.emit("%sget %d %d", pre, c, k)
		}
	case 2:
		g.emit("%sdel %d %d", pre, c, k)
	}
	// refresh of the idle clock: only calls that reach an active transaction object
	if ok {
		o := g.objs[b]
		reach := o.active && (pre == "o" || o.registered)
		last := g.lines[len(g.lines)-1]
		if g.svc && (k == 0 || (o.ro && !strings.Contains(last, "get") && !strings.HasPrefix(last, "scan"))) {
			reach = false
		}
		if reach {
			o.last = g.now
		}
	}
}

func (g *g17) lineFinish(c int) {
	pre := ""
	if !g.svc && g.r.Intn(100) < 35 {
		pre = "o"
	}
	what := "commit"
	if g.r.Intn(100) < 40 {
		what = "rollback"
	}
	g.emit("%s%s %d", pre, what, c)
	if b, ok := g.cur[c]; ok {
		o := g.objs[b]
		if pre == "o" || o.registered {
			g.finishObj(b)
			if g.svc {
				o.registered = false
			}
			g.settle()
		}
	}
}

func (g *g17) lineRemove(c int) {
	g.emit("remove %d", c)
	if b, ok := g.cur[c]; ok {
		g.objs[b].registered = false
	}
}

// a BatchWrite of the service (svc=1): a transaction the service begins and ends by itself. Nothing
// in the simulation changes: the call is only issued when the lock is free (else it is answered
// busy without being made), and it leaves the lock free. About half are batches the service rejects.
func (g *g17) lineOneShot() {
	c := 1 + g.r.Intn(g.ncl)
	kind := []string{"ok", "del", "emptykey", "longkey", "badtype", "bigvalue", "scanabort", "compactfail"}[pick(g.r, 33, 14, 12, 12, 12, 4, 8, 5)]
	g.emit("oneshot %d %s %d %d", c, kind, g.key(), 1+g.r.Intn(50))
}

func (g *g17) lineSleep(n int) {
	g.emit("sleep %d", n)
	g.tick(n)
}

func (g *g17) lineStale() {
	g.emit("stale")
	g.stale()
}

func (g *g17) lineCleanConn(c int) {
	g.emit("cleanconn %d", c)
	conn := g.connOf(c)
	for _, o := range g.all() {
		if o.registered && o.conn == conn {
			g.finishObj(o.b)
			o.registered = false
		}
	}
	g.settle()
}

func (g *g17) lineShutdown() {
	if g.r.Intn(2) == 0 {
		g.emit("shutdown expired")
	} else {
		g.emit("shutdown")
	}
	g.shut = true
	for _, o := range g.all() {
		if o.registered {
			g.finishObj(o.b)
			o.registered = false
		}
	}
	g.settle()
}

// thorough tier only: the registry's own 10 s limit (no deadline from the client)
func (g *g17) tenSeconds() {
	g.lineBegin2(1, false, 0)
	m := []string{"rw", "ro"}[g.r.Intn(2)]
	g.emit("begin 2 %s 0", m)
	g.begin(2, m == "ro", 0)
	if g.r.Intn(2) == 0 {
		g.lineSleep(5000)
		g.emit("put 1 1 1")
		g.touch(1)
		g.lineSleep(5200)
	} else {
		g.lineSleep(10200)
	}
}

func (g *g17) lineBegin2(c int, ro bool, d int) {
	m := "rw"
	if ro {
		m = "ro"
	}
	g.emit("begin %d %s %d", c, m, d)
	g.begin(c, ro, d)
}

func (g *g17) program() {
	if g.slow {
		g.tenSeconds()
	}
	n := 6 + g.r.Intn(18)
	for i := 0; i < n; i++ {
		if g.svc && g.r.Intn(8) == 0 {
			g.lineOneShot() // at any point: with the lock busy the answer is `busy`
		}
		switch pick(g.r, 74, 14, 5, 3, 1, 2) {
		case 0:
			c := 1 + g.r.Intn(g.ncl)
			switch g.view(c) {
			case "none":
				g.lineBegin(c)
			case "done":
				switch pick(g.r, 5, 3, 1) {
				case 0:
					g.lineBegin(c)
				case 1:
					if g.r.Intn(2) == 0 {
						g.lineOp(c)
					} else {
						g.lineFinish(c)
					}
				case 2:
					if !g.svc {
						g.lineRemove(c)
					} else {
						g.lineOp(c)
					}
				}
			case "live":
				switch pick(g.r, 10, 7, 2) {
				case 0:
					g.lineOp(c)
				case 1:
					g.lineFinish(c)
					// double finish / use after the end, right away
					for g.r.Intn(100) < 45 {
						if g.r.Intn(2) == 0 {
							g.lineFinish(c)
						} else {
							g.lineOp(c)
						}
					}
					if !g.svc && g.r.Intn(100) < 70 {
						g.lineRemove(c)
					}
				case 2:
					g.emit("abandon %d", c)
					g.objs[g.cur[c]].abandoned = true
				}
			case "pending":
				if g.r.Intn(100) < 15 {
					if g.r.Intn(2) == 0 {
						g.emit("begin %d rw 125", c) // answered busy
					} else {
						g.lineOp(c)
					}
				}
			case "abandoned":
				if g.r.Intn(100) < 25 {
					// the client comes back late
					if g.r.Intn(2) == 0 {
						g.lineOp(c)
					} else {
						g.lineFinish(c)
					}
					if o := g.objs[g.cur[c]]; o.active {
						o.abandoned = false
					}
				}
			}
		case 1:
			g.lineSleep([]int{100, 100, 100, 100, 200, 200, 200, 300, 500, 700}[g.r.Intn(10)])
		case 2:
			g.lineStale()
		case 3:
			g.lineCleanConn(1 + g.r.Intn(g.ncl))
		case 4:
			if !g.shut {
				g.lineShutdown()
			}
		case 5:
			if g.wiring == "ttl" {
				g.emit("failnext")
			}
		}
	}
	g.epilogue()
}

// every client finishes or is cleaned up; then the probe
func (g *g17) epilogue() {
	for round := 0; round < 12; round++ {
		progress := false
		for c := 1; c <= g.ncl; c++ {
			switch g.view(c) {
			case "live":
				g.lineFinish(c)
				if g.r.Intn(100) < 30 {
					g.lineFinish(c)
				}
				progress = true
			}
		}
		var ab []*g17Obj
		for _, o := range g.all() {
			if o.active && o.abandoned && o.registered {
				ab = append(ab, o)
			}
		}
		if len(ab) > 0 {
			switch k := pick(g.r, 5, 3, 1); {
			case k == 0 || (k == 2 && g.shut):
				g.lineSleep(200)
				g.lineStale()
			case k == 1:
				seen := map[int]bool{}
				for c := 1; c <= g.ncl; c++ {
					if b, ok := g.cur[c]; ok && g.objs[b].active && g.objs[b].abandoned && !seen[g.connOf(c)] {
						seen[g.connOf(c)] = true
						g.lineCleanConn(c)
					}
				}
			default:
				g.lineShutdown()
			}
			progress = true
		}
		live := false
		for _, p := range g.pends {
			if !p.aband {
				live = true
			}
		}
		if !progress && !live {
			break
		}
		if !progress && live {
			// Begins still waiting although nobody the clients know of holds the lock: let time pass
			g.lineSleep(400)
		}
	}
	// late use of everything that ended
	for c := 1; c <= g.ncl; c++ {
		if g.r.Intn(100) < 35 && (g.view(c) == "done" || g.view(c) == "abandoned") {
			if g.r.Intn(2) == 0 {
				g.lineOp(c)
			} else {
				g.lineFinish(c)
			}
		}
	}
	if g.svc && g.r.Intn(2) == 0 {
		// with every client finished the lock is free: this one is really made
		g.lineOneShot()
	}
	g.emit("probe")
	g.emit("dump")
}
