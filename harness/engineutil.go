package main

import (
	"fmt"
	"os"
	"path/filepath"
	"strings"

	"github.com/KevoDB/kevo/pkg/config"
	"github.com/KevoDB/kevo/pkg/engine"
	"github.com/KevoDB/kevo/pkg/verifhook"
	"github.com/KevoDB/kevo/pkg/wal"
)

func hdrVal(hdr []string, key, dflt string) string {
	for _, t := range hdr {
		if strings.HasPrefix(t, key+"=") {
			return t[len(key)+1:]
		}
	}
	return dflt
}

// writeManifest stores the configuration the engine will load (NewEngineFacade takes no config).
func writeManifest(dir string, memsize int64, maxmem int, mutate func(*config.Config)) error {
	cfg := config.NewDefaultConfig(dir)
	cfg.MemTableSize = memsize
	cfg.MaxMemTables = maxmem
	cfg.MaxMemTableAge = 0 // age-based switching off: placement is decided by size only
	cfg.CompactionInterval = 3600
	if mutate != nil {
		mutate(cfg)
	}
	return cfg.SaveManifest(dir)
}

// holdBackground keeps the storage manager's background flush goroutine parked, so that the
// layer placement of a sequential program is decided by the program's explicit flushes.
func holdBackground() {
	verifhook.Hold("bgflush.signal")
	verifhook.Hold("bgflush.tick")
}

func openEngine(dir string) (*engine.EngineFacade, error) {
	wal.DisableRecoveryLogs = true
	return engine.NewEngineFacade(dir)
}

func lastSeq(e *engine.EngineFacade) uint64 {
	v, _ := e.GetStats()["storage_last_sequence"].(uint64)
	return v
}

func renderGet(v []byte, err error) string {
	if err != nil {
		if strings.Contains(err.Error(), "not found") {
			return "notfound"
		}
		return "err:" + strings.ReplaceAll(err.Error(), " ", "_")
	}
	return "v:" + render(v)
}

func logSetAside(dir string) bool {
	m, _ := filepath.Glob(filepath.Join(dir, "wal", "backup_*"))
	return len(m) > 0
}

func dumpLayers(e *engine.EngineFacade, out func(string)) {
	for _, l := range e.VerifStorage().VerifLayers() {
		out(fmt.Sprintf("L %s n=%d", l.Kind, len(l.Entries)))
		for _, en := range l.Entries {
			k := "val"
			v := render(en.Value)
			if en.Tombstone {
				k = "del"
				v = "-"
			}
			out(fmt.Sprintf("l %s %s %s %s", render(en.Key), num(en.Seq), k, v))
		}
	}
}

// dumpMemLayers prints the memtable layers only.
func dumpMemLayers(e *engine.EngineFacade, out func(string)) {
	for _, l := range e.VerifStorage().VerifLayers() {
		if l.Kind == "sst" {
			continue
		}
		out(fmt.Sprintf("L %s n=%d", l.Kind, len(l.Entries)))
		for _, en := range l.Entries {
			k := "val"
			v := render(en.Value)
			if en.Tombstone {
				k = "del"
				v = "-"
			}
			out(fmt.Sprintf("l %s %s %s %s", render(en.Key), num(en.Seq), k, v))
		}
	}
}

var _ = os.Getenv
