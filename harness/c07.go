package main

// C07: concurrent use never races, crashes or hangs the process.
//
// One case = one stress run in a CHILD process (harness/stress, built here with the race
// detector): `case <id> seed=<n> gor=<n> ms=<n> mix=<name> build=race|plain mem=<bytes>
// keys=<n> sync=<0|1|2> cint=<s>` (no body lines).  build=race is `go build -race -tags verif`
// (verifhook.SetYield(seed) perturbs the schedule; the hook's own mutex adds happens-before
// edges), build=plain is `go build -race` without the tag (hooks compiled out).
//
// Observation lines (one per DISTINCT finding of the run, distinct by the pair of functions):
//   RACE <kindA> <funcA> <file:line> | <kindB> <funcB> <file:line>
//   FATAL <message> @ <func> <file:line>        (runtime "fatal error:")
//   PANIC <message> @ <func> <file:line>
//   HANG <call> phase=<stress|close>            (watchdog: a call did not return in time)
//   EXIT <code>                                 (child died some other way)
// ORACLE ok iff there is none of these; the property text is evaluated on nothing but the
// child's stderr and exit status. KF <class> is printed only when EVERY finding of the run
// belongs to a listed class (classes are matched by the pair of racing functions).

import (
	"bufio"
	"bytes"
	"fmt"
	"math/rand"
	"os"
	"os/exec"
	"path/filepath"
	"regexp"
	"sort"
	"strconv"
	"strings"
	"sync"
	"syscall"
	"time"
)

func init() {
	register("C07", &Prop{Gen: genC07, Run: runC07})
}

var c07Mixes = []string{"all", "delete", "putflush", "tx", "compact", "scan", "stats", "registry", "puts"}

func genC07(w *bufio.Writer, seed int64, n int, tier string) {
	r := rand.New(rand.NewSource(seed*7919 + 17))
	ms := 2500
	if tier == "thorough" {
		ms = 5000
	}
	gors := []int{8, 16, 24, 32}
	for i := 0; i < n; i++ {
		mix := c07Mixes[i%len(c07Mixes)]
		build := "plain"
		if (i/len(c07Mixes)+i)%2 == 1 {
			build = "race"
		}
		g := gors[r.Intn(len(gors))]
		mem := []int{2048, 4096, 16384}[r.Intn(3)]
		keys := []int{16, 64, 256}[r.Intn(3)]
		sync := pick(r, 6, 1, 1)
		fmt.Fprintf(w, "case s%d-%d seed=%d gor=%d ms=%d mix=%s build=%s mem=%d keys=%d sync=%d cint=1\nend\n",
			seed, i, seed*1000+int64(i), g, ms, mix, build, mem, keys, sync)
	}
}

// ---- building the stress binaries -------------------------------------------------------

var (
	c07BuildOnce sync.Once
	c07BuildErr  string
)

func c07Paths() (buildDir, srcDir string) {
	self, _ := os.Executable()
	self, _ = filepath.EvalSymlinks(self)
	buildDir = filepath.Dir(self)
	srcDir = filepath.Join(filepath.Dir(buildDir), "harness")
	return
}

// c07Ensure (re)builds build/kevo_stress_{race,plain} against the same kevo tree as this
// harness binary (go build is the staleness check: a no-op when nothing changed).
func c07Ensure() string {
	c07BuildOnce.Do(func() {
		if os.Getenv("VERIF_C07_NOBUILD") != "" {
			return
		}
		buildDir, srcDir := c07Paths()
		lk, err := os.OpenFile(filepath.Join(buildDir, ".stress.lock"), os.O_CREATE|os.O_RDWR, 0644)
		if err == nil {
			syscall.Flock(int(lk.Fd()), syscall.LOCK_EX)
			defer func() { syscall.Flock(int(lk.Fd()), syscall.LOCK_UN); lk.Close() }()
		}
		var modargs []string
		if vr := os.Getenv("VERIF_REPO"); vr != "" {
			if rp, _ := filepath.EvalSymlinks(vr); rp != "/repo" {
				modargs = []string{"-modfile=" + filepath.Join(buildDir, "harness.mod")}
			}
		}
		env := []string{}
		for _, e := range os.Environ() {
			if strings.HasPrefix(e, "GOTOOLCHAIN=") || strings.HasPrefix(e, "GOSUMDB=") || strings.HasPrefix(e, "GOFLAGS=") || strings.HasPrefix(e, "GOPROXY=") {
				continue
			}
			env = append(env, e)
		}
		env = append(env, "GOFLAGS=-mod=mod", "GOPROXY=off")
		for _, b := range []struct {
			out  string
			tags []string
		}{{"kevo_stress_race", []string{"-tags", "verif"}}, {"kevo_stress_plain", nil}} {
			args := append([]string{"build"}, modargs...)
			args = append(args, "-race")
			args = append(args, b.tags...)
			args = append(args, "-o", filepath.Join(buildDir, b.out), "./stress")
			cmd := exec.Command("go", args...)
			cmd.Dir = srcDir
			cmd.Env = env
			var eb bytes.Buffer
			cmd.Stderr = &eb
			cmd.Stdout = &eb
			done := make(chan error, 1)
			cmd.Start()
			go func() { done <- cmd.Wait() }()
			select {
			case err := <-done:
				if err != nil {
					c07BuildErr = fmt.Sprintf("go build %s: %v: %s", b.out, err, tail(eb.String(), 600))
					return
				}
			case <-time.After(20 * time.Minute):
				cmd.Process.Kill()
				c07BuildErr = "go build " + b.out + ": timeout"
				return
			}
		}
	})
	return c07BuildErr
}

func tail(s string, n int) string {
	s = strings.TrimSpace(s)
	if len(s) > n {
		s = s[len(s)-n:]
	}
	return strings.ReplaceAll(s, "\n", " / ")
}

// ---- report parsing ---------------------------------------------------------------------

type c07Frame struct{ fn, loc string }

type c07Finding struct {
	kind string // RACE FATAL PANIC HANG EXIT
	line string // observation line
	key  string // distinctness / class matching key
	fns  []string
	text string // the report block
}

const kevoMod = "github.com/KevoDB/kevo/"

var reLoc = regexp.MustCompile(`^\s+(/\S+\.go):(\d+)`)

func c07ShortLoc(file, line string) string {
	if i := strings.Index(file, "/pkg/"); i >= 0 {
		file = file[i+1:]
	} else if i := strings.Index(file, "/src/"); i >= 0 {
		file = file[i+5:]
	}
	return file + ":" + line
}

// frames of a race-detector section ("  func()\n      file:line +0x..")
func c07RaceFrames(lines []string) []c07Frame {
	var fr []c07Frame
	for i := 0; i+1 < len(lines); i++ {
		if strings.HasPrefix(lines[i], "  ") && !strings.HasPrefix(lines[i], "   ") {
			if m := reLoc.FindStringSubmatch(lines[i+1]); m != nil {
				fr = append(fr, c07Frame{strings.TrimSuffix(strings.TrimSpace(lines[i]), "()"), c07ShortLoc(m[1], m[2])})
				i++
			}
		}
	}
	return fr
}

// frames of a runtime traceback ("pkg.fn(args)\n\t/file:line +0x..")
func c07TraceFrames(lines []string) []c07Frame {
	var fr []c07Frame
	for i := 0; i+1 < len(lines); i++ {
		l := lines[i]
		if l == "" {
			if len(fr) > 0 {
				break
			}
			continue
		}
		if strings.HasPrefix(l, "\t") || strings.HasPrefix(l, "goroutine ") {
			continue
		}
		if m := reLoc.FindStringSubmatch(lines[i+1]); m != nil {
			fn := l
			if j := strings.LastIndex(fn, "("); j > 0 {
				fn = fn[:j]
			}
			fn = strings.TrimPrefix(fn, "created by ")
			fr = append(fr, c07Frame{fn, c07ShortLoc(m[1], m[2])})
			i++
		}
	}
	return fr
}

// first frame inside the kevo module (the harness itself is package main)
func c07KevoFrame(fr []c07Frame) (c07Frame, string) {
	top := ""
	if len(fr) > 0 && !strings.HasPrefix(fr[0].fn, kevoMod) {
		top = fr[0].fn // e.g. runtime.mapassign: the access is inside a runtime helper
	}
	for _, f := range fr {
		if strings.HasPrefix(f.fn, kevoMod) {
			return c07Frame{strings.TrimPrefix(f.fn, kevoMod), f.loc}, top
		}
	}
	if len(fr) > 0 {
		return fr[0], ""
	}
	return c07Frame{"?", "?"}, ""
}

var reAccess = regexp.MustCompile(`^(Previous )?((?:[Aa]tomic )?[Rr]ead|(?:[Aa]tomic )?[Ww]rite) at 0x[0-9a-f]+ by `)

func c07Parse(stderr string, rc int) []c07Finding {
	var out []c07Finding
	seen := map[string]bool{}
	add := func(f c07Finding) {
		if !seen[f.key] {
			seen[f.key] = true
			out = append(out, f)
		}
	}
	lines := strings.Split(stderr, "\n")
	for i := 0; i < len(lines); i++ {
		l := lines[i]
		switch {
		case l == "WARNING: DATA RACE":
			j := i + 1
			for j < len(lines) && lines[j] != "==================" {
				j++
			}
			block := lines[i:j]
			// sections
			var acc []string
			var secs [][]string
			for k := 1; k < len(block); k++ {
				if m := reAccess.FindStringSubmatch(block[k]); m != nil {
					e := k + 1
					for e < len(block) && block[e] != "" {
						e++
					}
					acc = append(acc, strings.ToLower(strings.ReplaceAll(m[2], " ", "-")))
					secs = append(secs, block[k+1:e])
					k = e
				}
			}
			if len(secs) < 2 {
				add(c07Finding{kind: "RACE", line: "RACE unparsed", key: "race:unparsed:" + strconv.Itoa(i), text: strings.Join(block, "\n")})
				i = j
				continue
			}
			fa, ta := c07KevoFrame(c07RaceFrames(secs[0]))
			fb, tb := c07KevoFrame(c07RaceFrames(secs[1]))
			ka, kb := acc[0], acc[1]
			if ta != "" {
				ka += "[" + ta + "]"
			}
			if tb != "" {
				kb += "[" + tb + "]"
			}
			a := fmt.Sprintf("%s %s %s", ka, fa.fn, fa.loc)
			b := fmt.Sprintf("%s %s %s", kb, fb.fn, fb.loc)
			fns := []string{fa.fn, fb.fn}
			sort.Strings(fns)
			if fns[0] != fa.fn {
				a, b = b, a
			}
			add(c07Finding{kind: "RACE", line: "RACE " + a + " | " + b, key: "race:" + fns[0] + "|" + fns[1], fns: fns,
				text: strings.Join(block, "\n")})
			i = j
		case strings.HasPrefix(l, "fatal error: "), strings.HasPrefix(l, "panic: "):
			kind := "FATAL"
			msg := strings.TrimPrefix(l, "fatal error: ")
			if strings.HasPrefix(l, "panic: ") {
				kind = "PANIC"
				msg = strings.TrimPrefix(l, "panic: ")
			}
			e := i + 1
			for e < len(lines) && !strings.HasPrefix(lines[e], "goroutine ") {
				e++
			}
			end := e + 60
			if end > len(lines) {
				end = len(lines)
			}
			var fr c07Frame
			if e < len(lines) {
				fr, _ = c07KevoFrame(c07TraceFrames(lines[e:end]))
			} else {
				fr = c07Frame{"?", "?"}
			}
			if len(msg) > 100 {
				msg = msg[:100]
			}
			msg = strings.Join(strings.Fields(msg), "_")
			add(c07Finding{kind: kind, line: fmt.Sprintf("%s %s @ %s %s", kind, msg, fr.fn, fr.loc), key: strings.ToLower(kind) + ":" + fr.fn,
				fns: []string{fr.fn}, text: strings.Join(lines[i:end], "\n")})
			i = len(lines) // the process is gone after this
		case strings.HasPrefix(l, "WATCHDOG "):
			f := strings.Fields(l)
			call, phase := hdrVal(f, "call", "?"), hdrVal(f, "phase", "?")
			end := i + 400
			if end > len(lines) {
				end = len(lines)
			}
			add(c07Finding{kind: "HANG", line: "HANG " + call + " phase=" + phase, key: "hang:" + call, fns: []string{call},
				text: c07HangDigest(lines[i:])})
			i = len(lines)
		}
	}
	if len(out) == 0 && rc != 0 {
		add(c07Finding{kind: "EXIT", line: "EXIT " + strconv.Itoa(rc), key: "exit:" + strconv.Itoa(rc), text: tail(stderr, 3000)})
	}
	return out
}

// c07HangDigest keeps, from the goroutine dump after a watchdog line, the goroutines that are
// blocked inside the kevo module (lock waits first).
func c07HangDigest(lines []string) string {
	var b strings.Builder
	b.WriteString(lines[0] + "\n")
	var cur []string
	n := 0
	flush := func() {
		if len(cur) == 0 {
			return
		}
		txt := strings.Join(cur, "\n")
		if strings.Contains(txt, kevoMod) && n < 40 {
			if len(cur) > 24 {
				cur = cur[:24]
			}
			b.WriteString(strings.Join(cur, "\n") + "\n\n")
			n++
		}
		cur = nil
	}
	for _, l := range lines[1:] {
		if strings.HasPrefix(l, "goroutine ") {
			flush()
		}
		if l != "" {
			cur = append(cur, l)
		}
	}
	flush()
	return b.String()
}

// ---- known-finding classes (narrow: by the functions of the racing pair) ------------------

type c07Class struct {
	name string
	kind string   // RACE FATAL ...
	fns  []string // every function of the finding must be in this set
}

// No class is listed at present: the three races found while building this check (tombstone
// tracker maps, storage Close against the background flush, registry clean-up reading a
// transaction's last-activity time) and the GetWAL race were repaired by fix: commits and are
// kept as regression cases in corpus/C07.
var c07Classes = []c07Class{}

func c07ClassOf(f c07Finding) string {
	for _, c := range c07Classes {
		if c.kind != f.kind || len(f.fns) == 0 {
			continue
		}
		ok := true
		for _, fn := range f.fns {
			in := false
			for _, x := range c.fns {
				if x == fn {
					in = true
				}
			}
			ok = ok && in
		}
		if ok {
			return c.name
		}
	}
	return ""
}

// ---- running one case -------------------------------------------------------------------

func runC07(c *Case, out func(string)) {
	if msg := c07Ensure(); msg != "" {
		out("IMPL-ERROR stress build failed: " + msg)
		out("ORACLE FAIL stress binaries could not be built: " + msg)
		return
	}
	buildDir, _ := c07Paths()
	build := hdrVal(c.Hdr, "build", "race")
	bin := filepath.Join(buildDir, "kevo_stress_"+build)
	ms, _ := strconv.Atoi(hdrVal(c.Hdr, "ms", "2500"))
	wd, _ := strconv.Atoi(hdrVal(c.Hdr, "watchdog", "30"))
	root := tmpDir("c07-")
	defer os.RemoveAll(root)
	args := []string{"-dir", filepath.Join(root, "db")}
	for _, k := range []string{"seed", "gor", "ms", "mix", "mem", "keys", "sync", "cint", "yield", "watchdog"} {
		if v := hdrVal(c.Hdr, k, ""); v != "" {
			args = append(args, "-"+k, v)
		}
	}
	cmd := exec.Command(bin, args...)
	errPath := filepath.Join(root, "stderr.txt")
	ef, _ := os.Create(errPath)
	cmd.Stderr = ef
	cmd.Stdout = nil
	cmd.Env = append(os.Environ(), "GORACE=halt_on_error=0 history_size=4", "GOTRACEBACK=all")
	t0 := time.Now()
	rc := 0
	done := make(chan error, 1)
	if err := cmd.Start(); err != nil {
		out("IMPL-ERROR cannot start " + bin + ": " + err.Error())
		out("ORACLE FAIL cannot start the stress binary")
		return
	}
	go func() { done <- cmd.Wait() }()
	limit := time.Duration(ms)*time.Millisecond + time.Duration(2*wd+90)*time.Second
	killed := false
	select {
	case err := <-done:
		if ee, ok := err.(*exec.ExitError); ok {
			rc = ee.ExitCode()
		} else if err != nil {
			rc = -1
		}
	case <-time.After(limit):
		// the in-process watchdog did not fire (e.g. the runtime itself is wedged): ask for a dump
		cmd.Process.Signal(syscall.SIGQUIT)
		select {
		case <-done:
		case <-time.After(10 * time.Second):
			cmd.Process.Kill()
			<-done
		}
		killed = true
		rc = 124
	}
	ef.Close()
	eb, _ := os.ReadFile(errPath)
	stderr := string(eb)
	if killed {
		stderr = "WATCHDOG call=process goroutine=-1 phase=outer not returned after " + limit.String() + "\n" + stderr
	}
	finds := c07Parse(stderr, rc)
	// a race report makes the child exit with 66 at the end; that alone is not a finding
	if rc == 66 && len(finds) > 0 {
		rc = 0
	}
	calls, flushes := 0, 0
	var errLines, effects []string
	failedWrites := 0
	for _, l := range strings.Split(stderr, "\n") {
		if strings.HasPrefix(l, "STRESS-DONE ") {
			f := strings.Fields(l)
			calls, _ = strconv.Atoi(hdrVal(f, "calls", "0"))
			flushes, _ = strconv.Atoi(hdrVal(f, "sstables", "0"))
			failedWrites, _ = strconv.Atoi(hdrVal(f, "failed_writes", "0"))
		}
		if strings.HasPrefix(l, "STRESS-ERR ") {
			errLines = append(errLines, strings.TrimPrefix(l, "STRESS-ERR "))
		}
		if strings.HasPrefix(l, "STRESS-EFFECT ") {
			effects = append(effects, strings.TrimPrefix(l, "STRESS-EFFECT "))
		}
	}
	for _, f := range finds {
		out(f.line)
	}
	for i, l := range errLines {
		if i < 6 {
			out("NOTE call-error " + l)
		}
	}
	// not C07's property, but recorded: a write that returned an error and is visible anyway
	for i, l := range effects {
		if i < 6 {
			out("NOTE failed-write-visible " + l)
		}
	}
	allKnown := len(finds) > 0
	classes := map[string]bool{}
	for _, f := range finds {
		cl := c07ClassOf(f)
		if cl == "" {
			allKnown = false
		} else {
			classes[cl] = true
		}
	}
	if len(finds) == 0 {
		out("ORACLE ok")
	} else {
		// keep the reports where the orchestrator (and a human) can pick them up
		rep := filepath.Join(buildDir, "c07-report-"+c.ID+".txt")
		var rb strings.Builder
		fmt.Fprintf(&rb, "case %s %s\n", c.ID, strings.Join(c.Hdr, " "))
		for _, f := range finds {
			rb.WriteString("\n----- " + f.line + "\n" + f.text + "\n")
		}
		os.WriteFile(rep, []byte(rb.String()), 0644)
		first := finds[0]
		for _, f := range finds {
			if c07ClassOf(f) == "" {
				first = f
				break
			}
		}
		out(fmt.Sprintf("ORACLE FAIL %d finding(s); %s; seed=%s report=%s", len(finds), first.line, hdrVal(c.Hdr, "seed", "?"), rep))
		if allKnown {
			var cl []string
			for k := range classes {
				cl = append(cl, k)
			}
			sort.Strings(cl)
			for _, k := range cl {
				out("KF " + k)
			}
		}
	}
	nontrivial := 0
	gor, _ := strconv.Atoi(hdrVal(c.Hdr, "gor", "16"))
	if len(finds) > 0 || (gor >= 2 && calls >= 100 && flushes >= 1) {
		nontrivial = 1
	}
	out(fmt.Sprintf("META gor=%d ms=%d mix=%s build=%s calls=%d findings=%d call_errors=%d failed_writes=%d failed_writes_visible=%d wall_ms=%d nontrivial=%d",
		gor, ms, hdrVal(c.Hdr, "mix", "all"), build, calls, len(finds), len(errLines), failedWrites, len(effects), time.Since(t0).Milliseconds(), nontrivial))
}
