package main

// C10: log damage is contained — exact prefix recovered, nothing fabricated.
// mode=wal (default): program as in C09 (put/merge/del/batch/rotate) followed by damage
// directives on the newest log file: cutall | cut N | flipall STEP | flip I V | dircut N.
// Observations (mirrored by model/drv_c10.ml): "C n m status digest", "X i variant m status
// digest", "D n total digest".  mode=engine: oracle-only scenario through the engine.

import (
	"bufio"
	"bytes"
	"fmt"
	"hash/crc32"
	"math/rand"
	"os"
	"path/filepath"
	"strconv"
	"strings"

	"github.com/KevoDB/kevo/pkg/config"
	"github.com/KevoDB/kevo/pkg/wal"
)

func init() {
	register("C10", &Prop{Gen: genC10, Run: runC10})
}

func fnv(h uint32, s string) uint32 {
	for i := 0; i < len(s); i++ {
		h = (h ^ uint32(s[i])) * 16777619
	}
	return h
}

func digestEntries(es []*wal.Entry) uint32 {
	h := uint32(2166136261)
	for _, e := range es {
		h = fnv(fnv(h, entryStr(e)), "\n")
	}
	return h
}

type c10variant struct {
	name string
	f    func(b byte) byte
}

var c10variants = []c10variant{
	{"x01", func(b byte) byte { return b ^ 1 }},
	{"z00", func(b byte) byte { return 0 }},
	{"zff", func(b byte) byte { return 255 }},
	{"inc", func(b byte) byte { return b + 1 }},
	{"x80", func(b byte) byte { return b ^ 128 }},
}

func replayBytes(scratch string, b []byte) ([]*wal.Entry, string) {
	p := filepath.Join(scratch, "00000000000000000001.wal")
	os.WriteFile(p, b, 0644)
	var es []*wal.Entry
	st, err := wal.ReplayWALFile(p, func(e *wal.Entry) error { es = append(es, e); return nil })
	status := "clean"
	if err != nil {
		status = "error:" + strings.ReplaceAll(err.Error(), " ", "_")
	} else if st.EntriesSkipped > 0 {
		status = "cut"
	}
	// the decision wal.ReuseWAL takes on this file (append behind it or start a new one) is
	// the model's [status_clean (snd (replay_file f))] of WalReuse.reuse_append: it must say
	// "clean" exactly when the replay above ended cleanly, else the statuses compared with
	// the model differ and the case is reported
	if clean := wal.IsCleanWALFile(p); clean != (status == "clean") && !strings.HasPrefix(status, "error") {
		status = fmt.Sprintf("reuse-decision-%v-but-replay-%s", clean, status)
	}
	return es, status
}

func runC10(c *Case, out func(string)) {
	if hdrVal(c.Hdr, "mode", "wal") == "engine" {
		runC10Engine(c, out)
		return
	}
	wal.DisableRecoveryLogs = true
	dir := tmpDir("c10-")
	defer os.RemoveAll(dir)
	wdir := filepath.Join(dir, "wal")
	scratch := filepath.Join(dir, "scratch")
	os.MkdirAll(scratch, 0755)
	cfg := config.NewDefaultConfig(dir)
	cfg.WALSyncMode = config.SyncNone
	w, err := wal.NewWAL(cfg, wdir)
	if err != nil {
		out("IMPL-ERROR " + err.Error())
		return
	}
	var appended []walRec
	// end offset (in the newest file) of each appended entry of the newest file
	type span struct{ idx, end int }
	var spans []span
	fileBase := 0 // index into appended of the first entry of the newest file
	curLen := func() int {
		w.Sync()
		files, _ := wal.FindWALFiles(wdir)
		st, _ := os.Stat(files[len(files)-1])
		return int(st.Size())
	}
	ok := true
	fail := func(m string) {
		if ok {
			out("ORACLE FAIL " + m)
		}
		ok = false
	}
	var last []byte
	var files []string
	closed := false
	closeLog := func() {
		if !closed {
			w.Close()
			closed = true
			files, _ = wal.FindWALFiles(wdir)
			last, _ = os.ReadFile(files[len(files)-1])
		}
	}
	nDamage := 0
	// oracle for one damaged replay: es is what came back, firstDamaged the first damaged byte
	check := func(what string, es []*wal.Entry, status string, firstDamaged int) {
		nDamage++
		if strings.HasPrefix(status, "error") {
			fail(what + ": replay failed: " + status)
			return
		}
		// every entry wholly before the first damaged byte must be recovered, in order
		must := 0
		for _, s := range spans {
			if s.end <= firstDamaged {
				must++
			}
		}
		if len(es) < must {
			fail(fmt.Sprintf("%s: %d entries recovered, %d were completely written before the damage", what, len(es), must))
			return
		}
		for i := 0; i < must; i++ {
			if !sameRec(appended[fileBase+i], es[i]) {
				fail(fmt.Sprintf("%s: recovered entry %d differs from the appended one", what, i))
				return
			}
		}
		// nothing fabricated: everything returned was appended (to this file)
		for _, e := range es {
			found := false
			for j := fileBase; j < len(appended); j++ {
				if sameRec(appended[j], e) {
					found = true
					break
				}
			}
			if !found {
				fail(fmt.Sprintf("%s: replay returned an operation that was never appended: %s", what, entryStr(e)))
				return
			}
		}
	}
	for i := 0; i < len(c.Lines); i++ {
		l := c.Lines[i]
		switch l[0] {
		case "put", "merge":
			k, v := tok(l[1]), tok(l[2])
			s, err := w.Append(opOf(l[0]), k, v)
			if err == nil {
				appended = append(appended, walRec{s, opOf(l[0]), k, v})
				spans = append(spans, span{len(appended) - 1, curLen()})
			}
		case "del":
			k := tok(l[1])
			s, err := w.Append(wal.OpTypeDelete, k, nil)
			if err == nil {
				appended = append(appended, walRec{s, wal.OpTypeDelete, k, []byte{}})
				spans = append(spans, span{len(appended) - 1, curLen()})
			}
		case "batch":
			n, _ := strconv.Atoi(l[1])
			var es []*wal.Entry
			for j := 1; j <= n; j++ {
				o := c.Lines[i+j]
				e := &wal.Entry{Type: opOf(o[0]), Key: tok(o[1])}
				if len(o) > 2 {
					e.Value = tok(o[2])
				}
				es = append(es, e)
			}
			i += n
			before := curLen()
			s, err := w.AppendBatch(es)
			if err == nil && n > 0 {
				// per-entry end offsets inside the batch: recompute from the encoded sizes
				off := before
				for _, e := range es {
					v := e.Value
					if e.Type == wal.OpTypeDelete {
						v = []byte{}
					}
					appended = append(appended, walRec{s, e.Type, e.Key, append([]byte{}, v...)})
					off += encodedLen(e)
					spans = append(spans, span{len(appended) - 1, off})
				}
				if off != curLen() {
					out(fmt.Sprintf("NOTE batch size accounting off: %d vs %d", off, curLen()))
				}
			}
		case "rotate":
			next := w.GetNextSequence()
			w.Close()
			nw, err := wal.NewWAL(cfg, wdir)
			if err != nil {
				out("IMPL-ERROR " + err.Error())
				return
			}
			nw.UpdateNextSequence(next)
			w = nw
			spans = nil
			fileBase = len(appended)
		case "cutall":
			closeLog()
			out(fmt.Sprintf("F %d %08x", len(last), crc32.ChecksumIEEE(last)))
			for n := 0; n <= len(last); n++ {
				es, st := replayBytes(scratch, last[:n])
				out(fmt.Sprintf("C %d %d %s %08x", n, len(es), st, digestEntries(es)))
				check(fmt.Sprintf("cut at %d", n), es, st, n)
				// a cut recovers exactly the completely written entries
				must := 0
				for _, s := range spans {
					if s.end <= n {
						must++
					}
				}
				if len(es) != must {
					fail(fmt.Sprintf("cut at %d: %d entries recovered, exactly %d are complete", n, len(es), must))
				}
			}
		case "cut":
			closeLog()
			n, _ := strconv.Atoi(l[1])
			if n > len(last) {
				n = len(last)
			}
			es, st := replayBytes(scratch, last[:n])
			out(fmt.Sprintf("C %s %d %s %08x", l[1], len(es), st, digestEntries(es)))
			check(fmt.Sprintf("cut at %d", n), es, st, n)
		case "flipall":
			closeLog()
			step, _ := strconv.Atoi(l[1])
			for p := 0; p < len(last); p += step {
				for _, v := range c10variants {
					nb := v.f(last[p])
					if nb == last[p] {
						continue
					}
					g := append([]byte{}, last...)
					g[p] = nb
					es, st := replayBytes(scratch, g)
					out(fmt.Sprintf("X %d %s %d %s %08x", p, v.name, len(es), st, digestEntries(es)))
					check(fmt.Sprintf("byte %d %s", p, v.name), es, st, p)
				}
			}
		case "flip":
			closeLog()
			p, _ := strconv.Atoi(l[1])
			v, _ := strconv.Atoi(l[2])
			if p >= len(last) {
				p = len(last) - 1
			}
			g := append([]byte{}, last...)
			g[p] = byte(v)
			es, st := replayBytes(scratch, g)
			out(fmt.Sprintf("X %s %d %d %s %08x", l[1], v, len(es), st, digestEntries(es)))
			check(fmt.Sprintf("byte %d := %d", p, v), es, st, p)
		case "dircut":
			closeLog()
			n, _ := strconv.Atoi(l[1])
			d2 := filepath.Join(dir, "dir2")
			os.RemoveAll(d2)
			os.MkdirAll(d2, 0755)
			for fi, f := range files {
				b, _ := os.ReadFile(f)
				if fi == len(files)-1 {
					b = b[:n]
				}
				os.WriteFile(filepath.Join(d2, filepath.Base(f)), b, 0644)
			}
			var es []*wal.Entry
			_, err := wal.ReplayWALDir(d2, func(e *wal.Entry) error { es = append(es, e); return nil })
			if err != nil {
				fail("ReplayWALDir on a directory whose newest file is cut: " + err.Error())
			}
			out(fmt.Sprintf("D %d %d %08x", n, len(es), digestEntries(es)))
			// undamaged files are never discarded
			if len(es) < fileBase {
				fail(fmt.Sprintf("cut of the newest file removed entries of older files: %d < %d", len(es), fileBase))
			} else {
				for j := 0; j < fileBase; j++ {
					if !sameRec(appended[j], es[j]) {
						fail("entries of undamaged files changed")
						break
					}
				}
			}
		default:
			out("IMPL-ERROR bad line " + strings.Join(l, " "))
		}
	}
	closeLog()
	if ok {
		out("ORACLE ok")
	}
	nt := 0
	if len(appended) >= 2 && nDamage > 10 {
		nt = 1
	}
	out(fmt.Sprintf("META entries=%d damaged_replays=%d lastfile_bytes=%d nontrivial=%d", len(appended), nDamage, len(last), nt))
}

func encodedLen(e *wal.Entry) int {
	payload := 1 + 8 + 4 + len(e.Key)
	if e.Type != wal.OpTypeDelete {
		payload += 4 + len(e.Value)
	}
	if payload <= wal.MaxRecordSize {
		return wal.HeaderSize + payload
	}
	// fragmented: FIRST with 13+min(len(key), Max-13), then chunks of Max
	first := 13 + len(e.Key)
	if first > wal.MaxRecordSize {
		first = wal.MaxRecordSize
	}
	rest := payload - first
	n := wal.HeaderSize + first
	for rest > 0 {
		k := rest
		if k > wal.MaxRecordSize {
			k = wal.MaxRecordSize
		}
		n += wal.HeaderSize + k
		rest -= k
	}
	return n
}

// ---- engine-level scenario (oracle only): damage the newest log of a closed database,
// reopen, compare with prefix states, write more, reopen again ----
func runC10Engine(c *Case, out func(string)) {
	dir := tmpDir("c10e-")
	defer os.RemoveAll(dir)
	base := filepath.Join(dir, "base")
	if err := writeManifest(base, 1<<20, 1000, nil); err != nil {
		out("IMPL-ERROR " + err.Error())
		return
	}
	holdBackground()
	e, err := openEngine(base)
	if err != nil {
		out("IMPL-ERROR open " + err.Error())
		return
	}
	type wr struct {
		ops []bop
	}
	var hist []wr
	var damages [][]string
	for i := 0; i < len(c.Lines); i++ {
		l := c.Lines[i]
		switch l[0] {
		case "put":
			k, v := tok(l[1]), tok(l[2])
			if e.Put(k, v) == nil {
				hist = append(hist, wr{[]bop{{k: k, v: v}}})
			}
		case "del":
			k := tok(l[1])
			if e.Delete(k) == nil {
				hist = append(hist, wr{[]bop{{del: true, k: k}}})
			}
		case "batch":
			n, _ := strconv.Atoi(l[1])
			ops := parseBops(c, i, n)
			i += n
			var es []*wal.Entry
			for _, o := range ops {
				if o.del {
					es = append(es, &wal.Entry{Type: wal.OpTypeDelete, Key: o.k})
				} else {
					es = append(es, &wal.Entry{Type: wal.OpTypePut, Key: o.k, Value: o.v})
				}
			}
			if e.ApplyBatch(es) == nil && n > 0 {
				hist = append(hist, wr{ops})
			}
		case "ecut", "eflip", "estruct":
			damages = append(damages, l)
		}
	}
	e.Close()
	walFiles, _ := wal.FindWALFiles(filepath.Join(base, "wal"))
	if len(walFiles) == 0 {
		out("IMPL-ERROR no wal file")
		return
	}
	newest := walFiles[len(walFiles)-1]
	orig, _ := os.ReadFile(newest)
	// flat list of single-key effects, in order
	var flat []bop
	for _, h := range hist {
		flat = append(flat, h.ops...)
	}
	stateAfter := func(m int, extra []bop) map[string][]byte {
		st := map[string][]byte{}
		for _, o := range append(append([]bop{}, flat[:m]...), extra...) {
			if o.del {
				delete(st, string(o.k))
			} else {
				st[string(o.k)] = o.v
			}
		}
		return st
	}
	scan := func(en interface {
		Get([]byte) ([]byte, error)
	}) map[string][]byte {
		st := map[string][]byte{}
		seen := map[string]bool{}
		for _, o := range flat {
			if seen[string(o.k)] {
				continue
			}
			seen[string(o.k)] = true
			if v, err := en.Get(o.k); err == nil {
				st[string(o.k)] = v
			}
		}
		for _, k := range []string{"post1", "post2"} {
			if v, err := en.Get([]byte(k)); err == nil {
				st[k] = v
			}
		}
		return st
	}
	same := func(a, b map[string][]byte) bool {
		if len(a) != len(b) {
			return false
		}
		for k, v := range a {
			w, ok := b[k]
			if !ok || !bytes.Equal(v, w) {
				return false
			}
		}
		return true
	}
	ok := true
	fail := func(m string) {
		if ok {
			out("ORACLE FAIL " + m)
		}
		ok = false
	}
	// the manifest stores absolute wal/sst paths, so every scenario runs in the original
	// directory, restored from a pristine copy
	pristine := filepath.Join(dir, "pristine")
	copyTree(base, pristine)
	// structural damage: walk the physical records of the newest file and aim at record
	// boundaries (also between the fragments of one entry), at the byte behind each header,
	// and at the record-type byte (not covered by the CRC) set to every other valid type
	var expanded [][]string
	for _, d := range damages {
		if d[0] != "estruct" {
			expanded = append(expanded, d)
			continue
		}
		budget := 40
		off := 0
		var starts []int
		for off+wal.HeaderSize <= len(orig) {
			starts = append(starts, off)
			ln := int(orig[off+4]) | int(orig[off+5])<<8
			off += wal.HeaderSize + ln
		}
		step := 1
		if len(starts) > 10 {
			step = len(starts) / 10
		}
		for i := 0; i < len(starts) && budget > 0; i += step {
			st := starts[i]
			expanded = append(expanded, []string{"ecutabs", strconv.Itoa(st)})
			expanded = append(expanded, []string{"ecutabs", strconv.Itoa(st + wal.HeaderSize)})
			budget -= 2
			for t := 1; t <= 4; t++ {
				if int(orig[st+6]) != t {
					expanded = append(expanded, []string{"esetabs", strconv.Itoa(st + 6), strconv.Itoa(t)})
					budget--
				}
			}
		}
	}
	damages = expanded
	for _, d := range damages {
		work := base
		os.RemoveAll(base)
		copyTree(pristine, base)
		g := append([]byte{}, orig...)
		var what string
		if d[0] == "ecutabs" {
			n, _ := strconv.Atoi(d[1])
			if n > len(g) {
				n = len(g)
			}
			g = g[:n]
			what = fmt.Sprintf("cut at %d of %d (record boundary or header end)", n, len(orig))
		} else if d[0] == "esetabs" {
			p, _ := strconv.Atoi(d[1])
			v, _ := strconv.Atoi(d[2])
			if p >= len(g) {
				continue
			}
			what = fmt.Sprintf("record type byte at %d changed from %d to %d (file of %d bytes)", p, g[p], v, len(orig))
			g[p] = byte(v)
		} else if d[0] == "ecut" {
			pm, _ := strconv.Atoi(d[1]) // per mille of the file
			n := len(g) * pm / 1000
			g = g[:n]
			what = fmt.Sprintf("cut at %d of %d", n, len(orig))
		} else {
			pm, _ := strconv.Atoi(d[1])
			p := (len(g) - 1) * pm / 1000
			if len(g) == 0 {
				continue
			}
			g[p] ^= 0x40
			what = fmt.Sprintf("bit flip at %d of %d", p, len(orig))
		}
		os.WriteFile(filepath.Join(work, "wal", filepath.Base(newest)), g, 0644)
		holdBackground()
		en, err := openEngine(work)
		if err != nil {
			fail(what + ": opening the database failed: " + err.Error())
			continue
		}
		got := scan(en)
		m := -1
		for cand := len(flat); cand >= 0; cand-- {
			if same(got, stateAfter(cand, nil)) {
				m = cand
				break
			}
		}
		if m < 0 {
			fail(what + ": recovered state is not the state after any prefix of the written operations")
			en.Close()
			continue
		}
		if logSetAside(work) {
			fail(what + ": recovery moved log files to a backup directory")
		}
		// writes acknowledged after the recovery must survive a second recovery
		post := []bop{{k: []byte("post1"), v: []byte("x")}, {k: []byte("post2"), v: []byte("y")}, {del: true, k: []byte("post1")}}
		en.Put(post[0].k, post[0].v)
		en.Put(post[1].k, post[1].v)
		en.Delete(post[2].k)
		en.Close()
		holdBackground()
		en2, err := openEngine(work)
		if err != nil {
			fail(what + ": second open failed: " + err.Error())
			continue
		}
		got2 := scan(en2)
		if !same(got2, stateAfter(m, post)) {
			fail(what + ": writes acknowledged after the recovery were not recovered by the next one")
		}
		en2.Close()
		out(fmt.Sprintf("NOTE %s: recovered prefix %d of %d effects", what, m, len(flat)))
	}
	if ok {
		out("ORACLE ok")
	}
	out(fmt.Sprintf("META engine_damages=%d effects=%d nontrivial=1", len(damages), len(flat)))
}

func copyTree(src, dst string) {
	filepath.Walk(src, func(p string, info os.FileInfo, err error) error {
		if err != nil {
			return nil
		}
		rel, _ := filepath.Rel(src, p)
		t := filepath.Join(dst, rel)
		if info.IsDir() {
			os.MkdirAll(t, 0755)
			return nil
		}
		b, _ := os.ReadFile(p)
		os.WriteFile(t, b, 0644)
		return nil
	})
}

func genC10(w *bufio.Writer, seed int64, n int, tier string) {
	r := rand.New(rand.NewSource(seed*31337 + 10))
	small := func() string {
		switch r.Intn(4) {
		case 0:
			return "-"
		default:
			b := make([]byte, 1+r.Intn(10))
			r.Read(b)
			return mkTok(b)
		}
	}
	for ci := 0; ci < n; ci++ {
		kind := ci % 4
		if kind == 3 {
			// engine-level scenario
			fmt.Fprintf(w, "case c10-%d-%d mode=engine\n", seed, ci)
			nops := 4 + r.Intn(12)
			for i := 0; i < nops; i++ {
				switch pick(r, 6, 2, 2) {
				case 0:
					fmt.Fprintf(w, "put %s %s\n", mkTok(genKey(r, 5)), genVal(r))
				case 1:
					fmt.Fprintf(w, "del %s\n", mkTok(genKey(r, 5)))
				case 2:
					k := 1 + r.Intn(4)
					fmt.Fprintf(w, "batch %d\n", k)
					genBops(w, r, k, 5)
				}
			}
			for d := 0; d < 4; d++ {
				if r.Intn(3) == 0 {
					fmt.Fprintf(w, "eflip %d\n", r.Intn(1001))
				} else {
					fmt.Fprintf(w, "ecut %d\n", r.Intn(1001))
				}
			}
			fmt.Fprintf(w, "estruct\n")
			fmt.Fprintf(w, "end\n")
			continue
		}
		fmt.Fprintf(w, "case c10-%d-%d\n", seed, ci)
		if kind == 2 {
			// one fragmented entry among small ones: sampled damage
			fmt.Fprintf(w, "put %s %s\n", small(), small())
			fmt.Fprintf(w, "put %s @%d:%d\n", small(), []int{32760, 40000, 66000}[r.Intn(3)], r.Intn(1<<20))
			fmt.Fprintf(w, "batch 2\np %s %s\nd %s\n", small(), small(), small())
			for d := 0; d < 40; d++ {
				fmt.Fprintf(w, "cut %d\n", r.Intn(32700+r.Intn(8000)))
			}
			// record boundaries and header bytes of the fragments
			for _, p := range []int{0, 3, 4, 5, 6, 7, 20} {
				fmt.Fprintf(w, "flip %d %d\n", p, r.Intn(256))
			}
			for d := 0; d < 30; d++ {
				fmt.Fprintf(w, "flip %d %d\n", r.Intn(32000), r.Intn(256))
			}
			fmt.Fprintf(w, "end\n")
			continue
		}
		// small log, exhaustive damage
		if r.Intn(2) == 0 {
			fmt.Fprintf(w, "put %s %s\nrotate\n", small(), small())
		}
		nops := 2 + r.Intn(5)
		for i := 0; i < nops; i++ {
			switch pick(r, 5, 2, 2, 1) {
			case 0:
				fmt.Fprintf(w, "put %s %s\n", small(), small())
			case 1:
				fmt.Fprintf(w, "del %s\n", small())
			case 2:
				k := 1 + r.Intn(3)
				fmt.Fprintf(w, "batch %d\n", k)
				for j := 0; j < k; j++ {
					if r.Intn(3) == 0 {
						fmt.Fprintf(w, "d %s\n", small())
					} else {
						fmt.Fprintf(w, "p %s %s\n", small(), small())
					}
				}
			case 3:
				fmt.Fprintf(w, "merge %s %s\n", small(), small())
			}
		}
		fmt.Fprintf(w, "cutall\nflipall 1\n")
		for d := 0; d < 4; d++ {
			fmt.Fprintf(w, "dircut %d\n", r.Intn(30))
		}
		fmt.Fprintf(w, "end\n")
	}
}
