package main

// C12: compaction preserves content; deleted keys stay deleted.
// Header: memsize=<bytes> maxmem=<n> ratio=<int >= 2> sstmax=<entries>.
// Lines: put K V | del K | batch n | commit n (each followed by n lines "p K V" / "d K") |
//   get K | flush (one FlushImMemTables) | full (flush until every write is in an SSTable) |
//   trigger (one compaction cycle) | range LO HI (CompactRange) | reopen (close + open, log
//   kept) | retire (close, remove the log files that are completely contained in SSTables,
//   open) | auto (reopen with CompactionInterval=1 s, let the background worker run until the
//   directory is quiet, reopen with the normal configuration) | files
//
// The model runner reads THIS output (props.py: model_input = impl): "H <hdr>", then per
// operation "OP <line>", the observation lines of the operation, and for operations that create
// SSTables "Z <size>..." (file sizes in creation order: an input of the model, like a clock).
// Observations: W ok last=<seq> | W err:.. | G v:<val>|notfound | O last=<seq> | X lostlog |
//   F <level> <number> n=<entries> / f <key> <seq> val|del <value>   (SST directory in the order
//   the storage manager loads it = file-name order; read with sstable.OpenReader).
//
// Oracle (independent of the model): ground truth = replay of the acknowledged writes, each
// stored version carries the index of the write that produced it (values are looked up through
// (sequence number, key) when a flush creates a file, and carried through compactions by
// comparing contents). Checked: (1) compaction outputs are strictly ascending without duplicate
// keys across the files of one task; (2) for every key of the inputs the outputs hold the
// newest version of the inputs — a deletion marker may be dropped only if no older version of
// the key is left in any other file; nothing is invented; (3) every Get (explicit, after each
// reopen, at the end) returns the latest acknowledged write.

import (
	"bufio"
	"bytes"
	"fmt"
	"math/rand"
	"os"
	"path/filepath"
	"sort"
	"strconv"
	"strings"
	"sync/atomic"
	"syscall"
	"time"

	"github.com/KevoDB/kevo/pkg/compaction"
	"github.com/KevoDB/kevo/pkg/config"
	"github.com/KevoDB/kevo/pkg/engine"
	"github.com/KevoDB/kevo/pkg/sstable"
	"github.com/KevoDB/kevo/pkg/verifhook"
	"github.com/KevoDB/kevo/pkg/wal"
)

func init() {
	register("C12", &Prop{Gen: genC12, Run: runC12})
}

type c12entry struct {
	key   []byte
	seq   uint64
	tomb  bool
	val   []byte
	stamp int // index of the write that produced this version (-1 unknown)
}

type c12file struct {
	name    string
	level   int
	num     uint64
	ts      int64
	size    int64
	entries []c12entry
}

// c12live: what a reader of the tables alone would see: tables in reading order (level 0 newest
// file first, then the deeper levels), the first version found of a key decides, a delete marker
// means absent. (Sequence numbers cannot be used: compaction outputs carry 0.)
func c12live(fs []*c12file) map[string][]byte {
	ord := append([]*c12file(nil), fs...)
	sort.SliceStable(ord, func(i, j int) bool {
		if ord[i].level != ord[j].level {
			return ord[i].level < ord[j].level
		}
		return ord[i].num > ord[j].num
	})
	seen := map[string]bool{}
	m := map[string][]byte{}
	for _, f := range ord {
		for _, e := range f.entries {
			k := string(e.key)
			if seen[k] {
				continue
			}
			seen[k] = true
			if !e.tomb {
				m[k] = e.val
			}
		}
	}
	return m
}

func c12liveDiff(a, b map[string][]byte) string {
	var ks []string
	for k := range a {
		ks = append(ks, k)
	}
	for k := range b {
		if _, ok := a[k]; !ok {
			ks = append(ks, k)
		}
	}
	sort.Strings(ks)
	for _, k := range ks {
		x, okx := a[k]
		y, oky := b[k]
		switch {
		case okx && !oky:
			return fmt.Sprintf("key %s (value %s) is in no table any more", render([]byte(k)), render(x))
		case !okx && oky:
			return fmt.Sprintf("key %s came back with value %s", render([]byte(k)), render(y))
		case !bytes.Equal(x, y):
			return fmt.Sprintf("key %s went from value %s to %s", render([]byte(k)), render(x), render(y))
		}
	}
	return ""
}

func (f *c12file) find(k []byte) *c12entry {
	for i := range f.entries {
		if bytes.Equal(f.entries[i].key, k) {
			return &f.entries[i]
		}
	}
	return nil
}

// readDir reads the SST directory in file-name order (os.ReadDir sorts by name, exactly what
// storage.Manager.loadSSTables and BaseCompactionStrategy.LoadSSTables iterate over).
func c12readDir(dir string) ([]*c12file, error) {
	ents, err := os.ReadDir(filepath.Join(dir, "sst"))
	if err != nil {
		if os.IsNotExist(err) {
			return nil, nil
		}
		return nil, err
	}
	var out []*c12file
	for _, en := range ents {
		if en.IsDir() || !strings.HasSuffix(en.Name(), ".sst") {
			continue
		}
		f := &c12file{name: en.Name()}
		if n, err := fmt.Sscanf(en.Name(), "%d_%06d_%020d.sst", &f.level, &f.num, &f.ts); n != 3 || err != nil {
			return nil, fmt.Errorf("unexpected file name %s", en.Name())
		}
		fi, err := en.Info()
		if err != nil {
			return nil, err
		}
		f.size = fi.Size()
		r, err := sstable.OpenReader(filepath.Join(dir, "sst", en.Name()))
		if err != nil {
			return nil, fmt.Errorf("open %s: %v", en.Name(), err)
		}
		it := r.NewIterator()
		for it.SeekToFirst(); it.Valid(); it.Next() {
			e := c12entry{key: append([]byte{}, it.Key()...), seq: it.SequenceNumber(), tomb: it.IsTombstone(), stamp: -1}
			if !e.tomb {
				e.val = append([]byte{}, it.Value()...)
			}
			f.entries = append(f.entries, e)
		}
		r.Close()
		out = append(out, f)
	}
	return out, nil
}

type c12write struct {
	key  []byte
	tomb bool
	val  []byte
}

type c12run struct {
	nFault, nFaultErr int
	dir     string
	e       *engine.EngineFacade
	out     func(string)
	memsize int64
	maxmem  int
	ratio   int
	sstmax  int64

	writes   []c12write
	ref      map[string]int    // key -> index of the latest acknowledged write
	seqStamp map[string]int    // "<seq>/<key>" -> write index (current numbering epoch)
	ghost    map[string][]int  // file name -> stamp per entry
	files    []*c12file        // last directory listing
	damage   map[string]string // key -> class of the compaction defect that destroyed its newest version
	retir    []string          // log files completely contained in SSTables

	fails                []string
	failClass            []string // "" = unclassified
	nCompact             int
	nConflict            int // compactions whose inputs held >= 2 versions of a key or a deletion marker
	nRetired             int
	kinds                map[string]int      // executed tasks by selection rule
	wroteEmptyKey        bool                // the case wrote the empty key
	reflushed            string              // a flush after a reopen wrote a table whose data was already in an older table (file name)
	reopened             bool                // a reopen with the log kept happened (recovered tables are queued for flushing again)
	emptyKeyTable        string              // a flushed table that holds the empty key and reads back without a single entry
	cache                map[string]*c12file // every table file ever seen, by name (the running storage manager keeps reading files a compaction has deleted)
	reopenedAfterCompact bool
}

func (r *c12run) fail(class, msg string) {
	if class != "" {
		msg += " [" + class + "]"
	} else {
		msg += " [unclassified]"
	}
	if len(r.fails) == 0 {
		r.out("ORACLE FAIL " + msg)
	} else if len(r.fails) < 6 || class == "" {
		r.out("NOTE also: " + msg)
	}
	r.fails = append(r.fails, msg)
	r.failClass = append(r.failClass, class)
}

func c12manifest(dir string, r *c12run, interval int64) error {
	return writeManifest(dir, r.memsize, r.maxmem, func(cfg *config.Config) {
		cfg.CompactionRatio = float64(r.ratio)
		cfg.SSTableMaxSize = r.sstmax
		cfg.CompactionInterval = interval
	})
}

func c12verStr(w c12write) string {
	if w.tomb {
		return "delete"
	}
	return "value " + render(w.val)
}

func c12entStr(e *c12entry) string {
	if e == nil {
		return "nothing"
	}
	if e.tomb {
		return "a deletion marker"
	}
	return "value " + render(e.val)
}

func c12sameVersion(e *c12entry, w c12write) bool {
	return e.tomb == w.tomb && (e.tomb || bytes.Equal(e.val, w.val))
}

// dump prints the directory and refreshes r.files (keeping ghost stamps by file name).
func (r *c12run) dump(print bool) []*c12file {
	fs, err := c12readDir(r.dir)
	if err != nil {
		r.out("IMPL-ERROR readdir " + strings.ReplaceAll(err.Error(), " ", "_"))
		return r.files
	}
	for _, f := range fs {
		if g, ok := r.ghost[f.name]; ok && len(g) == len(f.entries) {
			for i := range f.entries {
				f.entries[i].stamp = g[i]
			}
		}
	}
	if print {
		for _, f := range fs {
			r.out(fmt.Sprintf("F %d %d n=%d", f.level, f.num, len(f.entries)))
			for _, en := range f.entries {
				k, v := "val", render(en.val)
				if en.tomb {
					k, v = "del", "-"
				}
				r.out(fmt.Sprintf("f %s %s %s %s", render(en.key), num(en.seq), k, v))
			}
		}
	}
	r.files = fs
	if r.cache == nil {
		r.cache = map[string]*c12file{}
	}
	for _, f := range fs {
		r.cache[f.name] = f
	}
	return fs
}

// managerView is the list of tables the running storage manager reads, in its order (Get scans
// it from the last to the first): the directory as loaded at the last open plus the tables
// flushed since — compactions are not reflected until the next open.
func (r *c12run) managerView() []*c12file {
	var v []*c12file
	for _, p := range r.e.VerifStorage().GetSSTables() {
		f := r.cache[filepath.Base(p)]
		if f == nil {
			return r.files
		}
		v = append(v, f)
	}
	return v
}

func c12fileNames(fs []*c12file) map[string]*c12file {
	m := map[string]*c12file{}
	for _, f := range fs {
		m[f.name] = f
	}
	return m
}

// newFiles: files of post that are not in pre, in creation (timestamp) order; emits the Z line.
func (r *c12run) newFiles(pre, post []*c12file) []*c12file {
	pm := c12fileNames(pre)
	var nf []*c12file
	for _, f := range post {
		if pm[f.name] == nil {
			nf = append(nf, f)
		}
	}
	sort.SliceStable(nf, func(i, j int) bool { return nf[i].ts < nf[j].ts })
	z := "Z"
	for _, f := range nf {
		z += " " + strconv.FormatInt(f.size, 10)
	}
	r.out(z)
	return nf
}

// afterFlush stamps the entries of freshly flushed files through (sequence, key).
func (r *c12run) afterFlush(pre []*c12file) {
	post := r.dump(false)
	for _, f := range r.newFiles(pre, post) {
		if r.wroteEmptyKey && len(f.entries) == 0 && f.size > 0 && r.emptyKeyTable == "" {
			// block.Iterator.Valid() requires len(key) > 0: positioned on the empty key (always the
			// first entry) the iterator reports "invalid", so the whole table iterates as empty
			r.emptyKeyTable = f.name
			r.out("NOTE flushed table " + f.name + " holds the empty key and iterates as empty")
		}
		g := make([]int, len(f.entries))
		for i := range f.entries {
			en := &f.entries[i]
			st, ok := r.seqStamp[fmt.Sprintf("%d/%s", en.seq, en.key)]
			if !ok || !c12sameVersion(en, r.writes[st]) {
				r.fail("", fmt.Sprintf("flush wrote %s for key %s with sequence %d into %s, which no acknowledged write produced", c12entStr(en), render(en.key), en.seq, f.name))
				st = -1
			}
			en.stamp = st
			g[i] = st
			if r.reopened && st >= 0 && r.reflushed == "" {
				// the same version is already stored in an older table: this is a recovered memtable
				// (the log is replayed in full at every open) being flushed a second time
				for _, of := range pre {
					if oe := of.find(en.key); oe != nil && oe.stamp == st {
						r.reflushed = f.name
					}
				}
			}
		}
		r.ghost[f.name] = g
	}
	r.dump(true)
}

// afterCompaction evaluates clauses (1) and (2) of the oracle on one executed task.
func (r *c12run) afterCompaction(pre []*c12file, what string) {
	post := r.dump(false)
	outs := r.newFiles(pre, post)
	postm := c12fileNames(post)
	var ins, rest []*c12file
	for _, f := range pre {
		if postm[f.name] == nil {
			ins = append(ins, f)
		} else {
			rest = append(rest, f)
		}
	}
	if len(ins) == 0 && len(outs) == 0 {
		r.dump(true)
		return
	}
	r.nCompact++
	{
		// which selection rule produced this task (for the input distribution in the evidence)
		kind := "range"
		if !strings.HasPrefix(what, "range") {
			nl0, minL, maxL := 0, 1<<30, -1
			for _, f := range ins {
				if f.level == 0 {
					nl0++
				}
				if f.level < minL {
					minL = f.level
				}
				if f.level > maxL {
					maxL = f.level
				}
			}
			switch {
			case nl0 >= 2:
				kind = "l0"
			case len(ins) == 1 && len(outs) > 0 && outs[0].level == minL+1:
				kind = "promotion"
				for _, f := range rest {
					if f.level == minL+1 {
						kind = "ratio"
					}
				}
			default:
				kind = "ratio"
			}
		}
		if r.kinds == nil {
			r.kinds = map[string]int{}
		}
		r.kinds[kind]++
	}
	sort.SliceStable(outs, func(i, j int) bool { return outs[i].name < outs[j].name })
	// (1) sorted, no duplicates, across the outputs of the task (numbered 1, 2, ...)
	var prev []byte
	havePrev := false
	for _, f := range outs {
		if len(f.entries) == 0 {
			r.fail("", fmt.Sprintf("%s produced an empty table %s", what, f.name))
		}
		for i := range f.entries {
			if havePrev && bytes.Compare(prev, f.entries[i].key) >= 0 {
				r.fail("", fmt.Sprintf("%s: outputs not strictly ascending: key %s after %s in %s", what, render(f.entries[i].key), render(prev), f.name))
			}
			prev, havePrev = f.entries[i].key, true
		}
	}
	// (2) newest version of the inputs per key
	type cand struct {
		e *c12entry
		f *c12file
	}
	byKey := map[string][]cand{}
	var keys []string
	for _, f := range ins {
		for i := range f.entries {
			k := string(f.entries[i].key)
			if byKey[k] == nil {
				keys = append(keys, k)
			}
			byKey[k] = append(byKey[k], cand{&f.entries[i], f})
		}
	}
	sort.Strings(keys)
	outEntry := func(k []byte) (*c12entry, *c12file) {
		for _, f := range outs {
			if e := f.find(k); e != nil {
				return e, f
			}
		}
		return nil, nil
	}
	conflict := false
	for _, k := range keys {
		cs := byKey[k]
		best := cs[0]
		for i := range cs {
			if cs[i].e.stamp > best.e.stamp {
				best = cs[i]
			}
			if cs[i].e.tomb {
				conflict = true
			}
		}
		if len(cs) > 1 {
			conflict = true
		}
		got, _ := outEntry([]byte(k))
		ok := false
		switch {
		case got != nil && got.tomb == best.e.tomb && (got.tomb || bytes.Equal(got.val, best.e.val)):
			ok = true
			got.stamp = best.e.stamp
		case got == nil && best.e.tomb:
			// A dropped deletion marker is harmless only if no older value of the key survives in
			// a file outside the inputs (unless something newer than the marker shadows both).
			var where *c12file
			newer := false
			for _, f := range rest {
				if e := f.find([]byte(k)); e != nil {
					if e.stamp > best.e.stamp {
						newer = true
					} else if !e.tomb && e.stamp < best.e.stamp {
						where = f
					}
				}
			}
			ok = true
			if where != nil && newer {
				r.out(fmt.Sprintf("NOTE %s dropped the deletion marker of key %s; an older value lives in %s but a newer version outside the inputs shadows both", what, render([]byte(k)), where.name))
			} else if where != nil {
				r.fail("tombstone_dropped_with_older_version_outside_inputs", fmt.Sprintf("%s dropped the deletion marker of key %s although an older value of the key is still stored in %s (not an input): the deleted key comes back", what, render([]byte(k)), where.name))
				r.damage[k] = "tombstone_dropped_with_older_version_outside_inputs"
			}
		}
		if !ok {
			class := ""
			// CompactFiles lists its sources level 0..target and inside a level by (number, timestamp):
			// exactly the name order of the inputs, and the FIRST source holding a key wins. The
			// classes below name the two ways in which that first source is not the newest.
			win := cs[0]
			if win.e.stamp != best.e.stamp &&
				((got == nil && win.e.tomb) || (got != nil && got.tomb == win.e.tomb && (got.tomb || bytes.Equal(got.val, win.e.val)))) {
				if win.f.level == 0 && best.f.level == 0 {
					class = "same_key_in_two_l0_inputs"
				} else if win.f.level < best.f.level {
					class = "shallower_input_older_than_deeper_input"
				}
				if class != "" {
					r.damage[k] = class
				}
			}
			r.fail(class, fmt.Sprintf("%s: for key %s the inputs' newest version is %s (from %s) but the outputs hold %s", what, render([]byte(k)), c12entStr(best.e), best.f.name, c12entStr(got)))
			if got != nil {
				// carry the stamp of the version that was actually kept
				for i := range cs {
					if cs[i].e.tomb == got.tomb && (got.tomb || bytes.Equal(cs[i].e.val, got.val)) && cs[i].e.stamp > got.stamp {
						got.stamp = cs[i].e.stamp
					}
				}
			}
		}
	}
	for _, f := range outs {
		g := make([]int, len(f.entries))
		for i := range f.entries {
			if byKey[string(f.entries[i].key)] == nil {
				r.fail("", fmt.Sprintf("%s: output %s holds key %s that no input holds", what, f.name, render(f.entries[i].key)))
			}
			g[i] = f.entries[i].stamp
		}
		r.ghost[f.name] = g
	}
	for _, f := range ins {
		delete(r.ghost, f.name)
	}
	if conflict {
		r.nConflict++
	}
	r.dump(true)
}

// checkGet compares one read with the ground truth and, on a mismatch, names the structural
// reason if it is one of the recorded ones.
func (r *c12run) checkGet(k []byte, v []byte, err error, when string) {
	st, written := r.ref[string(k)]
	found := err == nil
	if err != nil && !strings.Contains(err.Error(), "not found") {
		r.fail("", fmt.Sprintf("%s: get %s failed: %v", when, render(k), err))
		return
	}
	if !written || r.writes[st].tomb {
		if !found {
			return
		}
	} else if found && bytes.Equal(v, r.writes[st].val) {
		return
	}
	want := "nothing (never written)"
	if written {
		want = c12verStr(r.writes[st])
	}
	msg := fmt.Sprintf("%s: get %s returned %s, the latest acknowledged write is %s", when, render(k), renderGet(v, err), want)
	// which file does the storage manager consult first after a reopen (last in name order)?
	var first, newest *c12file
	var firstE *c12entry
	view := r.managerView()
	for i := len(view) - 1; i >= 0; i-- {
		if e := view[i].find(k); e != nil {
			if first == nil {
				first, firstE = view[i], e
			}
			if e.stamp == st && newest == nil {
				newest = view[i]
			}
		}
	}
	explains := func(e *c12entry) bool { // the wrong answer is exactly what entry e yields
		if e == nil {
			return !found
		}
		if e.tomb {
			return !found
		}
		return found && bytes.Equal(v, e.val)
	}
	class := ""
	switch {
	case newest == nil && r.emptyKeyTable != "" && r.damage[string(k)] == "" && explains(firstE):
		class = "table_with_empty_key_reads_empty"
		msg += " (table " + r.emptyKeyTable + " held the empty key: it iterates as empty, a compaction of it writes nothing and deletes it)"
	case newest == nil && r.damage[string(k)] != "" && explains(firstE):
		class = r.damage[string(k)]
		msg += " (the newest version was destroyed by an earlier compaction: " + class + ")"
	case newest != nil && first != nil && first != newest && explains(firstE):
		if first.level > newest.level {
			class = "deeper_level_outranks_newer_file_after_reopen"
			msg += fmt.Sprintf(" (the newest version is in %s, but %s sorts after it by name and is consulted first)", newest.name, first.name)
		} else if first.level == newest.level && first.ts > newest.ts && r.reflushed != "" && firstE.stamp < st {
			// a table created LATER holds OLDER data: a recovered, already flushed memtable was flushed
			// again after a reopen, and the log was retired before the (newer) active recovered table
			// was flushed as well
			class = "recovered_tables_reflushed_then_log_retired"
			msg += fmt.Sprintf(" (the newest version is in %s; %s was written later, by flushing a memtable recovered from the log a second time, and holds the older version; the log that still held the newer one has been retired)", newest.name, first.name)
		} else if first.level == newest.level {
			msg += fmt.Sprintf(" (the newest version is in %s, but %s is consulted first)", newest.name, first.name)
		}
	}
	r.fail(class, msg)
}

func (r *c12run) sweep(when string) {
	var ks []string
	for k := range r.ref {
		ks = append(ks, k)
	}
	sort.Strings(ks)
	for _, k := range ks {
		v, err := r.e.Get([]byte(k))
		r.checkGet([]byte(k), v, err, when)
	}
}

func (r *c12run) ack(ops []bop) {
	seq := lastSeq(r.e)
	for _, o := range ops {
		if len(o.k) == 0 {
			r.wroteEmptyKey = true
		}
		w := c12write{key: o.k, tomb: o.del}
		if !o.del {
			w.val = append([]byte{}, o.v...)
		}
		r.writes = append(r.writes, w)
		r.ref[string(o.k)] = len(r.writes) - 1
		r.seqStamp[fmt.Sprintf("%d/%s", seq, o.k)] = len(r.writes) - 1
	}
	r.out("W ok last=" + num(seq))
}

func c12walFiles(dir string) []string {
	m, _ := filepath.Glob(filepath.Join(dir, "wal", "*.wal"))
	sort.Strings(m)
	return m
}

func (r *c12run) reopen(retire bool, interval int64) bool {
	if retire && len(r.retir) > 0 {
		// Log retirement through the real retention code (wal.ManageRetention on the engine's WAL,
		// as pkg/replication/primary.go calls it). Legitimate: r.retir was recorded right after a
		// full flush (every write acknowledged so far was in an SSTable, the log had just been
		// rotated) and lists every log file but the then-current one, i.e. the oldest files; they
		// hold no entry that is not in an SSTable. MaxFileCount keeps the current file and the
		// files written since.
		all := c12walFiles(r.dir)
		keep := len(all) - len(r.retir)
		if keep < 1 {
			keep = 1
		}
		n, err := r.e.VerifStorage().VerifWAL().ManageRetention(wal.WALRetentionConfig{MaxFileCount: keep})
		left := map[string]bool{}
		for _, p := range c12walFiles(r.dir) {
			left[p] = true
		}
		okSet := err == nil && n == len(r.retir) && len(left) == keep
		for _, p := range r.retir {
			if left[p] {
				okSet = false
			}
		}
		if !okSet {
			r.fail("", fmt.Sprintf("log retention with MaxFileCount=%d removed %d files (error %v), expected exactly the %d flushed files", keep, n, err, len(r.retir)))
			for _, p := range r.retir {
				os.Remove(p)
			}
		}
		r.retir = nil
	}
	if retire {
		r.nRetired++
	}
	if err := r.e.Close(); err != nil {
		r.out("IMPL-ERROR close " + strings.ReplaceAll(err.Error(), " ", "_"))
	}
	if err := c12manifest(r.dir, r, interval); err != nil {
		r.out("IMPL-ERROR manifest " + err.Error())
		return false
	}
	e, err := openEngine(r.dir)
	if err != nil {
		r.out("IMPL-ERROR reopen " + strings.ReplaceAll(err.Error(), " ", "_"))
		return false
	}
	r.e = e
	if logSetAside(r.dir) {
		r.out("X lostlog")
		r.fail("", "recovery set the whole log aside (memtable budget exceeded)")
		return false
	}
	return true
}

// c12names lists the table files of the directory (names only).
func c12names(dir string) []string {
	ents, _ := os.ReadDir(filepath.Join(dir, "sst"))
	var n []string
	for _, en := range ents {
		if !en.IsDir() && strings.HasSuffix(en.Name(), ".sst") {
			n = append(n, en.Name())
		}
	}
	return n
}

// c12realSelects asks the REAL strategy (a fresh TieredCompactionStrategy on the directory)
// whether it would select a task now: the criterion for "the worker has nothing left to do".
func c12realSelects(dir string) bool {
	cfg, err := config.LoadConfigFromManifest(dir)
	if err != nil {
		return false
	}
	st := compaction.NewTieredCompactionStrategy(cfg, cfg.SSTDir, nil)
	defer st.Close()
	if err := st.LoadSSTables(); err != nil {
		return true // caught mid-cycle: look again later
	}
	task, err := st.SelectCompaction()
	return err != nil || task != nil
}

// watchWorker lets the background compaction worker run (CompactionInterval = 1 s) and accounts
// for its cycles one by one. The worker is stopped at verifhook site sst.finish.before_rename
// (an output table is complete but not yet visible; no flush runs meanwhile), so the directory
// is quiet while the harness looks at it: a cycle is complete when files of the directory
// seen before it are gone. Returns the number of cycles that executed a task.
func (r *c12run) watchWorker(op int) int {
	arrive := make(chan struct{})
	pass := make(chan struct{})
	done := make(chan struct{})
	verifhook.OnHit(func(site string, n int) {
		if site != "sst.finish.before_rename" {
			return
		}
		select {
		case arrive <- struct{}{}:
			select {
			case <-pass:
			case <-done:
			}
		case <-done:
		}
	})
	defer func() {
		close(done)
		verifhook.OnHit(nil)
	}()
	missing := func(pre []*c12file) bool {
		have := map[string]bool{}
		for _, n := range c12names(r.dir) {
			have[n] = true
		}
		for _, f := range pre {
			if !have[f.name] {
				return true
			}
		}
		return false
	}
	settle := func() { // the cleanup of a finished cycle removes the inputs one by one
		last := ""
		for k := 0; k < 40; k++ {
			cur := strings.Join(c12names(r.dir), ";")
			if cur == last {
				return
			}
			last = cur
			time.Sleep(60 * time.Millisecond)
		}
	}
	cycles := 0
	pre := r.dump(false)
	account := func() {
		cycles++
		r.out("A cycle")
		r.afterCompaction(pre, fmt.Sprintf("background compaction cycle %d (op %d)", cycles, op))
		pre = r.dump(false)
	}
	deadline := time.Now().Add(60 * time.Second)
	for time.Now().Before(deadline) && cycles < 30 {
		select {
		case <-arrive:
			// the worker is parked before publishing an output: if inputs of the cycle we were
			// following are gone, that cycle is over and this output starts the next one
			if missing(pre) {
				account()
			}
			pass <- struct{}{}
		case <-time.After(300 * time.Millisecond):
			if missing(pre) {
				settle()
				// outputs of the finished cycle are all visible (the worker publishes them before it
				// deletes the inputs); a new cycle cannot publish without stopping at the gate
				select {
				case <-arrive:
					account()
					pass <- struct{}{}
				default:
					account()
				}
				continue
			}
			if strings.Join(c12names(r.dir), ";") == func() string {
				var n []string
				for _, f := range pre {
					n = append(n, f.name)
				}
				return strings.Join(n, ";")
			}() && !c12realSelects(r.dir) {
				return cycles
			}
		}
	}
	r.out("NOTE background worker still busy at the deadline")
	return cycles
}

// c12wellFormed: a shrinking step may cut a batch from its lines; such a candidate is not a
// failing input.
func c12wellFormed(c *Case) bool {
	arity := map[string]int{"put": 3, "del": 2, "get": 2, "flush": 1, "full": 1, "trigger": 1, "range": 3,
		"reopen": 1, "retire": 1, "auto": 1, "files": 1, "batch": 2, "commit": 2, "failtrigger": 1, "autofail": 1}
	for i := 0; i < len(c.Lines); i++ {
		l := c.Lines[i]
		if n, ok := arity[l[0]]; !ok || len(l) != n {
			return false
		}
		if l[0] == "batch" || l[0] == "commit" {
			n, err := strconv.Atoi(l[1])
			if err != nil || n < 0 || i+n >= len(c.Lines) {
				return false
			}
			for j := 1; j <= n; j++ {
				s := c.Lines[i+j]
				if !(s[0] == "p" && len(s) == 3) && !(s[0] == "d" && len(s) == 2) {
					return false
				}
			}
			i += n
		}
	}
	return true
}

func runC12(c *Case, out func(string)) {
	if !c12wellFormed(c) {
		out("NOTE malformed case (not an input)")
		out("ORACLE ok")
		out("META ops=0 nontrivial=0")
		return
	}
	if hdrVal(c.Hdr, "mode", "model") == "fault" {
		// cases with an injected fault are decided by the oracle only (the model has no failing
		// compaction): observations become notes, the model runner sees no operation
		raw := out
		out = func(s string) {
			switch strings.SplitN(s, " ", 2)[0] {
			case "ORACLE", "META", "KF", "NOTE", "IMPL-ERROR", "IMPL-PANIC":
				raw(s)
			default:
				raw("NOTE " + s)
			}
		}
	}
	dir := tmpDir("c12-")
	defer os.RemoveAll(dir)
	r := &c12run{dir: dir, out: out, ref: map[string]int{}, seqStamp: map[string]int{}, ghost: map[string][]int{}, damage: map[string]string{}}
	r.memsize, _ = strconv.ParseInt(hdrVal(c.Hdr, "memsize", "100000"), 10, 64)
	r.maxmem, _ = strconv.Atoi(hdrVal(c.Hdr, "maxmem", "4"))
	r.ratio, _ = strconv.Atoi(hdrVal(c.Hdr, "ratio", "10"))
	r.sstmax, _ = strconv.ParseInt(hdrVal(c.Hdr, "sstmax", "1000000"), 10, 64)
	out(fmt.Sprintf("H memsize=%d maxmem=%d ratio=%d sstmax=%d", r.memsize, r.maxmem, r.ratio, r.sstmax))
	if err := c12manifest(dir, r, 3600); err != nil {
		out("IMPL-ERROR manifest " + err.Error())
		return
	}
	holdBackground()
	e, err := openEngine(dir)
	if err != nil {
		out("IMPL-ERROR open " + err.Error())
		return
	}
	r.e = e
	defer func() { r.e.Close() }()
	nGets := 0
	aborted := false
loop:
	for i := 0; i < len(c.Lines); i++ {
		l := c.Lines[i]
		out("OP " + strings.Join(l, " "))
		switch l[0] {
		case "put":
			k, v := tok(l[1]), tok(l[2])
			if err := r.e.Put(k, v); err != nil {
				out("W err:" + werrShort(err))
			} else {
				r.ack([]bop{{k: k, v: v}})
			}
		case "del":
			k := tok(l[1])
			if err := r.e.Delete(k); err != nil {
				out("W err:" + werrShort(err))
			} else {
				r.ack([]bop{{del: true, k: k}})
			}
		case "batch", "commit":
			n, _ := strconv.Atoi(l[1])
			ops := parseBops(c, i, n)
			for j := 1; j <= n; j++ {
				out("OP " + strings.Join(c.Lines[i+j], " "))
			}
			i += n
			if l[0] == "batch" {
				var es []*wal.Entry
				for _, o := range ops {
					if o.del {
						es = append(es, &wal.Entry{Type: wal.OpTypeDelete, Key: o.k})
					} else {
						es = append(es, &wal.Entry{Type: wal.OpTypePut, Key: o.k, Value: o.v})
					}
				}
				err = r.e.ApplyBatch(es)
			} else {
				tx, terr := r.e.BeginTransaction(false)
				if terr != nil {
					out("IMPL-ERROR begin " + terr.Error())
					aborted = true
					break loop
				}
				for _, o := range ops {
					if o.del {
						tx.Delete(o.k)
					} else {
						tx.Put(o.k, o.v)
					}
				}
				err = tx.Commit()
			}
			if err != nil {
				out("W err:" + werrShort(err))
			} else {
				r.ack(ops)
			}
		case "get":
			k := tok(l[1])
			v, err := r.e.Get(k)
			out("G " + renderGet(v, err))
			r.checkGet(k, v, err, fmt.Sprintf("op %d", i))
			nGets++
		case "flush", "full":
			pre := r.dump(false)
			hadPending := r.e.VerifStorage().VerifPendingFlush() > 0
			if err := r.e.FlushImMemTables(); err != nil {
				out("IMPL-ERROR flush " + strings.ReplaceAll(err.Error(), " ", "_"))
			}
			if l[0] == "full" {
				if hadPending {
					if err := r.e.FlushImMemTables(); err != nil {
						out("IMPL-ERROR flush " + strings.ReplaceAll(err.Error(), " ", "_"))
					}
				}
				wf := c12walFiles(dir)
				if len(wf) > 0 {
					r.retir = wf[:len(wf)-1]
				}
			}
			r.afterFlush(pre)
		case "trigger":
			pre := r.dump(false)
			if err := r.e.TriggerCompaction(); err != nil {
				out("NOTE trigger error " + strings.ReplaceAll(err.Error(), " ", "_"))
			}
			r.afterCompaction(pre, fmt.Sprintf("compaction cycle (op %d)", i))
		case "failtrigger":
			// one compaction cycle in which the creation of an output table fails: from the first
			// finished output on, the process cannot open another file (RLIMIT_NOFILE lowered to 0
			// until the cycle returns). Whatever the cycle reports, the merged content of the table
			// directory (newest version per key) must be what it was: a failed compaction may leave
			// partial outputs behind, but it may not remove or replace its inputs.
			pre := r.dump(false)
			var old syscall.Rlimit
			lowered := false
			verifhook.OnHit(func(site string, n int) {
				if site == "compact.output_done" && !lowered {
					if syscall.Getrlimit(syscall.RLIMIT_NOFILE, &old) == nil {
						lowered = syscall.Setrlimit(syscall.RLIMIT_NOFILE, &syscall.Rlimit{Cur: 0, Max: old.Max}) == nil
					}
				}
			})
			terr := r.e.TriggerCompaction()
			if lowered {
				syscall.Setrlimit(syscall.RLIMIT_NOFILE, &old)
			}
			verifhook.OnHit(nil)
			r.nFault++
			if terr != nil {
				r.nFaultErr++
			}
			out(fmt.Sprintf("NOTE failtrigger fault_injected=%v error=%v", lowered, terr != nil))
			post := c12fileNames(r.dump(false))
			if terr != nil {
				for _, f := range pre {
					if post[f.name] == nil {
						r.fail("", fmt.Sprintf("a compaction cycle that reported an error removed the table %s (%d entries)", f.name, len(f.entries)))
						break
					}
				}
			}
			r.dump(true)
		case "autofail":
			// the same fault inside the BACKGROUND worker (1 s interval): its first cycle fails at
			// the second output table, the worker's clean-up of obsolete files runs after it, further
			// cycles cannot even open the tables; after 2.6 s files can be opened again. A table that
			// existed before may be gone only if the tables that remain read the same (a cycle with a
			// single output table finishes before the fault matters).
			if !r.reopen(false, 1) {
				aborted = true
				break loop
			}
			pre := r.dump(false)
			var old syscall.Rlimit
			var lowered atomic.Bool
			verifhook.OnHit(func(site string, n int) {
				if site == "compact.output_done" && lowered.CompareAndSwap(false, true) {
					if syscall.Getrlimit(syscall.RLIMIT_NOFILE, &old) != nil ||
						syscall.Setrlimit(syscall.RLIMIT_NOFILE, &syscall.Rlimit{Cur: 0, Max: old.Max}) != nil {
						lowered.Store(false)
					}
				}
			})
			time.Sleep(2600 * time.Millisecond)
			verifhook.OnHit(nil)
			if lowered.Load() {
				syscall.Setrlimit(syscall.RLIMIT_NOFILE, &old)
			}
			r.nFault++
			out(fmt.Sprintf("NOTE autofail fault_injected=%v", lowered.Load()))
			if lowered.Load() {
				r.nFaultErr++
				// a table may only go when what it held is readable from the tables that remain (a
				// cycle whose single output was complete before the fault struck succeeds, and removes
				// its inputs rightly)
				postFiles := r.dump(false)
				post := c12fileNames(postFiles)
				for _, f := range pre {
					if post[f.name] == nil {
						if d := c12liveDiff(c12live(pre), c12live(postFiles)); d != "" {
							r.fail("", fmt.Sprintf("the background compaction worker removed the table %s (%d entries) although its compaction cycle failed: %s", f.name, len(f.entries), d))
						}
						break
					}
				}
			}
			if !r.reopen(false, 3600) {
				aborted = true
				break loop
			}
			r.dump(true)
			r.sweep(fmt.Sprintf("after autofail (op %d)", i))
		case "range":
			pre := r.dump(false)
			if err := r.e.CompactRange(tok(l[1]), tok(l[2])); err != nil {
				out("NOTE range error " + strings.ReplaceAll(err.Error(), " ", "_"))
			}
			r.afterCompaction(pre, fmt.Sprintf("range compaction (op %d)", i))
		case "reopen", "retire":
			if l[0] == "reopen" {
				r.reopened = true
			}
			if !r.reopen(l[0] == "retire", 3600) {
				aborted = true
				break loop
			}
			out("O last=" + num(lastSeq(r.e)))
			r.dump(true)
			if r.nCompact > 0 {
				r.reopenedAfterCompact = true
			}
			r.sweep(fmt.Sprintf("after %s (op %d)", l[0], i))
		case "auto":
			// the background worker: same runCompactionCycle, on its ticker. Every cycle that
			// executes a task is reported as one "trigger" of the model (A line + Z + directory).
			if !r.reopen(false, 1) {
				aborted = true
				break loop
			}
			out("O last=" + num(lastSeq(r.e)))
			cycles := r.watchWorker(i)
			out(fmt.Sprintf("A quiet cycles=%d", cycles))
			if !r.reopen(false, 3600) {
				aborted = true
				break loop
			}
			out("O last=" + num(lastSeq(r.e)))
			r.dump(true)
			r.reopenedAfterCompact = r.reopenedAfterCompact || r.nCompact > 0
			r.sweep(fmt.Sprintf("after auto (op %d)", i))
		case "files":
			r.dump(true)
		default:
			out("IMPL-ERROR bad line " + strings.Join(l, " "))
		}
	}
	if !aborted {
		r.dump(false)
		r.sweep("at the end")
	}
	if len(r.fails) == 0 {
		out("ORACLE ok")
	} else {
		// a case is a known finding only if EVERY failure in it belongs to a named class
		classes := map[string]bool{}
		all := true
		for _, cl := range r.failClass {
			if cl == "" {
				all = false
			}
			classes[cl] = true
		}
		if all {
			var cs []string
			for cl := range classes {
				cs = append(cs, cl)
			}
			sort.Strings(cs)
			for _, cl := range cs {
				out("KF " + cl)
			}
		}
	}
	nt := 0
	if r.nCompact > 0 && r.nConflict > 0 && r.reopenedAfterCompact {
		nt = 1
	}
	out(fmt.Sprintf("NOTE fault_cycles=%d of which reported an error=%d", r.nFault, r.nFaultErr))
	out(fmt.Sprintf("META ops=%d compactions=%d conflicting=%d retired_reopens=%d gets=%d failures=%d task_l0=%d task_promotion=%d task_ratio=%d task_range=%d nontrivial=%d",
		len(c.Lines), r.nCompact, r.nConflict, r.nRetired, nGets, len(r.fails), r.kinds["l0"], r.kinds["promotion"], r.kinds["ratio"], r.kinds["range"], nt))
}

// ---- generators ----

// values are unique per write (the oracle recognises versions by content)
type c12gen struct {
	w      *bufio.Writer
	r      *rand.Rand
	nval   int
	small  bool // small memtable: keep the log volume under the recovery budget
	logged int  // estimated log volume since the last retirement
	budget int
	depth  int // range compactions so far: each deepens the tree by at most one level
}

func (g *c12gen) val() string {
	g.nval++
	big := 1
	if g.small {
		big = 0
	}
	g.logged += 40
	switch pick(g.r, 8, 2, big) {
	case 0:
		return fmt.Sprintf("%04x", g.nval)
	case 1:
		n := 20 + g.r.Intn(200)
		g.logged += n
		return fmt.Sprintf("%04x", g.nval) + mkTok(lcgBytes(n, g.nval))
	default:
		g.logged += 4500
		return fmt.Sprintf("%04x", g.nval) + mkTok(lcgBytes(1500+g.r.Intn(3000), g.nval))
	}
}

func (g *c12gen) key(nkeys int) string {
	alphabet := []string{"61", "62", "-", "6162", "ff", "00", "6b65792d30303031", "6d", "7a7a", "6100", "63", "64", "65"} // "-" = the empty key
	if nkeys > len(alphabet) {
		nkeys = len(alphabet)
	}
	return alphabet[g.r.Intn(nkeys)]
}

func (g *c12gen) bops(n, nkeys int) {
	for j := 0; j < n; j++ {
		if g.r.Intn(3) == 0 {
			fmt.Fprintf(g.w, "d %s\n", g.key(nkeys))
		} else {
			fmt.Fprintf(g.w, "p %s %s\n", g.key(nkeys), g.val())
		}
	}
}

func (g *c12gen) write(nkeys int) {
	switch pick(g.r, 10, 4, 2, 3) {
	case 0:
		fmt.Fprintf(g.w, "put %s %s\n", g.key(nkeys), g.val())
	case 1:
		g.logged += 40
		fmt.Fprintf(g.w, "del %s\n", g.key(nkeys))
	case 2:
		n := 1 + g.r.Intn(3)
		fmt.Fprintf(g.w, "batch %d\n", n)
		g.bops(n, nkeys)
	case 3:
		n := 1 + g.r.Intn(3)
		fmt.Fprintf(g.w, "commit %d\n", n)
		g.bops(n, nkeys)
	}
}

func (g *c12gen) compaction(nkeys int) {
	rangeW := 3
	if g.depth >= 7 { // levels stay below 10: file-name order = numeric order (guard of the model)
		rangeW = 0
	}
	switch pick(g.r, 6, rangeW) {
	case 0:
		fmt.Fprintf(g.w, "trigger\n")
	case 1:
		a, b := g.key(nkeys), g.key(nkeys)
		if g.r.Intn(4) != 0 && a > b {
			a, b = b, a
		}
		fmt.Fprintf(g.w, "range %s %s\n", a, b)
		g.depth++
	}
}

// l0hull: a level-1 table X to the right, then two level-0 tables: A ends in front of X, B starts
// inside A's range and reaches INTO X (overwrites / deletes keys of X). The level-0 compaction
// must take the range from A's first key to B's last key: X is an input. (A hull that grows only
// when a table STARTS beyond it stops at A's last key and leaves X out.)
func (g *c12gen) l0hull(id string) {
	w, r := g.w, g.r
	fmt.Fprintf(w, "case %s memsize=100000 maxmem=2 ratio=1000000 sstmax=1000000\n", id)
	key := func(i int) string { return fmt.Sprintf("%02x", 0x61+i) } // a..z
	table := func(ks []int, dels map[int]bool) {
		sort.Ints(ks)
		for _, i := range ks {
			if dels[i] {
				fmt.Fprintf(w, "del %s\n", key(i))
			} else {
				fmt.Fprintf(w, "put %s %s\n", key(i), g.val())
			}
		}
		fmt.Fprintf(w, "full\nretire\n")
	}
	xlo := 12 + r.Intn(5) // first key of X
	xhi := xlo + 3 + r.Intn(5)
	table([]int{xlo, xlo + 1}, nil)
	table([]int{xlo + 2, xhi}, nil)
	fmt.Fprintf(w, "trigger\n") // X = [xlo..xhi] on level 1
	alo := r.Intn(3)
	ahi := alo + 2 + r.Intn(xlo-alo-3) // A ends in front of X
	table([]int{alo, alo + 1, ahi}, nil)
	blo := alo + 1 + r.Intn(ahi-alo) // B starts inside A's range ...
	dels := map[int]bool{xlo + 1: r.Intn(2) == 0}
	table([]int{blo, xlo, xlo + 1}, dels) // ... and rewrites the first keys of X
	fmt.Fprintf(w, "trigger\n")
	if r.Intn(2) == 0 {
		// a later round over the far end of X only
		table([]int{xhi, xhi + 1}, nil)
		table([]int{xhi + 1, xhi + 2}, nil)
		fmt.Fprintf(w, "trigger\n")
	}
	fmt.Fprintf(w, "retire\nreopen\n")
	for _, i := range []int{alo, blo, ahi, xlo, xlo + 1, xlo + 2, xhi} {
		fmt.Fprintf(w, "get %s\n", key(i))
	}
	fmt.Fprintf(w, "end\n")
}

// staggered: several level-0 tables from separate sessions (a retire-reopen empties the memtables,
// so each table holds only its session's keys) with key ranges of different lengths, newer tables
// overwriting/deleting keys of older ones; then range compactions over a narrow range at the low
// end: the selected tables reach beyond the range by different amounts, and older tables overlap
// only those tails (the widening loop of CompactRange has to pull them in).
func (g *c12gen) staggered(id string) {
	w, r := g.w, g.r
	fmt.Fprintf(w, "case %s memsize=100000 maxmem=8 ratio=1000000 sstmax=%d\n", id, []int{1000000, 1000000, 3}[r.Intn(3)])
	key := func(i int) string { return fmt.Sprintf("%02x", 0x61+i) } // a..z
	seen := map[int]bool{}
	table := func(ks []int, dels map[int]bool) {
		sort.Ints(ks)
		for _, i := range ks {
			if dels[i] {
				if r.Intn(2) == 0 {
					fmt.Fprintf(w, "del %s\n", key(i))
				} else {
					fmt.Fprintf(w, "commit 1\nd %s\n", key(i))
				}
			} else {
				fmt.Fprintf(w, "put %s %s\n", key(i), g.val())
			}
			seen[i] = true
		}
		fmt.Fprintf(w, "full\nretire\n")
	}
	if r.Intn(2) == 0 {
		// "tail" variant: an old table Z beyond the reach of the newest table Y, a middle table X that
		// starts inside the range, rewrites/deletes keys of Z and reaches past them; optional extras
		R := 1 + r.Intn(3)         // the range asked for is [a .. key(R)]
		yhi := R + 1 + r.Intn(3)   // last key of Y
		zlo := yhi + 1 + r.Intn(3) // first key of Z: beyond Y
		nsh := 1 + r.Intn(3)
		shared := map[int]bool{}
		for len(shared) < nsh {
			shared[zlo+r.Intn(6)] = true
		}
		maxsh := 0
		var zs, xs []int
		dels := map[int]bool{}
		for i := range shared {
			zs = append(zs, i)
			xs = append(xs, i)
			if i > maxsh {
				maxsh = i
			}
			if r.Intn(3) == 0 {
				dels[i] = true
			}
		}
		if !shared[zlo] {
			zs = append(zs, zlo)
		}
		if r.Intn(2) == 0 {
			zs = append(zs, maxsh+1+r.Intn(3))
		}
		if r.Intn(3) == 0 { // an even older table somewhere
			table([]int{r.Intn(20), 20 + r.Intn(5)}, nil)
		}
		table(zs, nil)
		xs = append(xs, r.Intn(R+1))
		if r.Intn(2) == 0 {
			xs = append(xs, maxsh+1+r.Intn(3))
		}
		table(xs, dels)
		ys := []int{r.Intn(R + 1), yhi}
		if ys[0] == xs[len(xs)-1] {
			ys[0] = (ys[0] + 1) % (R + 1)
		}
		table(ys, nil)
		fmt.Fprintf(w, "range %s %s\n", key(0), key(R))
	} else {
		ntab := 3 + r.Intn(3)
		for t := 0; t < ntab; t++ {
			lo := r.Intn(14)
			span := 1 + r.Intn(11)
			if t == ntab-1 || r.Intn(3) == 0 { // some tables start at the low end, inside the ranges asked for below
				lo = r.Intn(3)
			}
			idx := map[int]bool{lo: true, lo + span: true}
			for j := r.Intn(3); j > 0; j-- {
				idx[lo+r.Intn(span+1)] = true
			}
			var ks []int
			dels := map[int]bool{}
			for i := range idx {
				ks = append(ks, i)
				if seen[i] && r.Intn(3) == 0 {
					dels[i] = true
				}
			}
			table(ks, dels)
		}
	}
	for c := 1 + r.Intn(2); c > 0; c-- {
		a := r.Intn(3)
		fmt.Fprintf(w, "range %s %s\n", key(a), key(a+r.Intn(4)))
		if r.Intn(3) == 0 {
			fmt.Fprintf(w, "trigger\n")
		}
	}
	fmt.Fprintf(w, "full\nretire\n")
	var all []int
	for i := range seen {
		all = append(all, i)
	}
	sort.Ints(all)
	for _, i := range all {
		fmt.Fprintf(w, "get %s\n", key(i))
	}
	fmt.Fprintf(w, "end\n")
}

// a restart between flushes makes file numbers disagree with age (they restart at 1 on every open):
// a small level 1, two or three big overlapping level-0 tables from the first session, then after
// the restart an overwrite or delete of one of their keys, everything flushed, one compaction
// cycle (size-ratio selection on level 0: fewer than maxmem tables there), the flushed log
// retired, and the reads
func (g *c12gen) restartRatio(id string) {
	w, r := g.w, g.r
	fmt.Fprintf(w, "case %s memsize=100000 maxmem=%d ratio=2 sstmax=1000000\n", id, 4+r.Intn(2))
	key := func(i int) string { return mkTok([]byte(fmt.Sprintf("k%02d", i))) }
	big := func() string { return fmt.Sprintf("@%d:%d", 2000+r.Intn(3000), r.Intn(100000)) }
	fmt.Fprintf(w, "put %s 01\nflush\nrange %s %s\n", key(30), key(30), key(30))
	nt := 2 + r.Intn(2)
	var keys []int
	for t := 0; t < nt; t++ {
		k := r.Intn(20)
		keys = append(keys, k)
		fmt.Fprintf(w, "put %s %s\n", key(k), big())
		fmt.Fprintf(w, "flush\n")
	}
	fmt.Fprintf(w, "reopen\n")
	k := keys[r.Intn(len(keys)-1)] // not only the key of the newest table
	if r.Intn(3) == 0 {
		fmt.Fprintf(w, "del %s\n", key(k))
	} else {
		fmt.Fprintf(w, "put %s %s\n", key(k), big())
	}
	fmt.Fprintf(w, "full\ntrigger\n")
	if r.Intn(3) == 0 {
		fmt.Fprintf(w, "trigger\n")
	}
	fmt.Fprintf(w, "retire\n")
	for _, k := range keys {
		fmt.Fprintf(w, "get %s\n", key(k))
	}
	fmt.Fprintf(w, "get %s\nend\n", key(30))
}

// an old version pushed two or three levels down by range compactions, then the key deleted
// (directly or by a transaction), everything flushed, the log retired and the database restarted
// (the in-memory tombstone tracker is empty again), then one to three compaction cycles that
// promote the deletion marker level by level above the old version; finally the reads
func (g *c12gen) deepTombstone(id string) {
	w, r := g.w, g.r
	fmt.Fprintf(w, "case %s memsize=100000 maxmem=4 ratio=10 sstmax=1000000\n", id)
	key := func(i int) string { return mkTok([]byte(fmt.Sprintf("k%02d", i))) }
	k := r.Intn(20)
	other := (k + 1 + r.Intn(18)) % 20
	fmt.Fprintf(w, "put %s %s\n", key(k), mkTok([]byte("old")))
	if r.Intn(2) == 0 {
		fmt.Fprintf(w, "put %s %s\n", key(other), mkTok([]byte("o")))
	}
	fmt.Fprintf(w, "full\n")
	for d := 2 + r.Intn(2); d > 0; d-- {
		fmt.Fprintf(w, "range %s %s\n", key(0), key(25))
	}
	if r.Intn(3) == 0 {
		fmt.Fprintf(w, "commit 1\nd %s\n", key(k))
	} else {
		fmt.Fprintf(w, "del %s\n", key(k))
	}
	fmt.Fprintf(w, "full\nretire\n")
	for t := 1 + r.Intn(3); t > 0; t-- {
		fmt.Fprintf(w, "trigger\n")
	}
	fmt.Fprintf(w, "reopen\nget %s\nget %s\nend\n", key(k), key(other))
}

// a compaction cycle whose output cannot be completed (several small output tables: sstmax 1..2;
// the fault strikes after the first one), then ordinary cycles, everything flushed, the log
// retired, a restart, and the reads (mode=fault: oracle only)
func (g *c12gen) faultCycle(id string) {
	w, r := g.w, g.r
	fmt.Fprintf(w, "case %s mode=fault memsize=100000 maxmem=2 ratio=10 sstmax=%d\n", id, 1+r.Intn(2))
	key := func(i int) string { return mkTok([]byte(fmt.Sprintf("k%02d", i))) }
	nk := 4 + r.Intn(5)
	for t := 0; t < 2+r.Intn(2); t++ {
		for j := 0; j < 2+r.Intn(4); j++ {
			k := r.Intn(nk)
			if r.Intn(5) == 0 {
				fmt.Fprintf(w, "del %s\n", key(k))
			} else {
				fmt.Fprintf(w, "put %s %s\n", key(k), mkTok([]byte(fmt.Sprintf("v%d-%d", t, j))))
			}
		}
		fmt.Fprintf(w, "flush\n")
	}
	if r.Intn(2) == 0 {
		fmt.Fprintf(w, "autofail\n")
	} else {
		fmt.Fprintf(w, "failtrigger\n")
	}
	for t := r.Intn(3); t > 0; t-- {
		fmt.Fprintf(w, "trigger\n")
	}
	fmt.Fprintf(w, "full\nretire\n")
	for i := 0; i < nk; i++ {
		fmt.Fprintf(w, "get %s\n", key(i))
	}
	fmt.Fprintf(w, "end\n")
}

func genC12(w *bufio.Writer, seed int64, n int, tier string) {
	r := rand.New(rand.NewSource(seed*7919 + 12))
	for ci := 0; ci < n; ci++ {
		g := &c12gen{w: w, r: r}
		if ci%16 == 5 {
			g.restartRatio(fmt.Sprintf("c12-%d-%d", seed, ci))
			continue
		}
		if ci%16 == 9 {
			g.deepTombstone(fmt.Sprintf("c12-%d-%d", seed, ci))
			continue
		}
		if ci%16 == 13 {
			g.faultCycle(fmt.Sprintf("c12-%d-%d", seed, ci))
			continue
		}
		if ci%16 == 3 {
			g.l0hull(fmt.Sprintf("c12-%d-%d", seed, ci))
			continue
		}
		if ci%4 == 2 {
			g.staggered(fmt.Sprintf("c12-%d-%d", seed, ci))
			continue
		}
		memsize := []int{1500, 100000, 100000, 100000}[r.Intn(4)]
		maxmem := 2 + r.Intn(3)
		g.small = memsize < 100000
		g.budget = memsize * maxmem * 2 / 5
		ratio := []int{2, 2, 10, 1000000}[r.Intn(4)]
		sstmax := []int{1, 2, 3, 1000000, 1000000}[r.Intn(5)]
		fmt.Fprintf(w, "case c12-%d-%d memsize=%d maxmem=%d ratio=%d sstmax=%d\n", seed, ci, memsize, maxmem, ratio, sstmax)
		nkeys := 2 + r.Intn(5)
		rounds := 2 + r.Intn(5)
		if tier == "thorough" && ci%25 == 0 {
			rounds = 10 + r.Intn(10)
		}
		for rd := 0; rd < rounds; rd++ {
			// a few writes, into a table file
			nw := 1 + r.Intn(4)
			for j := 0; j < nw; j++ {
				g.write(nkeys)
			}
			if g.logged > g.budget { // stay clear of the recovery budget (C02's finding, not ours)
				fmt.Fprintf(w, "full\nretire\n")
				g.logged = 0
			}
			if r.Intn(6) == 0 {
				fmt.Fprintf(w, "flush\n")
			} else {
				fmt.Fprintf(w, "full\n")
			}
			switch pick(r, 4, 5, 2, 2, 1, 2, 2, 2) {
			case 0:
			case 1:
				g.compaction(nkeys)
			case 2:
				fmt.Fprintf(w, "full\nretire\n")
				g.logged = 0
			case 3:
				fmt.Fprintf(w, "reopen\n")
			case 4:
				fmt.Fprintf(w, "get %s\n", g.key(nkeys+1))
			case 5:
				// everything two levels down (a gap at the level in between), fresh data on top,
				// then cycles: promotion into the gap, cascades
				if g.depth >= 6 {
					break
				}
				g.depth += 2
				fmt.Fprintf(w, "range 00 ff\nrange 00 ff\n")
				g.write(nkeys)
				fmt.Fprintf(w, "full\ntrigger\ntrigger\n")
			case 6:
				// a large level-0 file over a small deeper level: the size-ratio rule
				if !g.small && g.depth < 7 {
					g.depth++
					fmt.Fprintf(w, "range 00 ff\n")
					for j := 0; j < 2; j++ {
						g.nval++
						g.logged += 4500
						fmt.Fprintf(w, "put %s %s\n", g.key(nkeys), fmt.Sprintf("%04x", g.nval)+mkTok(lcgBytes(3000+r.Intn(2000), g.nval)))
					}
					fmt.Fprintf(w, "full\ntrigger\n")
				}
			case 7:
				// a delete whose marker meets a compaction that does not know about it: after a restart
				// (tracker empty) or committed by a transaction (never tracked)
				k := g.key(nkeys)
				if r.Intn(2) == 0 {
					g.logged += 40
					fmt.Fprintf(w, "del %s\nfull\nreopen\n", k)
				} else {
					g.logged += 40
					fmt.Fprintf(w, "commit 1\nd %s\nfull\n", k)
				}
				g.compaction(nkeys)
			}
		}
		if ci%40 == 7 { // the background worker's own cycles (slow: seconds per case)
			fmt.Fprintf(w, "auto\n")
		}
		if r.Intn(3) != 0 {
			g.compaction(nkeys)
		}
		fmt.Fprintf(w, "full\nretire\n")
		for k := 0; k < nkeys; k++ {
			fmt.Fprintf(w, "get %s\n", []string{"61", "62", "-", "6162", "ff", "00", "6b65792d30303031", "6d"}[k])
		}
		fmt.Fprintf(w, "end\n")
	}
}

var _ = verifhook.Hits
