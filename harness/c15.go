package main

// C15 — replicas cannot stall or fail the primary.  Dynamic probes.
//
// One case = one primary built from the real packages (engine.EngineFacade +
// replication.Manager in primary mode on a loopback port, heartbeat interval/timeout shortened
// through PrimaryConfig.HeartbeatConfig), optionally real healthy replicas (replication.Manager
// in replica mode), and one misbehaving peer: a raw gRPC client of the replication service.
//
// Header: probe=<kind> healthy=<n> puts=<n> vsize=<bytes> bound=<s> hbint=<ms> hbto=<ms>
//   stall-reader    opens StreamWAL and never reads the stream
//   stall-idle      the same, but the primary stops writing once the stream is stuck: only the
//                   heartbeat timeout can evict the peer
//   no-ack          reads the stream, never acknowledges (what the real replica does, too)
//   slow-apply      reads one response every 200 ms
//   abrupt-close    connected through a TCP forwarder that resets every connection mid-workload
//   tcp-stall       forwarder stops moving bytes (connection stays open)
//   writer-vs-poll  no misbehaving peer at all: healthy replicas only, continuous writer
//   session-churn   (c15churn.go) dozens of raw replicas whose streams all end at the same moment, round
//                   after round, under continuous writers and topology readers; run in a child process
//   ack-retention   the primary's log was rotated (a flush); replica S acknowledged sequence 1 once and
//                   lags; two raw replicas read their streams and acknowledge continuously (every
//                   Acknowledge runs the WAL retention); continuous writer
// The workload is `puts` Put calls of `vsize` bytes (every 8th followed by a Get, every 16th by a
// two-key transaction), each under a watchdog of `bound` seconds.
// Observations (the model runner recomputes the =known verdicts from the generated call-graph
// table, BlockView.known_blocked_path / known_inversion):
//   P ops=<n> all within bound
//   B op=<put|get|commit> chain=known        + NOTE CHAIN <root..leaf>   (blocked in / behind Stream.Send)
//   D op=<..> inversion=known                + NOTE INVERSION <fa> <fb>  (lock-order deadlock)
//   E evicted=0|1                            (the misbehaving peer left the reported topology in time)
//   H converged=0|1                          (every healthy replica reached the primary's state)

import (
	"bufio"
	"context"
	"fmt"
	"math/rand"
	"os"
	"regexp"
	"runtime"
	"strconv"
	"strings"
	"sync"
	"sync/atomic"
	"time"

	"github.com/KevoDB/kevo/pkg/replication"
	rproto "github.com/KevoDB/kevo/proto/kevo/replication"
	"google.golang.org/grpc"
	"google.golang.org/grpc/credentials/insecure"
	"google.golang.org/grpc/metadata"
)

func init() { register("C15", &Prop{Gen: genC15, Run: runC15, Child: childC15}) }

func removeAll(p string) {
	if p != "" {
		os.RemoveAll(p)
	}
}

// ---- stacks -----------------------------------------------------------------------------

type gStack struct {
	state  string
	frames []string // innermost first, normalised "pkg.Type.Method"
	raw    []string
}

var closureRe = regexp.MustCompile(`\.func\d+(\.\d+)*$`)
var genericRe = regexp.MustCompile(`\[\.\.\.\]`)

func normFrame(fn string) string {
	fn = genericRe.ReplaceAllString(fn, "")
	i := strings.LastIndex(fn, "/")
	fn = fn[i+1:]
	fn = strings.ReplaceAll(fn, "(*", "")
	fn = strings.ReplaceAll(fn, ")", "")
	return fn
}

func allStacks() []gStack {
	buf := make([]byte, 8<<20)
	n := runtime.Stack(buf, true)
	var out []gStack
	for _, blk := range strings.Split(string(buf[:n]), "\n\n") {
		lines := strings.Split(blk, "\n")
		if len(lines) == 0 || !strings.HasPrefix(lines[0], "goroutine ") {
			continue
		}
		g := gStack{}
		if i := strings.Index(lines[0], "["); i >= 0 {
			g.state = strings.TrimSuffix(strings.TrimSpace(lines[0][i+1:]), "]:")
		}
		for _, l := range lines[1:] {
			if strings.HasPrefix(l, "\t") || strings.HasPrefix(l, "created by") {
				continue
			}
			name := l
			if i := strings.LastIndex(l, "("); i > 0 {
				name = l[:i]
			}
			g.raw = append(g.raw, name)
			g.frames = append(g.frames, normFrame(name))
		}
		out = append(out, g)
	}
	return out
}

// the packages of the generated call graph (gofacts/blocking.go blockingPkgs)
var analysedPrefix = []string{"github.com/KevoDB/kevo/pkg/wal.", "github.com/KevoDB/kevo/pkg/engine/storage.", "github.com/KevoDB/kevo/pkg/replication."}

func analysedFrame(raw string) bool {
	for _, p := range analysedPrefix {
		if strings.HasPrefix(raw, p) {
			return true
		}
	}
	return false
}

// chainOf: the frames of the analysed packages, outermost first, closures dropped
func chainOf(g gStack) []string {
	var c []string
	for i := len(g.frames) - 1; i >= 0; i-- {
		f := g.frames[i]
		if !analysedFrame(g.raw[i]) || closureRe.MatchString(f) {
			continue
		}
		c = append(c, f)
	}
	return c
}

func (g gStack) has(sub string) bool {
	for _, f := range g.raw {
		if strings.Contains(f, sub) {
			return true
		}
	}
	return false
}

// waitsForLock: the innermost frames are a mutex acquisition
func (g gStack) waitsForLock() bool {
	for i, f := range g.raw {
		if i > 6 {
			break
		}
		if strings.Contains(f, "sync.(*Mutex).Lock") || strings.Contains(f, "sync.(*RWMutex).Lock") || strings.Contains(f, "sync.(*RWMutex).RLock") {
			return true
		}
	}
	return false
}

type blockDiag struct {
	kind       string // send | inversion | unknown
	chain      []string
	fa, fb     string
	other      []string // chain of the goroutine that waits for the WAL mutex
	sendChains [][]string
}

// diagnose why a client operation of the primary does not return
func diagnoseBlock() blockDiag {
	d := blockDiag{kind: "unknown"}
	stacks := allStacks()
	var writer *gStack
	for i := range stacks {
		g := &stacks[i]
		if g.has("storage.(*Manager).Put") || g.has("storage.(*Manager).ApplyBatch") || g.has("storage.(*Manager).Delete") || g.has("storage.(*Manager).Get(") {
			if g.has("main.") { // the watchdog goroutine running the client operation
				writer = g
				break
			}
		}
	}
	if writer == nil {
		for i := range stacks {
			if stacks[i].has("storage.(*Manager).Put") || stacks[i].has("storage.(*Manager).ApplyBatch") {
				writer = &stacks[i]
				break
			}
		}
	}
	if writer != nil {
		d.chain = chainOf(*writer)
	}
	// somebody blocked in Stream.Send with replication frames?
	for i := range stacks {
		g := &stacks[i]
		if (g.has("grpc.(*serverStream).SendMsg") || g.has("WALReplicationService_StreamWALServer).Send") || g.has("GenericServerStream")) && g.has("pkg/replication.") {
			c := chainOf(*g)
			if len(c) > 0 {
				d.sendChains = append(d.sendChains, c)
			}
		}
	}
	if len(d.sendChains) > 0 {
		d.kind = "send"
		return d
	}
	// lock-order inversion: the writer waits for a lock inside the observer callback while another
	// goroutine waits for the WAL mutex inside the catch-up fetch
	if writer != nil && writer.waitsForLock() && len(d.chain) > 0 {
		best := 0
		for i := range stacks {
			g := &stacks[i]
			if g == writer || !g.waitsForLock() {
				continue
			}
			c := chainOf(*g)
			if len(c) == 0 {
				continue
			}
			leaf := c[len(c)-1]
			// waits for the WAL mutex; of several such goroutines report the one with the longest chain
			if strings.HasPrefix(leaf, "wal.WAL.") && len(c) > best {
				best = len(c)
				d.kind = "inversion"
				d.fa = d.chain[len(d.chain)-1]
				d.fb = leaf
				d.other = c
			}
		}
	}
	return d
}

// ---- misbehaving peers --------------------------------------------------------------------

type rawPeer struct {
	cl     rproto.WALReplicationServiceClient
	sid    string
	conn   *grpc.ClientConn
	cancel context.CancelFunc
	addr   string // the listener address it announced (identifies it in the topology)
	recvd  int
	mu     sync.Mutex
}

func dialRaw(target, announce string) (*rawPeer, rproto.WALReplicationService_StreamWALClient, error) {
	conn, err := grpc.NewClient(target, grpc.WithTransportCredentials(insecure.NewCredentials()))
	if err != nil {
		return nil, nil, err
	}
	ctx, cancel := context.WithCancel(context.Background())
	cl := rproto.NewWALReplicationServiceClient(conn)
	st, err := cl.StreamWAL(ctx, &rproto.WALStreamRequest{StartSequence: 1, ProtocolVersion: 1,
		CompressionSupported: true, PreferredCodec: rproto.CompressionCodec_ZSTD, ListenerAddress: announce})
	if err != nil {
		cancel()
		conn.Close()
		return nil, nil, err
	}
	sid := ""
	hdrOK := withTimeout(10*time.Second, func() {
		if md, err := st.Header(); err == nil {
			if v := md.Get("session-id"); len(v) > 0 {
				sid = v[0]
			}
		}
	})
	if !hdrOK {
		cancel()
		conn.Close()
		return nil, nil, fmt.Errorf("no stream header within 10s")
	}
	return &rawPeer{cl: cl, sid: sid, conn: conn, cancel: cancel, addr: announce}, st, nil
}

// ack sends one acknowledgement the way the replica does (session id in the metadata)
func (p *rawPeer) ack(upTo uint64) error {
	ctx, cancel := context.WithTimeout(metadata.NewOutgoingContext(context.Background(), metadata.Pairs("session-id", p.sid)), 10*time.Second)
	defer cancel()
	_, err := p.cl.Acknowledge(ctx, &rproto.Ack{AcknowledgedUpTo: upTo})
	return err
}

// nack asks for a re-send from the given sequence number, like a replica that saw a gap
func (p *rawPeer) nack(from uint64) error {
	ctx, cancel := context.WithTimeout(metadata.NewOutgoingContext(context.Background(), metadata.Pairs("session-id", p.sid)), 10*time.Second)
	defer cancel()
	_, err := p.cl.NegativeAcknowledge(ctx, &rproto.Nack{MissingFromSequence: from})
	return err
}

func drain(st rproto.WALReplicationService_StreamWALClient) {
	for {
		if _, err := st.Recv(); err != nil {
			return
		}
	}
}

func (p *rawPeer) close() {
	p.cancel()
	withTimeout(3*time.Second, func() { p.conn.Close() })
}

// ---- run ----------------------------------------------------------------------------------

func topologyHas(pm *replication.Manager, addr string) (bool, bool) {
	var reps []replication.ReplicationNodeInfo
	ok := withTimeout(3*time.Second, func() { _, _, reps, _, _ = pm.GetNodeInfo() })
	if !ok {
		return false, false
	}
	for _, r := range reps {
		if r.Address == addr {
			return true, true
		}
	}
	return false, true
}

func runC15(cs *Case, out func(string)) {
	probe := hdrVal(cs.Hdr, "probe", "stall-reader")
	if probe == "session-churn" {
		runC15Churn(cs, out) // in a child process: the failure looked for kills the process
		return
	}
	nHealthy, _ := strconv.Atoi(hdrVal(cs.Hdr, "healthy", "1"))
	puts, _ := strconv.Atoi(hdrVal(cs.Hdr, "puts", "400"))
	vsize, _ := strconv.Atoi(hdrVal(cs.Hdr, "vsize", "16384"))
	boundS, _ := strconv.Atoi(hdrVal(cs.Hdr, "bound", "5"))
	hbint, _ := strconv.Atoi(hdrVal(cs.Hdr, "hbint", "500"))
	hbto, _ := strconv.Atoi(hdrVal(cs.Hdr, "hbto", "2000"))
	bound := time.Duration(boundS) * time.Second

	hb := &replication.HeartbeatConfig{Interval: time.Duration(hbint) * time.Millisecond, Timeout: time.Duration(hbto) * time.Millisecond, SendEmptyResponses: true}
	pdir, pe, pm, paddr, err := newPrimaryNode(hb)
	if err != nil {
		out("IMPL-ERROR primary: " + err.Error())
		return
	}
	blocked := false
	var healthy []*replCluster
	var proxy *netProxy
	var peer *rawPeer
	defer func() {
		if peer != nil {
			peer.close()
		}
		for _, h := range healthy {
			h.stopReplicaMgr()
			if h.proxy != nil {
				h.proxy.Close()
			}
			re := h.re
			withTimeout(5*time.Second, func() { re.Close() })
			removeAll(h.rdir)
		}
		if proxy != nil {
			proxy.Close()
		}
		if !withTimeout(5*time.Second, func() { pm.Stop() }) {
			out("NOTE primary-stop-hang")
		}
		if !blocked {
			withTimeout(5*time.Second, func() { pe.Close() })
		}
		removeAll(pdir)
	}()

	// healthy replicas (real replication managers)
	for i := 0; i < nHealthy; i++ {
		h := &replCluster{retry: 300 * time.Millisecond, paddr: paddr}
		h.proxy, _ = newNetProxy(paddr)
		h.raddr = freeAddr()
		h.rdir = tmpDir("c15r-")
		if err := writeManifest(h.rdir, 256<<20, 8, nil); err != nil {
			out("IMPL-ERROR " + err.Error())
			return
		}
		if h.re, err = openEngine(h.rdir); err != nil {
			out("IMPL-ERROR replica engine: " + err.Error())
			return
		}
		if err := h.startReplicaMgr(); err != nil {
			out("IMPL-ERROR replica start: " + err.Error())
			return
		}
		healthy = append(healthy, h)
	}
	pc := &replCluster{pm: pm}
	if nHealthy > 0 {
		dl := time.Now().Add(15 * time.Second)
		for time.Now().Before(dl) && len(pc.sessions()) < nHealthy {
			time.Sleep(20 * time.Millisecond)
		}
	}

	// the client operations, each under the watchdog
	nops := 0
	var maxLat time.Duration
	var blockedOp string
	bytesWritten := 0
	var slowDiag *blockDiag
	var slowMu sync.Mutex
	nslow := 0
	op := func(name string, f func() error) bool {
		if blocked {
			return false
		}
		t0 := time.Now()
		var err error
		// an operation that takes over a second is looked at while it waits (what holds it up?)
		probeT := time.AfterFunc(time.Second, func() {
			d := diagnoseBlock()
			slowMu.Lock()
			if slowDiag == nil || d.kind == "send" {
				slowDiag = &d
			}
			slowMu.Unlock()
		})
		defer func() {
			probeT.Stop()
			if time.Since(t0) > time.Second {
				nslow++
			}
		}()
		done := make(chan struct{})
		go func() { defer close(done); err = f() }()
		select {
		case <-done:
		case <-time.After(bound):
			// not back within the bound: if the client goroutine sits in a system call on the log or a
			// table file (fsync, write) and waits for no lock and no peer, the DISK is slow (heavy I/O
			// load on the machine), which says nothing about replicas; wait for it up to a minute
			ioStall := false
			for _, g := range allStacks() {
				if (g.has("storage.(*Manager).Put") || g.has("storage.(*Manager).ApplyBatch") || g.has("storage.(*Manager).Delete")) && g.has("main.") {
					ioStall = !g.waitsForLock() && (g.has("syscall.Syscall") || g.has("internal/poll.(*FD).Fsync") || g.has("os.(*File).Sync") || g.has("internal/poll.(*FD).Write"))
					break
				}
			}
			stillBlocked := true
			if ioStall {
				out("NOTE " + name + " exceeded the bound inside a file system call: waiting on")
				select {
				case <-done:
					stillBlocked = false
				case <-time.After(60 * time.Second):
				}
			}
			if stillBlocked {
				blocked = true
				blockedOp = name
				return false
			}
		}
		if err != nil {
			out("NOTE " + name + " error: " + strings.ReplaceAll(err.Error(), "\n", " "))
		}
		if d := time.Since(t0); d > maxLat {
			maxLat = d
		}
		nops++
		return true
	}
	put := func(i int) bool {
		k := []byte(fmt.Sprintf("key-%06d", i))
		v := lcgBytes(vsize, i+1)
		ok := op("put", func() error { return pe.Put(k, v) })
		if ok {
			bytesWritten += vsize
		}
		return ok
	}
	// baseline without the misbehaving peer
	for i := 0; i < 4; i++ {
		put(1000000 + i)
	}
	op("get", func() error { _, err := pe.Get([]byte("key-1000000")); return err })

	// attach the misbehaving peer
	announce := "127.0.0.1:1"
	target := paddr
	if probe == "abrupt-close" || probe == "tcp-stall" {
		proxy, err = newNetProxy(paddr)
		if err != nil {
			out("IMPL-ERROR proxy: " + err.Error())
			return
		}
		target = proxy.addr()
	}
	expectEvict := false
	var ackers []*rawPeer
	stopAcks := make(chan struct{})
	var ackSeq atomic.Uint64
	defer func() {
		close(stopAcks)
		for _, a := range ackers {
			a.close()
		}
	}()
	if probe == "ack-retention" {
		// a rotated log: the directory holds an old log file next to the current one
		op("flush", func() error { return pe.FlushImMemTables() })
		for i, name := range []string{"S", "H1", "H2"} {
			a, st, err := dialRaw(paddr, fmt.Sprintf("127.0.0.1:%d", 2+i))
			if err != nil {
				out("IMPL-ERROR peer " + name + ": " + err.Error())
				return
			}
			ackers = append(ackers, a)
			go drain(st)
			if err := a.ack(1); err != nil {
				out("NOTE first acknowledgement of " + name + " failed: " + err.Error())
			}
		}
		ackSeq.Store(1)
		for _, a := range ackers[1:] { // S never acknowledges again
			a := a
			go func() {
				for {
					select {
					case <-stopAcks:
						return
					default:
					}
					a.ack(ackSeq.Load())
					time.Sleep(time.Millisecond)
				}
			}()
		}
	}
	if probe != "writer-vs-poll" && probe != "ack-retention" {
		var st rproto.WALReplicationService_StreamWALClient
		peer, st, err = dialRaw(target, announce)
		if err != nil {
			out("IMPL-ERROR peer: " + err.Error())
			return
		}
		switch probe {
		case "stall-reader", "stall-idle":
			expectEvict = true // never reads
		case "no-ack", "lag-tx-tail":
			go func() {
				for {
					if _, err := st.Recv(); err != nil {
						return
					}
					peer.mu.Lock()
					peer.recvd++
					peer.mu.Unlock()
				}
			}()
		case "slow-apply":
			go func() {
				for {
					if _, err := st.Recv(); err != nil {
						return
					}
					time.Sleep(200 * time.Millisecond)
				}
			}()
		case "abrupt-close", "tcp-stall":
			expectEvict = true
			go func() {
				for {
					if _, err := st.Recv(); err != nil {
						return
					}
				}
			}()
		}
		has, ok := topologyHas(pm, announce)
		if !ok || !has {
			out("NOTE the peer is not listed in the topology after its stream was opened")
		}
	}

	// workload
	t0 := time.Now()
	for i := 0; i < puts && !blocked; i++ {
		if i == puts/4 {
			switch probe {
			case "abrupt-close":
				proxy.Cut()
			case "tcp-stall":
				proxy.Stall()
			}
		}
		if !put(i) {
			break
		}
		if i%8 == 7 {
			k := []byte(fmt.Sprintf("key-%06d", i))
			op("get", func() error { _, err := pe.Get(k); return err })
		}
		if i%16 == 15 {
			op("commit", func() error {
				t, err := pe.BeginTransaction(false)
				if err != nil {
					return err
				}
				t.Put([]byte(fmt.Sprintf("tx-%06d-a", i)), []byte("1"))
				t.Put([]byte(fmt.Sprintf("tx-%06d-b", i)), []byte("2"))
				return t.Commit()
			})
		}
		if probe == "ack-retention" {
			ackSeq.Store(uint64(nops))
		}
		if (probe == "writer-vs-poll" || probe == "ack-retention") && (time.Since(t0) > 4*time.Second || i >= 4000) {
			break
		}
	}
	if probe == "lag-tx-tail" && !blocked {
		// the peer never acknowledges, so every catch-up fetch starts at its start sequence: the log
		// now ENDS with a transaction that straddles the 100th entry of such a fetch; the primary
		// stays idle for a while (several fetches run), then the next write must still be served
		op("commit", func() error {
			t, err := pe.BeginTransaction(false)
			if err != nil {
				return err
			}
			for j := 0; j < 3+puts%5; j++ {
				t.Put([]byte(fmt.Sprintf("tail-%d", j)), []byte("t"))
			}
			return t.Commit()
		})
		time.Sleep(1500 * time.Millisecond)
		put(puts)
	}
	fails := []string{}
	kfs := map[string]bool{}
	if blocked {
		d := diagnoseBlock()
		switch d.kind {
		case "send":
			out(fmt.Sprintf("B op=%s chain=known", blockedOp))
			out("NOTE CHAIN " + strings.Join(d.chain, " "))
			for _, c := range d.sendChains {
				out("NOTE SENDCHAIN " + strings.Join(c, " "))
			}
		case "inversion":
			out(fmt.Sprintf("D op=%s inversion=known", blockedOp))
			out("NOTE INVERSION " + d.fa + " " + d.fb)
			out("NOTE OTHER " + strings.Join(d.other, " "))
			out("NOTE CHAIN " + strings.Join(d.chain, " "))
		default:
			out(fmt.Sprintf("U op=%s blocked for an unrecognised reason", blockedOp))
			out("NOTE CHAIN " + strings.Join(d.chain, " "))
		}
		fails = append(fails, fmt.Sprintf("primary %s did not return within %ds after %d operations and %d bytes written with probe %s (%s)",
			blockedOp, boundS, nops, bytesWritten, probe, d.kind))
	} else {
		out(fmt.Sprintf("P ops=ok"))
		// "complete in their normal time": the same workload without a misbehaving peer takes a few
		// seconds; operations repeatedly held up for over a second by a peer are a failure too
		if el := time.Since(t0); nslow >= 5 && el > 30*time.Second {
			kind := "unknown"
			slowMu.Lock()
			defer slowMu.Unlock()
			if slowDiag != nil {
				kind = slowDiag.kind
				out("NOTE CHAIN " + strings.Join(slowDiag.chain, " "))
				for _, c := range slowDiag.sendChains {
					out("NOTE SENDCHAIN " + strings.Join(c, " "))
				}
			}
			fails = append(fails, fmt.Sprintf("the workload took %.0fs with %d operations over 1 s: the primary runs at the pace of the %s peer (%s)", el.Seconds(), nslow, probe, kind))
			if kind == "send" {
				out("B op=slow chain=known")
			}
		}
	}
	out(fmt.Sprintf("NOTE ops=%d max_latency_ms=%d slow_ops=%d bytes=%d elapsed=%.1fs", nops, maxLat.Milliseconds(), nslow, bytesWritten, time.Since(t0).Seconds()))

	// eviction of the misbehaving peer
	if expectEvict && !blocked {
		limit := time.Duration(hbto+2*hbint)*time.Millisecond + 3*time.Second
		if probe == "tcp-stall" {
			limit += 2 * time.Second
		}
		dl := time.Now().Add(limit)
		ev := false
		for time.Now().Before(dl) {
			has, ok := topologyHas(pm, announce)
			if ok && !has {
				ev = true
				break
			}
			// the primary notices a dead peer only when it sends: keep a trickle of writes going
			// (not for stall-idle, where only the heartbeat timeout may evict)
			if probe != "stall-idle" {
				op("put", func() error { return pe.Put([]byte("trickle"), []byte("x")) })
			}
			time.Sleep(100 * time.Millisecond)
		}
		if blocked {
			d := diagnoseBlock()
			out(fmt.Sprintf("NOTE blocked while waiting for the eviction: %s %s", d.kind, strings.Join(d.chain, " ")))
			fails = append(fails, "primary put did not return while the misbehaving peer was to be evicted ("+d.kind+")")
			switch d.kind {
			case "send":
			case "inversion":
			}
		} else {
			b := 0
			if ev {
				b = 1
			}
			out(fmt.Sprintf("E evicted=%d", b))
			if !ev {
				fails = append(fails, fmt.Sprintf("the %s peer is still in the reported topology %.1fs after it stopped", probe, limit.Seconds()))
			}
		}
	}

	// healthy replicas must still converge (two closing writes: see C14 D18d)
	if nHealthy > 0 && !blocked {
		op("put", func() error { return pe.Put([]byte("zz-final-1"), []byte("1")) })
		op("put", func() error { return pe.Put([]byte("zz-final-2"), []byte("2")) })
		conv := !blocked
		if !blocked {
			// the replica catches up one response (about 100 sequence numbers) per reconnect cycle
			wait := 40*time.Second + time.Duration(nops/100)*1500*time.Millisecond
			dl := time.Now().Add(wait)
			for _, h := range healthy {
				okh := false
				for time.Now().Before(dl) {
					ps, _ := scanEngine(pe)
					rs, _ := scanEngine(h.re)
					if scansEqual(ps, rs) {
						okh = true
						break
					}
					time.Sleep(200 * time.Millisecond)
				}
				if !okh {
					conv = false
				}
			}
		}
		b := 0
		if conv {
			b = 1
		}
		out(fmt.Sprintf("H converged=%d", b))
		if !conv {
			fails = append(fails, fmt.Sprintf("a healthy replica did not reach the primary's state within 40s + 1.5s per 100 operations (%d operations) after the workload", nops))
		}
	}
	if len(fails) == 0 {
		out("ORACLE ok")
	} else {
		out("ORACLE FAIL " + fails[0])
		for k := range kfs {
			out("KF " + k)
		}
	}
	nt := 0
	if bytesWritten > 256<<10 || blocked || (probe == "ack-retention" && nops > 1000) {
		nt = 1
	}
	out(fmt.Sprintf("META probe=%s healthy=%d ops=%d blocked=%v mb=%.1f nontrivial=%d", probe, nHealthy, nops, blocked, float64(bytesWritten)/(1<<20), nt))
}

func genC15(w *bufio.Writer, seed int64, n int, tier string) {
	r := rand.New(rand.NewSource(seed*104729 + 15))
	kinds := []string{"ack-retention", "stall-idle", "abrupt-close", "tcp-stall", "no-ack", "slow-apply", "stall-reader", "writer-vs-poll", "session-churn", "lag-tx-tail"}
	for i := 0; i < n; i++ {
		k := kinds[i%len(kinds)]
		if k == "session-churn" {
			fmt.Fprintf(w, "case g%d-%d probe=session-churn peers=%d rounds=%d roundms=%d hbint=300 hbto=1200\nend\n", seed, i, 32+16*r.Intn(4), 4+r.Intn(8), 100+50*r.Intn(5))
			continue
		}
		healthy := 1
		puts := 320
		vsize := 16384
		if tier == "thorough" {
			healthy = r.Intn(3)
			puts = 200 + r.Intn(400)
			vsize = []int{4096, 16384, 30000}[r.Intn(3)]
		}
		if k == "lag-tx-tail" {
			// 4 baseline puts + 85 puts + the workload's 5 two-key transactions = 99 entries, then the tail transaction
			fmt.Fprintf(w, "case g%d-%d probe=lag-tx-tail healthy=%d puts=85 vsize=64 bound=5 hbint=500 hbto=2000\nend\n", seed, i, r.Intn(2))
			continue
		}
		if k == "writer-vs-poll" && healthy == 0 {
			healthy = 1
		}
		if k == "ack-retention" {
			puts, vsize, healthy = 100000, 64, 0 // a writer loop of up to 4 s against three raw replicas
		}
		if k == "stall-idle" {
			puts = 40 // fills the stream's flow-control window, far from filling the send queue
		}
		hbint := 300 + 100*r.Intn(4)
		fmt.Fprintf(w, "case g%d-%d probe=%s healthy=%d puts=%d vsize=%d bound=5 hbint=%d hbto=%d\nend\n", seed, i, k, healthy, puts, vsize, hbint, 4*hbint)
	}
}
