package main

// C20: configuration is validated and persists with the database.
//
// A case is a sequential program over ONE database directory $R/db and one in-memory
// *config.Config (mirrored by model/drv_c20.ml):
//   default | zero                      cfg := NewDefaultConfig($R/db) | &Config{}
//   int <field> <z> | str <field> <tok> | ratio <nan|+inf|-inf|JSON number>
//   validate                            V ok | V err:<field>
//   save                                S ok | S err:config:<field> | S err:marshal ; D ...
//   load                                L ok <dump> | L err:notfound|manifest|config:<field>
//   write <tok> | trunc <n> | flip <off> <bit> | rmmanifest      (tampering; then D ...)
//   truncall                            T n=<len> ok=<#prefixes that load>
//   flipall                             F n=<#bits> ok= manifest= config= digest=<crc32>
//   open                                O ok ; C <dump of the configuration the engine holds> | O err:... ; D ... ; W <dirs holding *.wal>
//   put K V | get K | close             G v:..|notfound
//   m2 <what>                           second manifest API (pkg/config/manifest.go): oracle only
// Byte strings are tokens; the two bytes "$R" stand for the scratch root in every input and
// every output (so that the stored text is compared byte for byte with the model's encoder:
// D prints length+CRC of the canonical manifest text). Tampering offsets refer to the
// canonical text.
//
// ORACLE (written from the property text, independent of the Coq model and of Validate):
// see c20Oracle below.

import (
	"encoding/json"
	"bufio"
	"bytes"
	"errors"
	"fmt"
	"hash/crc32"
	"math"
	"math/rand"
	"os"
	"path/filepath"
	"sort"
	"strconv"
	"strings"

	"github.com/KevoDB/kevo/pkg/config"
	"github.com/KevoDB/kevo/pkg/engine"
)

func init() {
	register("C20", &Prop{Gen: genC20, Run: runC20})
}

// ---------------------------------------------------------------- field table

type c20Field struct {
	name string
	kind byte // 'i', 's', 'f'
	get  func(c *config.Config) int64
	set  func(c *config.Config, v int64)
	gets func(c *config.Config) string
	sets func(c *config.Config, v string)
}

var c20Fields = []c20Field{
	{name: "version", kind: 'i', get: func(c *config.Config) int64 { return int64(c.Version) }, set: func(c *config.Config, v int64) { c.Version = int(v) }},
	{name: "wal_dir", kind: 's', gets: func(c *config.Config) string { return c.WALDir }, sets: func(c *config.Config, v string) { c.WALDir = v }},
	{name: "wal_sync_mode", kind: 'i', get: func(c *config.Config) int64 { return int64(c.WALSyncMode) }, set: func(c *config.Config, v int64) { c.WALSyncMode = config.SyncMode(v) }},
	{name: "wal_sync_bytes", kind: 'i', get: func(c *config.Config) int64 { return c.WALSyncBytes }, set: func(c *config.Config, v int64) { c.WALSyncBytes = v }},
	{name: "wal_max_size", kind: 'i', get: func(c *config.Config) int64 { return c.WALMaxSize }, set: func(c *config.Config, v int64) { c.WALMaxSize = v }},
	{name: "memtable_size", kind: 'i', get: func(c *config.Config) int64 { return c.MemTableSize }, set: func(c *config.Config, v int64) { c.MemTableSize = v }},
	{name: "max_memtables", kind: 'i', get: func(c *config.Config) int64 { return int64(c.MaxMemTables) }, set: func(c *config.Config, v int64) { c.MaxMemTables = int(v) }},
	{name: "max_memtable_age", kind: 'i', get: func(c *config.Config) int64 { return c.MaxMemTableAge }, set: func(c *config.Config, v int64) { c.MaxMemTableAge = v }},
	{name: "memtable_pool_cap", kind: 'i', get: func(c *config.Config) int64 { return int64(c.MemTablePoolCap) }, set: func(c *config.Config, v int64) { c.MemTablePoolCap = int(v) }},
	{name: "sst_dir", kind: 's', gets: func(c *config.Config) string { return c.SSTDir }, sets: func(c *config.Config, v string) { c.SSTDir = v }},
	{name: "sstable_block_size", kind: 'i', get: func(c *config.Config) int64 { return int64(c.SSTableBlockSize) }, set: func(c *config.Config, v int64) { c.SSTableBlockSize = int(v) }},
	{name: "sstable_index_size", kind: 'i', get: func(c *config.Config) int64 { return int64(c.SSTableIndexSize) }, set: func(c *config.Config, v int64) { c.SSTableIndexSize = int(v) }},
	{name: "sstable_max_size", kind: 'i', get: func(c *config.Config) int64 { return c.SSTableMaxSize }, set: func(c *config.Config, v int64) { c.SSTableMaxSize = v }},
	{name: "sstable_restart_size", kind: 'i', get: func(c *config.Config) int64 { return int64(c.SSTableRestartSize) }, set: func(c *config.Config, v int64) { c.SSTableRestartSize = int(v) }},
	{name: "compaction_levels", kind: 'i', get: func(c *config.Config) int64 { return int64(c.CompactionLevels) }, set: func(c *config.Config, v int64) { c.CompactionLevels = int(v) }},
	{name: "compaction_ratio", kind: 'f'},
	{name: "compaction_threads", kind: 'i', get: func(c *config.Config) int64 { return int64(c.CompactionThreads) }, set: func(c *config.Config, v int64) { c.CompactionThreads = int(v) }},
	{name: "compaction_interval", kind: 'i', get: func(c *config.Config) int64 { return c.CompactionInterval }, set: func(c *config.Config, v int64) { c.CompactionInterval = v }},
	{name: "max_level_with_tombstones", kind: 'i', get: func(c *config.Config) int64 { return int64(c.MaxLevelWithTombstones) }, set: func(c *config.Config, v int64) { c.MaxLevelWithTombstones = int(v) }},
	{name: "read_only_tx_ttl", kind: 'i', get: func(c *config.Config) int64 { return c.ReadOnlyTxTTL }, set: func(c *config.Config, v int64) { c.ReadOnlyTxTTL = v }},
	{name: "read_write_tx_ttl", kind: 'i', get: func(c *config.Config) int64 { return c.ReadWriteTxTTL }, set: func(c *config.Config, v int64) { c.ReadWriteTxTTL = v }},
	{name: "idle_tx_timeout", kind: 'i', get: func(c *config.Config) int64 { return c.IdleTxTimeout }, set: func(c *config.Config, v int64) { c.IdleTxTimeout = v }},
	{name: "tx_cleanup_interval", kind: 'i', get: func(c *config.Config) int64 { return c.TxCleanupInterval }, set: func(c *config.Config, v int64) { c.TxCleanupInterval = v }},
	{name: "tx_warning_threshold", kind: 'i', get: func(c *config.Config) int64 { return int64(c.TxWarningThreshold) }, set: func(c *config.Config, v int64) { c.TxWarningThreshold = int(v) }},
	{name: "tx_critical_threshold", kind: 'i', get: func(c *config.Config) int64 { return int64(c.TxCriticalThreshold) }, set: func(c *config.Config, v int64) { c.TxCriticalThreshold = int(v) }},
}

func c20FieldByName(n string) *c20Field {
	for i := range c20Fields {
		if c20Fields[i].name == n {
			return &c20Fields[i]
		}
	}
	return nil
}

// copyConfig copies the exported fields (Config embeds a mutex).
func c20Copy(c *config.Config) *config.Config {
	n := &config.Config{}
	for _, f := range c20Fields {
		switch f.kind {
		case 'i':
			f.set(n, f.get(c))
		case 's':
			f.sets(n, f.gets(c))
		case 'f':
			n.CompactionRatio = c.CompactionRatio
		}
	}
	return n
}

// fcanon prints a float64 as the exact decimal of its shortest representation: [-]<m>e<e>.
func fcanon(f float64) string {
	switch {
	case math.IsNaN(f):
		return "nan"
	case math.IsInf(f, 1):
		return "+inf"
	case math.IsInf(f, -1):
		return "-inf"
	case f == 0:
		if math.Signbit(f) {
			return "-0e0"
		}
		return "0e0"
	}
	s := strconv.FormatFloat(f, 'e', -1, 64) // d.ddde±xx
	neg := ""
	if s[0] == '-' {
		neg = "-"
		s = s[1:]
	}
	i := strings.IndexByte(s, 'e')
	mant, ex := s[:i], s[i+1:]
	x, _ := strconv.Atoi(ex)
	digits := strings.Replace(mant, ".", "", 1)
	x -= len(digits) - 1
	for len(digits) > 1 && digits[len(digits)-1] == '0' {
		digits = digits[:len(digits)-1]
		x++
	}
	return fmt.Sprintf("%s%se%d", neg, digits, x)
}

func parseRatio(t string) float64 {
	switch t {
	case "nan":
		return math.NaN()
	case "+inf":
		return math.Inf(1)
	case "-inf":
		return math.Inf(-1)
	}
	f, _ := strconv.ParseFloat(t, 64)
	return f
}

// documented constraints, from the messages of the configuration documentation / errors:
// "X must be positive", "ratio must be greater than 1.0" (a finite number: the manifest is JSON),
// "warning threshold must be between 1 and 99", "critical threshold must be between warning
// threshold and 99", directories specified and valid UTF-8, version valid (positive),
// "Max MemTables must not exceed 65536", "Compaction interval must not exceed 9223372036 seconds".
// Returns the first violated field or "".
func c20Documented(c *config.Config) string {
	pos := func(v int64) bool { return v > 0 }
	switch {
	case !pos(int64(c.Version)):
		return "version"
	case c.WALDir == "" || !validUTF8(c.WALDir):
		return "wal_dir"
	case c.SSTDir == "" || !validUTF8(c.SSTDir):
		return "sst_dir"
	case !pos(c.MemTableSize):
		return "memtable_size"
	case !pos(int64(c.MaxMemTables)) || int64(c.MaxMemTables) > 65536:
		return "max_memtables"
	case !pos(int64(c.SSTableBlockSize)):
		return "sstable_block_size"
	case !pos(int64(c.SSTableIndexSize)):
		return "sstable_index_size"
	case !pos(int64(c.CompactionLevels)):
		return "compaction_levels"
	case !(c.CompactionRatio > 1.0) || math.IsInf(c.CompactionRatio, 0):
		return "compaction_ratio"
	case c.CompactionInterval > 9223372036:
		return "compaction_interval"
	case !pos(c.ReadOnlyTxTTL):
		return "read_only_tx_ttl"
	case !pos(c.ReadWriteTxTTL):
		return "read_write_tx_ttl"
	case !pos(c.IdleTxTimeout):
		return "idle_tx_timeout"
	case !pos(c.TxCleanupInterval):
		return "tx_cleanup_interval"
	case c.TxWarningThreshold < 1 || c.TxWarningThreshold > 99:
		return "tx_warning_threshold"
	case c.TxCriticalThreshold <= c.TxWarningThreshold || c.TxCriticalThreshold > 99:
		return "tx_critical_threshold"
	}
	return ""
}

// first differing field of two configurations ("" = equal; floats by bit pattern)
func c20Diff(a, b *config.Config) string {
	for _, f := range c20Fields {
		switch f.kind {
		case 'i':
			if f.get(a) != f.get(b) {
				return f.name
			}
		case 's':
			if f.gets(a) != f.gets(b) {
				return f.name
			}
		case 'f':
			if math.Float64bits(a.CompactionRatio) != math.Float64bits(b.CompactionRatio) {
				return f.name
			}
		}
	}
	return ""
}

var c20ErrField = []struct{ frag, field string }{
	{"invalid version", "version"},
	{"WAL directory not specified", "wal_dir"},
	{"SSTable directory not specified", "sst_dir"},
	{"WAL directory is not valid UTF-8", "wal_dir"},
	{"SSTable directory is not valid UTF-8", "sst_dir"},
	{"Max MemTables must not exceed", "max_memtables"},
	{"Compaction interval must not exceed", "compaction_interval"},
	{"MemTable size must be positive", "memtable_size"},
	{"Max MemTables must be positive", "max_memtables"},
	{"SSTable block size must be positive", "sstable_block_size"},
	{"SSTable index size must be positive", "sstable_index_size"},
	{"Compaction levels must be positive", "compaction_levels"},
	{"Compaction ratio must be greater", "compaction_ratio"},
	{"Read-only transaction TTL", "read_only_tx_ttl"},
	{"Read-write transaction TTL", "read_write_tx_ttl"},
	{"Idle transaction timeout", "idle_tx_timeout"},
	{"Transaction cleanup interval", "tx_cleanup_interval"},
	{"Transaction warning threshold", "tx_warning_threshold"},
	{"Transaction critical threshold", "tx_critical_threshold"},
}

func c20Err(err error) string {
	switch {
	case err == nil:
		return "ok"
	case errors.Is(err, config.ErrManifestNotFound):
		return "err:notfound"
	case errors.Is(err, config.ErrInvalidManifest):
		return "err:manifest"
	case errors.Is(err, config.ErrInvalidConfig):
		for _, e := range c20ErrField {
			if strings.Contains(err.Error(), e.frag) {
				return "err:config:" + e.field
			}
		}
		return "err:config:?"
	case strings.Contains(err.Error(), "failed to marshal"):
		return "err:marshal"
	}
	return "err:other:" + strings.ReplaceAll(err.Error(), " ", "_")
}

// ---------------------------------------------------------------- run

type c20State struct {
	root, db string
	out      func(string)
	cfg      *config.Config
	eng      *engine.EngineFacade
	oracleOK bool
	kf       map[string]bool
	// oracle memory
	savedCfg     *config.Config // configuration of the last successful SaveManifest / creating open
	savedText    []byte         // manifest bytes it produced (real, not canonical)
	createdWAL   string         // WAL directory of the configuration the database was created with
	written      map[string]string
	writtenWAL   map[string]string // WAL directory of the engine each key was written through
	tampered     bool
	nSaveOK      int
	nLoad        int
	nTamper      int
	nOpen        int
	nReject      int
	nOdd         int
	usedWALDirs  map[string]bool
}

func (s *c20State) canon(b []byte) []byte { return bytes.ReplaceAll(b, []byte(s.root), []byte("$R")) }
func (s *c20State) real(b []byte) []byte  { return bytes.ReplaceAll(b, []byte("$R"), []byte(s.root)) }

func (s *c20State) fail(class, msg string) {
	if class != "" {
		if !s.kf[class] {
			s.out("KF " + class)
		}
		s.kf[class] = true
	}
	if s.oracleOK {
		s.out("ORACLE FAIL " + msg)
	}
	s.oracleOK = false
}

func (s *c20State) manifestPath() string { return filepath.Join(s.db, config.DefaultManifestFileName) }

type c20Dir struct {
	exists   bool
	manifest []byte
	hasMan   bool
	tmp      bool
	entries  string
}

func (s *c20State) snapshot() c20Dir {
	var d c20Dir
	if st, err := os.Stat(s.db); err == nil && st.IsDir() {
		d.exists = true
	}
	if b, err := os.ReadFile(s.manifestPath()); err == nil {
		d.hasMan = true
		d.manifest = b
	}
	if _, err := os.Stat(s.manifestPath() + ".tmp"); err == nil {
		d.tmp = true
	}
	var names []string
	filepath.Walk(s.root, func(p string, info os.FileInfo, err error) error {
		if err == nil && p != s.root {
			names = append(names, strings.TrimPrefix(p, s.root))
		}
		return nil
	})
	d.entries = strings.Join(names, "|")
	return d
}

func (d c20Dir) same(o c20Dir) bool {
	return d.exists == o.exists && d.hasMan == o.hasMan && bytes.Equal(d.manifest, o.manifest) && d.tmp == o.tmp && d.entries == o.entries
}

func (s *c20State) printDir() {
	d := s.snapshot()
	m := "none"
	if d.hasMan {
		m = render(s.canon(d.manifest))
	}
	s.out(fmt.Sprintf("D exists=%d manifest=%s tmp=%d", b2i(d.exists), m, b2i(d.tmp)))
}

func (s *c20State) dump(c *config.Config) string {
	var sb strings.Builder
	for i, f := range c20Fields {
		if i > 0 {
			sb.WriteByte(' ')
		}
		sb.WriteString(f.name + "=")
		switch f.kind {
		case 'i':
			sb.WriteString(strconv.FormatInt(f.get(c), 10))
		case 's':
			sb.WriteString(render(s.canon([]byte(f.gets(c)))))
		case 'f':
			sb.WriteString(fcanon(c.CompactionRatio))
		}
	}
	return sb.String()
}

// load with panic capture (a panic is an oracle failure, not a harness crash)
func (s *c20State) load() (c *config.Config, err error, panicked string) {
	defer func() {
		if r := recover(); r != nil {
			panicked = fmt.Sprint(r)
		}
	}()
	c, err = config.LoadConfigFromManifest(s.db)
	return
}

// outcome of loading the current manifest, as one token
func (s *c20State) loadOutcome() string {
	c, err, p := s.load()
	if p != "" {
		return "panic"
	}
	if err != nil {
		return c20Err(err)
	}
	return "ok " + s.dump(c)
}

func (s *c20State) walDirs() []string {
	set := map[string]bool{}
	filepath.Walk(s.root, func(p string, info os.FileInfo, err error) error {
		if err == nil && !info.IsDir() && strings.HasSuffix(p, ".wal") {
			set[filepath.Dir(p)] = true
		}
		return nil
	})
	var l []string
	for d := range set {
		l = append(l, string(s.canon([]byte(d))))
	}
	sort.Strings(l)
	return l
}

func runC20(c *Case, out func(string)) {
	root := tmpDir("c20-")
	defer os.RemoveAll(root)
	s := &c20State{root: root, db: filepath.Join(root, "db"), out: out, oracleOK: true, kf: map[string]bool{},
		written: map[string]string{}, writtenWAL: map[string]string{}, usedWALDirs: map[string]bool{}}
	if hdrVal(c.Hdr, "rel", "0") == "1" {
		// the database is named by a RELATIVE path (as `kevo db` on a command line does): the
		// process works in the parent of the scratch root for the length of the case, $R stands for
		// the root's base name, every path the engine is given or stores is relative
		if cwd, err := os.Getwd(); err == nil && os.Chdir(filepath.Dir(root)) == nil {
			defer os.Chdir(cwd)
			s.root = filepath.Base(root)
			s.db = filepath.Join(s.root, "db")
		}
	}
	s.cfg = config.NewDefaultConfig(s.db)
	out("BEGIN")
	defer func() {
		if s.eng != nil {
			s.eng.Close()
		}
	}()
	for _, l := range c.Lines {
		switch l[0] {
		case "default":
			s.cfg = config.NewDefaultConfig(s.db)
		case "zero":
			s.cfg = &config.Config{}
		case "int":
			f := c20FieldByName(l[1])
			v, err := strconv.ParseInt(l[2], 10, 64)
			if f == nil || f.kind != 'i' || err != nil {
				out("IMPL-ERROR bad int line")
				return
			}
			f.set(s.cfg, v)
		case "str":
			f := c20FieldByName(l[1])
			if f == nil || f.kind != 's' {
				out("IMPL-ERROR bad str line")
				return
			}
			v := tok(l[2])
			if !isPlainPath(v) {
				s.nOdd++
			}
			f.sets(s.cfg, string(s.real(v)))
		case "ratio":
			s.cfg.CompactionRatio = parseRatio(l[1])
		case "validate":
			err := s.cfg.Validate()
			out("V " + strings.Replace(c20Err(err), "err:config:", "err:", 1))
			doc := c20Documented(s.cfg)
			if err == nil && doc != "" {
				class := ""
				if doc == "compaction_ratio" && math.IsNaN(s.cfg.CompactionRatio) {
					class = "nonfinite_ratio_passes_validation"
				}
				s.fail(class, fmt.Sprintf("Validate accepts a configuration that violates the documented constraint on %s", doc))
			}
			if err != nil && doc == "" {
				s.fail("", fmt.Sprintf("Validate rejects a configuration that satisfies every documented constraint: %v", err))
			}
		case "save":
			s.opSave()
		case "load":
			s.opLoad()
		case "write":
			os.MkdirAll(s.db, 0755)
			os.WriteFile(s.manifestPath(), s.real(tok(l[1])), 0644)
			s.tampered = true
			s.nTamper++
			s.printDir()
		case "writetmp":
			// a left-over MANIFEST.tmp of an interrupted earlier save (any content, any length)
			os.MkdirAll(s.db, 0755)
			os.WriteFile(s.manifestPath()+".tmp", s.real(tok(l[1])), 0644)
			s.nTamper++
			s.printDir()
		case "trunc", "flip":
			b, err := os.ReadFile(s.manifestPath())
			if err == nil {
				t := s.canon(b)
				if l[0] == "trunc" {
					n, _ := strconv.Atoi(l[1])
					if n < len(t) {
						t = t[:n]
					}
				} else {
					off, _ := strconv.Atoi(l[1])
					bit, _ := strconv.Atoi(l[2])
					if off < len(t) {
						t = append([]byte{}, t...)
						t[off] ^= 1 << uint(bit)
					}
				}
				os.WriteFile(s.manifestPath(), s.real(t), 0644)
				s.tampered = true
				s.nTamper++
			}
			s.printDir()
		case "rmmanifest":
			os.Remove(s.manifestPath())
			s.tampered = true
			s.nTamper++
			s.printDir()
		case "truncall":
			s.opTruncAll()
		case "flipall":
			s.opFlipAll()
		case "open":
			s.opOpen()
		case "put":
			if s.eng == nil {
				break // the open before it failed
			}
			k, v := tok(l[1]), tok(l[2])
			if err := s.eng.Put(k, v); err != nil {
				out("P err:" + strings.ReplaceAll(err.Error(), " ", "_"))
			} else {
				s.written[string(k)] = string(v)
				s.writtenWAL[string(k)] = s.eng.VerifConfig().WALDir
			}
		case "get":
			if s.eng == nil {
				out("G noengine")
				break
			}
			k := tok(l[1])
			v, err := s.eng.Get(k)
			out("G " + renderGet(v, err))
			if want, ok := s.written[string(k)]; ok {
				sameWAL := s.writtenWAL[string(k)] == s.eng.VerifConfig().WALDir
				switch {
				case sameWAL && (err != nil || string(v) != want):
					s.fail("", fmt.Sprintf("key %s written before the reopen is not readable after it (%s)", render(k), renderGet(v, err)))
				case !sameWAL && !s.tampered:
					s.fail("", fmt.Sprintf("the database was reopened with another WAL directory than the one key %s was written under, without any tampering", render(k)))
				}
				// !sameWAL after tampering: a bit flip or a hand-written manifest turned the stored
				// configuration into another VALID one (the manifest carries no checksum); that is
				// outside the property's quantifier (truncations), so no verdict on the data
			}
		case "close":
			if s.eng != nil {
				s.eng.Close()
				s.eng = nil
			}
		case "m2":
			s.opManifest2(l[1])
		default:
			out("IMPL-ERROR bad line " + strings.Join(l, " "))
			return
		}
	}
	if s.eng != nil {
		s.eng.Close()
		s.eng = nil
	}
	if s.oracleOK {
		out("ORACLE ok")
	}
	nt := 0
	if (s.nSaveOK > 0 && s.nLoad > 0) || s.nTamper > 0 || s.nReject > 0 || s.nOpen > 0 {
		nt = 1
	}
	out(fmt.Sprintf("META saves=%d loads=%d tampers=%d opens=%d rejects=%d oddstrings=%d nontrivial=%d",
		s.nSaveOK, s.nLoad, s.nTamper, s.nOpen, s.nReject, s.nOdd, nt))
}

func isPlainPath(b []byte) bool {
	for _, c := range b {
		if !(c == '/' || c == '$' || c == '-' || c == '_' || c == '.' || (c >= '0' && c <= '9') || (c >= 'a' && c <= 'z') || (c >= 'A' && c <= 'Z')) {
			return false
		}
	}
	return true
}

func (s *c20State) opSave() {
	before := s.snapshot()
	doc := c20Documented(s.cfg)
	verr := s.cfg.Validate()
	err := s.cfg.SaveManifest(s.db)
	s.out("S " + c20Err(err))
	s.printDir()
	after := s.snapshot()
	nonfinite := math.IsNaN(s.cfg.CompactionRatio) || math.IsInf(s.cfg.CompactionRatio, 0)
	if err != nil {
		s.nReject++
		// rejected: nothing may have been written
		if !before.same(after) {
			class := ""
			if nonfinite {
				class = "nonfinite_ratio_passes_validation"
			}
			s.fail(class, "SaveManifest returned an error but changed the directory: "+c20Err(err))
		}
		if doc == "" && verr == nil {
			class := ""
			if nonfinite {
				class = "nonfinite_ratio_passes_validation"
			}
			s.fail(class, "a configuration that passes validation was not stored: "+c20Err(err))
		} else if doc == "" {
			s.fail("", "a configuration satisfying every documented constraint was rejected: "+c20Err(err))
		}
		return
	}
	s.nSaveOK++
	s.tampered = false
	if doc != "" {
		class := ""
		if nonfinite {
			class = "nonfinite_ratio_passes_validation"
		}
		s.fail(class, "a configuration violating the documented constraint on "+doc+" was stored")
	}
	if after.tmp {
		s.fail("", "MANIFEST.tmp left behind by a successful SaveManifest")
	}
	s.savedCfg = c20Copy(s.cfg)
	s.savedText = after.manifest
	// stored and loaded back unchanged
	got, lerr, p := s.load()
	switch {
	case p != "":
		s.fail("", "LoadConfigFromManifest panicked on a manifest SaveManifest just wrote: "+p)
	case lerr != nil:
		s.fail("", "a manifest SaveManifest just wrote does not load: "+c20Err(lerr))
	default:
		if d := c20Diff(s.savedCfg, got); d != "" {
			class := ""
			if f := c20FieldByName(d); f != nil && f.kind == 's' && !validUTF8(f.gets(s.savedCfg)) {
				class = "invalid_utf8_dir_not_preserved"
			}
			s.fail(class, "configuration loaded back differs from the one stored in field "+d)
		}
	}
}

func validUTF8(s string) bool { return strings.ToValidUTF8(s, "\x00") == s }

func (s *c20State) opLoad() {
	s.nLoad++
	c, err, p := s.load()
	if p != "" {
		s.out("L panic")
		s.fail("", "LoadConfigFromManifest panicked: "+p)
		return
	}
	if err != nil {
		s.out("L " + c20Err(err))
	} else {
		s.out("L ok " + s.dump(c))
	}
	cur := s.snapshot()
	switch {
	case err == nil && !cur.hasMan:
		s.fail("", "load succeeded without a manifest")
	case err == nil:
		if doc := c20Documented(c); doc != "" {
			s.fail("", "load returned a configuration violating the documented constraint on "+doc)
		}
		// what the stored text itself says, read by the harness on a ZERO configuration (plain
		// encoding/json, no defaults): if that violates a documented constraint — a required
		// setting is missing or out of range — the stored configuration is invalid and opening
		// must fail instead of filling the gap from the defaults
		var own config.Config
		if json.Unmarshal(s.real(s.canon(cur.manifest)), &own) == nil {
			if doc := c20Documented(&own); doc != "" {
				s.fail("", "the stored manifest does not give a valid "+doc+" (read on a zero configuration) but LoadConfigFromManifest accepted it: an invalid stored configuration was completed silently")
			}
		}
		if s.savedText != nil && len(cur.manifest) < len(s.savedText) && bytes.HasPrefix(s.savedText, cur.manifest) {
			s.fail("", fmt.Sprintf("a manifest truncated to %d of %d bytes loads without error", len(cur.manifest), len(s.savedText)))
		}
		if s.savedText != nil && bytes.Equal(cur.manifest, s.savedText) {
			if d := c20Diff(s.savedCfg, c); d != "" {
				class := ""
				if f := c20FieldByName(d); f != nil && f.kind == 's' && !validUTF8(f.gets(s.savedCfg)) {
					class = "invalid_utf8_dir_not_preserved"
				}
				s.fail(class, "configuration loaded back differs from the one stored in field "+d)
			}
		}
	case err != nil && s.savedText != nil && cur.hasMan && bytes.Equal(cur.manifest, s.savedText):
		s.fail("", "an untouched manifest written by SaveManifest fails to load: "+c20Err(err))
	}
}

func (s *c20State) opTruncAll() {
	orig, err := os.ReadFile(s.manifestPath())
	if err != nil {
		s.out("T none")
		return
	}
	t := s.canon(orig)
	ok := 0
	for n := 0; n < len(t); n++ {
		os.WriteFile(s.manifestPath(), s.real(t[:n]), 0644)
		_, lerr, p := s.load()
		if p != "" {
			s.fail("", fmt.Sprintf("load of the manifest cut to %d bytes panicked: %s", n, p))
		} else if lerr == nil {
			ok++
			s.fail("", fmt.Sprintf("the manifest cut to %d of %d bytes loads without error", n, len(t)))
		}
	}
	os.WriteFile(s.manifestPath(), orig, 0644)
	s.nTamper += len(t)
	s.out(fmt.Sprintf("T n=%d ok=%d", len(t), ok))
}

func (s *c20State) opFlipAll() {
	orig, err := os.ReadFile(s.manifestPath())
	if err != nil {
		s.out("F none")
		return
	}
	t := s.canon(orig)
	h := crc32.NewIEEE()
	nOK, nMan, nCfg := 0, 0, 0
	for i := 0; i < len(t); i++ {
		for bit := 0; bit < 8; bit++ {
			m := append([]byte{}, t...)
			m[i] ^= 1 << uint(bit)
			os.WriteFile(s.manifestPath(), s.real(m), 0644)
			o := s.loadOutcome()
			switch {
			case strings.HasPrefix(o, "ok"):
				nOK++
				c, _, _ := s.load()
				if c != nil {
					if doc := c20Documented(c); doc != "" {
						s.fail("", fmt.Sprintf("bit %d of byte %d flipped: load returns a configuration violating the constraint on %s", bit, i, doc))
					}
				}
			case o == "err:manifest":
				nMan++
			case strings.HasPrefix(o, "err:config"):
				nCfg++
			case o == "panic":
				s.fail("", fmt.Sprintf("bit %d of byte %d flipped: load panicked", bit, i))
			}
			h.Write([]byte(o + "\n"))
		}
	}
	os.WriteFile(s.manifestPath(), orig, 0644)
	s.nTamper += 8 * len(t)
	s.out(fmt.Sprintf("F n=%d ok=%d manifest=%d config=%d digest=%08x", 8*len(t), nOK, nMan, nCfg, h.Sum32()))
}

func (s *c20State) opOpen() {
	if s.eng != nil {
		s.eng.Close()
		s.eng = nil
	}
	s.nOpen++
	before := s.snapshot()
	walBefore := s.walDirs()
	nonEmptyBefore := false // does the database directory hold anything but a left-over MANIFEST.tmp?
	if ents, rerr := os.ReadDir(s.db); rerr == nil {
		for _, en := range ents {
			if en.Name() != config.DefaultManifestFileName+".tmp" && en.Name() != config.DefaultManifestFileName {
				nonEmptyBefore = true
			}
		}
	}
	// what the stored manifest says (the oracle's own reading, through the public loader)
	stored, lerr, _ := s.load()
	// safety of the harness: tampering can turn the stored directories into other valid paths
	// (a flipped bit inside "$R" makes the path relative); never let the engine create
	// directories outside the scratch root. The model runner applies the same rule (prefix "$R/").
	if lerr == nil && (!strings.HasPrefix(stored.WALDir, s.root+"/") || !strings.HasPrefix(stored.SSTDir, s.root+"/")) {
		s.out("O unsafe-dirs")
		return
	}
	if lerr == nil {
		if doc := c20Documented(stored); doc != "" {
			// the loader let an invalid stored configuration through: for the oracle it is invalid
			lerr = fmt.Errorf("%w: stored configuration violates the documented constraint on %s", config.ErrInvalidConfig, doc)
		}
	}
	var e *engine.EngineFacade
	var err error
	panicked := ""
	func() {
		defer func() {
			if r := recover(); r != nil {
				panicked = fmt.Sprint(r)
			}
		}()
		e, err = openEngine(s.db)
	}()
	if panicked != "" {
		s.out("O panic")
		class := ""
		if stored != nil && stored.MaxMemTables > 1<<40 && strings.Contains(panicked, "makeslice") {
			class = "unbounded_max_memtables_panics_open"
		}
		s.fail(class, "NewEngineFacade panicked on a stored configuration that passes validation: "+panicked)
		return
	}
	if err != nil {
		tag := "err:other"
		switch {
		case errors.Is(err, config.ErrManifestNotFound):
			tag = "err:nonempty"
		case errors.Is(err, config.ErrInvalidManifest):
			tag = "err:manifest"
		case errors.Is(err, config.ErrInvalidConfig):
			tag = "err:config"
		}
		s.out("O " + tag)
	} else {
		s.out("O ok")
		s.eng = e
		// the configuration the engine holds (read-only view, tag verif)
		if used := e.VerifConfig(); used != nil {
			s.out("C " + s.dump(used))
		} else {
			s.out("C none")
		}
	}
	s.printDir()
	s.out("W " + strings.Join(s.walDirs(), ","))
	after := s.snapshot()
	switch {
	case before.hasMan && lerr != nil:
		// unreadable or invalid stored configuration: opening must fail and change nothing
		if err == nil {
			s.fail("", "opening succeeded although the stored manifest is unreadable or invalid ("+c20Err(lerr)+")")
		} else if !before.same(after) {
			s.fail("", "a failed open changed the database directory")
		}
	case before.hasMan:
		if err != nil {
			s.fail("", "opening failed although the stored configuration is valid: "+err.Error())
			break
		}
		if !bytes.Equal(after.manifest, before.manifest) {
			s.fail("", "opening rewrote a valid stored manifest")
		}
		s.checkUses(stored, walBefore)
	default:
		// no manifest: a new database only if the directory holds nothing (a left-over
		// MANIFEST.tmp aside); over existing files opening must be refused, nothing written
		if nonEmptyBefore {
			if err == nil {
				s.fail("", "the manifest is missing over existing files and opening silently used the default configuration")
			} else if !before.same(after) {
				s.fail("", "a refused open changed the database directory")
			}
			break
		}
		if err != nil {
			s.fail("", "opening an empty directory failed: "+err.Error())
			break
		}
		def := config.NewDefaultConfig(s.db)
		if got, gerr, _ := s.load(); gerr != nil || c20Diff(def, got) != "" {
			s.fail("", "the manifest created by opening a fresh directory is not the default configuration")
		}
		s.checkUses(def, walBefore)
	}
	if err == nil && s.createdWAL == "" {
		if got, gerr, _ := s.load(); gerr == nil {
			s.createdWAL = got.WALDir
		}
	}
}

// the engine uses configuration c: the configuration it holds (EngineFacade.VerifConfig(), tag
// verif) equals c field by field, and its WAL directory is the one holding the live log
func (s *c20State) checkUses(c *config.Config, walBefore []string) {
	if c == nil {
		return
	}
	if s.eng != nil {
		if used := s.eng.VerifConfig(); used == nil {
			s.fail("", "the engine holds no configuration")
		} else if d := c20Diff(c, used); d != "" {
			s.fail("", "the engine was opened with a configuration that differs from the stored one in field "+d)
		}
	}
	want := string(s.canon([]byte(filepath.Clean(c.WALDir))))
	found := false
	for _, d := range s.walDirs() {
		if d == want {
			found = true
		}
	}
	if !found {
		s.fail("", "the engine did not open its log in the stored WAL directory "+want)
	}
	if s.createdWAL != "" && c.WALDir != s.createdWAL && !s.tampered {
		s.fail("", "the database is reopened with a WAL directory different from the one it was created with")
	}
}

// ---------------------------------------------------------------- second manifest API

func (s *c20State) opManifest2(what string) {
	dir := filepath.Join(s.root, "db2")
	path := filepath.Join(dir, config.DefaultManifestFileName)
	guard := func(f func()) (p string) {
		defer func() {
			if r := recover(); r != nil {
				p = fmt.Sprint(r)
			}
		}()
		f()
		return ""
	}
	switch what {
	case "roundtrip":
		cfg := c20Copy(s.cfg)
		doc := c20Documented(cfg)
		var m *config.Manifest
		var err error
		if p := guard(func() { m, err = config.NewManifest(dir, cfg) }); p != "" {
			s.fail("", "NewManifest panicked: "+p)
			return
		}
		if err != nil {
			if doc == "" {
				s.fail("", "NewManifest rejects a configuration satisfying the documented constraints: "+err.Error())
			}
			s.out("NOTE m2 roundtrip rejected")
			return
		}
		nonfinite := math.IsNaN(cfg.CompactionRatio) || math.IsInf(cfg.CompactionRatio, 0)
		class := ""
		if nonfinite {
			class = "nonfinite_ratio_passes_validation"
		}
		if doc != "" {
			s.fail(class, "NewManifest accepts a configuration violating the documented constraint on "+doc)
		}
		if err := m.Save(); err != nil {
			s.fail(class, "Manifest.Save fails for a configuration that passed validation: "+err.Error())
			return
		}
		var m2 *config.Manifest
		if p := guard(func() { m2, err = config.LoadManifest(dir) }); p != "" {
			s.fail("", "LoadManifest panicked on a manifest Manifest.Save wrote: "+p)
			return
		}
		if err != nil {
			s.fail("", "LoadManifest fails on a manifest Manifest.Save wrote: "+err.Error())
			return
		}
		if d := c20Diff(cfg, m2.GetConfig()); d != "" {
			class := ""
			if f := c20FieldByName(d); f != nil && f.kind == 's' && !validUTF8(f.gets(cfg)) {
				class = "invalid_utf8_dir_not_preserved"
			}
			s.fail(class, "Manifest API: configuration loaded back differs in field "+d)
		}
		s.out("NOTE m2 roundtrip ok")
	case "rejectedupdate":
		// an update that violates a documented constraint is refused and leaves no trace: a later
		// Save stores, and a fresh load returns, the configuration from before it
		base := config.NewDefaultConfig(dir)
		m0, err := config.NewManifest(dir, base)
		if err != nil || m0.Save() != nil {
			s.out("NOTE m2 rejectedupdate setup failed")
			return
		}
		m, err := config.LoadManifest(dir)
		if err != nil {
			s.fail("", "LoadManifest fails on a manifest Manifest.Save wrote: "+err.Error())
			return
		}
		want := c20Copy(m.GetConfig())
		bad := []func(*config.Config){
			func(c *config.Config) { c.CompactionRatio = 0.5 },
			func(c *config.Config) { c.MemTableSize = 0 },
			func(c *config.Config) { c.WALDir = "" },
		}
		for i, ch := range bad {
			if err := m.UpdateConfig(ch); err == nil {
				s.fail("", fmt.Sprintf("UpdateConfig accepts a change (#%d) that violates a documented constraint", i))
				return
			}
		}
		if d := c20Diff(want, m.GetConfig()); d != "" {
			s.fail("", "a refused UpdateConfig changed the current configuration in field "+d)
		}
		if err := m.Save(); err != nil {
			s.fail("", "Manifest.Save fails after a refused update: "+err.Error())
			return
		}
		m2, err := config.LoadManifest(dir)
		if err != nil {
			s.fail("", "the manifest cannot be loaded after a refused update and a Save (something of the refused configuration was written): "+err.Error())
			return
		}
		if d := c20Diff(want, m2.GetConfig()); d != "" {
			s.fail("", "after a refused update and a Save the configuration loaded back differs in field "+d)
		}
		s.out("NOTE m2 rejectedupdate ok")
	case "inplace", "updateconfig", "addfile":
		// a manifest that is on disk already (saved, loaded back), then a VALID change of its
		// current configuration - in place through GetConfig().Update (no new entry), through
		// UpdateConfig (a new entry), or only of the file list - then Save and a fresh load: what
		// Save accepted is what comes back
		base := config.NewDefaultConfig(dir)
		m0, err := config.NewManifest(dir, base)
		if err != nil || m0.Save() != nil {
			s.out("NOTE m2 " + what + " setup failed")
			return
		}
		m, err := config.LoadManifest(dir)
		if err != nil {
			s.fail("", "LoadManifest fails on a manifest Manifest.Save wrote: "+err.Error())
			return
		}
		change := func(c *config.Config) {
			c.MemTableSize = 8 << 20
			c.WALSyncMode = config.SyncBatch
			c.MaxMemTables = 7
		}
		switch what {
		case "inplace":
			m.GetConfig().Update(change)
		case "updateconfig":
			if err := m.UpdateConfig(change); err != nil {
				s.fail("", "UpdateConfig rejects a valid change: "+err.Error())
				return
			}
		case "addfile":
			m.GetConfig().Update(change)
			if err := m.AddFile("sst/000001.sst", 42); err != nil {
				s.fail("", "AddFile failed: "+err.Error())
				return
			}
		}
		want := c20Copy(m.GetConfig())
		if err := m.Save(); err != nil {
			s.fail("", "Manifest.Save fails for a valid configuration: "+err.Error())
			return
		}
		m2, err := config.LoadManifest(dir)
		if err != nil {
			s.fail("", "LoadManifest fails on a manifest Manifest.Save wrote: "+err.Error())
			return
		}
		if d := c20Diff(want, m2.GetConfig()); d != "" {
			s.fail("", "Manifest API ("+what+"): Save returned nil for a changed configuration, the configuration loaded back differs in field "+d)
		}
		if what == "addfile" {
			if m2.GetFiles()["sst/000001.sst"] != 42 {
				s.fail("", "Manifest API (addfile): the file list loaded back lacks the file Save was called with")
			}
		}
		s.out("NOTE m2 " + what + " ok")
	case "truncall":
		b, err := os.ReadFile(path)
		if err != nil {
			s.out("NOTE m2 truncall none")
			return
		}
		for n := 0; n < len(b); n++ {
			os.WriteFile(path, b[:n], 0644)
			var lerr error
			p := guard(func() { _, lerr = config.LoadManifest(dir) })
			if p != "" {
				s.fail("manifest2_load_panics", fmt.Sprintf("LoadManifest panicked on the manifest cut to %d bytes: %s", n, p))
			} else if lerr == nil {
				s.fail("", fmt.Sprintf("LoadManifest accepts the manifest cut to %d of %d bytes", n, len(b)))
			}
		}
		os.WriteFile(path, b, 0644)
		s.out(fmt.Sprintf("NOTE m2 truncall n=%d", len(b)))
	case "nilconfig":
		os.MkdirAll(dir, 0755)
		for _, txt := range []string{`[{"timestamp":1,"version":1}]`, `[null]`, `[{"timestamp":1,"version":1,"config":null}]`} {
			os.WriteFile(path, []byte(txt), 0644)
			var lerr error
			p := guard(func() { _, lerr = config.LoadManifest(dir) })
			if p != "" {
				s.fail("manifest2_load_panics", "LoadManifest panicked on an entry without configuration ("+txt+"): "+p)
			} else if lerr == nil {
				s.fail("", "LoadManifest accepts an entry without configuration: "+txt)
			}
		}
		s.out("NOTE m2 nilconfig")
	case "cross":
		// a directory written by the Manifest API is not a database NewEngineFacade can open,
		// but it must fail with an error rather than replace the file
		cfg := config.NewDefaultConfig(dir)
		m, err := config.NewManifest(dir, cfg)
		if err != nil || m.Save() != nil {
			s.out("NOTE m2 cross skipped")
			return
		}
		before, _ := os.ReadFile(path)
		_, lerr := config.LoadConfigFromManifest(dir)
		var e *engine.EngineFacade
		var oerr error
		p := guard(func() { e, oerr = openEngine(dir) })
		if e != nil {
			e.Close()
		}
		after, _ := os.ReadFile(path)
		if p != "" {
			s.fail("", "NewEngineFacade panicked on a Manifest-API manifest: "+p)
		}
		if lerr != nil && oerr == nil {
			s.fail("", "NewEngineFacade opened a directory whose manifest LoadConfigFromManifest cannot read")
		}
		if !bytes.Equal(before, after) {
			s.fail("", "NewEngineFacade replaced a manifest written by the Manifest API")
		}
		s.out(fmt.Sprintf("NOTE m2 cross load=%s open_err=%v", c20Err(lerr), oerr != nil))
	}
	s.nLoad++
}

// ---------------------------------------------------------------- generators

var c20IntBoundaries = []int64{math.MinInt64, math.MinInt64 + 1, -2, -1, 0, 1, 2, 3, 98, 99, 100, 101, 65535, 65536, 65537, 1 << 31, 1<<31 - 1, 1 << 32,
	9223372036, 9223372037, math.MaxInt64 - 1, math.MaxInt64,
	// far above the bounds: values whose product with a unit (seconds -> nanoseconds, 1e9) wraps
	// around int64 back into the positive range
	18446744074, 18446744077, 36893488153, 9223372036854775807 / 3, 1 << 62, 1<<62 + 12345, 4611686018427387904 + 9223372036}

var c20Ratios = []string{"1", "1.0000000000000002", "0.9999999999999999", "0", "-0", "-1", "-2.5", "1.5", "2", "10", "10.5", "1.125",
	"1e21", "1e+22", "123456789012345680", "999999999999999900000", "1e300", "1.7976931348623157e308", "5e-324", "1e-7", "0.000001", "0.5",
	"1.0000001", "20", "3.141592653589793", "100000000000000000000", "nan", "+inf", "-inf", "nan", "+inf"}

var c20PlainStrs = []string{"", "a", "wal", "$R/db/wal", "$R/db/sst", "$R/db/x-1", "$R/other", "rel/path", "/", ".", "A_b-c.d/e"}

var c20OddStrs = []string{" ", "a b", "a\"b", "back\\slash", "\\", "\"", "<tag>&amp;", "tab\there", "nl\nhere", "\x00", "\x01\x1f", "\x7f", "\b\f\r",
	"é", "日本語", "\u2028", "\u2029x", "\U0001F600", "\xff", "a\xc3", "\xed\xa0\x80", "\xc0\xaf", "\xf4\x90\x80\x80", "\xe2\x82", "\ufffd", "\xef\xbf\xbd\xff",
	"ſ", "K", "\\u0041", "\\ud83d", "{\"version\":1}", "'", "/", "a\\", "\\\""}

func c20Tok(s string) string { return mkTok([]byte(s)) }

type c20Gen struct {
	w *bufio.Writer
	r *rand.Rand
}

func (g *c20Gen) line(f string, a ...interface{}) { fmt.Fprintf(g.w, f+"\n", a...) }

var c20IntFields []string
var c20ValidatedInts = []string{"version", "memtable_size", "max_memtables", "sstable_block_size", "sstable_index_size", "compaction_levels",
	"read_only_tx_ttl", "read_write_tx_ttl", "idle_tx_timeout", "tx_cleanup_interval", "tx_warning_threshold", "tx_critical_threshold"}

func init() {
	for _, f := range c20Fields {
		if f.kind == 'i' {
			c20IntFields = append(c20IntFields, f.name)
		}
	}
}

// one mutation of the in-memory configuration
func (g *c20Gen) mutate(odd bool) {
	r := g.r
	switch pick(r, 8, 3, 3, 2) {
	case 0:
		var f string
		if r.Intn(3) > 0 {
			f = c20ValidatedInts[r.Intn(len(c20ValidatedInts))]
		} else {
			f = c20IntFields[r.Intn(len(c20IntFields))]
		}
		var v int64
		if r.Intn(6) == 0 {
			v = r.Int63n(200) - 20
		} else {
			v = c20IntBoundaries[r.Intn(len(c20IntBoundaries))]
		}
		g.line("int %s %d", f, v)
	case 1:
		g.line("ratio %s", c20Ratios[r.Intn(len(c20Ratios))])
	case 2:
		f := []string{"wal_dir", "sst_dir"}[r.Intn(2)]
		if odd {
			g.line("str %s %s", f, c20Tok(c20OddStrs[r.Intn(len(c20OddStrs))]))
		} else {
			g.line("str %s %s", f, c20Tok(c20PlainStrs[r.Intn(len(c20PlainStrs))]))
		}
	case 3:
		// the two thresholds relative to each other
		w := []int64{1, 2, 50, 98, 99}[r.Intn(5)]
		g.line("int tx_warning_threshold %d", w)
		g.line("int tx_critical_threshold %d", w+int64(r.Intn(3))-1)
	}
}

// hand-made manifests for the decoder (not produced by SaveManifest)
func c20Handmade(r *rand.Rand) string {
	base := func(extra string) string {
		return `{"version":1,"wal_dir":"$R/db/wal","sst_dir":"$R/db/sst","memtable_size":1024,"max_memtables":2,"sstable_block_size":512,` +
			`"sstable_index_size":512,"compaction_levels":3,"compaction_ratio":2.5,"read_only_tx_ttl":5,"read_write_tx_ttl":5,` +
			`"idle_tx_timeout":5,"tx_cleanup_interval":5,"tx_warning_threshold":10,"tx_critical_threshold":20` + extra + `}`
	}
	extras := []string{
		``, `,"VERSION":7`, `,"Version":0`, `,"version":2,"version":3`, `,"unknown":{"a":[1,2,{"b":null}],"c":"d"}`, `,"unknown":[[[[]]]]`,
		`,"version":null`, `,"wal_dir":null`, `,"compaction_ratio":null`, `,"version":"1"`, `,"version":true`, `,"version":false`, `,"version":1.0`,
		`,"version":1e0`, `,"version":9223372036854775807`, `,"version":9223372036854775808`, `,"version":-9223372036854775808`,
		`,"version":-9223372036854775809`, `,"version":-0`, `,"version":01`, `,"version":-`, `,"version":+1`, `,"version":1,`, `,"version":[1]`,
		`,"version":{}`, `,"wal_dir":5`, `,"wal_dir":["x"]`, `,"wal_dir":""`, `,"compaction_ratio":1e999`, `,"compaction_ratio":1e-999`,
		`,"compaction_ratio":1`, `,"compaction_ratio":1.0`, `,"compaction_ratio":1.5e0`, `,"compaction_ratio":15E-1`, `,"compaction_ratio":"2"`,
		`,"compaction_ratio":0.1e1`, `,"compaction_ratio":1000e-3`, `,"compaction_ratio":1.000000000000001`, `,"compaction_ratio":-3`,
		`,"compaction_ratio":1.7976931348623157e308`, `,"compaction_ratio":1.7976931348623159e308`, `,"compaction_ratio":2e308`,
		`,"wal_\u0064ir":"$R/db/w2"`, `,"wal_dir":"\u0041\u00e9\u2028\ud83d\ude00"`, `,"wal_dir":"\ud83d"`, `,"wal_dir":"\ude00\ud83d"`, `,"wal_dir":"\ud83d\u0041"`,
		`,"wal_dir":"\x"`, `,"wal_dir":"\u12"`, `,"wal_dir":"\u12G4"`, `,"wal_dir":"\/\b\f\n\r\t\"\\"`, `,"wal_dir":"\'"`, "," + `"wal_dir":"a` + "\x01" + `b"`,
		"," + `"wal_dir":"` + "\xff\xc3" + `"`, `,"wal_ſync_mode":3`, `,"sstable_blocK_size":9`, `,"WAL_SYNC_MODE":1`, `,"wal_sync_mode ":1`, `,"":1`,
		`,"max_memtable_age":18446744073709551616`, `,"tx_warning_threshold":99,"tx_critical_threshold":100`, `,"tx_warning_threshold":0`,
		`,"memtable_size":0`, `,"sst_dir":""`, `, "x" : 1 `, ",\n\t\r \"x\"\n:\n1\n", `,"x":tru`, `,"x":nul`, `,"x":truee`, `,"x":1.`, `,"x":.5`, `,"x":1e`, `,"x":1e+`,
		`,"x":-0.0e-0`, `,"x":0x10`, `,"x":1 2`, `,"x":"a" "b"`, `,"x"`, `,"x":`, `,x:1`, `,'x':1`, `,"x":[1,]`, `,"x":[,1]`, `,"x":{"a"}`, `,"x":{"a":}`, `,,"x":1`,
	}
	whole := []string{``, ` `, `null`, ` null `, `nul`, `true`, `1`, `"x"`, `[]`, `[{}]`, `{}`, `{} `, `{}x`, `{}{}`, "\xef\xbb\xbf{}", `{`, `}`, `{"version":1}` + "\x00",
		`{"version":1}` + "\n\t \r", strings.Repeat("[", 50) + strings.Repeat("]", 50), `{"a":` + strings.Repeat(`{"a":`, 30) + `1` + strings.Repeat(`}`, 31)}
	if r.Intn(5) == 0 {
		return whole[r.Intn(len(whole))]
	}
	e := extras[r.Intn(len(extras))]
	if r.Intn(4) == 0 {
		e += extras[r.Intn(len(extras))]
	}
	return base(e)
}

// content of a MANIFEST.tmp left behind by an interrupted save: shorter than, as long as, or
// longer than the manifest that will be written over it
func c20StaleTmp(r *rand.Rand) string {
	switch r.Intn(4) {
	case 0:
		return c20Handmade(r)
	case 1:
		return strings.Repeat("x", 1+r.Intn(300))
	case 2:
		return c20Handmade(r) + strings.Repeat(" ", 400+r.Intn(800)) + `"tail":1}`
	default:
		return strings.Repeat("{\"stale\":true}\n", 60+r.Intn(60))
	}
}

func genC20(w *bufio.Writer, seed int64, n int, tier string) {
	r := rand.New(rand.NewSource(seed))
	g := &c20Gen{w: w, r: r}
	for i := 0; i < n; i++ {
		kind := pick(r, 46, 12, 22, 12, 8)
		// a few expensive shapes are rationed
		switch {
		case i == 0:
			kind = 5 // all truncations and all bit flips of the default manifest
		case i == 1:
			kind = 6
		}
		switch kind {
		case 0: // boundary assignments, plain strings
			g.line("case g%d-%d kind=boundary", seed, i)
			if r.Intn(12) == 0 {
				g.line("zero")
			} else {
				g.line("default")
			}
			for k := 1 + r.Intn(3); k > 0; k-- {
				g.mutate(false)
			}
			if r.Intn(4) == 0 {
				g.line("writetmp %s", c20Tok(c20StaleTmp(r)))
			}
			g.line("validate")
			g.line("save")
			g.line("load")
			if r.Intn(3) == 0 {
				// a second, different configuration over the first
				g.mutate(false)
				g.line("save")
				g.line("load")
			}
			if r.Intn(6) == 0 {
				g.line("m2 roundtrip")
			}
			if r.Intn(8) == 0 {
				g.line("m2 %s", []string{"inplace", "updateconfig", "addfile", "rejectedupdate"}[r.Intn(4)])
			}
		case 1: // malformed stream: odd directory names
			g.line("case g%d-%d kind=oddstrings", seed, i)
			g.line("default")
			g.mutate(true)
			if r.Intn(2) == 0 {
				g.line("str %s %s", []string{"wal_dir", "sst_dir"}[r.Intn(2)], c20Tok(c20OddStrs[r.Intn(len(c20OddStrs))]+c20OddStrs[r.Intn(len(c20OddStrs))]))
			} else {
				g.line("str %s %s", []string{"wal_dir", "sst_dir"}[r.Intn(2)], c20Tok(c20OddStrs[r.Intn(len(c20OddStrs))]))
			}
			g.line("validate")
			g.line("save")
			g.line("load")
			if r.Intn(4) == 0 {
				g.line("m2 roundtrip")
			}
		case 2: // tampering with a stored manifest
			g.line("case g%d-%d kind=tamper", seed, i)
			g.line("default")
			if r.Intn(2) == 0 {
				g.line("int %s %d", c20IntFields[r.Intn(len(c20IntFields))], []int64{1, 7, 1000, 123456789, math.MaxInt64}[r.Intn(5)])
				g.line("ratio %s", []string{"2", "1.5", "10.5", "1e21", "1.125"}[r.Intn(5)])
			}
			g.line("save")
			L := 640 + r.Intn(60)
			switch pick(r, 5, 5, 1) {
			case 0:
				off := r.Intn(L)
				if r.Intn(4) == 0 {
					off = []int{0, 1, 2, L - 1, L - 2, L + 50}[r.Intn(6)]
				}
				g.line("trunc %d", off)
			case 1:
				for k := 1 + r.Intn(2); k > 0; k-- {
					g.line("flip %d %d", r.Intn(L), r.Intn(8))
				}
			case 2:
				g.line("rmmanifest")
			}
			g.line("load")
			if r.Intn(3) == 0 {
				g.line("save")
				g.line("load")
			}
		case 3: // hand-made manifests through the decoder
			g.line("case g%d-%d kind=handmade", seed, i)
			for k := 1 + r.Intn(3); k > 0; k-- {
				g.line("write %s", c20Tok(c20Handmade(r)))
				g.line("load")
			}
		case 4: // the engine: load-or-create, reopen with the stored configuration
			if r.Intn(4) == 0 {
				g.line("case g%d-%d kind=engine rel=1", seed, i)
			} else {
				g.line("case g%d-%d kind=engine", seed, i)
			}
			custom := r.Intn(3) > 0
			g.line("default")
			if custom {
				g.line("str wal_dir %s", c20Tok(fmt.Sprintf("$R/db/%s", []string{"mywal", "w", "logs"}[r.Intn(3)])))
				g.line("str sst_dir %s", c20Tok(fmt.Sprintf("$R/db/%s", []string{"mysst", "s", "tables"}[r.Intn(3)])))
				g.line("int memtable_size %d", []int64{4096, 65536, 1 << 20}[r.Intn(3)])
				g.line("ratio %s", []string{"2", "1.5", "10"}[r.Intn(3)])
				g.line("save")
			}
			if r.Intn(3) == 0 {
				g.line("writetmp %s", c20Tok(c20StaleTmp(r)))
			}
			g.line("open")
			nk := 1 + r.Intn(3)
			for k := 0; k < nk; k++ {
				g.line("put %s %s", mkTok(genKey(r, 6)), mkTok([]byte(fmt.Sprintf("v%d", r.Intn(100)))))
			}
			g.line("close")
			switch pick(r, 4, 3, 3, 2, 2) {
			case 0:
			case 1:
				g.line("trunc %d", r.Intn(600))
			case 2:
				g.line("flip %d %d", r.Intn(600), r.Intn(8))
			case 3:
				// an invalid configuration stored over existing data
				bad := []string{`{"version":0}`, `{}`, `null`, `[]`, ``, `{"version":1,"wal_dir":"$R/db/wal"}`,
					`{"version":1,"wal_dir":"$R/db/wal","sst_dir":"$R/db/sst","memtable_size":0}`, `not json`}
				g.line("write %s", c20Tok(bad[r.Intn(len(bad))]))
			case 4:
				g.line("rmmanifest")
			}
			g.line("open")
			g.line("get %s", mkTok(genKey(r, 6)))
			g.line("get %s", mkTok(genKey(r, 6)))
			g.line("close")
			g.line("load")
		case 5:
			g.line("case g%d-%d kind=truncall", seed, i)
			g.line("default")
			g.line("save")
			g.line("truncall")
			g.line("flipall")
			g.line("load")
		case 6:
			g.line("case g%d-%d kind=truncall-custom", seed, i)
			g.line("default")
			g.line("str wal_dir %s", c20Tok("$R/db/a\"b\\c<é>\n"))
			g.line("int wal_max_size %d", int64(math.MaxInt64))
			g.line("int max_level_with_tombstones %d", int64(math.MinInt64))
			g.line("ratio 1e21")
			g.line("save")
			g.line("truncall")
			g.line("m2 roundtrip")
			g.line("m2 truncall")
			g.line("m2 nilconfig")
			g.line("m2 cross")
		}
		g.line("end")
	}
}
