package main

// C18: the memtable is a correct ordered multi-version map (sequential part; the concurrent
// part records reader observations against the writer's log).
// Lines: put K V S | del K S | imm | get K | iter | seek T | size

import (
	"bufio"
	"bytes"
	"fmt"
	"math/rand"
	"runtime"
	"sort"
	"strconv"
	"strings"
	"sync"
	"sync/atomic"

	"github.com/KevoDB/kevo/pkg/config"
	"github.com/KevoDB/kevo/pkg/memtable"
)

func init() {
	register("C18", &Prop{Gen: genC18, Run: runC18})
}

type mver struct {
	k, v []byte
	seq  uint64
	del  bool
	ord  int
}

func verStr(k []byte, seq uint64, del bool, v []byte) string {
	kind := "val"
	if del {
		kind = "del"
	}
	return fmt.Sprintf("%s %s %s %s", render(k), num(seq), kind, render(v))
}

func runC18(c *Case, out func(string)) {
	if hdrVal(c.Hdr, "mode", "seq") == "conc" {
		runC18Conc(c, out)
		return
	}
	if hdrVal(c.Hdr, "mode", "seq") == "sentinel" {
		runC18Sentinel(c, out)
		return
	}
	if hdrVal(c.Hdr, "mode", "seq") == "pool" {
		runC18Pool(c, out)
		return
	}
	if hdrVal(c.Hdr, "mode", "seq") == "poolconc" {
		runC18PoolConc(c, out)
		return
	}
	mt := memtable.NewMemTable()
	var log []mver // oracle: everything inserted while mutable
	imm := false
	ok := true
	fail := func(m string) {
		if ok {
			out("ORACLE FAIL " + m)
		}
		ok = false
	}
	best := func(k []byte) *mver {
		var b *mver
		for i := range log {
			e := &log[i]
			if !bytes.Equal(e.k, k) {
				continue
			}
			if b == nil || e.seq > b.seq || (e.seq == b.seq && e.ord > b.ord) {
				b = e
			}
		}
		return b
	}
	sorted := func() []mver {
		s := append([]mver{}, log...)
		sort.SliceStable(s, func(i, j int) bool {
			c := bytes.Compare(s[i].k, s[j].k)
			if c != 0 {
				return c < 0
			}
			if s[i].seq != s[j].seq {
				return s[i].seq > s[j].seq
			}
			return s[i].ord > s[j].ord
		})
		return s
	}
	ties := 0
	// a held iterator (hnew .. hdrain): created at one point, advanced while the writer goes on
	var held *memtable.Iterator
	heldLog := 0        // len(log) when the iterator was created
	var heldFrom []byte // target of the last positioning (nil: SeekToFirst)
	heldPos := false    // positioned since creation
	var yield []string  // what it stood on since the last positioning
	var yieldV []mver
	heldSteps := 0
	cur := func() {
		if !held.Valid() {
			out("H invalid")
			return
		}
		g := verStr(held.Key(), held.SequenceNumber(), held.IsTombstone(), held.Value())
		out("H " + g)
		yield = append(yield, g)
		yieldV = append(yieldV, mver{k: append([]byte{}, held.Key()...), seq: held.SequenceNumber()})
	}
	// the held iterator ran to its end: it must have shown, in order, at least every entry that
	// was in the table when it was created and lies at or after the point it was positioned on
	heldCheck := func() {
		for i := 1; i < len(yieldV); i++ {
			c := bytes.Compare(yieldV[i-1].k, yieldV[i].k)
			if c > 0 || (c == 0 && yieldV[i-1].seq <= yieldV[i].seq) {
				fail(fmt.Sprintf("held iterator went from %s to %s (key asc, seq desc expected)", yield[i-1], yield[i]))
			}
		}
		seen := map[string]bool{}
		for _, g := range yield {
			seen[g] = true
		}
		for _, e := range log[:heldLog] {
			if heldFrom != nil && bytes.Compare(e.k, heldFrom) < 0 {
				continue
			}
			if !seen[verStr(e.k, e.seq, e.del, e.v)] {
				fail("an iterator advanced while the writer went on ended without showing " + verStr(e.k, e.seq, e.del, e.v) + ", which was inserted before the iterator was created")
				break
			}
		}
		all := map[string]bool{}
		for _, e := range log {
			all[verStr(e.k, e.seq, e.del, e.v)] = true
		}
		for _, g := range yield {
			if !all[g] {
				fail("held iterator showed " + g + ", which was never inserted")
			}
		}
	}
	for _, l := range c.Lines {
		switch l[0] {
		case "hnew":
			held = mt.NewIterator()
			heldLog, heldPos, yield, yieldV = len(log), false, nil, nil
		case "hfirst":
			held.SeekToFirst()
			heldFrom, heldPos, yield, yieldV = nil, true, nil, nil
			cur()
		case "hseek":
			t := tok(l[1])
			held.Seek(t)
			heldFrom, heldPos, yield, yieldV = t, true, nil, nil
			cur()
		case "hnext":
			if held.Valid() {
				held.Next()
				heldSteps++
				cur()
				if !held.Valid() && heldPos {
					heldCheck()
				}
			} else {
				out("H invalid")
			}
		case "hdrain":
			for n := 0; held.Valid() && n < 100000; n++ {
				held.Next()
				heldSteps++
				cur()
			}
			if heldPos {
				heldCheck()
			}
		case "put":
			k, v, s := tok(l[1]), tok(l[2]), parseNum(l[3])
			hk, hv := handOver(k), handOver(v)
			mt.Put(hk, hv, s)
			scribbleAll(hk, hv)
			if !imm {
				for _, e := range log {
					if bytes.Equal(e.k, k) && e.seq == s {
						ties++
					}
				}
				log = append(log, mver{k: k, v: v, seq: s, ord: len(log)})
			}
		case "del":
			k, s := tok(l[1]), parseNum(l[2])
			hk := handOver(k)
			mt.Delete(hk, s)
			scribbleAll(hk)
			if !imm {
				log = append(log, mver{k: k, seq: s, del: true, ord: len(log)})
			}
		case "imm":
			mt.SetImmutable()
			imm = true
		case "get":
			k := tok(l[1])
			v, found := mt.Get(k)
			b := best(k)
			switch {
			case !found:
				out("G absent")
				if b != nil {
					fail("get " + render(k) + " absent but key was inserted")
				}
			case v == nil:
				out("G deleted")
				if b == nil || !b.del {
					fail("get " + render(k) + " reports a deletion marker, highest version is not one")
				}
			default:
				out("G v:" + render(v))
				if b == nil || b.del || !bytes.Equal(b.v, v) {
					fail("get " + render(k) + " returned a value that is not the highest-sequence version")
				}
			}
		case "iter":
			it := mt.NewIterator()
			var got []string
			for it.SeekToFirst(); it.Valid(); it.Next() {
				got = append(got, verStr(it.Key(), it.SequenceNumber(), it.IsTombstone(), it.Value()))
			}
			out(fmt.Sprintf("I n=%d", len(got)))
			for _, g := range got {
				out("i " + g)
			}
			want := sorted()
			if len(want) != len(got) {
				fail(fmt.Sprintf("iteration returned %d entries, %d were inserted", len(got), len(want)))
			} else {
				for i, w := range want {
					if verStr(w.k, w.seq, w.del, w.v) != got[i] {
						fail(fmt.Sprintf("iteration entry %d is %s, expected %s (key asc, seq desc, newest insert first)", i, got[i], verStr(w.k, w.seq, w.del, w.v)))
						break
					}
				}
			}
			// the adapter the engine reads a memtable through: seek-to-last stands on the NEWEST
			// version of the greatest key, seek-to-first on the newest version of the smallest
			if len(want) > 0 {
				ad := memtable.NewIteratorAdapter(mt.NewIterator())
				ad.SeekToLast()
				var exp mver
				for _, w := range want {
					if bytes.Equal(w.k, want[len(want)-1].k) {
						exp = w
						break
					}
				}
				if !ad.Valid() {
					fail("adapter: seek-to-last is invalid on a table with entries")
				} else if g := verStr(ad.Key(), ad.SequenceNumber(), ad.IsTombstone(), ad.Value()); g != verStr(exp.k, exp.seq, exp.del, exp.v) {
					fail(fmt.Sprintf("adapter: seek-to-last stands on %s, expected the newest version of the greatest key %s", g, verStr(exp.k, exp.seq, exp.del, exp.v)))
				}
				ad.SeekToFirst()
				if !ad.Valid() {
					fail("adapter: seek-to-first is invalid on a table with entries")
				} else if g := verStr(ad.Key(), ad.SequenceNumber(), ad.IsTombstone(), ad.Value()); g != verStr(want[0].k, want[0].seq, want[0].del, want[0].v) {
					fail(fmt.Sprintf("adapter: seek-to-first stands on %s, expected %s", g, verStr(want[0].k, want[0].seq, want[0].del, want[0].v)))
				}
			}
		case "seek":
			t := tok(l[1])
			it := mt.NewIterator()
			it.Seek(t)
			var want *mver
			for _, w := range sorted() {
				w := w
				if bytes.Compare(w.k, t) >= 0 {
					want = &w
					break
				}
			}
			if !it.Valid() {
				out("K invalid")
				if want != nil {
					fail("seek " + render(t) + " invalid but a key >= target exists")
				}
			} else {
				g := verStr(it.Key(), it.SequenceNumber(), it.IsTombstone(), it.Value())
				out("K " + g)
				if want == nil || verStr(want.k, want.seq, want.del, want.v) != g {
					fail("seek " + render(t) + " landed on " + g)
				}
			}
		case "size":
			out("Z " + num(uint64(mt.ApproximateSize())))
		default:
			out("IMPL-ERROR bad line " + strings.Join(l, " "))
		}
	}
	if ok {
		out("ORACLE ok")
	}
	keys := map[string]int{}
	for _, e := range log {
		keys[string(e.k)]++
	}
	multi := 0
	for _, n := range keys {
		if n > 1 {
			multi++
		}
	}
	nt := 0
	if multi > 0 && len(log) >= 3 {
		nt = 1
	}
	out(fmt.Sprintf("META inserts=%d keys=%d multiversion_keys=%d seq_ties=%d held_steps=%d nontrivial=%d", len(log), len(keys), multi, ties, heldSteps, nt))
}

// The memtable pool: put K V S | del K S | switch (SwitchToNewMemTable) | get K | tables
// (GetMemTables: number of tables and, in read precedence, entries + a(ctive)/i(mmutable)).
// The writer's numbers increase (as the storage manager's do), so the oracle is "the last write
// of the key wins, wherever in the pool it lives".
func runC18Pool(c *Case, out func(string)) {
	cfg := config.NewDefaultConfig(tmpDir("c18p-"))
	cfg.MemTableSize = 1 << 30
	cfg.MaxMemTableAge = 0
	pool := memtable.NewMemTablePool(cfg)
	type last struct {
		v   []byte
		del bool
	}
	ref := map[string]last{}
	ok := true
	fail := func(m string) {
		if ok {
			out("ORACLE FAIL " + m)
		}
		ok = false
	}
	switches, gets, multi := 0, 0, 0
	tablesOf := map[string]map[int]bool{}
	for _, l := range c.Lines {
		switch l[0] {
		case "put":
			k, v := tok(l[1]), tok(l[2])
			hk, hv := handOver(k), handOver(v)
			pool.Put(hk, hv, parseNum(l[3]))
			scribbleAll(hk, hv)
			ref[string(k)] = last{v: v}
			if tablesOf[string(k)] == nil {
				tablesOf[string(k)] = map[int]bool{}
			}
			tablesOf[string(k)][switches] = true
		case "del":
			k := tok(l[1])
			hk := handOver(k)
			pool.Delete(hk, parseNum(l[2]))
			scribbleAll(hk)
			ref[string(k)] = last{del: true}
			if tablesOf[string(k)] == nil {
				tablesOf[string(k)] = map[int]bool{}
			}
			tablesOf[string(k)][switches] = true
		case "switch":
			pool.SwitchToNewMemTable()
			switches++
		case "get":
			k := tok(l[1])
			gets++
			if len(tablesOf[string(k)]) > 1 {
				multi++
			}
			v, found := pool.Get(k)
			w, have := ref[string(k)]
			switch {
			case !found:
				out("G absent")
				if have {
					fail("pool get " + render(k) + " absent but the key was written")
				}
			case v == nil:
				out("G deleted")
				if !have || !w.del {
					fail("pool get " + render(k) + " reports a deletion marker, the last write of the key is not a delete")
				}
			default:
				out("G v:" + render(v))
				if !have || w.del || !bytes.Equal(w.v, v) {
					fail("pool get " + render(k) + " returned " + render(v) + ", which is not the last write of the key")
				}
			}
		case "tables":
			ts := pool.GetMemTables()
			var parts []string
			for i, t := range ts {
				n := 0
				it := t.NewIterator()
				for it.SeekToFirst(); it.Valid(); it.Next() {
					n++
				}
				fl := "a"
				if t.IsImmutable() {
					fl = "i"
				}
				if (i == 0) != (fl == "a") {
					fail("GetMemTables: the active table is not first / an immutable table is")
				}
				parts = append(parts, fmt.Sprintf("%d%s", n, fl))
			}
			out(fmt.Sprintf("T n=%d %s", len(ts), strings.Join(parts, ",")))
			if len(ts) != switches+1 {
				fail(fmt.Sprintf("GetMemTables returned %d tables after %d switches", len(ts), switches))
			}
		default:
			out("IMPL-ERROR bad line " + strings.Join(l, " "))
		}
	}
	if ok {
		out("ORACLE ok")
	}
	out(fmt.Sprintf("META pool_switches=%d pool_gets=%d gets_of_keys_in_several_tables=%d nontrivial=%d", switches, gets, multi, b2i(switches >= 2 && multi > 0)))
}

// Concurrent part: one writer inserts the case's entries in order; reader goroutines run Get /
// full iteration / Seek at arbitrary times. Each reader observation is checked on the spot
// (no model round trip; the Coq side of this clause is SkipConc.v): an iteration must be
// sorted (key asc, seq desc), duplicate free, contain everything inserted before it started
// and nothing that was never inserted; a Get must return a version of the key whose sequence
// number is at least the highest inserted before the Get started.
func runC18Conc(c *Case, out func(string)) {
	mt := memtable.NewMemTable()
	var ins []mver
	for _, l := range c.Lines {
		switch l[0] {
		case "put":
			ins = append(ins, mver{k: tok(l[1]), v: tok(l[2]), seq: parseNum(l[3])})
		case "del":
			ins = append(ins, mver{k: tok(l[1]), seq: parseNum(l[2]), del: true})
		}
	}
	var done sync.WaitGroup
	var mu sync.Mutex
	progress := 0 // number of inserts completed
	get := func() int { mu.Lock(); defer mu.Unlock(); return progress }
	var failMsg string
	var fmu sync.Mutex
	fail := func(m string) {
		fmu.Lock()
		if failMsg == "" {
			failMsg = m
		}
		fmu.Unlock()
	}
	stop := make(chan struct{})
	nobs := 0
	var omu sync.Mutex
	for r := 0; r < 3; r++ {
		done.Add(1)
		go func(r int) {
			defer done.Done()
			rng := rand.New(rand.NewSource(int64(r) + 77))
			for {
				select {
				case <-stop:
					return
				default:
				}
				before := get()
				switch rng.Intn(3) {
				case 2:
					// Seek to a key inserted before this reader step began: the iterator must be
					// valid and positioned exactly on that key (it exists, is visible, and no
					// smaller key is >= the target); walking on must stay ascending
					if before == 0 {
						break
					}
					tgt := ins[rng.Intn(before)].k
					it := mt.NewIterator()
					it.Seek(tgt)
					if !it.Valid() {
						fail(fmt.Sprintf("concurrent Seek(%x) invalid although the key was inserted before the seek started", tgt))
					} else if !bytes.Equal(it.Key(), tgt) {
						fail(fmt.Sprintf("concurrent Seek(%x) positioned on %x", tgt, it.Key()))
					} else {
						pk := it.Key()
						for n := 0; n < 5; n++ {
							it.Next()
							if !it.Valid() {
								break
							}
							if bytes.Compare(pk, it.Key()) > 0 {
								fail("iteration after a concurrent Seek went backwards")
							}
							pk = it.Key()
						}
					}
				case 0:
					it := mt.NewIterator()
					type ks struct {
						k   string
						seq uint64
					}
					seen := map[ks]int{}
					var pk []byte
					var ps uint64
					first := true
					for it.SeekToFirst(); it.Valid(); it.Next() {
						k, s := it.Key(), it.SequenceNumber()
						if !first {
							cmp := bytes.Compare(pk, k)
							if cmp > 0 || (cmp == 0 && ps < s) {
								fail("concurrent iteration out of order")
							}
						}
						first = false
						pk, ps = k, s
						seen[ks{string(k), s}]++
					}
					cnt := map[ks]int{}
					for i := 0; i < before; i++ {
						cnt[ks{string(ins[i].k), ins[i].seq}]++
					}
					// a mutable table's iterator filters by its snapshot sequence number, so an
					// entry inserted before the iterator was created must be visible
					for k, n := range cnt {
						if seen[k] < n {
							fail(fmt.Sprintf("concurrent iteration misses an entry inserted before it started (key %x seq %d)", k.k, k.seq))
						}
					}
					all := map[ks]int{}
					for _, e := range ins {
						all[ks{string(e.k), e.seq}]++
					}
					for k, n := range seen {
						if n > all[k] {
							fail("concurrent iteration returned an entry that was never inserted")
						}
					}
				case 1:
					e := ins[rng.Intn(len(ins))]
					var hi uint64
					have := false
					for i := 0; i < before; i++ {
						if bytes.Equal(ins[i].k, e.k) && (!have || ins[i].seq > hi) {
							hi, have = ins[i].seq, true
						}
					}
					_, found := mt.Get(e.k)
					if have && !found {
						fail("concurrent Get misses a key inserted before it started")
					}
				}
				omu.Lock()
				nobs++
				omu.Unlock()
			}
		}(r)
	}
	for i, e := range ins {
		if e.del {
			mt.Delete(e.k, e.seq)
		} else {
			mt.Put(e.k, e.v, e.seq)
		}
		mu.Lock()
		progress = i + 1
		mu.Unlock()
	}
	close(stop)
	done.Wait()
	if failMsg != "" {
		out("ORACLE FAIL " + failMsg)
	} else {
		out("ORACLE ok")
	}
	out(fmt.Sprintf("META conc_inserts=%d reader_observations=%d nontrivial=1", len(ins), nobs))
}

// Directed concurrent scenario: a sentinel key is inserted first; the writer then inserts
// `n` keys in ascending (dir=up) or descending (dir=down) order just below the sentinel, so
// that every new node lies on the search path of a reader looking for the sentinel; readers
// Seek the sentinel and run Get on it all the time. Every Seek must be valid and positioned
// on the sentinel itself (it was inserted before any reader started, nothing else is >= it).
func runC18Sentinel(c *Case, out func(string)) {
	n, _ := strconv.Atoi(hdrVal(c.Hdr, "n", "20000"))
	dir := hdrVal(c.Hdr, "dir", "up")
	mt := memtable.NewMemTable()
	sentinel := []byte("zzzz-sentinel")
	mt.Put(sentinel, []byte("v"), 1)
	stop := make(chan struct{})
	var wg sync.WaitGroup
	var fmu sync.Mutex
	failMsg := ""
	seeks := 0
	for r := 0; r < 3; r++ {
		wg.Add(1)
		go func() {
			defer wg.Done()
			k := 0
			for {
				select {
				case <-stop:
					fmu.Lock()
					seeks += k
					fmu.Unlock()
					return
				default:
				}
				it := mt.NewIterator()
				it.Seek(sentinel)
				k++
				var m string
				if !it.Valid() {
					m = "concurrent Seek(sentinel) is invalid although the sentinel was inserted before any reader started"
				} else if !bytes.Equal(it.Key(), sentinel) {
					m = fmt.Sprintf("concurrent Seek(sentinel) positioned on %q", it.Key())
				} else if _, found := mt.Get(sentinel); !found {
					m = "concurrent Get(sentinel) not found"
				}
				if m != "" {
					fmu.Lock()
					if failMsg == "" {
						failMsg = m
					}
					fmu.Unlock()
				}
			}
		}()
	}
	for i := 0; i < n; i++ {
		j := i
		if dir == "down" {
			j = n - i
		}
		mt.Put([]byte(fmt.Sprintf("zzzz-%08d", j)), []byte("x"), uint64(i+2))
	}
	close(stop)
	wg.Wait()
	if failMsg != "" {
		out("ORACLE FAIL " + failMsg)
	} else {
		out("ORACLE ok")
	}
	out(fmt.Sprintf("META conc_inserts=%d sentinel_seeks=%d nontrivial=1", n, seeks))
}

// a reader holds one iterator while the single writer goes on: entries are written before the
// iterator is created, then writes (runs of adjacent newer entries ahead of and behind the
// reader: a key overwritten several times, new neighbouring keys, deletes) alternate with steps
func genC18Held(w *bufio.Writer, r *rand.Rand, id string) {
	fmt.Fprintf(w, "case %s kind=held\n", id)
	seq := uint64(0)
	key := func(i int) string { return mkTok([]byte(fmt.Sprintf("k%02d", i))) }
	put := func(i int) {
		seq++
		if r.Intn(6) == 0 {
			fmt.Fprintf(w, "del %s %s\n", key(i), num(seq))
		} else {
			fmt.Fprintf(w, "put %s %s %s\n", key(i), genVal(r), num(seq))
		}
	}
	nk := 6 + r.Intn(10)
	if r.Intn(8) > 0 { // sometimes the iterator is created on an empty table (no snapshot filter)
		for i := 0; i < nk; i++ {
			if r.Intn(5) > 0 {
				put(2 * i)
			}
		}
	}
	// a key with several versions below the iterator's snapshot, sought again after the iterator
	// has stepped from its newest version onto an older one (a Seek goes back to the newest)
	reseek := -1
	if r.Intn(3) == 0 {
		reseek = 2 * r.Intn(nk)
		for n := 2 + r.Intn(3); n > 0; n-- {
			put(reseek)
		}
	}
	if r.Intn(10) == 0 {
		fmt.Fprintf(w, "imm\n")
	}
	fmt.Fprintf(w, "hnew\n")
	if reseek >= 0 {
		fmt.Fprintf(w, "hseek %s\nhnext\nhseek %s\n", key(reseek), key(reseek))
		if r.Intn(2) == 0 {
			fmt.Fprintf(w, "hnext\nhnext\nhseek %s\n", key(reseek))
		}
	}
	if r.Intn(3) == 0 {
		put(2 * r.Intn(nk))
	}
	if r.Intn(3) == 0 {
		fmt.Fprintf(w, "hseek %s\n", key(r.Intn(2*nk)))
	} else {
		fmt.Fprintf(w, "hfirst\n")
	}
	for st := 0; st < 2*nk; st++ {
		switch r.Intn(4) {
		case 0: // one key overwritten several times: adjacent newer versions
			k := r.Intn(2 * nk)
			for n := 2 + r.Intn(3); n > 0; n-- {
				put(k)
			}
		case 1: // new neighbouring keys
			k := r.Intn(2*nk - 3)
			for n := 0; n < 2+r.Intn(2); n++ {
				put(k + n)
			}
		case 2:
			put(r.Intn(2 * nk))
		}
		if r.Intn(3) > 0 {
			fmt.Fprintf(w, "hnext\n")
		}
		if r.Intn(25) == 0 {
			fmt.Fprintf(w, "hseek %s\n", key(r.Intn(2*nk)))
		}
	}
	fmt.Fprintf(w, "hdrain\niter\nend\n")
}

// the pool: versions of a few keys spread over several generations of the active table
func genC18Pool(w *bufio.Writer, r *rand.Rand, id string) {
	fmt.Fprintf(w, "case %s mode=pool\n", id)
	nk := 3 + r.Intn(4)
	seq := uint64(0)
	key := func() string { return mkTok([]byte(fmt.Sprintf("k%d", r.Intn(nk)))) }
	for g := 2 + r.Intn(4); g > 0; g-- {
		for i := 1 + r.Intn(5); i > 0; i-- {
			seq++
			if r.Intn(5) == 0 {
				fmt.Fprintf(w, "del %s %s\n", key(), num(seq))
			} else {
				fmt.Fprintf(w, "put %s %s %s\n", key(), genVal(r), num(seq))
			}
		}
		if r.Intn(3) == 0 {
			fmt.Fprintf(w, "get %s\n", key())
		}
		fmt.Fprintf(w, "switch\n")
		if r.Intn(4) == 0 {
			fmt.Fprintf(w, "tables\n")
		}
	}
	for i := r.Intn(3); i > 0; i-- {
		seq++
		fmt.Fprintf(w, "put %s %s %s\n", key(), genVal(r), num(seq))
	}
	fmt.Fprintf(w, "tables\n")
	for i := 0; i < nk+1; i++ {
		fmt.Fprintf(w, "get %s\n", mkTok([]byte(fmt.Sprintf("k%d", i))))
	}
	fmt.Fprintf(w, "end\n")
}

func genC18(w *bufio.Writer, seed int64, n int, tier string) {
	r := rand.New(rand.NewSource(seed*6151 + 18))
	for ci := 0; ci < n; ci++ {
		if ci%20 == 19 {
			fmt.Fprintf(w, "case c18-%d-%d mode=sentinel n=%d dir=%s\nend\n", seed, ci, 30000+r.Intn(20000), []string{"up", "up", "up", "down"}[r.Intn(4)])
			continue
		}
		if ci%10 == 4 {
			genC18Held(w, r, fmt.Sprintf("c18-%d-%d", seed, ci))
			continue
		}
		if ci%10 == 6 {
			genC18Pool(w, r, fmt.Sprintf("c18-%d-%d", seed, ci))
			continue
		}
		if ci%40 == 17 {
			fmt.Fprintf(w, "case c18-%d-%d mode=poolconc n=%d every=%d\nend\n", seed, ci, 3000+r.Intn(3000), 4+r.Intn(12))
			continue
		}
		conc := ci%10 == 9
		if conc {
			fmt.Fprintf(w, "case c18-%d-%d mode=conc\n", seed, ci)
		} else {
			fmt.Fprintf(w, "case c18-%d-%d\n", seed, ci)
		}
		nkeys := 2 + r.Intn(6)
		nops := 3 + r.Intn(40)
		if conc {
			nops = 300 + r.Intn(500)
			nkeys = 12
		}
		immAt := -1
		if !conc && r.Intn(4) == 0 {
			immAt = r.Intn(nops)
		}
		for i := 0; i < nops; i++ {
			if i == immAt {
				fmt.Fprintf(w, "imm\n")
			}
			// sequence numbers: arbitrary, non-monotone, repeated
			var s uint64
			switch pick(r, 5, 3, 1, 1) {
			case 0:
				s = uint64(i + 1)
			case 1:
				s = uint64(r.Intn(8))
			case 2:
				s = uint64(r.Int63())
			case 3:
				s = []uint64{0, 1, 1<<64 - 2, 1 << 63}[r.Intn(4)] // 2^64-1 is outside the guard (uint64 wrap of nextSeqNum), see corpus/C18
			}
			kk := genKey(r, nkeys)
			if conc {
				kk = []byte(fmt.Sprintf("k%03d", r.Intn(400)))
			}
			x := pick(r, 8, 3, 4, 1, 2)
			if conc && x > 1 {
				x = 0
			}
			switch x {
			case 0:
				fmt.Fprintf(w, "put %s %s %s\n", mkTok(kk), genVal(r), num(s))
			case 1:
				fmt.Fprintf(w, "del %s %s\n", mkTok(kk), num(s))
			case 2:
				fmt.Fprintf(w, "get %s\n", mkTok(genKey(r, nkeys+1)))
			case 3:
				fmt.Fprintf(w, "iter\n")
			case 4:
				t := genKey(r, nkeys+2)
				if r.Intn(3) == 0 {
					t = append(append([]byte{}, t...), 0)
				}
				fmt.Fprintf(w, "seek %s\n", mkTok(t))
			}
		}
		if !conc {
			fmt.Fprintf(w, "iter\nsize\n")
			for k := 0; k < nkeys+1; k++ {
				fmt.Fprintf(w, "get %s\n", mkTok(genKey(r, k+1)))
			}
		}
		fmt.Fprintf(w, "end\n")
	}
}

// mode=poolconc (oracle only): the pool used from several goroutines: one writer puts n distinct
// keys, one goroutine seals the active table every few writes (SwitchToNewMemTable), readers get
// the latest key. A Put that has returned is in some table of the pool: afterwards every key is
// found by MemTablePool.Get with its value, and the tables together hold exactly n entries.
func runC18PoolConc(c *Case, out func(string)) {
	n, _ := strconv.Atoi(hdrVal(c.Hdr, "n", "4000"))
	every, _ := strconv.Atoi(hdrVal(c.Hdr, "every", "8"))
	cfg := config.NewDefaultConfig(tmpDir("c18pc-"))
	cfg.MemTableSize = 1 << 30
	cfg.MaxMemTableAge = 0
	pool := memtable.NewMemTablePool(cfg)
	var written atomic.Int64
	var stop atomic.Bool
	var wg sync.WaitGroup
	key := func(i int64) []byte { return []byte(fmt.Sprintf("key-%08d", i)) }
	wg.Add(1)
	go func() { // sealer
		defer wg.Done()
		last := int64(0)
		for !stop.Load() {
			if w := written.Load(); w-last >= int64(every) {
				pool.SwitchToNewMemTable()
				last = w
			} else {
				runtime.Gosched()
			}
		}
	}()
	for r := 0; r < 3; r++ { // readers
		wg.Add(1)
		go func() {
			defer wg.Done()
			for !stop.Load() {
				if w := written.Load(); w > 0 {
					pool.Get(key(w))
				}
			}
		}()
	}
	for i := int64(1); i <= int64(n); i++ {
		pool.Put(key(i), []byte(fmt.Sprintf("v%d", i)), uint64(i))
		written.Store(i)
	}
	stop.Store(true)
	wg.Wait()
	lost, wrong := 0, 0
	first := ""
	for i := int64(1); i <= int64(n); i++ {
		v, found := pool.Get(key(i))
		if !found {
			lost++
			if first == "" {
				first = string(key(i))
			}
		} else if string(v) != fmt.Sprintf("v%d", i) {
			wrong++
		}
	}
	total := 0
	for _, t := range pool.GetMemTables() {
		it := t.NewIterator()
		for it.SeekToFirst(); it.Valid(); it.Next() {
			total++
		}
	}
	if lost > 0 || wrong > 0 {
		out(fmt.Sprintf("ORACLE FAIL %d of %d keys whose Put had returned are in no table of the pool (first: %s), %d have a wrong value", lost, n, first, wrong))
	} else if total != n {
		out(fmt.Sprintf("ORACLE FAIL the tables of the pool hold %d entries together, %d were put", total, n))
	} else {
		out("ORACLE ok")
	}
	out(fmt.Sprintf("META mode=poolconc puts=%d tables=%d nontrivial=1", n, len(pool.GetMemTables())))
}
