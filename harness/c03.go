package main

// C03: transactions are all-or-nothing. Five kinds of cases (header mode=...):
//
//	seq   sequential programs: put/del/get/batch/flush/reopen as C01, plus transactions
//	      "tx <n> <how>" with n body lines "p K V" | "d K" | "g K" and how = commit | rollback |
//	      rollback_commit (rollback, then Commit/Put on the same handle) | abandon (the engine
//	      is closed and reopened with the transaction still open) | commit_closed (the engine is
//	      closed before Commit, which must fail; then reopened). The harness overwrites the key
//	      and value slices it passed right after every call (the caller may reuse its buffers).
//	      Observations mirrored by the Engine model (model/drv_c03.ml): W/G/TG/T/O/N/S lines.
//	gate  directed schedule: a batch is stopped between two memtable inserts (verifhook site
//	      mgr.batch.insert, n-th hit) while readers try to look: Gets and a new iterator
//	      (must wait), a scan of an iterator created before the batch.
//	conc  one writer committing stamped batches (through transactions or ApplyBatch), four readers
//	      (iterator scans, read-only transactions, pairs of Gets) under seeded schedule
//	      perturbation; the recorded history, projected on a few keys, is printed as NOTE lines
//	      and judged by the extracted checker TxnAtomic.atomic_check ("V accept").
//	crash the C02 child-process machinery with sites inside the commit path and batches larger
//	      than the 64 KB log buffer.
//	torn  the newest log file ends with a multi-key batch; it is truncated at every byte offset
//	      inside that batch and the database reopened.
//
// Oracle, written from the property text: a committed batch is visible entirely or not at all
// (to every reader, at every moment, after every recovery); rollback / failed commit /
// abandonment leave state, sequence counter and log unchanged; last operation per key wins;
// keys and values are those passed at call time.

import (
	"bufio"
	"bytes"
	"fmt"
	"math/rand"
	"os"
	"path/filepath"
	"sort"
	"strconv"
	"strings"
	"sync"
	"sync/atomic"
	"time"

	"github.com/KevoDB/kevo/pkg/engine"
	"github.com/KevoDB/kevo/pkg/verifhook"
	"github.com/KevoDB/kevo/pkg/wal"
)

func init() {
	register("C03", &Prop{Gen: genC03, Run: runC03, Child: childC02})
}

func runC03(c *Case, out func(string)) {
	switch hdrVal(c.Hdr, "mode", "seq") {
	case "seq":
		runC03Seq(c, out)
	case "gate":
		runC03Gate(c, out)
	case "conc":
		runC03Conc(c, out)
	case "crash":
		runC03Crash(c, out)
	case "torn":
		runC03Torn(c, out)
	default:
		out("IMPL-ERROR unknown mode")
	}
}

// scribble overwrites a buffer the caller handed to the engine: afterwards the engine must
// still hold the bytes it was given at call time.
func scribble(b []byte) {
	for i := range b {
		b[i] = 0xEE
	}
}

func clone(b []byte) []byte { return append([]byte{}, b...) }

func walEntriesOf(ops []bop) []*wal.Entry {
	var es []*wal.Entry
	for _, o := range ops {
		if o.del {
			es = append(es, &wal.Entry{Type: wal.OpTypeDelete, Key: clone(o.k)})
		} else {
			es = append(es, &wal.Entry{Type: wal.OpTypePut, Key: clone(o.k), Value: clone(o.v)})
		}
	}
	return es
}

// fullScan reads everything through a fresh iterator, as a client would (tombstones skipped).
func fullScan(e *engine.EngineFacade) (map[string][]byte, []string, error) {
	it, err := e.GetIterator()
	if err != nil {
		return nil, nil, err
	}
	m := map[string][]byte{}
	var order []string
	for it.SeekToFirst(); it.Valid(); it.Next() {
		if it.IsTombstone() {
			continue
		}
		k := string(it.Key())
		if _, dup := m[k]; dup {
			return m, order, fmt.Errorf("scan returned key %s twice", render(it.Key()))
		}
		m[k] = clone(it.Value())
		order = append(order, k)
	}
	return m, order, nil
}

func sameState(a, b map[string][]byte) bool {
	if len(a) != len(b) {
		return false
	}
	for k, v := range a {
		w, ok := b[k]
		if !ok || !bytes.Equal(v, w) {
			return false
		}
	}
	return true
}

func liveOf(ref map[string][]byte) map[string][]byte {
	m := map[string][]byte{}
	for k, v := range ref {
		if v != nil {
			m[k] = v
		}
	}
	return m
}

// ---------------------------------------------------------------------------------------
// mode=seq
// ---------------------------------------------------------------------------------------

type loggedEffect struct {
	del  bool
	k, v []byte
	w    int // index of the write it belongs to
}

func runC03Seq(c *Case, out func(string)) {
	dir := tmpDir("c03-")
	defer os.RemoveAll(dir)
	memsize, _ := strconv.ParseInt(hdrVal(c.Hdr, "memsize", "4096"), 10, 64)
	if err := writeManifest(dir, memsize, 1000, nil); err != nil {
		out("IMPL-ERROR manifest " + err.Error())
		return
	}
	holdBackground()
	e, err := openEngine(dir)
	if err != nil {
		out("IMPL-ERROR open " + err.Error())
		return
	}
	defer func() { e.Close() }()

	ref := map[string][]byte{} // nil = deleted
	var expLog []loggedEffect  // what the log must contain, in order
	nwrites := 0
	oracleOK := true
	fail := func(m string) {
		if oracleOK {
			out("ORACLE FAIL " + m)
		}
		oracleOK = false
	}
	apply := func(ops []bop) {
		for _, o := range ops {
			if o.del {
				ref[string(o.k)] = nil
			} else {
				ref[string(o.k)] = clone(o.v)
			}
			expLog = append(expLog, loggedEffect{o.del, clone(o.k), clone(o.v), nwrites})
		}
		nwrites++
	}
	checkState := func(when string) {
		for k, want := range ref {
			v, err := e.Get([]byte(k))
			if want == nil {
				if err == nil {
					fail(fmt.Sprintf("%s: get %s returned %s but the key is deleted", when, render([]byte(k)), render(v)))
				}
			} else if err != nil || !bytes.Equal(v, want) {
				fail(fmt.Sprintf("%s: get %s returned %s, expected %s", when, render([]byte(k)), renderGet(v, err), render(want)))
			}
		}
		got, _, err := fullScan(e)
		if err != nil {
			fail(when + ": scan: " + err.Error())
		} else if !sameState(got, liveOf(ref)) {
			fail(fmt.Sprintf("%s: a full scan returns %d keys, the live keys are %d (or values differ)", when, len(got), len(liveOf(ref))))
		}
	}
	reopen := func() bool {
		e, err = openEngine(dir)
		if err != nil {
			out("IMPL-ERROR reopen " + err.Error())
			return false
		}
		if logSetAside(dir) {
			fail("recovery set the log aside")
			return false
		}
		out("O last=" + num(lastSeq(e)))
		return true
	}
	ntx, nrepeat, nreuse, nnoeffect := 0, 0, 0, 0
	for i := 0; i < len(c.Lines); i++ {
		l := c.Lines[i]
		switch l[0] {
		case "put":
			k, v := tok(l[1]), tok(l[2])
			kk, vv := clone(k), clone(v)
			err := e.Put(kk, vv)
			scribble(kk)
			scribble(vv)
			if err != nil {
				out("W err:" + werrShort(err))
			} else {
				apply([]bop{{k: k, v: v}})
				out("W ok last=" + num(lastSeq(e)))
			}
		case "del":
			k := tok(l[1])
			kk := clone(k)
			err := e.Delete(kk)
			scribble(kk)
			if err != nil {
				out("W err:" + werrShort(err))
			} else {
				apply([]bop{{del: true, k: k}})
				out("W ok last=" + num(lastSeq(e)))
			}
		case "get":
			v, err := e.Get(tok(l[1]))
			out("G " + renderGet(v, err))
		case "batch":
			n, _ := strconv.Atoi(l[1])
			ops := parseBops(c, i, n)
			i += n
			es := walEntriesOf(ops)
			err := e.ApplyBatch(es)
			for _, en := range es {
				scribble(en.Key)
				scribble(en.Value)
			}
			if err != nil {
				out("W err:" + werrShort(err))
			} else {
				if n > 0 {
					apply(ops)
				}
				out("W ok last=" + num(lastSeq(e)))
			}
		case "flush":
			if err := e.FlushImMemTables(); err != nil {
				out("IMPL-ERROR flush " + err.Error())
			}
		case "reopen":
			if err := e.Close(); err != nil {
				out("IMPL-ERROR close " + err.Error())
			}
			if !reopen() {
				return
			}
			checkState("after reopen")
		case "tx":
			n, _ := strconv.Atoi(l[1])
			how := l[2]
			ntx++
			tx, err := e.BeginTransaction(false)
			if err != nil {
				out("IMPL-ERROR begin " + err.Error())
				return
			}
			buf := map[string]*bop{} // the transaction's own view: last operation per key
			var body []bop
			for j := 1; j <= n; j++ {
				b := c.Lines[i+j]
				switch b[0] {
				case "p":
					k, v := tok(b[1]), tok(b[2])
					kk, vv := clone(k), clone(v)
					if err := tx.Put(kk, vv); err != nil {
						fail("tx.Put: " + err.Error())
					}
					scribble(kk)
					scribble(vv)
					nreuse++
					if _, seen := buf[string(k)]; seen {
						nrepeat++
					}
					o := bop{k: k, v: v}
					buf[string(k)] = &o
					body = append(body, o)
				case "d":
					k := tok(b[1])
					kk := clone(k)
					if err := tx.Delete(kk); err != nil {
						fail("tx.Delete: " + err.Error())
					}
					scribble(kk)
					if _, seen := buf[string(k)]; seen {
						nrepeat++
					}
					o := bop{del: true, k: k}
					buf[string(k)] = &o
					body = append(body, o)
				case "g":
					k := tok(b[1])
					v, err := tx.Get(k)
					out("TG " + renderGet(v, err))
					// own writes are visible inside the transaction, nothing else changed
					var want []byte
					if o, ok := buf[string(k)]; ok {
						if !o.del {
							want = o.v
							if want == nil {
								want = []byte{}
							}
						}
					} else {
						want = ref[string(k)]
					}
					if want == nil {
						if err == nil {
							fail(fmt.Sprintf("tx.Get %s returned %s, expected not found", render(k), render(v)))
						}
					} else if err != nil || !bytes.Equal(v, want) {
						fail(fmt.Sprintf("tx.Get %s returned %s, expected %s", render(k), renderGet(v, err), render(want)))
					}
				}
			}
			i += n
			eff := bufferOps(body)
			before := lastSeq(e)
			switch how {
			case "commit":
				if err := tx.Commit(); err != nil {
					out("W err:" + werrShort(err))
					fail("commit failed: " + err.Error())
				} else {
					if len(eff) > 0 {
						apply(eff)
					} else if lastSeq(e) != before {
						fail("commit of an empty transaction consumed a sequence number")
					}
					out("W ok last=" + num(lastSeq(e)))
				}
				checkState("after commit")
			case "rollback", "rollback_commit":
				if err := tx.Rollback(); err != nil {
					fail("rollback: " + err.Error())
				}
				nnoeffect++
				if how == "rollback_commit" {
					cerr := tx.Commit()
					perr := tx.Put([]byte("zz-late"), []byte("x"))
					rerr := tx.Rollback()
					if cerr == nil || perr == nil || rerr == nil {
						fail(fmt.Sprintf("operations on a rolled-back transaction succeeded (commit=%v put=%v rollback=%v)", cerr, perr, rerr))
						out("T rolledback again=accepted")
					} else {
						out("T rolledback again=closed")
					}
				} else {
					out("T rolledback")
				}
				if lastSeq(e) != before {
					fail("a rolled-back transaction consumed a sequence number")
				}
				checkState("after rollback")
				// the global transaction lock must be free again
				done := make(chan bool, 1)
				go func() {
					t2, err := e.BeginTransaction(false)
					if err == nil {
						t2.Rollback()
					}
					done <- true
				}()
				select {
				case <-done:
				case <-time.After(10 * time.Second):
					fail("after rollback the next read-write transaction cannot begin")
					return
				}
			case "abandon":
				nnoeffect++
				out("T abandoned")
				e.Close()
				if !reopen() {
					return
				}
				if lastSeq(e) != before {
					fail(fmt.Sprintf("an abandoned transaction changed the sequence counter (%d -> %d)", before, lastSeq(e)))
				}
				checkState("after an abandoned transaction and reopen")
			case "commit_closed":
				nnoeffect++
				e.Close()
				if err := tx.Commit(); len(eff) == 0 {
					// nothing to apply: the commit touches no storage
					if err != nil {
						fail("Commit of an empty transaction failed: " + err.Error())
					}
					out("T commitempty")
				} else if err == nil {
					fail("Commit on a closed engine reported success")
					out("T commitaccepted")
				} else {
					out("T commitfailed")
				}
				if !reopen() {
					return
				}
				if lastSeq(e) != before {
					fail(fmt.Sprintf("a failed commit changed the sequence counter (%d -> %d)", before, lastSeq(e)))
				}
				checkState("after a failed commit and reopen")
			}
		default:
			out("IMPL-ERROR bad line " + strings.Join(l, " "))
		}
	}
	out("N " + num(e.VerifStorage().VerifNextSequence()))
	checkState("at the end")
	// S line: the full scan, mirrored by the model
	got, order, _ := fullScan(e)
	var sb strings.Builder
	for _, k := range order {
		sb.WriteString(" " + render([]byte(k)) + "=" + render(got[k]))
	}
	if !sort.StringsAreSorted(order) {
		fail("scan is not ascending")
	}
	out("S" + sb.String())
	// the log holds exactly the acknowledged effects, in order, one sequence number per write
	e.Close()
	var logged []*wal.Entry
	wal.ReplayWALDir(filepath.Join(dir, "wal"), func(en *wal.Entry) error {
		logged = append(logged, &wal.Entry{Type: en.Type, SequenceNumber: en.SequenceNumber, Key: clone(en.Key), Value: clone(en.Value)})
		return nil
	})
	if len(logged) != len(expLog) {
		fail(fmt.Sprintf("the log holds %d entries, the acknowledged writes have %d effects (rolled-back, failed or abandoned transactions must leave no trace)", len(logged), len(expLog)))
	} else {
		for j, en := range logged {
			x := expLog[j]
			if (en.Type == wal.OpTypeDelete) != x.del || !bytes.Equal(en.Key, x.k) || (!x.del && !bytes.Equal(en.Value, x.v)) {
				fail(fmt.Sprintf("log entry %d is %s/%s, expected %s/%s (del=%v)", j, render(en.Key), render(en.Value), render(x.k), render(x.v), x.del))
				break
			}
			if j > 0 {
				same := expLog[j-1].w == x.w
				if same && en.SequenceNumber != logged[j-1].SequenceNumber {
					fail(fmt.Sprintf("log entries %d and %d belong to one batch but carry sequence numbers %d and %d", j-1, j, logged[j-1].SequenceNumber, en.SequenceNumber))
					break
				}
				if !same && en.SequenceNumber <= logged[j-1].SequenceNumber {
					fail(fmt.Sprintf("log entry %d (next write) has sequence number %d after %d", j, en.SequenceNumber, logged[j-1].SequenceNumber))
					break
				}
			}
		}
	}
	if oracleOK {
		out("ORACLE ok")
	}
	nt := 0
	if ntx >= 1 && (nrepeat > 0 || nnoeffect > 0) && nwrites >= 2 {
		nt = 1
	}
	out(fmt.Sprintf("META mode=seq ops=%d txs=%d repeated_keys=%d buffer_reuse=%d noeffect_txs=%d nontrivial=%d", len(c.Lines), ntx, nrepeat, nreuse, nnoeffect, nt))
}

// ---------------------------------------------------------------------------------------
// mode=gate: a batch stopped between two memtable inserts
// ---------------------------------------------------------------------------------------

// Lines: put K V ... (setup), then "gate <tx|direct> <hit> <n>" + n ops. The batch is applied
// in a goroutine and stopped at the hit-th arrival at mgr.batch.insert (hit-1 entries are in
// the memtable, the log append is done). Meanwhile: (1) an iterator created BEFORE the batch
// is scanned; (2) a Get of every key of the batch and a GetIterator are started: none may
// return a view that contains part of the batch. Then the batch is released.
func runC03Gate(c *Case, out func(string)) {
	dir := tmpDir("c03g-")
	defer os.RemoveAll(dir)
	memsize, _ := strconv.ParseInt(hdrVal(c.Hdr, "memsize", "100000"), 10, 64)
	if err := writeManifest(dir, memsize, 1000, nil); err != nil {
		out("IMPL-ERROR manifest " + err.Error())
		return
	}
	holdBackground()
	e, err := openEngine(dir)
	if err != nil {
		out("IMPL-ERROR open " + err.Error())
		return
	}
	defer func() { verifhook.OnHit(nil); e.Close() }()
	ref := map[string][]byte{}
	ok := true
	fail := func(m string) {
		if ok {
			out("ORACLE FAIL " + m)
		}
		ok = false
	}
	applyTo := func(m map[string][]byte, ops []bop) map[string][]byte {
		r := map[string][]byte{}
		for k, v := range m {
			r[k] = v
		}
		for _, o := range ops {
			if o.del {
				delete(r, string(o.k))
			} else {
				r[string(o.k)] = o.v
			}
		}
		return r
	}
	ngates, nheld, npartial, nrogate := 0, 0, 0, 0
	for i := 0; i < len(c.Lines); i++ {
		l := c.Lines[i]
		switch l[0] {
		case "rogate":
			// a read-only transaction is open while a read-write transaction tries to commit:
			// the writer must wait for the reader (transaction lock), so the reader's gets and
			// its scan all show the state before the commit
			n, _ := strconv.Atoi(l[1])
			ops := parseBops(c, i, n)
			i += n
			eff := bufferOps(ops)
			before := liveOf(ref)
			after := applyTo(before, eff)
			nrogate++
			ro, err := e.BeginTransaction(true)
			if err != nil {
				out("IMPL-ERROR begin " + err.Error())
				return
			}
			seen := map[string][]byte{}
			half := len(eff) / 2
			for _, o := range eff[:half] {
				if v, err := ro.Get(o.k); err == nil {
					seen[string(o.k)] = v
				}
			}
			wdone := make(chan error, 1)
			go func() {
				tx, err := e.BeginTransaction(false)
				if err != nil {
					wdone <- err
					return
				}
				for _, o := range ops {
					if o.del {
						tx.Delete(o.k)
					} else {
						tx.Put(o.k, o.v)
					}
				}
				wdone <- tx.Commit()
			}()
			early := false
			select {
			case err := <-wdone:
				early = true
				wdone <- err
			case <-time.After(30 * time.Millisecond):
			}
			for _, o := range eff[half:] {
				if v, err := ro.Get(o.k); err == nil {
					seen[string(o.k)] = v
				}
			}
			scan := map[string][]byte{}
			it := ro.NewIterator()
			for it.SeekToFirst(); it.Valid(); it.Next() {
				if !it.IsTombstone() {
					scan[string(it.Key())] = clone(it.Value())
				}
			}
			ro.Commit()
			for _, o := range eff {
				g, gp := seen[string(o.k)]
				b, bp := before[string(o.k)]
				if gp != bp || (gp && !bytes.Equal(g, b)) {
					fail(fmt.Sprintf("a read-only transaction that began before a commit read %s=%s, the value before the commit is %s (commit finished early: %v)", render(o.k), render(g), render(b), early))
				}
			}
			if !sameState(scan, before) {
				fail(fmt.Sprintf("the scan of a read-only transaction that began before a commit does not show the state before the commit (commit finished early: %v)", early))
			}
			if early {
				fail("a read-write transaction committed while a read-only transaction was open")
			}
			select {
			case err := <-wdone:
				if err != nil {
					fail("commit failed: " + err.Error())
				}
			case <-time.After(20 * time.Second):
				fail("the commit did not finish after the read-only transaction ended")
				return
			}
			for k := range ref {
				if _, ok := after[k]; !ok {
					delete(ref, k)
				}
			}
			for k, v := range after {
				ref[k] = v
			}
			got, _, err := fullScan(e)
			if err != nil || !sameState(got, after) {
				fail("after the commit a scan does not show all of it")
			}
		case "put":
			k, v := tok(l[1]), tok(l[2])
			if e.Put(k, v) == nil {
				ref[string(k)] = v
			}
		case "del":
			k := tok(l[1])
			if e.Delete(k) == nil {
				delete(ref, string(k))
			}
		case "flush":
			e.FlushImMemTables()
		case "gate":
			via := l[1]
			hit, _ := strconv.Atoi(l[2])
			n, _ := strconv.Atoi(l[3])
			ops := parseBops(c, i, n)
			i += n
			eff := ops
			if via == "tx" {
				eff = bufferOps(ops)
			}
			before := liveOf(ref)
			after := applyTo(before, eff)
			ngates++
			// the iterator that exists before the batch starts
			itOld, err := e.GetIterator()
			if err != nil {
				out("IMPL-ERROR iterator " + err.Error())
				return
			}
			base := verifhook.Hits("mgr.batch.insert")
			reached := make(chan bool, 1)
			resume := make(chan bool)
			verifhook.OnHit(func(site string, k int) {
				if site == "mgr.batch.insert" && k == base+hit {
					reached <- true
					<-resume
				}
			})
			wdone := make(chan error, 1)
			go func() {
				if via == "tx" {
					tx, err := e.BeginTransaction(false)
					if err != nil {
						wdone <- err
						return
					}
					for _, o := range ops {
						if o.del {
							tx.Delete(o.k)
						} else {
							tx.Put(o.k, o.v)
						}
					}
					wdone <- tx.Commit()
				} else {
					wdone <- e.ApplyBatch(walEntriesOf(ops))
				}
			}()
			held := false
			select {
			case <-reached:
				held = true
				nheld++
			case err := <-wdone:
				wdone <- err // batch shorter than the hit number: finished without stopping
			case <-time.After(20 * time.Second):
				fail("the batch neither reached the site nor finished")
				return
			}
			describe := func(got map[string][]byte) string {
				var parts []string
				for _, o := range eff {
					v, present := got[string(o.k)]
					if present {
						parts = append(parts, render(o.k)+"="+render(v))
					} else {
						parts = append(parts, render(o.k)+"=absent")
					}
				}
				return strings.Join(parts, " ")
			}
			if held {
				// (1) scan of the iterator created before the batch
				got := map[string][]byte{}
				for itOld.SeekToFirst(); itOld.Valid(); itOld.Next() {
					if !itOld.IsTombstone() {
						got[string(itOld.Key())] = clone(itOld.Value())
					}
				}
				// A scan that is already running while the batch is inserted is not an observer
				// of C03 (DESIGN/coordinator decision: it is constrained by C05 only). What it
				// shows is recorded as a note: the memtable snapshot (MemTable.nextSeqNum
				// alternates between max+1 and max; 0 on an empty table = unfiltered) may let it
				// see the entries inserted so far. Hard check: per key it shows the value before
				// or after the batch, nothing else.
				if !sameState(got, before) && !sameState(got, after) {
					out(fmt.Sprintf("NOTE running scan (iterator created before the batch) sees %d of %d inserted entries of the batch in flight: %s", hit-1, len(eff), describe(got)))
					npartial++
				}
				for k, v := range got {
					b, bp := before[k]
					a, ap := after[k]
					if !(bp && bytes.Equal(v, b)) && !(ap && bytes.Equal(v, a)) {
						fail(fmt.Sprintf("a running scan shows %s=%s, which is neither the value before nor after the batch", render([]byte(k)), render(v)))
					}
				}
				for k := range before {
					if _, inGot := got[k]; !inGot {
						if _, inAfter := after[k]; inAfter {
							fail(fmt.Sprintf("a running scan misses key %s, which exists before and after the batch", render([]byte(k))))
						}
					}
				}
				// (2) readers started while the batch is in flight
				type res struct {
					k   string
					v   []byte
					err error
				}
				rch := make(chan res, len(eff)+1)
				for _, o := range eff {
					o := o
					go func() {
						v, err := e.Get(o.k)
						rch <- res{string(o.k), v, err}
					}()
				}
				sch := make(chan map[string][]byte, 1)
				go func() {
					m, _, err := fullScan(e)
					if err == nil {
						sch <- m
					}
				}()
				early := map[string][]byte{}
				nearly := 0
				timeout := time.After(40 * time.Millisecond)
			collect:
				for {
					select {
					case r := <-rch:
						nearly++
						if r.err == nil {
							early[r.k] = r.v
						}
					case m := <-sch:
						if !sameState(m, before) && !sameState(m, after) {
							fail(fmt.Sprintf("a scan started while %d of the batch's %d entries were inserted returned part of the batch: %s", hit-1, len(eff), describe(m)))
						}
					case <-timeout:
						break collect
					}
				}
				if nearly > 0 {
					// whatever came back before the release must be one of the two views on
					// the keys it covers; with all keys of the batch read: not a strict subset
					if nearly == len(eff) {
						viewB, viewA := true, true
						for _, o := range eff {
							g, gp := early[string(o.k)]
							b, bp := before[string(o.k)]
							a, ap := after[string(o.k)]
							if gp != bp || (gp && !bytes.Equal(g, b)) {
								viewB = false
							}
							if gp != ap || (gp && !bytes.Equal(g, a)) {
								viewA = false
							}
						}
						if !viewB && !viewA {
							fail(fmt.Sprintf("Gets issued while %d of the batch's %d entries were inserted returned part of the batch: %s", hit-1, len(eff), describe(early)))
						}
					}
					out(fmt.Sprintf("NOTE %d reads returned while the batch was stopped inside its critical section", nearly))
				}
				resume <- true
				for nearly < len(eff) {
					<-rch
					nearly++
				}
			}
			verifhook.OnHit(nil)
			select {
			case err := <-wdone:
				if err != nil {
					fail("batch failed: " + err.Error())
				}
			case <-time.After(20 * time.Second):
				fail("the batch did not finish after release")
				return
			}
			for k := range ref {
				if _, ok := after[k]; !ok {
					delete(ref, k)
				}
			}
			for k, v := range after {
				ref[k] = v
			}
			got, _, err := fullScan(e)
			if err != nil || !sameState(got, after) {
				fail("after the batch a scan does not show all of it: " + describe(got))
			}
			// the old iterator, read again after the commit, still must not show a part
			got2 := map[string][]byte{}
			for itOld.SeekToFirst(); itOld.Valid(); itOld.Next() {
				if !itOld.IsTombstone() {
					got2[string(itOld.Key())] = clone(itOld.Value())
				}
			}
			if !sameState(got2, before) && !sameState(got2, after) {
				fail("an iterator created before the batch shows part of it afterwards: " + describe(got2))
			}
		}
	}
	if ok {
		out("ORACLE ok")
	}
	nt := 0
	if nheld > 0 || nrogate > 0 {
		nt = 1
	}
	out(fmt.Sprintf("META mode=gate gates=%d held=%d rogates=%d running_scans_partial=%d nontrivial=%d", ngates, nheld, nrogate, npartial, nt))
}

// ---------------------------------------------------------------------------------------
// mode=conc
// ---------------------------------------------------------------------------------------

type concBatch struct {
	via  string // tx | direct
	del  bool
	keys []int
}

type concObs struct {
	mode   string // section | rotx | free
	what   string
	lo, hi int
	keys   []int
	stamps []int // 0 = absent, -1 = foreign value
}

func concKey(i int) []byte { return []byte(fmt.Sprintf("k%04d", i)) }

func concVal(stamp, vsize int) []byte {
	s := fmt.Sprintf("s%07d", stamp)
	if vsize > len(s) {
		s += strings.Repeat(".", vsize-len(s))
	}
	return []byte(s)
}

func concStamp(v []byte) int {
	if len(v) < 8 || v[0] != 's' {
		return -1
	}
	n, err := strconv.Atoi(string(v[1:8]))
	if err != nil {
		return -1
	}
	return n
}

func parseInts(s string) []int {
	var r []int
	for _, t := range strings.Split(s, ",") {
		if t == "" {
			continue
		}
		n, _ := strconv.Atoi(t)
		r = append(r, n)
	}
	return r
}

// concCheck decides one observation against the reference states (states[n][key] = stamp after
// n batches): the Go twin of TxnAtomic.atomic_check, written independently.
func concCheck(o *concObs, states [][]int, batches []concBatch) bool {
	hi := o.hi
	if hi > len(batches) {
		hi = len(batches)
	}
	okAt := func(n, i int) bool { return states[n][o.keys[i]] == o.stamps[i] }
	switch o.mode {
	case "each":
		// every key on its own: its value is the one after some prefix inside the window
		for i := range o.keys {
			found := false
			for n := o.lo; n <= hi && !found; n++ {
				found = okAt(n, i)
			}
			if !found {
				return false
			}
		}
		return true
	case "section":
		for n := o.lo; n <= hi; n++ {
			all := true
			for i := range o.keys {
				if !okAt(n, i) {
					all = false
					break
				}
			}
			if all {
				return true
			}
		}
		return false
	default:
		// the set of prefixes that can explain the reads so far
		reach := func(n, m int) bool {
			if n > m {
				return false
			}
			if o.mode == "rotx" {
				for b := n; b < m; b++ {
					if batches[b].via == "tx" {
						return false
					}
				}
			}
			return true
		}
		cur := map[int]bool{}
		for m := o.lo; m <= hi; m++ {
			if len(o.keys) == 0 || okAt(m, 0) {
				cur[m] = true
			}
		}
		for i := 1; i < len(o.keys) && len(cur) > 0; i++ {
			next := map[int]bool{}
			for m := o.lo; m <= hi; m++ {
				if !okAt(m, i) {
					continue
				}
				for n := range cur {
					if reach(n, m) {
						next[m] = true
						break
					}
				}
			}
			cur = next
		}
		return len(cur) > 0
	}
}

func runC03Conc(c *Case, out func(string)) {
	dir := tmpDir("c03c-")
	defer os.RemoveAll(dir)
	nkeys, _ := strconv.Atoi(hdrVal(c.Hdr, "nkeys", "8"))
	vsize, _ := strconv.Atoi(hdrVal(c.Hdr, "vsize", "8"))
	memsize, _ := strconv.ParseInt(hdrVal(c.Hdr, "memsize", "100000"), 10, 64)
	yield, _ := strconv.ParseUint(hdrVal(c.Hdr, "yield", "1"), 10, 64)
	rounds, _ := strconv.Atoi(hdrVal(c.Hdr, "rounds", "30"))
	nreaders, _ := strconv.Atoi(hdrVal(c.Hdr, "readers", "4"))
	rseed, _ := strconv.ParseInt(hdrVal(c.Hdr, "rseed", "1"), 10, 64)
	sample := parseInts(hdrVal(c.Hdr, "sample", "0,1"))
	txOnly := hdrVal(c.Hdr, "writers", "mixed") == "tx"
	var batches []concBatch
	for _, l := range c.Lines {
		if l[0] == "w" && len(l) >= 4 {
			batches = append(batches, concBatch{via: l[1], del: l[2] == "del", keys: parseInts(l[3])})
		}
	}
	if err := writeManifest(dir, memsize, 1000, nil); err != nil {
		out("IMPL-ERROR manifest " + err.Error())
		return
	}
	verifhook.Release("bgflush.signal") // background flush runs: maintenance steps interleave
	verifhook.Release("bgflush.tick")
	e, err := openEngine(dir)
	if err != nil {
		out("IMPL-ERROR open " + err.Error())
		return
	}
	verifhook.SetYield(yield)
	defer verifhook.SetYield(0)
	var started, acked atomic.Int64
	var wg sync.WaitGroup
	stop := make(chan bool)
	obsCh := make([][]*concObs, nreaders)
	var scanErr atomic.Value
	for r := 0; r < nreaders; r++ {
		r := r
		wg.Add(1)
		go func() {
			defer wg.Done()
			rng := rand.New(rand.NewSource(rseed*1000 + int64(r)))
			pickKeys := func(m int) []int {
				var ks []int
				for len(ks) < m {
					if rng.Intn(3) > 0 && len(sample) > 0 {
						ks = append(ks, sample[rng.Intn(len(sample))])
					} else {
						ks = append(ks, rng.Intn(nkeys))
					}
				}
				return ks
			}
			readScan := func(o *concObs, next func() (k, v []byte, tomb, ok bool)) {
				seen := make([]int, nkeys)
				for {
					k, v, tomb, ok := next()
					if !ok {
						break
					}
					if tomb {
						continue
					}
					idx := -1
					if len(k) == 5 && k[0] == 'k' {
						idx, _ = strconv.Atoi(string(k[1:]))
					}
					if idx < 0 || idx >= nkeys {
						scanErr.Store("scan returned an unknown key " + render(k))
						continue
					}
					seen[idx] = concStamp(v)
				}
				for k := 0; k < nkeys; k++ {
					o.keys = append(o.keys, k)
					o.stamps = append(o.stamps, seen[k])
				}
			}
			for round := 0; round < rounds; round++ {
				select {
				case <-stop:
					return
				default:
				}
				o := &concObs{}
				switch []int{0, 1, 1, 2, 2, 3, 4}[rng.Intn(7)] {
				case 0: // plain iterator scan: not isolated from a batch in flight (C05 only);
					// C03 asks that everything acknowledged before it began is there
					o.mode, o.what = "each", "scan"
					o.lo = int(acked.Load())
					it, err := e.GetIterator()
					if err != nil {
						continue
					}
					first := true
					readScan(o, func() ([]byte, []byte, bool, bool) {
						if first {
							it.SeekToFirst()
							first = false
						} else {
							it.Next()
						}
						if !it.Valid() {
							return nil, nil, false, false
						}
						verifhook.Yield("c03.scan")
						return it.Key(), it.Value(), it.IsTombstone(), true
					})
					o.hi = int(started.Load())
				case 1: // scan inside a read-only transaction: against transactional writers it
					// must show one committed state; a direct ApplyBatch is not a transaction
					o.mode, o.what = "each", "roscan"
					if txOnly {
						o.mode = "section"
					}
					o.lo = int(acked.Load())
					tx, err := e.BeginTransaction(true)
					if err != nil {
						continue
					}
					it := tx.NewIterator()
					first := true
					readScan(o, func() ([]byte, []byte, bool, bool) {
						if first {
							it.SeekToFirst()
							first = false
						} else {
							it.Next()
						}
						if !it.Valid() {
							return nil, nil, false, false
						}
						verifhook.Yield("c03.scan")
						return it.Key(), it.Value(), it.IsTombstone(), true
					})
					tx.Commit()
					o.hi = int(started.Load())
				case 2: // several gets inside one read-only transaction
					o.mode, o.what = "rotx", "roget"
					o.lo = int(acked.Load())
					tx, err := e.BeginTransaction(true)
					if err != nil {
						continue
					}
					for _, k := range pickKeys(2 + rng.Intn(4)) {
						v, err := tx.Get(concKey(k))
						o.keys = append(o.keys, k)
						if err != nil {
							o.stamps = append(o.stamps, 0)
						} else {
							o.stamps = append(o.stamps, concStamp(v))
						}
						verifhook.Yield("c03.roget")
					}
					tx.Commit()
					o.hi = int(started.Load())
				case 3: // separate gets
					o.mode, o.what = "free", "gets"
					o.lo = int(acked.Load())
					for _, k := range pickKeys(2 + rng.Intn(2)) {
						v, err := e.Get(concKey(k))
						o.keys = append(o.keys, k)
						if err != nil {
							o.stamps = append(o.stamps, 0)
						} else {
							o.stamps = append(o.stamps, concStamp(v))
						}
					}
					o.hi = int(started.Load())
				default: // one get
					o.mode, o.what = "section", "get"
					o.lo = int(acked.Load())
					k := pickKeys(1)[0]
					v, err := e.Get(concKey(k))
					o.keys = []int{k}
					if err != nil {
						o.stamps = []int{0}
					} else {
						o.stamps = []int{concStamp(v)}
					}
					o.hi = int(started.Load())
				}
				obsCh[r] = append(obsCh[r], o)
			}
		}()
	}
	// the writer. A batch that returns an error is a failed commit: it must leave no trace,
	// so it is not part of the history and its stamp must never be seen.
	var hist []concBatch
	var stampOf []int
	var failures []string
	for b, bt := range batches {
		started.Store(int64(len(hist) + 1))
		var err error
		if txOnly {
			bt.via = "tx"
		}
		if bt.via == "tx" {
			var tx interface {
				Put(k, v []byte) error
				Delete(k []byte) error
				Commit() error
			}
			tx, err = e.BeginTransaction(false)
			if err == nil {
				for _, k := range bt.keys {
					if bt.del {
						tx.Delete(concKey(k))
					} else {
						tx.Put(concKey(k), concVal(b+1, vsize))
					}
				}
				err = tx.Commit()
			}
		} else {
			var es []*wal.Entry
			for _, k := range bt.keys {
				if bt.del {
					es = append(es, &wal.Entry{Type: wal.OpTypeDelete, Key: concKey(k)})
				} else {
					es = append(es, &wal.Entry{Type: wal.OpTypePut, Key: concKey(k), Value: concVal(b+1, vsize)})
				}
			}
			err = e.ApplyBatch(es)
		}
		if err != nil {
			failures = append(failures, fmt.Sprintf("batch %d (%s): %v", b+1, bt.via, err))
			continue
		}
		hist = append(hist, bt)
		stampOf = append(stampOf, b+1)
		acked.Store(int64(len(hist)))
		if b%3 == 2 {
			time.Sleep(time.Duration(200+b*13%400) * time.Microsecond)
		}
	}
	ndone := len(hist)
	batches = hist
	// reference states: states[n][key] = stamp after the first n acknowledged batches
	states := make([][]int, len(batches)+1)
	states[0] = make([]int, nkeys)
	for b, bt := range batches {
		st := append([]int{}, states[b]...)
		for _, k := range bt.keys {
			if bt.del {
				st[k] = 0
			} else {
				st[k] = stampOf[b]
			}
		}
		states[b+1] = st
	}
	finished := make(chan bool)
	go func() { wg.Wait(); close(finished) }()
	select {
	case <-finished:
	case <-time.After(60 * time.Second):
		close(stop)
		out("ORACLE FAIL readers did not finish within 60 s")
		out("META mode=conc nontrivial=0")
		return
	}
	verifhook.SetYield(0)
	final, _, ferr := fullScan(e)
	e.Close()
	ok := true
	fail := func(m string) {
		if ok {
			out("ORACLE FAIL " + m)
		}
		ok = false
	}
	for _, f := range failures {
		out("NOTE failed commit (must leave no trace): " + f)
	}
	if s := scanErr.Load(); s != nil {
		fail(s.(string))
	}
	// final state = all batches
	if ferr != nil {
		fail("final scan: " + ferr.Error())
	} else {
		for k := 0; k < nkeys; k++ {
			v, present := final[string(concKey(k))]
			st := 0
			if present {
				st = concStamp(v)
			}
			if st != states[ndone][k] {
				fail(fmt.Sprintf("after all %d batches key %s carries stamp %d, expected %d", ndone, concKey(k), st, states[ndone][k]))
				break
			}
		}
	}
	// history for the extracted checker, projected on the sample keys
	inSample := map[int]bool{}
	for _, k := range sample {
		inSample[k] = true
	}
	for b, bt := range batches[:ndone] {
		var ks []string
		for _, k := range bt.keys {
			if inSample[k] {
				ks = append(ks, strconv.Itoa(k))
			}
		}
		kind := "put"
		if bt.del {
			kind = "del"
		}
		out(fmt.Sprintf("NOTE H %d %s %s %s", stampOf[b], bt.via, kind, strings.Join(ks, ",")))
	}
	nobs, nstraddle, nmulti := 0, 0, 0
	for r := range obsCh {
		for _, o := range obsCh[r] {
			nobs++
			if o.hi > o.lo {
				nstraddle++
			}
			if len(o.keys) > 1 {
				nmulti++
			}
			if !concCheck(o, states, batches) {
				var parts []string
				for i, k := range o.keys {
					if len(parts) < 12 && (o.stamps[i] != states[o.lo][k] || o.stamps[i] != states[min(o.hi, len(batches))][k]) {
						parts = append(parts, fmt.Sprintf("%s:%d", concKey(k), o.stamps[i]))
					}
				}
				// name a batch that is seen in part
				split := ""
				for b := o.lo; b < min(o.hi, len(batches)) && split == ""; b++ {
					var in, notin []int
					pos := map[int]int{}
					for i, k := range o.keys {
						pos[k] = i
					}
					for _, k := range batches[b].keys {
						i, read := pos[k]
						if !read {
							continue
						}
						if o.stamps[i] == states[b+1][k] && states[b+1][k] != states[b][k] {
							in = append(in, k)
						} else if o.stamps[i] == states[b][k] && states[b+1][k] != states[b][k] {
							notin = append(notin, k)
						}
					}
					if len(in) > 0 && len(notin) > 0 && o.mode == "section" {
						split = fmt.Sprintf("; batch %d (%s, %d keys) is seen on %s but not on %s", b+1, batches[b].via, len(batches[b].keys), concKey(in[0]), concKey(notin[0]))
					}
				}
				fail(fmt.Sprintf("%s by reader %d (between %d acknowledged and %d started batches) matches no single committed state%s: %s", o.what, r, o.lo, o.hi, split, strings.Join(parts, " ")))
			}
			// projected observation for the checker
			var parts []string
			for i, k := range o.keys {
				if inSample[k] {
					parts = append(parts, fmt.Sprintf("%d=%d", k, o.stamps[i]))
				}
			}
			if len(parts) > 0 {
				out(fmt.Sprintf("NOTE O %s %d %d %s", o.mode, o.lo, min(o.hi, ndone), strings.Join(parts, ",")))
			}
		}
	}
	out("V accept")
	if ok {
		out("ORACLE ok")
	}
	nt := 0
	if nstraddle >= 3 && nmulti >= 5 && ndone >= 5 {
		nt = 1
	}
	out(fmt.Sprintf("META mode=conc batches=%d failed_commits=%d observations=%d concurrent_with_commit=%d multikey=%d nontrivial=%d", ndone, len(failures), nobs, nstraddle, nmulti, nt))
}

// ---------------------------------------------------------------------------------------
// mode=crash: C02 machinery, commit-path sites, batches beyond the log buffer
// ---------------------------------------------------------------------------------------

func runC03Crash(c *Case, out func(string)) {
	big := 0
	for i := 0; i < len(c.Lines); i++ {
		l := c.Lines[i]
		if l[0] == "batch" || l[0] == "commit" {
			n, _ := strconv.Atoi(l[1])
			sz := 0
			for _, o := range parseBops(c, i, n) {
				sz += len(o.k) + len(o.v) + 20
			}
			if sz > 64*1024 {
				big++
			}
			i += n
		}
	}
	runC02(c, func(s string) {
		if strings.HasPrefix(s, "META ") {
			nt := 0
			if strings.Contains(s, "nontrivial=1") && big > 0 {
				nt = 1
			}
			s = strings.Replace(strings.Replace(s, "nontrivial=1", "", 1), "nontrivial=0", "", 1)
			s = strings.TrimRight(s, " ") + fmt.Sprintf(" mode=crash big_batches=%d nontrivial=%d", big, nt)
		}
		out(s)
	})
}

// ---------------------------------------------------------------------------------------
// mode=torn: every truncation offset inside the last batch
// ---------------------------------------------------------------------------------------

func runC03Torn(c *Case, out func(string)) {
	root := tmpDir("c03t-")
	defer os.RemoveAll(root)
	base := filepath.Join(root, "base")
	if err := writeManifest(base, 1<<24, 1000, nil); err != nil {
		out("IMPL-ERROR " + err.Error())
		return
	}
	holdBackground()
	e, err := openEngine(base)
	if err != nil {
		out("IMPL-ERROR open " + err.Error())
		return
	}
	var writes [][]bop
	keyset := map[string]bool{}
	for i := 0; i < len(c.Lines); i++ {
		l := c.Lines[i]
		var ops []bop
		var werr error
		switch l[0] {
		case "put":
			ops = []bop{{k: tok(l[1]), v: tok(l[2])}}
			werr = e.Put(ops[0].k, ops[0].v)
		case "del":
			ops = []bop{{del: true, k: tok(l[1])}}
			werr = e.Delete(ops[0].k)
		case "batch", "commit":
			n, _ := strconv.Atoi(l[1])
			ops = parseBops(c, i, n)
			i += n
			if l[0] == "batch" {
				werr = e.ApplyBatch(walEntriesOf(ops))
			} else {
				tx, err := e.BeginTransaction(false)
				if err != nil {
					out("IMPL-ERROR begin " + err.Error())
					return
				}
				for _, o := range ops {
					if o.del {
						tx.Delete(o.k)
					} else {
						tx.Put(o.k, o.v)
					}
				}
				ops = bufferOps(ops)
				werr = tx.Commit()
			}
		default:
			continue
		}
		if werr != nil {
			out("IMPL-ERROR write " + werr.Error())
			return
		}
		if len(ops) > 0 {
			writes = append(writes, ops)
			for _, o := range ops {
				keyset[string(o.k)] = true
			}
		}
	}
	e.Close()
	if len(writes) == 0 {
		out("IMPL-ERROR no writes")
		return
	}
	var keys []string
	for k := range keyset {
		keys = append(keys, k)
	}
	sort.Strings(keys)
	files, _ := wal.FindWALFiles(filepath.Join(base, "wal"))
	if len(files) == 0 {
		out("IMPL-ERROR no log file")
		return
	}
	newest := files[len(files)-1]
	orig, _ := os.ReadFile(newest)
	last := writes[len(writes)-1]
	// byte range of the last batch: its entries end the file
	var ends []int // end offset of each entry of the batch
	total := 0
	for _, en := range walEntriesOf(last) {
		total += encodedLen(en)
	}
	start := len(orig) - total
	if start < 0 {
		out("IMPL-ERROR the newest log file is shorter than the last batch")
		return
	}
	off := start
	for _, en := range walEntriesOf(last) {
		off += encodedLen(en)
		ends = append(ends, off)
	}
	out(fmt.Sprintf("B %d %d %d", start, ends[0], len(orig)))
	stateAfter := func(nw int) map[string][]byte {
		st := map[string][]byte{}
		for _, w := range writes[:nw] {
			for _, o := range w {
				if o.del {
					delete(st, string(o.k))
				} else {
					st[string(o.k)] = o.v
				}
			}
		}
		return st
	}
	before, after := stateAfter(len(writes)-1), stateAfter(len(writes))
	// offsets: every byte when the batch is small, else boundaries and a seeded sample
	var offs []int
	if total <= 700 {
		for o := start; o <= len(orig); o++ {
			offs = append(offs, o)
		}
	} else {
		set := map[int]bool{start: true, len(orig): true, len(orig) - 1: true, start + 1: true}
		p := start
		for p+wal.HeaderSize <= len(orig) { // physical records
			for _, d := range []int{-1, 0, 1, wal.HeaderSize - 1, wal.HeaderSize, wal.HeaderSize + 1} {
				if p+d >= start && p+d <= len(orig) {
					set[p+d] = true
				}
			}
			ln := int(orig[p+4]) | int(orig[p+5])<<8
			p += wal.HeaderSize + ln
		}
		rng := rand.New(rand.NewSource(int64(fnv(2166136261, c.ID))))
		for i := 0; i < 40; i++ {
			set[start+rng.Intn(total+1)] = true
		}
		for o := range set {
			offs = append(offs, o)
		}
		sort.Ints(offs)
	}
	pristine := filepath.Join(root, "pristine")
	copyTree(base, pristine)
	ok := true
	var failMsg string
	failsInClass, failsOutside := 0, 0
	nsubset := 0
	for _, o := range offs {
		os.RemoveAll(base)
		copyTree(pristine, base)
		os.WriteFile(filepath.Join(base, "wal", filepath.Base(newest)), orig[:o], 0644)
		holdBackground()
		en, err := openEngine(base)
		inClass := o >= ends[0] && o < len(orig)
		note := func(m string) {
			if inClass {
				failsInClass++
			} else {
				failsOutside++
			}
			if ok || (!inClass && failsOutside == 1) {
				failMsg = m
			}
			ok = false
		}
		if err != nil {
			out(fmt.Sprintf("T %d openerr", o))
			note(fmt.Sprintf("log cut at byte %d (batch occupies %d..%d): opening the database failed: %v", o, start, len(orig), err))
			continue
		}
		got := map[string][]byte{}
		var sb strings.Builder
		for _, k := range keys {
			v, err := en.Get([]byte(k))
			sb.WriteString(" " + render([]byte(k)) + "=" + renderGet(v, err))
			if err == nil {
				got[k] = v
			}
		}
		out(fmt.Sprintf("T %d%s", o, sb.String()))
		if logSetAside(base) {
			note(fmt.Sprintf("log cut at byte %d: recovery moved the log aside", o))
		} else if !sameState(got, before) && !sameState(got, after) {
			nsubset++
			n := 0
			for n < len(ends) && ends[n] <= o {
				n++
			}
			note(fmt.Sprintf("log cut at byte %d (last batch: bytes %d..%d, first entry ends at %d): after recovery %d of the batch's %d operations are applied — neither all nor none", o, start, len(orig), ends[0], n, len(last)))
		}
		en.Close()
	}
	if ok {
		out("ORACLE ok")
	} else {
		out("ORACLE FAIL " + failMsg)
		if failsOutside == 0 {
			// class predicate: ends[0] <= cut < end of the batch (= end of the file)
			out("KF torn_inside_batch")
		}
	}
	nt := 0
	if len(last) >= 2 && len(offs) > 10 {
		nt = 1
	}
	out(fmt.Sprintf("META mode=torn batch_ops=%d batch_bytes=%d cuts=%d strict_subsets=%d nontrivial=%d", len(last), total, len(offs), nsubset, nt))
}

// ---------------------------------------------------------------------------------------
// generators
// ---------------------------------------------------------------------------------------

var c03BigOK = true

func genC03Val(r *rand.Rand) string {
	wbig := 1
	if !c03BigOK {
		wbig = 0
	}
	switch pick(r, 2, 9, 3, wbig) {
	case 0:
		return "-"
	case 1:
		b := make([]byte, 1+r.Intn(10))
		r.Read(b)
		return mkTok(b)
	case 2:
		return fmt.Sprintf("@%d:%d", 50+r.Intn(300), r.Intn(1<<20))
	default:
		return fmt.Sprintf("@%d:%d", []int{32700, 32768, 40000}[r.Intn(3)], r.Intn(1<<20))
	}
}

func genTxBody(w *bufio.Writer, r *rand.Rand, n, nkeys int) {
	for j := 0; j < n; j++ {
		switch pick(r, 6, 2, 2) {
		case 0:
			k := genKey(r, nkeys)
			if c03BigOK && r.Intn(8) == 0 {
				// the entry's log record is exactly one physical record, or one byte off: the
				// place where the single-record and the fragmented form meet (a batch that fails
				// there has already buffered its earlier entries)
				fmt.Fprintf(w, "p %s @%d:%d\n", mkTok(k), wal.MaxRecordSize-13-4-len(k)+r.Intn(3)-1, r.Intn(1<<20))
			} else {
				fmt.Fprintf(w, "p %s %s\n", mkTok(k), genC03Val(r))
			}
		case 1:
			fmt.Fprintf(w, "d %s\n", mkTok(genKey(r, nkeys)))
		default:
			fmt.Fprintf(w, "g %s\n", mkTok(genKey(r, nkeys)))
		}
	}
}

func genC03Seq(w *bufio.Writer, r *rand.Rand, id string) {
	memsize := []int{150, 300, 1000, 4096, 100000}[r.Intn(5)]
	fmt.Fprintf(w, "case %s mode=seq memsize=%d\n", id, memsize)
	c03BigOK = memsize >= 4096 // keep the log below the recovery budget (MaxMemTables x MemTableSize, D11)
	defer func() { c03BigOK = true }()
	nkeys := 2 + r.Intn(4)
	nops := 4 + r.Intn(22)
	for i := 0; i < nops; i++ {
		switch pick(r, 5, 2, 3, 2, 12, 2, 1) {
		case 0:
			fmt.Fprintf(w, "put %s %s\n", mkTok(genKey(r, nkeys)), genC03Val(r))
		case 1:
			fmt.Fprintf(w, "del %s\n", mkTok(genKey(r, nkeys)))
		case 2:
			fmt.Fprintf(w, "get %s\n", mkTok(genKey(r, nkeys+1)))
		case 3:
			n := r.Intn(5)
			fmt.Fprintf(w, "batch %d\n", n)
			genBops(w, r, n, nkeys)
		case 4:
			n := r.Intn(8)
			if r.Intn(12) == 0 {
				n = 0
			}
			how := []string{"commit", "commit", "commit", "commit", "rollback", "rollback_commit", "abandon", "commit_closed"}[r.Intn(8)]
			fmt.Fprintf(w, "tx %d %s\n", n, how)
			genTxBody(w, r, n, nkeys)
		case 5:
			fmt.Fprintf(w, "flush\n")
		case 6:
			fmt.Fprintf(w, "reopen\n")
		}
	}
	for k := 0; k < nkeys+1; k++ {
		fmt.Fprintf(w, "get %s\n", mkTok(genKey(r, k+1)))
	}
	fmt.Fprintf(w, "end\n")
}

func genC03Gate(w *bufio.Writer, r *rand.Rand, id string) {
	fmt.Fprintf(w, "case %s mode=gate memsize=%d\n", id, []int{300, 100000}[r.Intn(2)])
	nkeys := 3 + r.Intn(5)
	for i := r.Intn(5); i > 0; i-- {
		switch r.Intn(4) {
		case 0:
			fmt.Fprintf(w, "del %s\n", mkTok(genKey(r, nkeys)))
		case 1:
			fmt.Fprintf(w, "flush\n")
		default:
			fmt.Fprintf(w, "put %s %s\n", mkTok(genKey(r, nkeys)), mkTok([]byte(fmt.Sprintf("old%d", i))))
		}
	}
	for g := 1 + r.Intn(3); g > 0; g-- {
		n := 2 + r.Intn(5)
		// distinct keys so that the number of inserts is known
		perm := r.Perm(12)[:min(n, nkeys)]
		n = len(perm)
		hit := 2 + r.Intn(n-1) // stop after 1..n-1 inserts
		fmt.Fprintf(w, "gate %s %d %d\n", []string{"tx", "direct"}[r.Intn(2)], hit, n)
		alphabet := [][]byte{[]byte("a"), []byte("b"), []byte("ab"), {0x00}, {0xff}, {0x00, 0xff}, []byte("key-0001"), []byte("key-0002"), {0x61, 0x00}, []byte("zz"), {0xff, 0xff, 0x01}, []byte("m")}
		for j, p := range perm {
			if r.Intn(5) == 0 && j > 0 {
				fmt.Fprintf(w, "d %s\n", mkTok(alphabet[p]))
			} else {
				fmt.Fprintf(w, "p %s %s\n", mkTok(alphabet[p]), mkTok([]byte(fmt.Sprintf("g%d-%d", g, j))))
			}
		}
		if r.Intn(3) == 0 {
			fmt.Fprintf(w, "put %s %s\n", mkTok(genKey(r, nkeys)), mkTok([]byte("between")))
		}
		if r.Intn(2) == 0 {
			m := 2 + r.Intn(4)
			fmt.Fprintf(w, "rogate %d\n", m)
			for j := 0; j < m; j++ {
				if r.Intn(5) == 0 {
					fmt.Fprintf(w, "d %s\n", mkTok(genKey(r, nkeys)))
				} else {
					fmt.Fprintf(w, "p %s %s\n", mkTok(genKey(r, nkeys)), mkTok([]byte(fmt.Sprintf("r%d-%d", g, j))))
				}
			}
		}
	}
	fmt.Fprintf(w, "end\n")
}

func genC03Conc(w *bufio.Writer, r *rand.Rand, id string, tier string) {
	nkeys := []int{4, 8, 16, 64, 300}[r.Intn(5)]
	nb := 12 + r.Intn(30)
	vsize := []int{8, 8, 40, 200}[r.Intn(4)]
	memsize := []int{2000, 8000, 100000}[r.Intn(3)]
	// sample keys for the extracted checker
	ns := min(nkeys, 6)
	sample := r.Perm(nkeys)[:ns]
	sort.Ints(sample)
	var ss []string
	for _, k := range sample {
		ss = append(ss, strconv.Itoa(k))
	}
	rounds := 25
	if tier == "thorough" {
		rounds = 80
	}
	writers := []string{"tx", "tx", "mixed"}[r.Intn(3)]
	fmt.Fprintf(w, "case %s mode=conc writers=%s nkeys=%d vsize=%d memsize=%d yield=%d rseed=%d rounds=%d readers=4 sample=%s\n",
		id, writers, nkeys, vsize, memsize, 1+r.Intn(1<<30), r.Intn(1<<30), rounds, strings.Join(ss, ","))
	for b := 0; b < nb; b++ {
		sz := 2 + r.Intn(min(nkeys, 299)-1)
		if r.Intn(3) == 0 {
			sz = min(nkeys, 2+r.Intn(4))
		}
		keys := r.Perm(nkeys)[:sz]
		// most batches contain at least two sample keys so that the checker sees them whole
		if r.Intn(4) > 0 && len(sample) >= 2 {
			keys[0], keys[1] = sample[r.Intn(len(sample))], sample[r.Intn(len(sample))]
			seen := map[int]bool{}
			var uniq []int
			for _, k := range keys {
				if !seen[k] {
					seen[k] = true
					uniq = append(uniq, k)
				}
			}
			keys = uniq
		}
		sort.Ints(keys)
		var ks []string
		for _, k := range keys {
			ks = append(ks, strconv.Itoa(k))
		}
		kind := "put"
		if r.Intn(6) == 0 {
			kind = "del"
		}
		fmt.Fprintf(w, "w %s %s %s\n", []string{"tx", "tx", "direct"}[r.Intn(3)], kind, strings.Join(ks, ","))
	}
	fmt.Fprintf(w, "end\n")
}

var c03CrashSites = []string{
	"wal.batch.record", "wal.batch.buffered", "wal.batch.done", "wal.sync.flushed",
	"mgr.batch.wal_loaded", "mgr.batch.logged", "mgr.batch.insert", "mgr.schedule_flush",
	"wal.batch.record", "mgr.batch.insert",
}

func genC03Crash(w *bufio.Writer, r *rand.Rand, id string) {
	if r.Intn(2) == 0 {
		// a transaction aimed at the boundary of the 64 KB log buffer (see genStraddleBody)
		fmt.Fprintf(w, "case %s mode=crash memsize=10000000 sync=%s\n", id, []string{"none", "batch"}[r.Intn(2)])
		genStraddleBody(w, r)
		return
	}
	mode := []string{"immediate", "immediate", "batch", "none"}[r.Intn(4)]
	fmt.Fprintf(w, "case %s mode=crash memsize=%d sync=%s\n", id, []int{1000, 100000, 1 << 22}[r.Intn(3)], mode)
	nkeys := 3 + r.Intn(4)
	nw := 0
	// the log of one case stays below ~200 KB (the extracted model walks it with non-tail-recursive
	// list functions): one batch of three 22-30 KB values (beyond the 64 KB log buffer) and at
	// most one more large value
	bigLeft := 1
	bigVal := func() string {
		return fmt.Sprintf("@%d:%d", 22000+r.Intn(8000), r.Intn(1<<20))
	}
	smallVal := func() string {
		c03BigOK = false
		defer func() { c03BigOK = true }()
		return genC03Val(r)
	}
	bigAt := r.Intn(3) // the large batch is not always the last write
	nbatch := 0
	emitBig := func() {
		nbatch++
		fmt.Fprintf(w, "%s 3\np %s %s\np %s %s\np %s %s\n", []string{"commit", "commit", "batch"}[r.Intn(3)],
			mkTok([]byte("a")), bigVal(), mkTok([]byte("b")), bigVal(), mkTok([]byte("zz")), bigVal())
		nw++
	}
	nops := 2 + r.Intn(5)
	for i := 0; i < nops; i++ {
		if i == bigAt && bigAt < 2 {
			emitBig()
		}
		switch pick(r, 3, 1, 5, 5, 1) {
		case 0:
			fmt.Fprintf(w, "put %s %s\n", mkTok(genKey(r, nkeys)), smallVal())
			nw++
		case 1:
			fmt.Fprintf(w, "del %s\n", mkTok(genKey(r, nkeys)))
			nw++
		case 2, 3:
			n := 2 + r.Intn(4)
			nbatch++
			fmt.Fprintf(w, "%s %d\n", []string{"batch", "commit"}[r.Intn(2)], n)
			for j := 0; j < n; j++ {
				if r.Intn(6) == 0 {
					fmt.Fprintf(w, "d %s\n", mkTok(genKey(r, nkeys)))
				} else if bigLeft > 0 && r.Intn(4) == 0 {
					bigLeft--
					fmt.Fprintf(w, "p %s %s\n", mkTok(genKey(r, nkeys)), bigVal())
				} else {
					fmt.Fprintf(w, "p %s %s\n", mkTok(genKey(r, nkeys)), smallVal())
				}
			}
			nw++
		case 4:
			fmt.Fprintf(w, "flush\n")
		}
	}
	if bigAt >= 2 {
		emitBig()
	}
	fmt.Fprintf(w, "crash none 0\n")
	for d := 0; d < 7; d++ {
		site := c03CrashSites[r.Intn(len(c03CrashSites))]
		// hit numbers in the range the site is actually reached: per batch entry, per batch,
		// per write
		hit := 1 + r.Intn(nw)
		switch site {
		case "wal.batch.record", "mgr.batch.insert":
			hit = 1 + r.Intn(nbatch*3+1)
		case "wal.batch.buffered", "wal.batch.done", "mgr.batch.wal_loaded", "mgr.batch.logged":
			hit = 1 + r.Intn(nbatch)
		case "mgr.schedule_flush":
			hit = 1 + r.Intn(2)
		}
		fmt.Fprintf(w, "crash %s %d\n", site, hit)
	}
	fmt.Fprintf(w, "end\n")
}

func genC03Torn(w *bufio.Writer, r *rand.Rand, id string, big bool) {
	fmt.Fprintf(w, "case %s mode=torn\n", id)
	nkeys := 3 + r.Intn(4)
	for i := r.Intn(5); i > 0; i-- {
		switch r.Intn(4) {
		case 0:
			fmt.Fprintf(w, "del %s\n", mkTok(genKey(r, nkeys)))
		case 1:
			fmt.Fprintf(w, "batch 2\np %s %s\np %s %s\n", mkTok(genKey(r, nkeys)), genC03Val(r), mkTok(genKey(r, nkeys)), mkTok([]byte("x")))
		default:
			fmt.Fprintf(w, "put %s %s\n", mkTok(genKey(r, nkeys)), mkTok([]byte(fmt.Sprintf("v%d", i))))
		}
	}
	n := 2 + r.Intn(4)
	fmt.Fprintf(w, "%s %d\n", []string{"batch", "commit"}[r.Intn(2)], n)
	perm := r.Perm(nkeys)
	for j := 0; j < n; j++ {
		k := genKey(r, nkeys)
		if j < len(perm) && j < 2 {
			k = genKey(rand.New(rand.NewSource(int64(perm[j]))), nkeys) // two fixed, mostly distinct keys
		}
		switch {
		case big && j == 1:
			fmt.Fprintf(w, "p %s @%d:%d\n", mkTok(k), 33000+r.Intn(40000), r.Intn(1<<20))
		case r.Intn(6) == 0 && j > 0:
			fmt.Fprintf(w, "d %s\n", mkTok(k))
		default:
			b := make([]byte, 1+r.Intn(20))
			r.Read(b)
			fmt.Fprintf(w, "p %s %s\n", mkTok(k), mkTok(b))
		}
	}
	fmt.Fprintf(w, "end\n")
}

// a transaction (or batch) of a few entries in which a LATER-sorted key carries a value that makes
// its log record exactly one physical record long, or one byte more / less (the place where the
// single-record and the fragmented form meet), or whose fragments fill whole records; then unrelated writes (the log buffer is written
// out), a reopen, and the reads: whatever the commit reported, all of it or none of it is there
func genC03Boundary(w *bufio.Writer, r *rand.Rand, id string) {
	fmt.Fprintf(w, "case %s mode=seq memsize=100000\n", id)
	keys := []string{"a", "b", "m", "q", "z"}
	fmt.Fprintf(w, "put %s %s\n", mkTok([]byte(keys[r.Intn(len(keys))])), mkTok([]byte("old")))
	n := 2 + r.Intn(3)
	at := 1 + r.Intn(n-1) // not the first entry in key order
	perm := r.Perm(len(keys))[:n]
	sort.Ints(perm)
	how := []string{"commit", "commit", "commit", "rollback_commit"}[r.Intn(4)]
	if r.Intn(3) == 0 {
		fmt.Fprintf(w, "batch %d\n", n)
	} else {
		fmt.Fprintf(w, "tx %d %s\n", n, how)
	}
	for j, p := range perm {
		k := []byte(keys[p])
		if j == at {
			vl := wal.MaxRecordSize - 13 - 4 - len(k) + []int{0, 0, 0, 1, -1}[r.Intn(5)]
			if r.Intn(3) == 0 {
				// ... or the bytes behind the first fragment (value length + value) fill whole
				// records exactly: the place where the last MIDDLE record and the LAST record meet
				vl = (1+r.Intn(2))*wal.MaxRecordSize - 4 + []int{0, 0, 0, 1, -1}[r.Intn(5)]
			}
			fmt.Fprintf(w, "p %s @%d:%d\n", mkTok(k), vl, r.Intn(1<<20))
		} else if r.Intn(5) == 0 {
			fmt.Fprintf(w, "d %s\n", mkTok(k))
		} else {
			fmt.Fprintf(w, "p %s %s\n", mkTok(k), mkTok([]byte(fmt.Sprintf("n%d", j))))
		}
	}
	fmt.Fprintf(w, "put %s %s\n", mkTok([]byte("tail")), mkTok([]byte("t")))
	if r.Intn(2) == 0 {
		fmt.Fprintf(w, "flush\n")
	}
	fmt.Fprintf(w, "reopen\n")
	for _, k := range keys {
		fmt.Fprintf(w, "get %s\n", mkTok([]byte(k)))
	}
	fmt.Fprintf(w, "end\n")
}

func genC03(w *bufio.Writer, seed int64, n int, tier string) {
	r := rand.New(rand.NewSource(seed*2654435761 + 3))
	for ci := 0; ci < n; ci++ {
		id := fmt.Sprintf("c03-%d-%d", seed, ci)
		switch ci % 16 {
		case 3, 11:
			genC03Gate(w, r, id)
		case 5, 13:
			genC03Conc(w, r, id, tier)
		case 1:
			genC03Boundary(w, r, id)
		case 7:
			genC03Crash(w, r, id)
		case 9:
			genC03Torn(w, r, id, false)
		case 15:
			genC03Torn(w, r, id, ci%32 == 31)
		default:
			genC03Seq(w, r, id)
		}
	}
}
