module kevoharness

go 1.24.2

require github.com/KevoDB/kevo v0.0.0

require github.com/cespare/xxhash/v2 v2.3.0

replace github.com/KevoDB/kevo => /repo
