module kevoharness

go 1.24.2

require (
	github.com/KevoDB/kevo v0.0.0
	github.com/cespare/xxhash/v2 v2.3.0
	google.golang.org/grpc v1.72.0
	google.golang.org/protobuf v1.36.6
)

require (
	github.com/klauspost/compress v1.18.0 // indirect
	golang.org/x/net v0.38.0 // indirect
	golang.org/x/sys v0.31.0 // indirect
	golang.org/x/text v0.23.0 // indirect
	google.golang.org/genproto/googleapis/rpc v0.0.0-20250218202821-56aae31c358a // indirect
)

replace github.com/KevoDB/kevo => /repo
