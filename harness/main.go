// kevo_harness: drives the real KevoDB/kevo packages (module replaced by /repo's working
// tree) on generated case files and prints canonical observations, one per line, in the
// same format as the extracted Coq model (model/*.ml), plus ORACLE and META lines.
package main

import (
	"bufio"
	"fmt"
	"os"
	"strconv"
	"strings"
	"syscall"
)

// A Case is one block "case <id> <hdr...>" ... "end" of a case file.
type Case struct {
	ID    string
	Hdr   []string
	Lines [][]string
}

type Prop struct {
	// Gen writes n cases for the seed/tier to w.
	Gen func(w *bufio.Writer, seed int64, n int, tier string)
	// Run executes one case against the implementation; out prints "<id> <line>".
	Run func(c *Case, out func(string))
	// Child (optional) runs inside a child process started by Run (crash scenarios):
	// kevo_harness child <prop> <casefile> <caseid> <args...>
	Child func(c *Case, args []string)
}

var props = map[string]*Prop{}

// caseFilePath is the case file of the current "run" (children re-read it).
var caseFilePath string

func register(id string, p *Prop) { props[id] = p }

func readCases(path string) ([]*Case, error) {
	f, err := os.Open(path)
	if err != nil {
		return nil, err
	}
	defer f.Close()
	sc := bufio.NewScanner(f)
	sc.Buffer(make([]byte, 1<<20), 1<<28)
	var cases []*Case
	var cur *Case
	for sc.Scan() {
		l := sc.Text()
		if strings.HasPrefix(l, "#") {
			continue
		}
		t := strings.Fields(l)
		if len(t) == 0 {
			continue
		}
		switch {
		case t[0] == "case":
			cur = &Case{ID: t[1], Hdr: t[2:]}
			cases = append(cases, cur)
		case t[0] == "end" && len(t) == 1:
			cur = nil
		default:
			if cur != nil {
				cur.Lines = append(cur.Lines, t)
			}
		}
	}
	return cases, sc.Err()
}

func main() {
	if len(os.Args) < 3 {
		fmt.Fprintln(os.Stderr, "usage: kevo_harness gen <prop> <seed> <n> <tier> | run <prop> <casefile>")
		os.Exit(2)
	}
	cmd, id := os.Args[1], os.Args[2]
	p := props[id]
	if p == nil {
		fmt.Fprintln(os.Stderr, "unknown property", id)
		os.Exit(2)
	}
	// The kevo packages print to stdout (fmt.Printf, default logger). Keep the real stdout for
	// observations only: save it, then point fd 1 at /dev/null (or stderr with VERIF_VERBOSE).
	obsFd, err := syscall.Dup(1)
	if err != nil {
		panic(err)
	}
	sink, _ := os.OpenFile(os.DevNull, os.O_WRONLY, 0)
	if os.Getenv("VERIF_VERBOSE") != "" {
		syscall.Dup2(2, 1)
	} else {
		syscall.Dup2(int(sink.Fd()), 1)
	}
	w := bufio.NewWriterSize(os.NewFile(uintptr(obsFd), "obs"), 1<<20)
	defer w.Flush()
	switch cmd {
	case "gen":
		seed, _ := strconv.ParseInt(os.Args[3], 10, 64)
		n, _ := strconv.Atoi(os.Args[4])
		tier := "quick"
		if len(os.Args) > 5 {
			tier = os.Args[5]
		}
		p.Gen(w, seed, n, tier)
	case "child":
		cases, err := readCases(os.Args[3])
		if err != nil {
			os.Exit(3)
		}
		for _, c := range cases {
			if c.ID == os.Args[4] && p.Child != nil {
				p.Child(c, os.Args[5:])
				os.Exit(0)
			}
		}
		os.Exit(3)
	case "run":
		cases, err := readCases(os.Args[3])
		if err != nil {
			fmt.Fprintln(os.Stderr, err)
			os.Exit(2)
		}
		caseFilePath = os.Args[3]
		for _, c := range cases {
			c := c
			out := func(s string) { w.WriteString(c.ID + " " + s + "\n") }
			func() {
				defer func() {
					if r := recover(); r != nil {
						out(fmt.Sprintf("IMPL-PANIC %v", r))
					}
				}()
				p.Run(c, out)
			}()
		}
	default:
		fmt.Fprintln(os.Stderr, "unknown command", cmd)
		os.Exit(2)
	}
}
