package main

// C14 — a connected replica converges to the primary's state.
//
// One case = one loopback cluster built from the real packages: a primary (engine.EngineFacade
// + replication.Manager in primary mode on a free 127.0.0.1 port, TLS off) and one replica
// (second engine + replication.Manager in replica mode, ForceReadOnly as cmd/kevo passes it),
// connected through a TCP forwarder the harness controls (cut / heal).  The program runs the
// primary's workload and the replica's life cycle; at every `settle` the harness waits until
// the full scans of both engines are equal and stay equal for one second, or until the bound.
//
// Header: bound=<seconds> retry=<ms>       (retry = replica RetryBaseDelay; 0 = the default 1 s)
// Lines:  put K V | del K | tx n (+ n lines p K V / d K) | batch n (+ n lines)   primary writes
//         many n PFX vlen        n single puts of keys PFX+%04d (values vlen pseudo-random bytes)
//         bigtx n PFX            one transaction of n puts (keys PFX+%04d, value = 01)
//         flush                  FlushImMemTables on the primary (rotates its log if it holds data)
//         join                   start the replica (fresh data directory); waits until the primary
//                                has registered its first session
//         stop | start           replication manager of the replica stopped / a new one started on
//                                the same engine;   reopen = stop + engine closed and reopened + start
//         cut | heal             the forwarder drops every connection and refuses new ones / accepts again
//         idle ms                nothing happens for ms milliseconds
//         settle                 wait for convergence (see above)
// Observations (mirrored by model/drv_c14.ml):  S conv=0|1 applied=<replica's last applied seq>
//         + one line  r K V  per live key of the replica, ascending.

import (
	"bufio"
	"bytes"
	"fmt"
	"math/rand"
	"net"
	"os"
	"sort"
	"strconv"
	"strings"
	"time"

	klog "github.com/KevoDB/kevo/pkg/common/log"
	"github.com/KevoDB/kevo/pkg/engine"
	"github.com/KevoDB/kevo/pkg/replication"
	"github.com/KevoDB/kevo/pkg/wal"
)

func init() { register("C14", &Prop{Gen: genC14, Run: runC14}) }

// ---------------------------------------------------------------------------------------
// cluster
// ---------------------------------------------------------------------------------------

type rkv struct{ k, v []byte }

func scanEngine(e *engine.EngineFacade) ([]rkv, error) {
	it, err := e.GetIterator()
	if err != nil {
		return nil, err
	}
	var out []rkv
	for it.SeekToFirst(); it.Valid(); it.Next() {
		if it.IsTombstone() {
			continue
		}
		out = append(out, rkv{append([]byte(nil), it.Key()...), append([]byte(nil), it.Value()...)})
	}
	return out, nil
}

func scansEqual(a, b []rkv) bool {
	if len(a) != len(b) {
		return false
	}
	for i := range a {
		if !bytes.Equal(a[i].k, b[i].k) || !bytes.Equal(a[i].v, b[i].v) {
			return false
		}
	}
	return true
}

// withTimeout runs f; false if it did not return in time (the goroutine is abandoned).
func withTimeout(d time.Duration, f func()) bool {
	done := make(chan struct{})
	go func() { defer close(done); f() }()
	select {
	case <-done:
		return true
	case <-time.After(d):
		return false
	}
}

type replCluster struct {
	pdir, rdir string
	pe, re     *engine.EngineFacade
	pm, rm     *replication.Manager
	paddr      string
	proxy      *netProxy
	raddr      string
	retry      time.Duration
	notes      []string
}

func quietKevo() {
	wal.DisableRecoveryLogs = true
	if os.Getenv("VERIF_VERBOSE") == "" {
		klog.SetLevel(klog.LevelError)
	}
}

func waitListening(addr string, d time.Duration) bool {
	dl := time.Now().Add(d)
	for time.Now().Before(dl) {
		c, err := net.DialTimeout("tcp", addr, 500*time.Millisecond)
		if err == nil {
			c.Close()
			return true
		}
		time.Sleep(20 * time.Millisecond)
	}
	return false
}

func newPrimaryNode(hb *replication.HeartbeatConfig) (dir string, e *engine.EngineFacade, m *replication.Manager, addr string, err error) {
	quietKevo()
	dir = tmpDir("c14p-")
	if err = writeManifest(dir, 256<<20, 8, nil); err != nil {
		return
	}
	if e, err = openEngine(dir); err != nil {
		return
	}
	for attempt := 0; attempt < 5; attempt++ {
		addr = freeAddr()
		pc := replication.DefaultPrimaryConfig()
		if hb != nil {
			pc.HeartbeatConfig = hb
		}
		m, err = replication.NewManager(e, &replication.ManagerConfig{Enabled: true, Mode: replication.ReplicationModePrimary,
			ListenAddr: addr, PrimaryConfig: pc, ForceReadOnly: true})
		if err != nil {
			return
		}
		if err = m.Start(); err != nil {
			return
		}
		if waitListening(addr, 10*time.Second) {
			return
		}
		withTimeout(5*time.Second, func() { m.Stop() })
	}
	err = fmt.Errorf("primary replication service did not come up")
	return
}

func (c *replCluster) replicaConfig() *replication.ManagerConfig {
	rc := replication.DefaultReplicaConfig()
	rc.Connection.DialTimeout = 2 * time.Second
	if c.retry > 0 {
		rc.Connection.RetryBaseDelay = c.retry
	}
	return &replication.ManagerConfig{Enabled: true, Mode: replication.ReplicationModeReplica,
		PrimaryAddr: c.proxy.addr(), ListenAddr: c.raddr, ReplicaConfig: rc, ForceReadOnly: true}
}

func (c *replCluster) startReplicaMgr() error {
	m, err := replication.NewManager(c.re, c.replicaConfig())
	if err != nil {
		return err
	}
	if err := m.Start(); err != nil {
		return err
	}
	c.rm = m
	return nil
}

func (c *replCluster) stopReplicaMgr() {
	if c.rm == nil {
		return
	}
	m := c.rm
	c.rm = nil
	if !withTimeout(8*time.Second, func() { m.Stop() }) {
		c.notes = append(c.notes, "replica-stop-hang")
		// the old loop keeps running against the primary: take its connections away
		c.proxy.dropAll()
	}
}

func (c *replCluster) sessions() []map[string]interface{} {
	if c.pm == nil {
		return nil
	}
	var out []map[string]interface{}
	withTimeout(3*time.Second, func() {
		st := c.pm.Status()
		out, _ = st["replicas"].([]map[string]interface{})
	})
	return out
}

func (c *replCluster) waitSession(d time.Duration) bool {
	dl := time.Now().Add(d)
	for time.Now().Before(dl) {
		if len(c.sessions()) > 0 {
			return true
		}
		time.Sleep(20 * time.Millisecond)
	}
	return false
}

func (c *replCluster) replicaApplied() uint64 {
	if c.rm == nil {
		return 0
	}
	var seq uint64
	withTimeout(3*time.Second, func() { _, _, _, seq, _ = c.rm.GetNodeInfo() })
	return seq
}

func (c *replCluster) close() {
	c.stopReplicaMgr()
	if c.pm != nil {
		pm := c.pm
		if !withTimeout(8*time.Second, func() { pm.Stop() }) {
			c.notes = append(c.notes, "primary-stop-hang")
		}
	}
	if c.proxy != nil {
		c.proxy.Close()
	}
	if c.re != nil {
		re := c.re
		withTimeout(8*time.Second, func() { re.Close() })
	}
	if c.pe != nil {
		pe := c.pe
		withTimeout(8*time.Second, func() { pe.Close() })
	}
	os.RemoveAll(c.pdir)
	if c.rdir != "" {
		os.RemoveAll(c.rdir)
	}
}

// ---------------------------------------------------------------------------------------
// run
// ---------------------------------------------------------------------------------------

type c14Group struct {
	seq uint64
	ops []rkv // v == nil: delete
}

type c14Run struct {
	c        *replCluster
	out      func(string)
	bound    time.Duration
	log      []c14Group // acknowledged writes, one group per sequence number
	rotated  bool       // the primary's log was rotated after the replication primary started
	up       bool       // replica manager running
	linkUp   bool
	fails    []string
	kfs      map[string]bool
	nsettle  int
	nfail    int
	restarts int
	cuts     int
	flushes  int
}

func (r *c14Run) nextSeq() uint64 { return uint64(len(r.log)) + 1 }

func viewUpTo(log []c14Group, n int) []rkv {
	m := map[string][]byte{}
	for _, g := range log[:n] {
		for _, o := range g.ops {
			if o.v == nil {
				delete(m, string(o.k))
			} else {
				m[string(o.k)] = o.v
			}
		}
	}
	keys := make([]string, 0, len(m))
	for k := range m {
		keys = append(keys, k)
	}
	sort.Slice(keys, func(i, j int) bool { return bytes.Compare([]byte(keys[i]), []byte(keys[j])) < 0 })
	out := make([]rkv, 0, len(keys))
	for _, k := range keys {
		out = append(out, rkv{[]byte(k), m[k]})
	}
	return out
}

func describeDiff(p, r []rkv) string {
	pm := map[string][]byte{}
	for _, x := range p {
		pm[string(x.k)] = x.v
	}
	rm := map[string][]byte{}
	for _, x := range r {
		rm[string(x.k)] = x.v
	}
	missing, extra, diff := 0, 0, 0
	ex := ""
	for k, v := range pm {
		w, ok := rm[k]
		if !ok {
			missing++
			if ex == "" {
				ex = "missing:" + render([]byte(k))
			}
		} else if !bytes.Equal(v, w) {
			diff++
			if ex == "" {
				ex = "differs:" + render([]byte(k))
			}
		}
	}
	for k := range rm {
		if _, ok := pm[k]; !ok {
			extra++
			if ex == "" {
				ex = "extra:" + render([]byte(k))
			}
		}
	}
	return fmt.Sprintf("primary_keys=%d replica_keys=%d missing=%d extra=%d different=%d e.g.%s", len(p), len(r), missing, extra, diff, ex)
}

func (r *c14Run) settle() {
	r.nsettle++
	dl := time.Now().Add(r.bound)
	t0 := time.Now()
	conv := false
	var ps, rs []rkv
	for {
		ps, _ = scanEngine(r.c.pe)
		rs, _ = scanEngine(r.c.re)
		if scansEqual(ps, rs) {
			// must stay equal for one second
			held := true
			hold := time.Now().Add(time.Second)
			for time.Now().Before(hold) {
				time.Sleep(100 * time.Millisecond)
				ps, _ = scanEngine(r.c.pe)
				rs, _ = scanEngine(r.c.re)
				if !scansEqual(ps, rs) {
					held = false
					break
				}
			}
			if held {
				conv = true
				break
			}
		}
		if time.Now().After(dl) {
			break
		}
		time.Sleep(100 * time.Millisecond)
	}
	el := time.Since(t0)
	b := 0
	if conv {
		b = 1
	}
	r.out(fmt.Sprintf("S conv=%d applied=%d", b, r.c.replicaApplied()))
	for _, x := range rs {
		r.out("r " + render(x.k) + " " + render(x.v))
	}
	sess := r.c.sessions()
	starts := []string{}
	for _, s := range sess {
		starts = append(starts, fmt.Sprint(s["start_sequence"]))
	}
	r.out(fmt.Sprintf("NOTE settle#%d elapsed=%.1fs sessions=%d start=%s primary_last=%d", r.nsettle, el.Seconds(), len(sess), strings.Join(starts, ","), len(r.log)))
	// the property: a connected replica (manager running, link up) has converged
	if !r.up || !r.linkUp {
		return
	}
	// sanity of the reference itself (C01's business, reported as a note only)
	if !scansEqual(ps, viewUpTo(r.log, len(r.log))) {
		r.out("NOTE primary scan differs from the acknowledged writes")
	}
	if conv {
		return
	}
	r.nfail++
	r.fails = append(r.fails, fmt.Sprintf("settle#%d: replica did not reach the primary's state within %ds: %s", r.nsettle, int(r.bound.Seconds()), describeDiff(ps, rs)))
}

func parseBatchOps(lines [][]string, i int, n int) ([]rkv, int) {
	var ops []rkv
	for j := 0; j < n && i+1+j < len(lines); j++ {
		l := lines[i+1+j]
		switch l[0] {
		case "p":
			v := tok(l[2])
			if v == nil {
				v = []byte{}
			}
			ops = append(ops, rkv{tok(l[1]), v})
		case "d":
			ops = append(ops, rkv{tok(l[1]), nil})
		}
	}
	return ops, i + n
}

func runC14(cs *Case, out func(string)) {
	bound, _ := strconv.Atoi(hdrVal(cs.Hdr, "bound", "12"))
	retryMs, _ := strconv.Atoi(hdrVal(cs.Hdr, "retry", "300"))
	c := &replCluster{retry: time.Duration(retryMs) * time.Millisecond}
	r := &c14Run{c: c, out: out, bound: time.Duration(bound) * time.Second, kfs: map[string]bool{}, linkUp: true}
	defer func() {
		c.close()
	}()
	var err error
	c.pdir, c.pe, c.pm, c.paddr, err = newPrimaryNode(nil)
	if err != nil {
		out("IMPL-ERROR primary: " + err.Error())
		return
	}
	c.proxy, err = newNetProxy(c.paddr)
	if err != nil {
		out("IMPL-ERROR proxy: " + err.Error())
		return
	}
	c.raddr = freeAddr()
	entries, txs, dels := 0, 0, 0
	blocked := false
	// every call into the primary runs under a watchdog: a client operation that does not return
	// within 20 s is the lock-order inversion between a write and the replication poll (C15, D19b)
	guard := func(what string, f func() error) error {
		if blocked {
			return fmt.Errorf("primary blocked")
		}
		var err error
		if !withTimeout(20*time.Second, func() { err = f() }) {
			blocked = true
			r.fails = append(r.fails, "primary "+what+" did not return within 20s (primary blocked while a replica is attached)")
			return fmt.Errorf("blocked")
		}
		return err
	}
	ack := func(ops []rkv, err error, what string) {
		if blocked || len(ops) == 0 {
			return
		}
		if err != nil {
			out("IMPL-ERROR " + what + ": " + strings.ReplaceAll(err.Error(), "\n", " "))
			return
		}
		r.log = append(r.log, c14Group{r.nextSeq(), ops})
		entries += len(ops)
	}
	joinWait := func() {
		d := 15 * time.Second
		if r.rotated {
			d = 2 * time.Second
		}
		if !c.waitSession(d) && !r.rotated {
			out("NOTE no session registered within 15s")
		}
	}
	lines := cs.Lines
	for i := 0; i < len(lines); i++ {
		l := lines[i]
		switch l[0] {
		case "put":
			v := tok(l[2])
			ack([]rkv{{tok(l[1]), v}}, guard("put", func() error { return c.pe.Put(tok(l[1]), v) }), "put")
		case "del":
			dels++
			ack([]rkv{{tok(l[1]), nil}}, guard("delete", func() error { return c.pe.Delete(tok(l[1])) }), "del")
		case "many":
			n, _ := strconv.Atoi(l[1])
			pfx := tok(l[2])
			vlen, _ := strconv.Atoi(l[3])
			for j := 0; j < n; j++ {
				k := append(append([]byte(nil), pfx...), []byte(fmt.Sprintf("%04d", j))...)
				v := lcgBytes(vlen, j+1)
				ack([]rkv{{k, v}}, guard("put", func() error { return c.pe.Put(k, v) }), "put")
			}
		case "tx", "bigtx":
			var ops []rkv
			if l[0] == "tx" {
				n, _ := strconv.Atoi(l[1])
				ops, i = parseBatchOps(lines, i, n)
			} else {
				n, _ := strconv.Atoi(l[1])
				pfx := tok(l[2])
				for j := 0; j < n; j++ {
					ops = append(ops, rkv{append(append([]byte(nil), pfx...), []byte(fmt.Sprintf("%04d", j))...), []byte{1}})
				}
			}
			txs++
			// the commit logs the buffered operations (last one per key, ascending keys)
			eff := viewOfOps(ops)
			ack(eff, guard("transaction", func() error {
				t, err := c.pe.BeginTransaction(false)
				if err != nil {
					return err
				}
				for _, o := range ops {
					if o.v == nil {
						t.Delete(o.k)
					} else {
						t.Put(o.k, o.v)
					}
				}
				return t.Commit()
			}), "commit")
		case "batch":
			n, _ := strconv.Atoi(l[1])
			var ops []rkv
			ops, i = parseBatchOps(lines, i, n)
			if len(ops) == 0 {
				continue
			}
			var es []*wal.Entry
			for _, o := range ops {
				if o.v == nil {
					es = append(es, &wal.Entry{Type: wal.OpTypeDelete, Key: o.k})
				} else {
					es = append(es, &wal.Entry{Type: wal.OpTypePut, Key: o.k, Value: o.v})
				}
			}
			txs++
			ack(ops, guard("ApplyBatch", func() error { return c.pe.ApplyBatch(es) }), "batch")
		case "idle":
			// the replica has caught up and nothing happens for a while (no observation)
			ms, _ := strconv.Atoi(l[1])
			time.Sleep(time.Duration(ms) * time.Millisecond)
		case "flush":
			r.flushes++
			if err := guard("flush", func() error { return c.pe.FlushImMemTables() }); err != nil && !blocked {
				out("IMPL-ERROR flush: " + err.Error())
			}
			if len(r.log) > 0 {
				r.rotated = true
			}
		case "join":
			c.rdir = tmpDir("c14r-")
			if err := writeManifest(c.rdir, 256<<20, 8, nil); err != nil {
				out("IMPL-ERROR " + err.Error())
				return
			}
			if c.re, err = openEngine(c.rdir); err != nil {
				out("IMPL-ERROR replica engine: " + err.Error())
				return
			}
			if err := c.startReplicaMgr(); err != nil {
				out("IMPL-ERROR replica start: " + err.Error())
				return
			}
			r.up = true
			if r.linkUp {
				joinWait()
			}
		case "stop":
			c.stopReplicaMgr()
			r.up = false
		case "start", "reopen":
			if l[0] == "reopen" {
				c.stopReplicaMgr()
				re := c.re
				if !withTimeout(10*time.Second, func() { re.Close() }) {
					out("NOTE replica engine close hangs")
				}
				if c.re, err = openEngine(c.rdir); err != nil {
					out("IMPL-ERROR replica reopen: " + err.Error())
					return
				}
			}
			r.restarts++
			if err := c.startReplicaMgr(); err != nil {
				out("IMPL-ERROR replica start: " + err.Error())
				return
			}
			r.up = true
			if r.linkUp {
				joinWait()
			}
		case "cut":
			r.cuts++
			c.proxy.Cut()
			r.linkUp = false
		case "heal":
			c.proxy.Heal()
			r.linkUp = true
		case "settle":
			if blocked {
				continue
			}
			if c.re == nil {
				out("NOTE settle before join ignored")
				continue
			}
			r.settle()
		}
	}
	for _, n := range c.notes {
		out("NOTE " + n)
	}
	if len(r.fails) == 0 {
		out("ORACLE ok")
	} else {
		out("ORACLE FAIL " + r.fails[0])
		for k := range r.kfs {
			out("KF " + k)
		}
	}
	nt := 0
	if r.nsettle >= 1 && len(r.log) >= 3 && (txs > 0 || dels > 0) && (r.restarts > 0 || r.cuts > 0 || r.flushes > 0 || entries > 100 || txs > 0) {
		nt = 1
	}
	out(fmt.Sprintf("META seqs=%d entries=%d txs=%d dels=%d flushes=%d restarts=%d cuts=%d settles=%d settle_fail=%d nontrivial=%d",
		len(r.log), entries, txs, dels, r.flushes, r.restarts, r.cuts, r.nsettle, r.nfail, nt))
}

// viewOfOps: what a transaction's buffer logs: the last operation per key, keys ascending.
func viewOfOps(ops []rkv) []rkv {
	m := map[string]rkv{}
	for _, o := range ops {
		m[string(o.k)] = o
	}
	keys := make([]string, 0, len(m))
	for k := range m {
		keys = append(keys, k)
	}
	sort.Slice(keys, func(i, j int) bool { return bytes.Compare([]byte(keys[i]), []byte(keys[j])) < 0 })
	out := make([]rkv, 0, len(keys))
	for _, k := range keys {
		out = append(out, m[k])
	}
	return out
}

// ---------------------------------------------------------------------------------------
// generator: convergent scenario shapes (the non-convergent classes live in corpus/C14)
// ---------------------------------------------------------------------------------------

type c14Gen struct {
	r     *rand.Rand
	w     *bufio.Writer
	keys  int
	seqs  []int // entries per sequence group written so far
	nkey  int
	lines []string
}

func (g *c14Gen) key() string {
	if g.r.Intn(12) == 0 {
		// a long key (its length does not fit one byte): 256..700 bytes, a few distinct ones
		return fmt.Sprintf("@%d:%d", 256+44*g.r.Intn(11), 7)
	}
	return mkTok(genKey(g.r, g.keys))
}
func (g *c14Gen) val() string {
	if g.r.Intn(8) == 0 {
		return "-"
	}
	return fmt.Sprintf("@%d:%d", 1+g.r.Intn(40), g.r.Intn(1000))
}
func (g *c14Gen) emit(s string) { g.lines = append(g.lines, s) }

// burst writes min..max sequence groups; now and then a flush (log rotation) in between
func (g *c14Gen) burst(min, max int) {
	n := min + g.r.Intn(max-min+1)
	if g.r.Intn(3) == 0 {
		defer g.emit("flush")
	}
	for i := 0; i < n; i++ {
		switch pick(g.r, 5, 2, 2, 1) {
		case 0:
			g.emit("put " + g.key() + " " + g.val())
			g.seqs = append(g.seqs, 1)
		case 1:
			g.emit("del " + g.key())
			g.seqs = append(g.seqs, 1)
		case 2:
			k := 2 + g.r.Intn(4)
			seen := map[string]bool{}
			var body []string
			for j := 0; j < k; j++ {
				key := g.key()
				if g.r.Intn(4) == 0 {
					body = append(body, "d "+key)
				} else {
					body = append(body, "p "+key+" "+g.val())
				}
				seen[key] = true
			}
			g.emit(fmt.Sprintf("tx %d", k))
			for _, b := range body {
				g.emit(b)
			}
			g.seqs = append(g.seqs, len(seen))
		case 3:
			k := 1 + g.r.Intn(3)
			g.emit(fmt.Sprintf("batch %d", k))
			for j := 0; j < k; j++ {
				if g.r.Intn(4) == 0 {
					g.emit("d " + g.key())
				} else {
					g.emit("p " + g.key() + " " + g.val())
				}
			}
			g.seqs = append(g.seqs, k)
		}
	}
}

func (g *c14Gen) many(n int) {
	g.nkey++
	g.emit(fmt.Sprintf("many %d %s %d", n, mkTok([]byte(fmt.Sprintf("k%d-", g.nkey))), 8+g.r.Intn(24)))
	for i := 0; i < n; i++ {
		g.seqs = append(g.seqs, 1)
	}
}

func genC14(w *bufio.Writer, seed int64, n int, tier string) {
	r := rand.New(rand.NewSource(seed*7919 + 14))
	bound := 12
	if tier == "thorough" {
		bound = 30
	}
	for i := 0; i < n; i++ {
		for {
			g := &c14Gen{r: r, w: w, keys: 4 + r.Intn(6)}
			shape := i % 4
			if i == 4 {
				shape = 7
			} else if i == 5 {
				shape = 8
			} else if i == 6 {
				shape = 9
			} else if i == 7 {
				shape = 10
			} else if i > 7 {
				shape = r.Intn(11)
			}
			switch shape {
			case 0: // replica first, then bursts (also of a single write: the last write must arrive)
				g.emit("join")
				g.burst(1, 8)
				g.emit("settle")
				g.burst(1, 2)
				g.emit("settle")
				g.emit("flush")
				g.burst(1, 4)
				g.emit("settle")
			case 1: // writes (more than one response) before the replica exists
				g.burst(2, 6)
				g.many(101 + r.Intn(150))
				g.burst(2, 5)
				g.emit("join")
				g.emit("settle")
				g.burst(2, 5)
				g.emit("settle")
			case 2: // joins during the writes, then a restart of the replica
				g.burst(2, 6)
				g.emit("join")
				g.burst(2, 6)
				g.emit("settle")
				g.emit("stop")
				g.burst(2, 6)
				if r.Intn(2) == 0 {
					g.emit("start")
				} else {
					g.emit("reopen")
				}
				g.burst(2, 4)
				g.emit("settle")
			case 3: // temporary disconnect
				g.emit("join")
				g.burst(2, 5)
				g.emit("settle")
				g.emit("cut")
				g.burst(2, 6)
				g.emit("heal")
				g.emit("settle")
				g.burst(2, 4)
				g.emit("settle")
			case 4: // long history, replica restarts in the middle
				g.emit("join")
				g.many(120 + r.Intn(100))
				g.emit("settle")
				g.emit("stop")
				g.burst(2, 6)
				g.emit("start")
				g.emit("settle")
			case 6: // transactions around and beyond the 100-entry response limit (f62340e)
				g.many(95 + r.Intn(8))
				g.burst(2, 4)
				g.nkey++
				g.emit(fmt.Sprintf("bigtx %d %s", 90+r.Intn(40), mkTok([]byte(fmt.Sprintf("t%d-", g.nkey)))))
				g.seqs = append(g.seqs, 100)
				g.burst(2, 4)
				g.emit("join")
				g.emit("settle")
				g.burst(2, 3)
				g.emit("settle")
			case 7: // the log ENDS with a transaction that straddles the 100th (or 200th) entry of a fetch;
				// the replica fetches it late: after joining, after a restart, or from a later sequence
				pre := 0
				variant := r.Intn(3)
				if variant == 2 { // the replica already holds a prefix and was cut off meanwhile
					g.emit("join")
					pre = 2 + r.Intn(30)
					g.many(pre)
					g.emit("settle")
					g.emit("cut")
				}
				singles := 91 + r.Intn(9) + 100*r.Intn(2)
				g.many(singles)
				g.nkey++
				t := 100 - singles%100 + 1 + r.Intn(8)
				g.emit(fmt.Sprintf("bigtx %d %s", t, mkTok([]byte(fmt.Sprintf("t%d-", g.nkey)))))
				g.seqs = append(g.seqs, t)
				switch variant {
				case 0:
					g.emit("join")
				case 1:
					g.emit("join")
					g.emit("stop")
					g.emit("start")
				case 2:
					g.emit("heal")
				}
				g.emit("settle")
			case 9: // a long backlog: the replica needs many reconnects in a row (one response each); the
				// delay between them must not grow with the number of reconnects already made
				g.many(560 + r.Intn(140))
				g.burst(1, 3)
				g.emit("join")
				g.emit("settle")
			case 8: // a session that stays open and idle across a log rotation, then the last write(s)
				g.emit("join")
				g.burst(2, 6)
				g.emit("settle")
				g.emit(fmt.Sprintf("idle %d", 1500+r.Intn(3000)))
				g.emit("flush")
				g.burst(1, 1)
				g.emit("settle")
				if r.Intn(2) == 0 {
					g.emit(fmt.Sprintf("idle %d", 1500+r.Intn(2000)))
					g.emit("flush")
					g.burst(1, 2)
					g.emit("settle")
				}
			case 10: // the history is spread over three or more log files when the replica needs it from
				// the start: it joins late, or was cut off across two rotations
				late := r.Intn(3) > 0
				if !late {
					g.emit("join")
					g.burst(1, 3)
					g.emit("settle")
					g.emit("cut")
				}
				for f := 2 + r.Intn(2); f > 0; f-- {
					g.burst(2, 5)
					g.emit("flush")
				}
				g.burst(1, 3)
				if late {
					g.emit("join")
				} else {
					g.emit("heal")
				}
				g.emit("settle")
			case 5: // cut while the replica is catching up on a long history
				g.many(150 + r.Intn(100))
				g.emit("join")
				g.emit("cut")
				g.burst(2, 5)
				g.emit("heal")
				g.emit("settle")
			}
			fmt.Fprintf(w, "case g%d-%d bound=%d retry=300\n", seed, i, bound)
			for _, l := range g.lines {
				fmt.Fprintln(w, l)
			}
			fmt.Fprintln(w, "end")
			break
		}
	}
}
