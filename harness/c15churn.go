package main

// C15, probe=session-churn — "replicas cannot FAIL the primary": many replica sessions end at
// the same moment, over and over, while a client writes and the topology is being read.
//
// Every StreamWAL handler that returns runs Primary.unregisterReplicaSession (a delete from the
// session map), the client's write iterates that map in broadcastToReplicas (WAL observer
// callback), GetNodeInfo / Status iterate it too.  If those are not mutually exclusive the Go
// runtime aborts the WHOLE process ("fatal error: concurrent map iteration and map write" /
// "concurrent map writes") — it cannot be recovered, so the scenario runs in a child process
// (this binary, `child C15 <casefile> <id>`) and the parent judges the child's exit status and
// stderr only.  Static counterpart: the session-map rows of the generated lock table
// (ReplLocksFacts.repl_sessions_under_primary_mu).
//
// Header: probe=session-churn peers=<n> rounds=<n> roundms=<ms> hbint=<ms> hbto=<ms> [acks=0|1]
// (acks=1, the default: every peer also acknowledges every 10 ms until its stream is cancelled)
// Observations:
//   P ops=ok                      the child ran all rounds and stopped its primary normally
//   F fatal=<runtime message>     the child died with a runtime fatal error / panic
//   U <what>                      the child hung or died some other way

import (
	"bytes"
	"fmt"
	"os"
	"os/exec"
	"regexp"
	"strconv"
	"strings"
	"sync"
	"sync/atomic"
	"time"

	"github.com/KevoDB/kevo/pkg/replication"
)

var churnFatalRe = regexp.MustCompile(`(?m)^(fatal error: .*|panic: .*)$`)

func runC15Churn(cs *Case, out func(string)) {
	peers := hdrVal(cs.Hdr, "peers", "48")
	rounds := hdrVal(cs.Hdr, "rounds", "6")
	self, err := os.Executable()
	if err != nil || caseFilePath == "" {
		out("IMPL-ERROR cannot start the child process")
		return
	}
	cmd := exec.Command(self, "child", "C15", caseFilePath, cs.ID)
	var stderr bytes.Buffer
	cmd.Stderr = &stderr
	cmd.Env = append(os.Environ(), "GOTRACEBACK=single")
	t0 := time.Now()
	if err := cmd.Start(); err != nil {
		out("IMPL-ERROR child: " + err.Error())
		return
	}
	done := make(chan error, 1)
	go func() { done <- cmd.Wait() }()
	var werr error
	hung := false
	select {
	case werr = <-done:
	case <-time.After(120 * time.Second):
		hung = true
		cmd.Process.Kill()
		<-done
	}
	text := stderr.String()
	stats := ""
	for _, l := range strings.Split(text, "\n") {
		if strings.HasPrefix(l, "CHURN-DONE ") {
			stats = strings.TrimPrefix(l, "CHURN-DONE ")
		}
	}
	fail := ""
	switch {
	case churnFatalRe.MatchString(text):
		m := churnFatalRe.FindString(text)
		out("F fatal=" + strings.ReplaceAll(m, " ", "_"))
		// the kevo frames of the goroutine that detected it (the first one printed), for the replay file
		n, in := 0, false
		for _, l := range strings.Split(text, "\n") {
			if strings.HasPrefix(l, "goroutine ") {
				if in {
					break
				}
				in = true
				continue
			}
			if in && strings.TrimSpace(l) == "" {
				break
			}
			if in && strings.HasPrefix(l, "github.com/KevoDB/kevo/pkg/") && n < 8 {
				f := strings.Fields(l)[0]
				if i := strings.LastIndex(f, "("); i > 0 {
					f = f[:i]
				}
				out("NOTE FRAME " + strings.TrimPrefix(f, "github.com/KevoDB/kevo/"))
				n++
			}
		}
		fail = fmt.Sprintf("the primary process died (%s) while %s replica sessions ended at the same moment during client writes", m, peers)
	case hung:
		out("U child did not finish within 120 s")
		fail = "the session-churn child did not finish within 120 s"
	case werr != nil:
		out("U child " + werr.Error())
		tail := text
		if len(tail) > 400 {
			tail = tail[len(tail)-400:]
		}
		fail = "the session-churn child ended abnormally: " + werr.Error() + " " + strings.ReplaceAll(tail, "\n", " | ")
	case stats == "":
		out("U child printed no summary")
		fail = "the session-churn child printed no summary"
	default:
		out("P ops=ok")
	}
	out(fmt.Sprintf("NOTE churn %s elapsed=%.1fs", stats, time.Since(t0).Seconds()))
	if fail == "" {
		out("ORACLE ok")
	} else {
		out("ORACLE FAIL " + fail)
	}
	// non-trivial: sessions really ended in bulk while writes were going on
	nt := 0
	var ended, puts int
	for _, kv := range strings.Fields(stats) {
		if strings.HasPrefix(kv, "ended=") {
			ended, _ = strconv.Atoi(kv[6:])
		}
		if strings.HasPrefix(kv, "puts=") {
			puts, _ = strconv.Atoi(kv[5:])
		}
	}
	if fail != "" || (ended >= 32 && puts >= 50) {
		nt = 1
	}
	out(fmt.Sprintf("META probe=session-churn healthy=0 ops=%d blocked=false mb=0.0 peers=%s rounds=%s nontrivial=%d", puts, peers, rounds, nt))
}

// childC15 is the process that may die
func childC15(cs *Case, _ []string) {
	peers, _ := strconv.Atoi(hdrVal(cs.Hdr, "peers", "48"))
	rounds, _ := strconv.Atoi(hdrVal(cs.Hdr, "rounds", "6"))
	roundms, _ := strconv.Atoi(hdrVal(cs.Hdr, "roundms", "250"))
	hbint, _ := strconv.Atoi(hdrVal(cs.Hdr, "hbint", "300"))
	hbto, _ := strconv.Atoi(hdrVal(cs.Hdr, "hbto", "1200"))
	hb := &replication.HeartbeatConfig{Interval: time.Duration(hbint) * time.Millisecond, Timeout: time.Duration(hbto) * time.Millisecond, SendEmptyResponses: true}
	pdir, pe, pm, paddr, err := newPrimaryNode(hb)
	if err != nil {
		fmt.Fprintln(os.Stderr, "child: primary:", err)
		os.Exit(4)
	}
	defer removeAll(pdir)
	stop := make(chan struct{})
	var wg sync.WaitGroup
	var nput, nread, nack, nnack atomic.Int64
	acks := hdrVal(cs.Hdr, "acks", "1") == "1"
	// client writers: every Put runs the observer callback that walks the session map
	for g := 0; g < 2; g++ {
		g := g
		wg.Add(1)
		go func() {
			defer wg.Done()
			v := lcgBytes(64, g+1)
			for i := 0; ; i++ {
				select {
				case <-stop:
					return
				default:
				}
				if err := pe.Put([]byte(fmt.Sprintf("k-%d-%06d", g, i%4096)), v); err == nil {
					nput.Add(1)
				}
			}
		}()
	}
	// topology readers (client service: GetNodeInfo; admin: Status)
	wg.Add(1)
	go func() {
		defer wg.Done()
		for {
			select {
			case <-stop:
				return
			default:
			}
			pm.GetNodeInfo()
			pm.Status()
			nread.Add(1)
			time.Sleep(200 * time.Microsecond)
		}
	}()
	ended := 0
	for r := 0; r < rounds; r++ {
		var ps []*rawPeer
		var pmu sync.Mutex
		var dw sync.WaitGroup
		for i := 0; i < peers; i++ {
			i := i
			dw.Add(1)
			go func() {
				defer dw.Done()
				p, st, err := dialRaw(paddr, fmt.Sprintf("127.0.0.1:%d", 2000+i))
				if err != nil {
					return
				}
				go drain(st)
				if acks {
					// acknowledge like a replica does: Acknowledge looks the session up in the map,
					// updates it and runs the WAL retention over all sessions
					go func() {
						for n := uint64(1); ; n++ {
							if p.ack(n) != nil {
								return
							}
							nack.Add(1)
							time.Sleep(10 * time.Millisecond)
						}
					}()
				}
				if acks && i%4 == 0 {
					// ... and some report gaps all the time (NegativeAcknowledge looks the session up
					// twice and re-sends from the log), also while their session is being removed:
					// the calls go on until the connection is closed
					go func() {
						for {
							if p.nack(1) != nil {
								return
							}
							nnack.Add(1)
						}
					}()
				}
				pmu.Lock()
				ps = append(ps, p)
				pmu.Unlock()
			}()
		}
		dw.Wait()
		time.Sleep(time.Duration(roundms) * time.Millisecond)
		// all sessions end at the same moment: every stream is cancelled on the same signal
		fire := make(chan struct{})
		var cw sync.WaitGroup
		for _, p := range ps {
			p := p
			cw.Add(1)
			go func() {
				defer cw.Done()
				<-fire
				p.cancel()
			}()
		}
		close(fire)
		cw.Wait()
		ended += len(ps)
		// let the handlers return (each unregisters its session), then drop the connections
		dl := time.Now().Add(3 * time.Second)
		for time.Now().Before(dl) {
			_, _, reps, _, _ := pm.GetNodeInfo()
			if len(reps) == 0 {
				break
			}
			time.Sleep(5 * time.Millisecond)
		}
		for _, p := range ps {
			p := p
			withTimeout(3*time.Second, func() { p.conn.Close() })
		}
	}
	close(stop)
	wg.Wait()
	withTimeout(5*time.Second, func() { pm.Stop() })
	withTimeout(5*time.Second, func() { pe.Close() })
	fmt.Fprintf(os.Stderr, "CHURN-DONE puts=%d reads=%d acks=%d nacks=%d ended=%d rounds=%d\n", nput.Load(), nread.Load(), nack.Load(), nnack.Load(), ended, rounds)
}
