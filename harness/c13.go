package main

// C13: a replica applies the primary's log in order, exactly once.
//
// One case = a primary write history and a delivery schedule.
//   header: kind=sched|engine|emit|replica  start=N  class=<generator class>
//   history (kind sched: real pkg/wal; kind engine: real EngineFacade, the log is its WAL):
//     w put K V | w del K | w merge K V          one wal.Append / engine Put / Delete
//     w batch n  + n lines  o put K V | o del K | o merge K V     one AppendBatch / ApplyBatch
//   the log L is read back with WAL.GetEntriesFrom(1) and turned into wire entries with
//   replication.WALEntryToProto; deliveries address it by position:
//     seg I J [f=K]      the contiguous piece L[I,J)        (f=K: the K-th applyFn call fails)
//     idx i,j,k [f=K]    any selection (duplicates, holes, any order)
//     poll FROM [f=K]    what getWALEntriesFromSequence returns (seq >= FROM, the first 100 and on to
//                        the end of the 100th entry's sequence number)
//     raw n [f=K] + n lines  e SEQ PAYLOAD        literal wire entries (malformed stream)
//     reset              connection reset: the applier object survives; a new stream asks
//                        for GetExpectedNext
//     restart            process restart: manager.startReplica builds NewReplica(0, ..) ->
//                        NewWALBatchApplier(0); the engine's data survives
//     ack                AcknowledgeUpTo(GetMaxApplied)
//   every delivery goes to the real replication.WALBatchApplier.ApplyEntries with a recording
//   applyFn (kind engine: in front of the real EngineApplier on a read-only engine).
// Observations (mirrored by model/drv_c13.ml): L/l the log, D per delivery (result class,
// GetMaxApplied, GetExpectedNext, number applied, what would be acknowledged / NACKed),
// a per applied entry, X per reset/restart, K per ack, s/p final replica / primary scan.
//
// kind=emit drives the real Primary (StreamWAL/Acknowledge/NegativeAcknowledge called
// directly with an in-memory server stream) into the real applier; kind=replica drives a real
// Replica over loopback gRPC against a scripted primary. Both are timing dependent: oracle
// only, no model lines.

import (
	"bufio"
	"bytes"
	"errors"
	"fmt"
	"math/rand"
	"os"
	"path/filepath"
	"sort"
	"strconv"
	"strings"

	"github.com/KevoDB/kevo/pkg/config"
	"github.com/KevoDB/kevo/pkg/engine"
	"github.com/KevoDB/kevo/pkg/replication"
	"github.com/KevoDB/kevo/pkg/wal"
	rpb "github.com/KevoDB/kevo/proto/kevo/replication"
)

func init() { register("C13", &Prop{Gen: genC13, Run: runC13}) }

type c13Entry struct {
	seq  uint64
	op   uint8
	k, v []byte
}

func (e c13Entry) String() string {
	return fmt.Sprintf("%s %d %s %s", num(e.seq), e.op, render(e.k), render(e.v))
}

func c13Same(a, b c13Entry) bool {
	return a.seq == b.seq && a.op == b.op && bytes.Equal(a.k, b.k) && bytes.Equal(a.v, b.v)
}

func c13FromWal(e *wal.Entry) c13Entry {
	return c13Entry{e.SequenceNumber, e.Type, append([]byte{}, e.Key...), append([]byte{}, e.Value...)}
}

// result class of ApplyEntries, from its (gap, err)
func c13Class(gap bool, err error) string {
	if err == nil {
		return "ok"
	}
	if gap {
		return "gap"
	}
	s := err.Error()
	switch {
	case strings.Contains(s, "failed to deserialize"):
		switch {
		case strings.Contains(s, "payload too small for value length"):
			return "deser:valhdr"
		case strings.Contains(s, "payload too small"):
			return "deser:small"
		case strings.Contains(s, "invalid operation type"):
			return "deser:optype"
		case strings.Contains(s, "key length too large"):
			return "deser:keybig"
		case strings.Contains(s, "invalid key length"):
			return "deser:keylen"
		case strings.Contains(s, "value length too large"):
			return "deser:valbig"
		case strings.Contains(s, "invalid value length"):
			return "deser:vallen"
		}
		return "deser:other:" + strings.ReplaceAll(s, " ", "_")
	case strings.Contains(s, "failed to apply"):
		return "apply"
	}
	return "other:" + strings.ReplaceAll(s, " ", "_")
}

func c13Failat(opts []string) int {
	for _, t := range opts {
		if strings.HasPrefix(t, "f=") {
			v, _ := strconv.Atoi(t[2:])
			return v
		}
	}
	return -1
}

// ---------------------------------------------------------------------------------------
// the oracle: the property text evaluated on what the implementation did
// ---------------------------------------------------------------------------------------

type c13Oracle struct {
	L          []c13Entry
	n          int  // L[:n] is what the replica has applied (while !tainted)
	tainted    bool // applied list no longer comparable position by position
	all        []c13Entry
	cur        uint64 // cursor reported after the previous event
	start      uint64 // cursor the current incarnation started with
	restarted  bool   // a restart happened after something had been applied
	fails      []string
	kfs        []string
	kfmsg      []string
	events     int
	interest   int // duplicates, overlaps, gaps, failures, resets seen
	deliveries int
}

func (o *c13Oracle) fail(class, msg string) {
	if class == "" {
		o.fails = append(o.fails, msg)
		return
	}
	for _, k := range o.kfs {
		if k == class {
			return
		}
	}
	o.kfs = append(o.kfs, class)
	o.kfmsg = append(o.kfmsg, msg)
}

func (o *c13Oracle) midGroup(i int) bool { // position i is strictly inside a group of L
	return i > 0 && i < len(o.L) && o.L[i-1].seq == o.L[i].seq
}

// description of a delivery in terms of L
type c13Deliv struct {
	form   string // seg | idx | raw
	i, j   int    // seg bounds (also for idx lists that are contiguous)
	idx    []int
	failat int
	seqs   []uint64 // wire sequence numbers
}

// after one delivery. expBefore = GetExpectedNext before the call.
func (o *c13Oracle) delivery(d *c13Deliv, res string, ret, cur, exp, expBefore uint64, app []c13Entry) {
	o.events++
	o.deliveries++
	nBefore := o.n
	// ---- return value and bookkeeping are consistent
	if ret != cur {
		o.fail("", fmt.Sprintf("delivery %d: ApplyEntries returned %d but GetMaxApplied is %d", o.events, ret, cur))
	}
	if exp != cur+1 {
		o.fail("", fmt.Sprintf("delivery %d: expected next %d is not applied %d + 1", o.events, exp, cur))
	}
	if res == "gap" && (len(app) != 0 || cur != o.cur) {
		o.fail("", fmt.Sprintf("delivery %d: rejected as a gap, yet %d entries applied / cursor %d -> %d", o.events, len(app), o.cur, cur))
	}
	// ---- applied in primary order, none skipped, none re-applied
	if d.form == "raw" {
		if len(app) > 0 {
			o.tainted = true // entries that are not the primary's: only the cursor rules are judged
		}
	} else if !o.tainted {
		bad := -1
		for x := range app {
			if o.n+x >= len(o.L) || !c13Same(app[x], o.L[o.n+x]) {
				bad = x
				break
			}
		}
		if bad >= 0 {
			want := "nothing (log exhausted)"
			if o.n+bad < len(o.L) {
				want = "L[" + strconv.Itoa(o.n+bad) + "] = " + o.L[o.n+bad].String()
			}
			msg := fmt.Sprintf("delivery %d: with L[0,%d) applied the replica applied {%s} where the primary's history continues with %s",
				o.events, o.n+bad, app[bad].String(), want)
			o.fail(o.classifyMismatch(d), msg)
			o.tainted = true
		} else {
			o.n += len(app)
		}
	}
	o.all = append(o.all, app...)
	// ---- a rejected selection must not be applied in part: holes between sequence numbers
	if d.form != "raw" && len(d.seqs) > 0 {
		mustReject := d.seqs[0] > expBefore
		for x := 1; x < len(d.seqs); x++ {
			if d.seqs[x] != d.seqs[x-1] && d.seqs[x] != d.seqs[x-1]+1 {
				mustReject = true
			}
		}
		if mustReject && (res != "gap" || len(app) != 0) {
			o.fail("", fmt.Sprintf("delivery %d: starts beyond the expected number or has a hole, but result %s, %d applied", o.events, res, len(app)))
		}
		if mustReject {
			o.interest++
		}
	}
	// ---- progress: the exact continuation of what is applied, internally consistent, no failure
	if d.form == "seg" && !o.tainted && d.i == nBefore && d.j > d.i && d.failat < 0 && o.L[d.i].seq <= expBefore {
		if res != "ok" || len(app) != d.j-d.i {
			cls := ""
			if o.midGroup(d.i) {
				cls = "delivery_enters_group"
			}
			o.fail(cls, fmt.Sprintf("delivery %d: L[%d,%d) continues exactly what is applied, yet result %s and %d of %d applied", o.events, d.i, d.j, res, len(app), d.j-d.i))
		}
	}
	if d.form == "seg" && (d.i < nBefore || d.failat >= 0) {
		o.interest++
	}
	// ---- the reported cursor never decreases
	if cur < o.cur {
		o.fail("", fmt.Sprintf("delivery %d: reported applied sequence went back from %d to %d", o.events, o.cur, cur))
	}
	// ---- and never exceeds what is applied
	if len(o.all) == 0 || cur == o.start {
		if cur != o.start && len(o.all) == 0 {
			o.fail("", fmt.Sprintf("delivery %d: reports %d with nothing applied (started at %d)", o.events, cur, o.start))
		}
	} else if last := o.all[len(o.all)-1]; d.form != "raw" && cur > last.seq {
		o.fail("", fmt.Sprintf("delivery %d: reports %d, the last applied entry carries %d", o.events, cur, last.seq))
	}
	if !o.tainted && o.n < len(o.L) && o.L[o.n].seq <= cur {
		cls := ""
		if o.midGroup(o.n) && o.L[o.n].seq == cur {
			cls = "cut_group_acknowledged"
		}
		if o.restarted {
			cls = "replica_restart_replays"
		}
		o.fail(cls, fmt.Sprintf("delivery %d: reports %d as applied, but L[%d] = {%s} is not applied", o.events, cur, o.n, o.L[o.n].String()))
	}
	o.cur = cur
}

func (o *c13Oracle) classifyMismatch(d *c13Deliv) string {
	if o.restarted {
		return "replica_restart_replays"
	}
	if d.form == "idx" {
		// a selection that passes the +0/+1 check but is not a contiguous piece: entries of one
		// sequence number are indistinguishable on the wire
		return "delivery_enters_group"
	}
	if d.form == "seg" {
		if o.midGroup(d.i) {
			return "delivery_enters_group"
		}
		if o.midGroup(o.n) && d.i > o.n {
			return "cut_group_acknowledged"
		}
	}
	return ""
}

func (o *c13Oracle) restart() {
	o.events++
	o.interest++
	if len(o.all) > 0 {
		o.restarted = true
	}
	if o.cur > 0 {
		o.fail("replica_restart_replays", fmt.Sprintf("event %d: after a restart the replica reports 0 (it reported %d before) and asks for the log from sequence 1 again", o.events, o.cur))
	}
	o.cur = 0
	o.start = 0
}

func (o *c13Oracle) verdict(out func(string)) {
	if len(o.fails) > 0 {
		out("ORACLE FAIL " + o.fails[0])
		return
	}
	if len(o.kfs) > 0 {
		out("ORACLE FAIL " + o.kfmsg[0])
		for _, k := range o.kfs {
			out("KF " + k)
		}
		return
	}
	out("ORACLE ok")
}

// reference data of the replica after L[:n]: what applying these entries in order means
func c13RefState(L []c13Entry, n int, mergeIsPut bool) []kvPair {
	m := map[string][]byte{}
	for _, e := range L[:n] {
		switch e.op {
		case wal.OpTypePut:
			m[string(e.k)] = e.v
		case wal.OpTypeDelete:
			delete(m, string(e.k))
		case wal.OpTypeMerge:
			if mergeIsPut {
				m[string(e.k)] = e.v
			}
		}
	}
	keys := make([]string, 0, len(m))
	for k := range m {
		keys = append(keys, k)
	}
	sort.Strings(keys)
	var r []kvPair
	for _, k := range keys {
		r = append(r, kvPair{[]byte(k), m[k]})
	}
	return r
}

func c13Scan(e *engine.EngineFacade) ([]kvPair, error) {
	it, err := e.GetIterator()
	if err != nil {
		return nil, err
	}
	var r []kvPair
	for it.SeekToFirst(); it.Valid(); it.Next() {
		if it.IsTombstone() {
			continue
		}
		r = append(r, kvPair{append([]byte{}, it.Key()...), append([]byte{}, it.Value()...)})
	}
	return r, nil
}

func c13ScanStr(s []kvPair) string {
	var b strings.Builder
	for _, p := range s {
		b.WriteString(render(p.k) + "=" + render(p.v) + " ")
	}
	return b.String()
}

// ---------------------------------------------------------------------------------------
// run
// ---------------------------------------------------------------------------------------

type c13Primary struct {
	dir  string
	w    *wal.WAL
	eng  *engine.EngineFacade
	kind string
}

func (p *c13Primary) close() {
	if p.eng != nil {
		p.eng.Close()
	} else if p.w != nil {
		p.w.Close()
	}
	os.RemoveAll(p.dir)
}

func c13OpenPrimary(kind string) (*c13Primary, error) {
	wal.DisableRecoveryLogs = true
	p := &c13Primary{dir: tmpDir("c13p-"), kind: kind}
	if kind == "engine" {
		if err := writeManifest(p.dir, 100000000, 1000, nil); err != nil {
			return nil, err
		}
		holdBackground()
		e, err := openEngine(p.dir)
		if err != nil {
			return nil, err
		}
		p.eng = e
		p.w = e.GetWAL()
		return p, nil
	}
	cfg := config.NewDefaultConfig(p.dir)
	cfg.WALSyncMode = config.SyncNone
	w, err := wal.NewWAL(cfg, filepath.Join(p.dir, "wal"))
	if err != nil {
		return nil, err
	}
	p.w = w
	return p, nil
}

// write the history; returns the reference log (what the case text says was written, numbered
// 1, 2, ... with one number per batch), the rest of the lines, and (kind engine) the real
// primary's data after every operation
func (p *c13Primary) write(lines [][]string) (ref []c13Entry, rest [][]string, states [][]kvPair, groupEnd []int, err error) {
	seq := uint64(1)
	i := 0
	snap := func() {
		if p.eng != nil {
			s, _ := c13Scan(p.eng)
			states = append(states, s)
			groupEnd = append(groupEnd, len(ref))
		}
	}
	snap()
	for ; i < len(lines); i++ {
		l := lines[i]
		if l[0] == "o" {
			continue // left over from a block the shrinker cut
		}
		if l[0] != "w" {
			break
		}
		switch l[1] {
		case "put", "merge":
			k, v := tok(l[2]), tok(l[3])
			if p.eng != nil {
				if l[1] == "merge" {
					return nil, nil, nil, nil, errors.New("single merge is not reachable through the engine")
				}
				err = p.eng.Put(k, v)
			} else {
				_, err = p.w.Append(opOf(l[1]), k, v)
			}
			ref = append(ref, c13Entry{seq, opOf(l[1]), k, v})
			seq++
		case "del":
			k := tok(l[2])
			if p.eng != nil {
				err = p.eng.Delete(k)
			} else {
				_, err = p.w.Append(wal.OpTypeDelete, k, nil)
			}
			ref = append(ref, c13Entry{seq, wal.OpTypeDelete, k, []byte{}})
			seq++
		case "batch":
			n, _ := strconv.Atoi(l[2])
			// a shrunk case may have lost lines of the block: take the "o" lines that are there
			m := 0
			for m < n && i+1+m < len(lines) && lines[i+1+m][0] == "o" {
				m++
			}
			n = m
			var es []*wal.Entry
			for j := 1; j <= n; j++ {
				o := lines[i+j]
				e := &wal.Entry{Type: opOf(o[1]), Key: tok(o[2])}
				v := []byte{}
				if len(o) > 3 && e.Type != wal.OpTypeDelete {
					e.Value = tok(o[3])
					v = e.Value
				}
				es = append(es, e)
				ref = append(ref, c13Entry{seq, e.Type, e.Key, v})
			}
			i += n
			if p.eng != nil {
				err = p.eng.ApplyBatch(es)
			} else {
				_, err = p.w.AppendBatch(es)
			}
			if n > 0 {
				seq++
			}
		default:
			err = errors.New("bad history line " + strings.Join(l, " "))
		}
		if err != nil {
			return nil, nil, nil, nil, err
		}
		snap()
	}
	return ref, lines[i:], states, groupEnd, nil
}

func runC13(c *Case, out func(string)) {
	kind := hdrVal(c.Hdr, "kind", "sched")
	switch kind {
	case "replica":
		runC13Replica(c, out)
		return
	case "emit":
		runC13Emit(c, out)
		return
	}
	start := parseNum(hdrVal(c.Hdr, "start", "0"))
	p, err := c13OpenPrimary(kind)
	if err != nil {
		out("IMPL-ERROR " + err.Error())
		return
	}
	defer p.close()
	ref, evs, pstates, pends, err := p.write(c.Lines)
	if err != nil {
		out("IMPL-ERROR " + err.Error())
		return
	}
	got, err := p.w.GetEntriesFrom(1)
	if err != nil {
		out("IMPL-ERROR GetEntriesFrom: " + err.Error())
		return
	}
	o := &c13Oracle{start: start, cur: start}
	for _, e := range got {
		o.L = append(o.L, c13FromWal(e))
		if e.SequenceNumber <= start {
			o.n++ // a replica that starts behind `start` owns these already
		}
	}
	out(fmt.Sprintf("L %d", len(o.L)))
	for _, e := range o.L {
		out("l " + e.String())
	}
	// the log is the history as written (C09's business; here a precondition of the oracle)
	if len(ref) != len(o.L) {
		o.fail("", fmt.Sprintf("the primary's log has %d entries, the history wrote %d", len(o.L), len(ref)))
	} else {
		for i := range ref {
			if !c13Same(ref[i], o.L[i]) {
				o.fail("", fmt.Sprintf("log entry %d is {%s}, written {%s}", i, o.L[i].String(), ref[i].String()))
				break
			}
		}
	}
	// the replica side
	var reng *engine.EngineFacade
	var ea *replication.EngineApplier
	if kind == "engine" {
		rdir := tmpDir("c13r-")
		defer os.RemoveAll(rdir)
		if err := writeManifest(rdir, 100000000, 1000, nil); err != nil {
			out("IMPL-ERROR " + err.Error())
			return
		}
		reng, err = openEngine(rdir)
		if err != nil {
			out("IMPL-ERROR " + err.Error())
			return
		}
		defer reng.Close()
		reng.SetReadOnly(true)
		ea = replication.NewEngineApplier(reng)
	}
	ap := replication.NewWALBatchApplier(start)
	mk := func(e c13Entry) *rpb.WALEntry {
		pe, err := replication.WALEntryToProto(&wal.Entry{SequenceNumber: e.seq, Type: e.op, Key: e.k, Value: e.v}, rpb.FragmentType_FULL)
		if err != nil {
			panic(err)
		}
		return pe
	}
	deliver := func(d *c13Deliv, es []*rpb.WALEntry) {
		var app []c13Entry
		calls := 0
		fn := func(e *wal.Entry) error {
			k := calls
			calls++
			if d.failat >= 0 && k == d.failat {
				return errors.New("injected apply failure")
			}
			if ea != nil {
				if err := ea.Apply(e); err != nil {
					return err
				}
			}
			app = append(app, c13FromWal(e))
			return nil
		}
		for _, e := range es {
			d.seqs = append(d.seqs, e.SequenceNumber)
		}
		expBefore := ap.GetExpectedNext()
		ret, gap, err := ap.ApplyEntries(es, fn)
		res := c13Class(gap, err)
		cur, exp := ap.GetMaxApplied(), ap.GetExpectedNext()
		tail := ""
		switch res {
		case "ok":
			tail = " ack=" + num(cur)
		case "gap":
			tail = " nack=" + num(exp)
		}
		out(fmt.Sprintf("D res=%s cur=%s exp=%s n=%d%s", res, num(cur), num(exp), len(app), tail))
		for _, e := range app {
			out("a " + e.String())
		}
		o.delivery(d, res, ret, cur, exp, expBefore, app)
		if reng != nil && !o.tainted {
			// at every moment the replica's data is the primary's data after a prefix of its history
			rs, err := c13Scan(reng)
			if err != nil {
				o.fail("", "replica scan: "+err.Error())
			} else {
				want := c13RefState(o.L, o.n, false)
				for gi, ge := range pends {
					if ge == o.n && !o.midGroup(o.n) {
						want = pstates[gi] // the real primary's data after the same operations
					}
				}
				if !scanEqual(rs, want) {
					cls := ""
					for _, e := range o.L[:o.n] {
						if e.op == wal.OpTypeMerge {
							cls = "merge_entry_diverges"
						}
					}
					o.fail(cls, fmt.Sprintf("delivery %d: replica data {%s} is not the primary's data after L[0,%d) {%s}", o.events, c13ScanStr(rs), o.n, c13ScanStr(want)))
				}
			}
		}
	}
	for i := 0; i < len(evs); i++ {
		l := evs[i]
		switch l[0] {
		case "seg":
			a, _ := strconv.Atoi(l[1])
			b, _ := strconv.Atoi(l[2])
			d := &c13Deliv{form: "seg", i: a, j: b, failat: c13Failat(l[3:])}
			var es []*rpb.WALEntry
			for x := a; x < b && x < len(o.L); x++ {
				es = append(es, mk(o.L[x]))
			}
			if b > len(o.L) {
				d.j = len(o.L)
			}
			if d.i > d.j {
				d.i = d.j
			}
			deliver(d, es)
		case "idx":
			d := &c13Deliv{form: "idx", failat: c13Failat(l[2:])}
			var es []*rpb.WALEntry
			if l[1] != "-" {
				for _, t := range strings.Split(l[1], ",") {
					x, _ := strconv.Atoi(t)
					if x >= 0 && x < len(o.L) {
						d.idx = append(d.idx, x)
						es = append(es, mk(o.L[x]))
					}
				}
			}
			contiguous := len(d.idx) > 0
			for x := 1; x < len(d.idx); x++ {
				if d.idx[x] != d.idx[x-1]+1 {
					contiguous = false
				}
			}
			if contiguous {
				d.form, d.i, d.j = "seg", d.idx[0], d.idx[len(d.idx)-1]+1
			}
			deliver(d, es)
		case "poll":
			from := parseNum(l[1])
			d := &c13Deliv{form: "seg", i: len(o.L), j: len(o.L), failat: c13Failat(l[2:])}
			var es []*rpb.WALEntry
			// getWALEntriesFromSequence since f62340e: 100 entries, then on to the end of the
			// sequence number the 100th carries
			for x, e := range o.L {
				if e.seq >= from && (len(es) < 100 || e.seq == o.L[d.j-1].seq) {
					if len(es) == 0 {
						d.i = x
					}
					es = append(es, mk(e))
					d.j = x + 1
				} else if e.seq >= from {
					break
				}
			}
			deliver(d, es)
		case "raw":
			n, _ := strconv.Atoi(l[1])
			m := 0
			for m < n && i+1+m < len(evs) && evs[i+1+m][0] == "e" && len(evs[i+1+m]) == 3 {
				m++
			}
			n = m
			d := &c13Deliv{form: "raw", failat: c13Failat(l[2:])}
			var es []*rpb.WALEntry
			for j := 1; j <= n; j++ {
				e := evs[i+j]
				es = append(es, &rpb.WALEntry{SequenceNumber: parseNum(e[1]), Payload: tok(e[2]), FragmentType: rpb.FragmentType_FULL})
			}
			i += n
			deliver(d, es)
		case "reset":
			o.events++
			o.interest++
			out("X reset " + num(ap.GetExpectedNext()))
			if ap.GetExpectedNext() != o.cur+1 {
				o.fail("", fmt.Sprintf("event %d: the new stream asks for %d, applied is %d", o.events, ap.GetExpectedNext(), o.cur))
			}
		case "restart":
			ap = replication.NewWALBatchApplier(0)
			out("X restart")
			o.restart()
		case "ack":
			ap.AcknowledgeUpTo(ap.GetMaxApplied())
			out("K " + num(ap.GetLastAcknowledged()))
			if ap.GetLastAcknowledged() > ap.GetMaxApplied() {
				o.fail("", "acknowledged beyond applied")
			}
		case "o", "e":
			// left over from a block the shrinker cut: ignored (the model driver does the same)
		default:
			out("IMPL-ERROR bad line " + strings.Join(l, " "))
			return
		}
	}
	if reng != nil {
		rs, _ := c13Scan(reng)
		for _, kv := range rs {
			out("s " + render(kv.k) + " " + render(kv.v))
		}
		ps, _ := c13Scan(p.eng)
		for _, kv := range ps {
			out("p " + render(kv.k) + " " + render(kv.v))
		}
	}
	o.verdict(out)
	groups, maxg, cur := 0, 0, 0
	for i := range o.L {
		if i == 0 || o.L[i].seq != o.L[i-1].seq {
			groups++
			cur = 0
		}
		cur++
		if cur > maxg {
			maxg = cur
		}
	}
	nt := 0
	if len(o.L) >= 4 && maxg >= 2 && o.deliveries >= 3 && o.interest >= 1 && len(o.all) >= 3 {
		nt = 1
	}
	out(fmt.Sprintf("META kind=%s class=%s entries=%d groups=%d maxgroup=%d deliveries=%d applied=%d special=%d kf=%d nontrivial=%d",
		kind, hdrVal(c.Hdr, "class", "-"), len(o.L), groups, maxg, o.deliveries, len(o.all), o.interest, len(o.kfs), nt))
}

// ---------------------------------------------------------------------------------------
// generator
// ---------------------------------------------------------------------------------------

type c13GenLog struct {
	lines  []string
	seqs   []uint64 // sequence number of every entry of L
	starts []int    // positions where a group starts, plus len(L)
}

func c13Val(r *rand.Rand) string {
	switch pick(r, 30, 30, 15, 10, 10, 5) {
	case 0:
		return "01"
	case 1:
		return "02"
	case 2:
		return mkTok([]byte{byte(r.Intn(4)), 0xff})
	case 3:
		return "-"
	case 4:
		return fmt.Sprintf("@%d:%d", 20+r.Intn(60), r.Intn(5))
	}
	return fmt.Sprintf("@%d:%d", 300+r.Intn(3000), r.Intn(5))
}

// nops operations; bigTx > 0 adds one transaction of that many entries at a random place
func c13GenHistory(r *rand.Rand, nops, nkeys int, bigTx int, merges, singleMerges bool) *c13GenLog {
	g := &c13GenLog{}
	seq := uint64(1)
	bigAt := -1
	if bigTx > 0 {
		bigAt = r.Intn(nops)
	}
	one := func(prefix string) string {
		k := mkTok(genKey(r, nkeys))
		switch pick(r, 70, 25, 5) {
		case 1:
			return prefix + " del " + k
		case 2:
			if merges && (prefix == "o" || singleMerges) {
				return prefix + " merge " + k + " " + c13Val(r)
			}
		}
		return prefix + " put " + k + " " + c13Val(r)
	}
	for i := 0; i < nops; i++ {
		n := 0
		if i == bigAt {
			n = bigTx
		} else if r.Intn(100) < 40 {
			n = 2 + r.Intn(5)
			if r.Intn(10) == 0 {
				n = 1
			}
		}
		if n == 0 {
			g.lines = append(g.lines, one("w"))
			g.starts = append(g.starts, len(g.seqs))
			g.seqs = append(g.seqs, seq)
			seq++
			continue
		}
		g.lines = append(g.lines, fmt.Sprintf("w batch %d", n))
		g.starts = append(g.starts, len(g.seqs))
		for j := 0; j < n; j++ {
			if i == bigAt {
				g.lines = append(g.lines, fmt.Sprintf("o put %s %s", mkTok([]byte(fmt.Sprintf("t%03d", j))), c13Val(r)))
			} else {
				g.lines = append(g.lines, one("o"))
			}
			g.seqs = append(g.seqs, seq)
		}
		seq++
	}
	g.starts = append(g.starts, len(g.seqs))
	return g
}

func (g *c13GenLog) groupStartOf(pos int) int { // start of the group containing position pos
	s := 0
	for _, b := range g.starts {
		if b <= pos {
			s = b
		}
	}
	return s
}

func (g *c13GenLog) boundaryAfter(r *rand.Rand, pos int, maxGroups int) int {
	var later []int
	for _, b := range g.starts {
		if b > pos {
			later = append(later, b)
		}
	}
	if len(later) == 0 {
		return len(g.seqs)
	}
	k := r.Intn(maxGroups)
	if k >= len(later) {
		k = len(later) - 1
	}
	return later[k]
}

func (g *c13GenLog) boundaryAtOrBefore(r *rand.Rand, pos int) int {
	var earlier []int
	for _, b := range g.starts {
		if b <= pos {
			earlier = append(earlier, b)
		}
	}
	if len(earlier) == 0 {
		return 0
	}
	if r.Intn(3) > 0 {
		return earlier[len(earlier)-1]
	}
	return earlier[r.Intn(len(earlier))]
}

// deliveries whose both ends are group boundaries: duplicates, overlaps, one reordering, drops
// answered by a resend, resets, failing applies, acks. No known-finding class applies.
func c13GenAligned(r *rand.Rand, g *c13GenLog, withRestart bool) []string {
	var ev []string
	N := len(g.seqs)
	pos := 0
	type chunk struct{ a, b int }
	var sent []chunk
	restartAt := -1
	if withRestart {
		restartAt = 1 + r.Intn(4)
	}
	for step := 0; step < 40 && (pos < N || step < 3); step++ {
		if step == restartAt && pos > 0 {
			ev = append(ev, "restart")
			pos = 0
			continue
		}
		switch pick(r, 60, 9, 7, 6, 5, 8, 5) {
		case 0: // next piece, possibly overlapping what is applied
			a := pos
			if g.groupStartOf(pos) != pos || r.Intn(4) == 0 {
				a = g.boundaryAtOrBefore(r, pos)
			}
			b := g.boundaryAfter(r, pos, 3)
			if b <= a {
				continue
			}
			ev = append(ev, fmt.Sprintf("seg %d %d", a, b))
			sent = append(sent, chunk{a, b})
			pos = b
		case 1: // duplicate of an earlier delivery
			if len(sent) > 0 {
				c := sent[r.Intn(len(sent))]
				ev = append(ev, fmt.Sprintf("seg %d %d", c.a, c.b))
			}
		case 2: // a piece from the future (the one before it was dropped), then the resend
			a := g.boundaryAfter(r, pos, 2)
			b := g.boundaryAfter(r, a, 2)
			if a > pos && b > a {
				ev = append(ev, fmt.Sprintf("seg %d %d", a, b))
				if r.Intn(2) == 0 {
					ev = append(ev, fmt.Sprintf("seg %d %d", g.groupStartOf(pos), b))
					sent = append(sent, chunk{g.groupStartOf(pos), b})
					pos = b
				}
			}
		case 3:
			ev = append(ev, "reset")
		case 4:
			ev = append(ev, "ack")
		case 5: // the apply function fails somewhere in the delivery; the piece comes again
			a := g.groupStartOf(pos)
			b := g.boundaryAfter(r, pos, 3)
			if b > pos {
				k := r.Intn(b - pos)
				ev = append(ev, fmt.Sprintf("seg %d %d f=%d", a, b, k))
				pos += k
				if r.Intn(4) > 0 {
					ev = append(ev, fmt.Sprintf("seg %d %d", a, b))
					sent = append(sent, chunk{a, b})
					pos = b
				}
			}
		case 6: // two pieces in the wrong order
			a := g.groupStartOf(pos)
			b := g.boundaryAfter(r, pos, 2)
			c := g.boundaryAfter(r, b, 2)
			if b > pos && c > b {
				ev = append(ev, fmt.Sprintf("seg %d %d", b, c), fmt.Sprintf("seg %d %d", a, b), fmt.Sprintf("seg %d %d", b, c))
				sent = append(sent, chunk{a, b}, chunk{b, c})
				pos = c
			}
		}
	}
	if r.Intn(3) == 0 {
		ev = append(ev, fmt.Sprintf("seg 0 %d", N))
	}
	return ev
}

// deliveries cut anywhere, also inside transactions
func c13GenSplit(r *rand.Rand, g *c13GenLog) []string {
	var ev []string
	N := len(g.seqs)
	pos := 0
	for step := 0; step < 30 && pos < N; step++ {
		var a int
		switch pick(r, 40, 35, 15, 10) {
		case 0:
			a = pos // continuation, possibly inside a group
		case 1:
			a = g.groupStartOf(pos) // the poll: from the start of the newest number
		case 2:
			a = g.boundaryAfter(r, pos, 1) // the poll after the number was acknowledged
		default:
			a = r.Intn(pos + 1)
		}
		if a >= N {
			a = pos
		}
		b := a + 1 + r.Intn(8)
		if r.Intn(4) == 0 {
			b = g.boundaryAfter(r, a, 2)
		}
		if b > N {
			b = N
		}
		if b <= a {
			continue
		}
		f := ""
		if r.Intn(12) == 0 {
			f = fmt.Sprintf(" f=%d", r.Intn(b-a))
		}
		ev = append(ev, fmt.Sprintf("seg %d %d%s", a, b, f))
		if b > pos && a <= pos {
			pos = b
		}
		if r.Intn(10) == 0 {
			ev = append(ev, "reset")
		}
	}
	return ev
}

// what the primary does in the steady state: poll from the acknowledged number + 1 (fetch of
// 100 entries extended to a transaction boundary), acknowledged by the last number of the
// delivery; sometimes from a stale number. No known-finding class applies.
func c13GenPoll(r *rand.Rand, g *c13GenLog) []string {
	var ev []string
	from := uint64(1)
	for step := 0; step < 12; step++ {
		last := uint64(0)
		cnt := 0
		for _, s := range g.seqs {
			if s >= from && (cnt < 100 || s == last) {
				last = s
				cnt++
			}
		}
		if cnt == 0 {
			break
		}
		ev = append(ev, fmt.Sprintf("poll %d", from))
		if r.Intn(3) == 0 {
			ev = append(ev, fmt.Sprintf("poll %d", from)) // sent twice before the ack arrived
		}
		if r.Intn(5) == 0 && from > 1 {
			ev = append(ev, fmt.Sprintf("poll %d", 1+uint64(r.Int63n(int64(from))))) // a stale fetch
		}
		ev = append(ev, "ack")
		from = last + 1
	}
	return ev
}

func c13Payload(op byte, seq uint64, k, v []byte) []byte {
	b := []byte{op}
	for i := 0; i < 8; i++ {
		b = append(b, byte(seq>>(8*i)))
	}
	kl := uint32(len(k))
	b = append(b, byte(kl), byte(kl>>8), byte(kl>>16), byte(kl>>24))
	b = append(b, k...)
	if op != 2 {
		vl := uint32(len(v))
		b = append(b, byte(vl), byte(vl>>8), byte(vl>>16), byte(vl>>24))
		b = append(b, v...)
	}
	return b
}

// selections and literal wire entries: holes, repeated and reordered entries, damaged payloads
func c13GenHostile(r *rand.Rand, g *c13GenLog) []string {
	var ev []string
	N := len(g.seqs)
	pos := 0
	for step := 0; step < 14; step++ {
		switch pick(r, 35, 30, 35) {
		case 0: // honest piece
			b := g.boundaryAfter(r, pos, 2)
			if b > pos {
				ev = append(ev, fmt.Sprintf("seg %d %d", g.groupStartOf(pos), b))
				pos = b
			}
		case 1: // selection
			n := 1 + r.Intn(6)
			base := pos - r.Intn(3)
			if base < 0 {
				base = 0
			}
			var idx []string
			x := base
			for j := 0; j < n && x < N; j++ {
				idx = append(idx, strconv.Itoa(x))
				switch pick(r, 60, 15, 15, 10) {
				case 0:
					x++
				case 1:
					x += 2
				case 2: // repeat
				case 3:
					if x > 0 {
						x--
					}
				}
			}
			if len(idx) > 0 {
				ev = append(ev, "idx "+strings.Join(idx, ","))
			}
		case 2: // literal entries
			n := 1 + r.Intn(3)
			seq := uint64(1)
			if pos > 0 {
				seq = g.seqs[pos-1] + 1
			}
			if pos < N {
				seq = g.seqs[pos]
			}
			var es []string
			for j := 0; j < n; j++ {
				k, v := genKey(r, 4), []byte{byte(r.Intn(3))}
				p := c13Payload(1, seq, k, v)
				ws := seq
				switch pick(r, 30, 10, 10, 8, 8, 8, 8, 6, 6, 6) {
				case 1:
					p = p[:r.Intn(len(p))] // cut
				case 2:
					p[0] = byte(r.Intn(256)) // operation type
				case 3:
					p = c13Payload(1, seq+uint64(1+r.Intn(5)), k, v) // payload number differs from the wire number
				case 4:
					p[9], p[10], p[11], p[12] = 0x01, 0x00, 0x10, 0x00 // key length 1 MB + 1
				case 5:
					p = c13Payload(2, seq, k, nil)
					p = append(p, 1, 2, 3) // delete with trailing bytes
				case 6:
					p = append(p[:len(p)-1-4], 0x01, 0x00, 0xa0, 0x00, 0x05) // value length 10 MB + 1
				case 7:
					ws = 0
				case 8:
					ws = ^uint64(0) - uint64(r.Intn(2))
				case 9:
					p = []byte{}
				}
				es = append(es, fmt.Sprintf("e %s %s", num(ws), mkTok(p)))
				if r.Intn(3) > 0 {
					seq++
				}
			}
			ev = append(ev, fmt.Sprintf("raw %d", len(es)))
			ev = append(ev, es...)
		}
	}
	return ev
}

func genC13(w *bufio.Writer, seed int64, n int, tier string) {
	r := rand.New(rand.NewSource(seed*7919 + 13))
	for i := 0; i < n; i++ {
		kind := "sched"
		if i%10 == 9 {
			kind = "engine"
		}
		if i%63 == 62 {
			// the real Primary emits (1-2 s each). The log is built so that the 100th entry of
			// some fetch falls inside a transaction: lead*100 singles (the window slides over them
			// fetch by fetch), then 100-j singles and a batch of j+1..j+5 entries, i.e. the cut
			// leaves 1..5 entries of the transaction behind it (1 = only its last entry). Mostly
			// the transaction is the NEWEST thing in the log; sometimes entries follow. With
			// start=S the replica owns everything below S and the first fetch starts there.
			lead := (i / 63) % 3
			j := 1 + r.Intn(40)
			if r.Intn(6) == 0 {
				j = 100 + r.Intn(30) // no cut at all: the whole log fits into one fetch
			}
			start := 1
			if (i/63)%2 == 1 {
				start = 2 + r.Intn(60)
			}
			pre := lead*100 + (start - 1)
			if j < 100 {
				pre += 100 - j
			} else {
				pre += r.Intn(40)
			}
			fmt.Fprintf(w, "case c13-%d-%d kind=emit start=%d class=emit\n", seed, i, start)
			for x := 0; x < pre; x++ {
				fmt.Fprintf(w, "w put %s %s\n", mkTok([]byte(fmt.Sprintf("p%03d", x))), c13Val(r))
			}
			tx := j%100 + 1 + r.Intn(5)
			fmt.Fprintf(w, "w batch %d\n", tx)
			for x := 0; x < tx; x++ {
				fmt.Fprintf(w, "o put %s %s\n", mkTok([]byte(fmt.Sprintf("t%03d", x))), c13Val(r))
			}
			if r.Intn(5) < 2 {
				for x := 0; x < 1+r.Intn(3); x++ {
					fmt.Fprintf(w, "w put %s %s\n", mkTok(genKey(r, 4)), c13Val(r))
				}
			}
			fmt.Fprintln(w, "end")
			continue
		}
		class := []string{"aligned", "split", "poll", "hostile", "restart"}[pick(r, 46, 22, 10, 14, 8)]
		nops := 3 + r.Intn(14)
		big := 0
		if class == "poll" || r.Intn(12) == 0 {
			big = 2 + r.Intn(149)
			if class == "poll" {
				// enough entries in front of / inside the transaction to cross the 100-entry fetch limit
				nops = 8 + r.Intn(40)
				big = 60 + r.Intn(91)
			}
		}
		if kind == "engine" && class == "poll" {
			class = "aligned"
			nops, big = 3+r.Intn(10), 0
		}
		g := c13GenHistory(r, nops, 2+r.Intn(5), big, kind == "sched" || r.Intn(25) == 0, kind == "sched")
		var ev []string
		switch class {
		case "aligned":
			ev = c13GenAligned(r, g, false)
		case "restart":
			ev = c13GenAligned(r, g, true)
		case "split":
			ev = c13GenSplit(r, g)
		case "poll":
			ev = c13GenPoll(r, g)
		case "hostile":
			ev = c13GenHostile(r, g)
		}
		fmt.Fprintf(w, "case c13-%d-%d kind=%s start=0 class=%s\n", seed, i, kind, class)
		for _, l := range g.lines {
			fmt.Fprintln(w, l)
		}
		for _, l := range ev {
			fmt.Fprintln(w, l)
		}
		fmt.Fprintln(w, "end")
	}
}

