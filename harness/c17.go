package main

// C17 — every transaction ends and releases the database.
//
// One case = one real engine (engine.NewEngineFacade) + the real transaction.RegistryImpl
// (NewRegistryWithTTL, short idle limit) + either the real transaction.Manager built with short
// lifetimes over the engine's storage manager (wiring=ttl) or the engine's own manager
// (wiring=facade) + optionally the real KevoServiceServer behind an in-process gRPC server
// (svc=1), driven by a sequential script of calls from several clients. Calls that can wait for
// the transaction lock (Begin) are launched asynchronously; after every line the harness waits
// until every goroutine of the implementation has either finished or is parked inside
// sync.RWMutex (decided from the runtime's goroutine dump, not from expectations), so that what
// is observed is a function of the script alone.
//
// Time is explicit and MEASURED: `sleep N` sleeps N*scale real milliseconds; before every line the
// harness notes the milliseconds since the start of the case (`NOTE t <ms>`, after waiting out any
// Begin deadline that is about to fire) and the model runner moves the model's clock to exactly
// that instant (props: model_input=both), with all limits of the header multiplied by the scale
// (`NOTE scale <s>`). The implementation reads its own clock somewhere between the note and the end
// of the line; the harness keeps that bracket for every call and, whenever a limit of the
// implementation (idle, lifetime, deadline) falls inside the uncertainty of a comparison it is
// about to influence, declares the run ambiguous and repeats the case with a larger scale. So no
// assumption is made about how fast the machine is.
//
// Header: svc=0|1 peer=0|1 wiring=ttl|facade idle= ttlro= ttlrw= kind=prog|race   (the limit of
//         RegistryImpl.Begin is not configurable: the model takes it from gen/TxFacts.v)
// Lines:  begin C rw|ro D | get C K | put C K V | del C K | commit C | rollback C     (by handle)
//         oget C K | oput C K V | odel C K | ocommit C | orollback C   (on the kept object, svc=0)
//         remove C | abandon C | sleep N | stale | cleanconn C | shutdown | failnext | probe | dump
//         oneshot C ok|del|emptykey|longkey|badtype|bigvalue K V   (svc=1: one BatchWrite of the
//                 service, which begins, uses and ends a read-write transaction of its own inside the
//                 call; ok = [PUT K V], del = [DELETE K], the others = [PUT K V, <an operation the
//                 service rejects>]; answered `R C ok|invalid|fail`, or `R C busy` without calling
//                 when the lock is not free — the real call would wait uninterruptibly)
// Observations (mirrored by model/drv_c17.ml): B C ok|wait|busy | A C ok|timeout | R C <res> |
//         G C v:<V>|notfound|closed|txnotfound|invalid|nohandle | M ok|panic | P ok|blocked |
//         S reg=<n> lock=free|read|write (after every line) | D n=<k> + d K V

import (
	"bufio"
	"bytes"
	"context"
	"errors"
	"fmt"
	"io"
	"math/rand"
	"net"
	"os"
	"path/filepath"
	"runtime"
	"sort"
	"strconv"
	"strings"
	"sync"
	"sync/atomic"
	"time"

	"github.com/KevoDB/kevo/pkg/common/iterator"
	"github.com/KevoDB/kevo/pkg/engine"
	"github.com/KevoDB/kevo/pkg/engine/interfaces"
	"github.com/KevoDB/kevo/pkg/grpc/service"
	"github.com/KevoDB/kevo/pkg/transaction"
	"github.com/KevoDB/kevo/pkg/wal"
	pb "github.com/KevoDB/kevo/proto/kevo"
	"google.golang.org/grpc"
	"google.golang.org/grpc/credentials/insecure"
	"google.golang.org/grpc/metadata"
	"google.golang.org/grpc/status"
)

func init() { register("C17", &Prop{Gen: genC17, Run: runC17}) }

const (
	c17ProbeClient = 99
	c17ProbeKey    = 9
	c17GuardMs     = 60               // deadlines closer than this (x scale) to a line are waited out first
	c17MaxKey      = 4096             // service.go: maxKeySize
	c17MaxValue    = 10 * 1024 * 1024 // service.go: maxValueSize
)

// ---------------------------------------------------------------------------------------
// wrappers that only observe: which goroutine creates which transaction, and ApplyBatch
// ---------------------------------------------------------------------------------------

// c17Store is the storage backend handed to the short-lifetime manager: the engine's storage
// manager, with a counter of applied batches and a one-shot injected failure.
type c17Store struct {
	real     transaction.StorageBackend
	applied  atomic.Int64
	failNext atomic.Bool
	failed   atomic.Int64
}

func (s *c17Store) Get(k []byte) ([]byte, error) { return s.real.Get(k) }
func (s *c17Store) ApplyBatch(es []*wal.Entry) error {
	if s.failNext.CompareAndSwap(true, false) {
		s.failed.Add(1)
		return errors.New("injected apply failure")
	}
	s.applied.Add(1)
	return s.real.ApplyBatch(es)
}
func (s *c17Store) GetIterator() (iterator.Iterator, error) { return s.real.GetIterator() }
func (s *c17Store) GetRangeIterator(a, b []byte) (iterator.Iterator, error) {
	return s.real.GetRangeIterator(a, b)
}

// one creating goroutine of RegistryImpl.Begin, seen from inside BeginTransaction
type c17Inner struct {
	gid     int64
	granted atomic.Bool
	tx      transaction.Transaction
	exited  bool
	call    *c17Call
}

// c17Engine is what the registry / the service is given as "the engine": the real facade, with
// BeginTransaction routed to the manager under test and bracketed by bookkeeping.
type c17Engine struct {
	interfaces.Engine
	begin func(bool) (transaction.Transaction, error)
	env   *c17Env
}

func (w *c17Engine) BeginTransaction(ro bool) (interfaces.Transaction, error) {
	in := &c17Inner{gid: curGID()}
	w.env.mu.Lock()
	w.env.inners = append(w.env.inners, in)
	w.env.mu.Unlock()
	tx, err := w.begin(ro)
	in.tx = tx
	in.granted.Store(true)
	if tx == nil {
		return nil, err
	}
	return tx, err
}

func curGID() int64 {
	var buf [64]byte
	n := runtime.Stack(buf[:], false)
	f := strings.Fields(string(buf[:n]))
	if len(f) >= 2 {
		v, _ := strconv.ParseInt(f[1], 10, 64)
		return v
	}
	return -1
}

// goroutine id -> wait state ("running", "runnable", "sync.RWMutex.Lock", "select", ...)
func goroutineStates() map[int64]string {
	sz := 1 << 16
	for {
		buf := make([]byte, sz)
		n := runtime.Stack(buf, true)
		if n < sz {
			res := map[int64]string{}
			for _, blk := range strings.Split(string(buf[:n]), "\n\n") {
				if !strings.HasPrefix(blk, "goroutine ") {
					continue
				}
				nl := strings.IndexByte(blk, '\n')
				if nl < 0 {
					nl = len(blk)
				}
				hd := blk[len("goroutine "):nl]
				sp := strings.IndexByte(hd, ' ')
				if sp < 0 {
					continue
				}
				id, err := strconv.ParseInt(hd[:sp], 10, 64)
				if err != nil {
					continue
				}
				st := hd[sp+1:]
				st = strings.TrimPrefix(st, "[")
				if i := strings.IndexAny(st, ",]"); i >= 0 {
					st = st[:i]
				}
				res[id] = st
			}
			return res
		}
		sz *= 4
	}
}

func lockWaitState(st string) bool {
	return strings.HasPrefix(st, "sync.RWMutex.") || st == "sync.Mutex.Lock" || st == "semacquire"
}

// ---------------------------------------------------------------------------------------
// environment of one case
// ---------------------------------------------------------------------------------------

type c17Call struct {
	c        int
	ro       bool
	done     chan struct{}
	id       string
	err      error
	cancel   context.CancelFunc
	deadline time.Time // when its timer fires at the latest
	dlLo     int       // the same on the case's axis (ms): earliest / latest
	dlHi     int
	inner    *c17Inner
	nInners  int // len(env.inners) when launched
	seen     bool
	tx       *c17Tx
}

// bookkeeping of the oracle: one transaction as the client that asked for it knows it
type c17Tx struct {
	client    int
	ro        bool
	conn      int
	granted   bool
	id        string
	obj       transaction.Transaction
	beginL    int
	beginEnd  int // the Begin line had come to rest (the transaction object exists by then)
	grantLine int
	grantL    int
	lastCallL int
	lastOkL   int      // noted time of the last data call on it that was served (it certainly counted as activity)
	brackets  [][2]int // [note, end] of the Begin and of every later call on it (real ms)
	writes    [][2]int // acknowledged puts (k,v) / deletes (k,-1) in order
	finished  string   // "" | commit | rollback | fail
	removed   bool
	mustDead  string // why the server must have rolled it back by now
	seenDead  bool   // a call on it was answered closed / not found
	abandoned bool
	failedBeg bool // the Begin reported an error to the client
}

func (t *c17Tx) live() bool {
	return t.granted && t.finished == "" && t.mustDead == "" && !t.seenDead
}

type c17Client struct {
	cur  *c17Tx   // the transaction the client was last given
	call *c17Call // Begin in flight
}

type c17Env struct {
	svc, peer          bool
	wiring             string
	idle, ttlro, ttlrw int
	bt                 int
	scale              int

	dir    string
	e      *engine.EngineFacade
	store  *c17Store
	mgr    *transaction.Manager
	tm     transaction.TransactionManager
	weng   *c17Engine
	bulk   bool // the rows for `oneshot ... scanabort` are in the database
	reg    *transaction.RegistryImpl
	srv    *service.KevoServiceServer
	gs     *grpc.Server
	conn   *grpc.ClientConn
	cli    pb.KevoServiceClient
	inBeg  atomic.Int64 // BeginTransaction handlers running in the server
	shut   bool
	nBegun int

	mu     sync.Mutex
	inners []*c17Inner

	start   time.Time
	lnow    int  // time noted for the current line (real ms since start)
	slipped bool // ambiguous run
	why     string
	stuck   bool
	held    []c17Done // completions not yet reported
	lineNo  int

	clients map[int]*c17Client
	txs     []*c17Tx
	calls   []*c17Call // outstanding
	compl   []string   // A lines of the current event
	lines   []string   // observations
	fails   []string   // oracle failures
	ref     map[int]int
	commits int // acknowledged commits that applied something
	stats   struct {
		waits, timeouts, afterFinish, cleaned, clients, asyncOk int
		oneshots, oneshotRejected, oneshotBusy                  int // BatchWrite calls issued / rejected by the service / not issued (lock busy)
	}
	abort bool // the case cannot go on (a service call left the lock held or did not return)
}

type c17Done struct {
	c    int
	res  string
	dlHi int
}

func (v *c17Env) nowMs() int { return int(time.Since(v.start) / time.Millisecond) }

func (v *c17Env) ambiguous(f string, a ...interface{}) {
	if !v.slipped {
		v.slipped = true
		v.why = fmt.Sprintf(f, a...)
	}
}

func (v *c17Env) out(s string)                    { v.lines = append(v.lines, s) }
func (v *c17Env) fail(f string, a ...interface{}) { v.fails = append(v.fails, fmt.Sprintf(f, a...)) }

func c17Key(k int) []byte {
	if k == 0 {
		return []byte{}
	}
	return []byte("k" + strconv.Itoa(k))
}
func c17Val(x int) []byte { return []byte("v" + strconv.Itoa(x)) }
func c17ParseVal(b []byte) string {
	s := string(b)
	if strings.HasPrefix(s, "v") {
		if _, err := strconv.Atoi(s[1:]); err == nil {
			return s[1:]
		}
	}
	return "raw:" + render(b)
}

func c17Class(err error) string {
	if err == nil {
		return "ok"
	}
	msg := err.Error()
	if st, ok := status.FromError(err); ok {
		msg = st.Message()
		if st.Code().String() == "DeadlineExceeded" || st.Code().String() == "Canceled" {
			return "timeout"
		}
	}
	switch {
	case errors.Is(err, transaction.ErrTransactionClosed) || strings.Contains(msg, transaction.ErrTransactionClosed.Error()):
		return "closed"
	case strings.Contains(msg, "transaction not found"):
		return "txnotfound"
	case errors.Is(err, transaction.ErrReadOnlyTransaction) || strings.Contains(msg, "read-only transaction"):
		return "readonly"
	case strings.Contains(msg, "invalid key size"):
		return "invalid"
	case strings.Contains(msg, "timed out") || errors.Is(err, context.DeadlineExceeded) || strings.Contains(msg, "deadline exceeded"):
		return "timeout"
	case strings.Contains(msg, "injected apply failure"):
		return "fail"
	}
	return "err:" + strings.ReplaceAll(msg, " ", "_")
}

func c17Start(c *Case, scale int) (*c17Env, error) {
	hi := func(k, d string) int { x, _ := strconv.Atoi(hdrVal(c.Hdr, k, d)); return x }
	v := &c17Env{svc: hdrVal(c.Hdr, "svc", "0") == "1", peer: hdrVal(c.Hdr, "peer", "1") == "1",
		wiring: hdrVal(c.Hdr, "wiring", "ttl"), idle: hi("idle", "150"), ttlro: hi("ttlro", "650"),
		ttlrw: hi("ttlrw", "450"), bt: hi("bt", "10000"), scale: scale,
		clients: map[int]*c17Client{}, ref: map[int]int{}}
	v.dir = tmpDir("c17-")
	if err := writeManifest(v.dir, 100000000, 1000, nil); err != nil {
		return nil, err
	}
	holdBackground()
	e, err := openEngine(v.dir)
	if err != nil {
		return nil, err
	}
	v.e = e
	ms := func(x int) time.Duration { return time.Duration(x*scale) * time.Millisecond }
	v.weng = &c17Engine{Engine: e, env: v}
	if v.wiring == "facade" {
		v.tm = e.GetTransactionManager()
		v.weng.begin = v.tm.BeginTransaction
	} else {
		v.store = &c17Store{real: e.VerifStorage()}
		v.mgr = transaction.NewManagerWithTTL(v.store, nil, ms(v.ttlro), ms(v.ttlrw), ms(v.idle))
		v.tm = v.mgr
		v.weng.begin = v.mgr.BeginTransaction
	}
	// the first argument (ttl) is not consulted by the cleanup: a transaction's lifetime limit is
	// the one its manager gave it
	v.reg = transaction.NewRegistryWithTTL(ms(v.ttlrw), ms(v.idle), 75, 90).(*transaction.RegistryImpl)
	if v.svc {
		v.srv = service.NewKevoServiceServer(v.weng, v.reg, nil)
		lis, err := net.Listen("tcp", "127.0.0.1:0")
		if err != nil {
			return nil, err
		}
		// (the receive limit only lets the over-long value of `oneshot ... bigvalue` reach the service)
		v.gs = grpc.NewServer(grpc.MaxRecvMsgSize(c17MaxValue+(1<<20)), grpc.UnaryInterceptor(func(ctx context.Context, req interface{}, info *grpc.UnaryServerInfo, h grpc.UnaryHandler) (interface{}, error) {
			if v.peer {
				// what a server that tracks connections would do; cmd/kevo installs nothing, so there
				// every transaction is tracked under "unknown" (peer=0)
				if md, ok := metadata.FromIncomingContext(ctx); ok && len(md.Get("x-peer")) > 0 {
					ctx = context.WithValue(ctx, "peer", md.Get("x-peer")[0])
				}
			}
			if strings.HasSuffix(info.FullMethod, "/BeginTransaction") {
				v.inBeg.Add(1)
				defer v.inBeg.Add(-1)
			}
			return h(ctx, req)
		}))
		pb.RegisterKevoServiceServer(v.gs, v.srv)
		go v.gs.Serve(lis)
		conn, err := grpc.NewClient(lis.Addr().String(), grpc.WithTransportCredentials(insecure.NewCredentials()),
			// fixed 64 KB flow-control windows: a server stream nobody reads stands after 64 KB
			grpc.WithInitialWindowSize(65535), grpc.WithInitialConnWindowSize(65535))
		if err != nil {
			return nil, err
		}
		v.conn = conn
		v.cli = pb.NewKevoServiceClient(conn)
		// first call pays for the connection set-up: do it before the clock starts
		ctx, cancel := context.WithTimeout(context.Background(), 5*time.Second)
		v.cli.Get(ctx, &pb.GetRequest{Key: []byte("warmup")})
		cancel()
	}
	v.start = time.Now()
	return v, nil
}

func (v *c17Env) connName(c int) string {
	if v.peer {
		return "conn-" + strconv.Itoa(c)
	}
	return "unknown"
}

func (v *c17Env) connOf(c int) int {
	if v.peer {
		return c
	}
	return 0
}

func (v *c17Env) ctxFor(c int, base context.Context) context.Context {
	if v.svc {
		return metadata.AppendToOutgoingContext(base, "x-peer", v.connName(c))
	}
	if v.peer {
		return context.WithValue(base, "peer", v.connName(c))
	}
	return base
}

// Before a line: let every Begin deadline that is about to fire fire, then note the time.
func (v *c17Env) stamp() {
	g := c17GuardMs * v.scale
	for {
		v.quiesce()
		wait := -1
		for _, cl := range v.calls {
			if cl.dlHi <= v.nowMs()+g && (wait < 0 || cl.dlHi > wait) {
				wait = cl.dlHi
			}
		}
		if wait < 0 {
			break
		}
		if d := wait + 2 - v.nowMs(); d > 0 {
			time.Sleep(time.Duration(d) * time.Millisecond)
		} else {
			time.Sleep(200 * time.Microsecond)
		}
	}
	v.lnow = v.nowMs()
	if v.lnow > 25000 {
		// the registry runs CleanupStaleTransactions by itself every 30 s; the scripts stay below
		v.ambiguous("the case lasted %d ms: the registry's own periodic cleanup is about to interfere", v.lnow)
	}
	v.out(fmt.Sprintf("NOTE t %d", v.lnow))
}

// After a line that may have released the lock: a deadline that lay inside the line raced with it.
func (v *c17Env) checkWindow(pending []*c17Call, releasing bool) {
	end := v.nowMs()
	for _, cl := range pending {
		if cl.dlLo-2 <= end && cl.dlHi+2 >= v.lnow && releasing {
			v.ambiguous("deadline of client %d's Begin (%d..%d ms) inside a line that releases the lock (%d..%d ms)", cl.c, cl.dlLo, cl.dlHi, v.lnow, end)
		}
	}
}

// A cleanup compares its clock (somewhere in [lnow, end]) with instants inside earlier brackets.
func (v *c17Env) checkCleanupWindow() {
	end := v.nowMs()
	for _, t := range v.txs {
		if !t.granted || t.finished != "" || t.mustDead != "" || len(t.brackets) == 0 {
			continue
		}
		ttl := v.ttlrw
		if t.ro {
			ttl = v.ttlro
		}
		inside := func(limit int, br [2]int) bool {
			lo, hi := v.lnow-br[1]-2, end-br[0]+2
			return lo <= limit*v.scale && limit*v.scale <= hi
		}
		if inside(ttl, t.brackets[0]) {
			v.ambiguous("lifetime limit of client %d's transaction within the uncertainty of a cleanup", t.client)
		}
		n := len(t.brackets)
		for i := n - 1; i >= 0 && i >= n-4; i-- {
			if inside(v.idle, t.brackets[i]) {
				v.ambiguous("idle limit of client %d's transaction within the uncertainty of a cleanup (call at %d..%d ms, cleanup at %d..%d ms)",
					t.client, t.brackets[i][0], t.brackets[i][1], v.lnow, end)
			}
		}
	}
}

// quiesce waits until every goroutine of the implementation that this case started has finished
// or is parked in the transaction lock, and every call that must return has returned.
func (v *c17Env) quiesce() {
	limit := time.Now().Add(10 * time.Second)
	for spin := 0; ; spin++ {
		if len(v.calls) == 0 && (!v.svc || v.inBeg.Load() == 0) {
			// nothing in flight: only creating goroutines that are still around matter
			v.mu.Lock()
			n := 0
			for _, in := range v.inners {
				if !in.exited {
					n++
				}
			}
			v.mu.Unlock()
			if n == 0 {
				return
			}
		}
		// snapshot first: a goroutine in the list was alive when it put itself there, so one that
		// is missing from the dump taken afterwards has finished
		v.mu.Lock()
		inners := append([]*c17Inner{}, v.inners...)
		v.mu.Unlock()
		states := goroutineStates()
		busy := false
		for _, in := range inners {
			if in.exited {
				continue
			}
			st, ok := states[in.gid]
			if !ok {
				in.exited = true
				continue
			}
			if !in.granted.Load() && lockWaitState(st) {
				continue
			}
			busy = true
		}
		var still []*c17Call
		for _, cl := range v.calls {
			select {
			case <-cl.done:
				v.completed(cl)
				continue
			default:
			}
			still = append(still, cl)
			if cl.inner == nil {
				if len(inners) > cl.nInners {
					cl.inner = inners[cl.nInners]
					cl.inner.call = cl
				}
				busy = true // not yet at the lock (or about to fail before it)
				continue
			}
			if cl.inner.exited || cl.inner.granted.Load() {
				busy = true // handed over: the call is about to return
				continue
			}
			if !cl.deadline.IsZero() && !time.Now().Before(cl.deadline) {
				busy = true // its timer is due
			}
		}
		v.calls = still
		if v.svc && int(v.inBeg.Load()) != len(v.calls) {
			busy = true // a handler whose client already gave up is still running
		}
		if !busy {
			return
		}
		if os.Getenv("C17_DEBUG") != "" && spin%200 == 199 {
			fmt.Fprintf(os.Stderr, "quiesce spin=%d inBeg=%d calls=%d\n", spin, v.inBeg.Load(), len(v.calls))
			for _, in := range inners {
				fmt.Fprintf(os.Stderr, "  inner gid=%d granted=%v exited=%v state=%q\n", in.gid, in.granted.Load(), in.exited, states[in.gid])
			}
		}
		if time.Now().After(limit) {
			v.stuck = true
			return
		}
		switch {
		case spin < 4:
			runtime.Gosched()
		case spin < 40:
			time.Sleep(50 * time.Microsecond)
		default:
			time.Sleep(500 * time.Microsecond)
		}
	}
}

// a Begin call returned
func (v *c17Env) completed(cl *c17Call) {
	cs := v.clients[cl.c]
	if cs.call == cl {
		cs.call = nil
	}
	t := cl.tx
	if cl.err == nil {
		t.granted = true
		t.id = cl.id
		t.grantL = v.nowMs()
		t.lastCallL = t.grantL
		t.lastOkL = t.beginL
		if o, ok := v.reg.Get(cl.id); ok {
			t.obj = o
		}
		if cs.cur != nil && cs.cur.live() {
			cs.cur.abandoned = true // the client moves on (outside the property's quantifier)
		}
		cs.cur = t
		// mutual exclusion, as far as the client-side bookkeeping can tell
		for _, o := range v.txs {
			if o != t && o.live() && (!o.ro || !t.ro) {
				if o.obj != nil {
					if _, err := o.obj.Get([]byte("k1")); errors.Is(err, transaction.ErrTransactionClosed) {
						o.seenDead = true // ended by the server earlier than it had to
						continue
					}
				}
				v.fail("transaction of client %d granted (ro=%v) while client %d holds a live one (ro=%v)", t.client, t.ro, o.client, o.ro)
			}
		}
		be := t.beginEnd
		if be == 0 {
			be = v.nowMs()
		}
		t.brackets = append(t.brackets, [2]int{t.beginL, be})
		t.grantLine = v.lineNo
		if !cl.seen {
			v.held = append(v.held, c17Done{cl.c, "ok", 0})
			v.stats.asyncOk++
		}
	} else {
		t.failedBeg = true
		cls := c17Class(cl.err)
		if cls == "timeout" {
			v.stats.timeouts++
		}
		if !cl.seen {
			v.held = append(v.held, c17Done{cl.c, cls, cl.dlHi})
		}
	}
	// the context of a granted Begin stays alive until the end of the case (stop cancels what is
	// still outstanding): cancelling it is not part of the script
}

// a time-out is reported with the first line whose noted time is not before the deadline (that is
// where the model, whose clock only moves at the notes, sees it)
func (v *c17Env) flushCompl() {
	var keep []c17Done
	for _, d := range v.held {
		if d.res != "ok" && d.dlHi > v.lnow {
			keep = append(keep, d)
			continue
		}
		v.compl = append(v.compl, fmt.Sprintf("%04d A %d %s", d.c, d.c, d.res))
	}
	v.held = keep
	sort.Strings(v.compl)
	for _, l := range v.compl {
		v.out(l[5:])
	}
	v.compl = nil
}

func (v *c17Env) lockState() string {
	l := v.tm.GetRWLock()
	if l.TryLock() {
		l.Unlock()
		return "free"
	}
	if l.TryRLock() {
		l.RUnlock()
		return "read"
	}
	return "write"
}

func (v *c17Env) regSize() int {
	n := 0
	for i := 1; i <= v.nBegun+2; i++ {
		if _, ok := v.reg.Get("tx-" + strconv.Itoa(i)); ok {
			n++
		}
	}
	return n
}

func (v *c17Env) regIDs() string {
	var b strings.Builder
	for i := 1; i <= v.nBegun+2; i++ {
		if _, ok := v.reg.Get("tx-" + strconv.Itoa(i)); ok {
			b.WriteString(strconv.Itoa(i))
			b.WriteByte(',')
		}
	}
	return b.String()
}

func (v *c17Env) stateLine() {
	v.out(fmt.Sprintf("S reg=%d lock=%s", v.regSize(), v.lockState()))
}

func (v *c17Env) client(c int) *c17Client {
	cs := v.clients[c]
	if cs == nil {
		cs = &c17Client{}
		v.clients[c] = cs
		if c != c17ProbeClient {
			v.stats.clients++
		}
	}
	return cs
}

// ---------------------------------------------------------------------------------------
// the calls
// ---------------------------------------------------------------------------------------

// launch a Begin; returns "ok", "wait" or an error class
func (v *c17Env) begin(c int, ro bool, d int) string {
	cs := v.client(c)
	if cs.call != nil {
		return "busy"
	}
	if v.svc {
		// service.BeginTransaction starts with the same cleanup; doing it here first (and letting
		// the goroutines it wakes run) keeps the order of lock requests a function of the script
		// ... repeated until it finds nothing more to do: a transaction granted by one round can be
		// stale at once (its clock started when its Begin was called), and its rollback wakes the
		// next waiter
		pend := append([]*c17Call{}, v.calls...)
		for round := 0; round < 50; round++ {
			before := v.regIDs()
			v.reg.CleanupStaleTransactions()
			v.quiesce()
			v.checkCleanupWindow()
			v.oracleStale("begin")
			if v.regIDs() == before {
				break
			}
		}
		v.checkWindow(pend, true)
	}
	base := context.Background()
	cl := &c17Call{c: c, ro: ro, done: make(chan struct{})}
	var ctx context.Context
	if d > 0 {
		cl.dlLo = v.lnow + d*v.scale
		cl.dlHi = cl.dlLo
		cl.deadline = v.start.Add(time.Duration(cl.dlLo) * time.Millisecond)
		ctx, cl.cancel = context.WithDeadline(base, cl.deadline)
	} else {
		ctx, cl.cancel = context.WithCancel(base)
		// the registry's own limit, counted from somewhere inside the call
		cl.dlLo = v.lnow + 10000
		cl.dlHi = v.nowMs() + 10000 + 20
		cl.deadline = v.start.Add(time.Duration(cl.dlHi) * time.Millisecond)
	}
	ctx = v.ctxFor(c, ctx)
	t := &c17Tx{client: c, ro: ro, conn: v.connOf(c), beginL: v.lnow}
	cl.tx = t
	v.txs = append(v.txs, t)
	v.mu.Lock()
	cl.nInners = len(v.inners)
	v.mu.Unlock()
	v.nBegun++
	cs.call = cl
	v.calls = append(v.calls, cl)
	cl.seen = true
	go func() {
		if v.svc {
			resp, err := v.cli.BeginTransaction(ctx, &pb.BeginTransactionRequest{ReadOnly: ro})
			if err == nil {
				cl.id = resp.TransactionId
			}
			cl.err = err
		} else {
			cl.id, cl.err = v.reg.Begin(ctx, v.weng, ro)
		}
		close(cl.done)
	}()
	v.quiesce()
	t.beginEnd = v.nowMs()
	if v.svc {
		// the service ran its own cleanup inside the call, at some instant up to now
		v.checkCleanupWindow()
	}
	cl.seen = false
	select {
	case <-cl.done:
		r := c17Class(cl.err)
		if r == "timeout" && cl.dlHi > v.lnow {
			// the machine stalled for longer than the deadline inside this very line: at the noted
			// time the call was waiting; its time-out is reported with the line whose noted time
			// has passed the deadline (exactly what happens to a call that times out later)
			// ... provided it timed out WAITING FOR THE LOCK. If its creating goroutine was handed the
			// lock (or had not even asked for it) when the client gave up, the deadline fell between
			// the request and the answer of a Begin that did not have to wait: which of the two comes
			// first is the machine's speed, not the script (the server may well have registered the
			// transaction for a client that is gone)
			v.mu.Lock()
			var in *c17Inner
			if len(v.inners) > cl.nInners {
				in = v.inners[cl.nInners]
			}
			v.mu.Unlock()
			if in == nil || in.granted.Load() {
				v.ambiguous("the deadline of client %d's Begin (%d ms) passed inside its own line (%d..%d ms) although it was not waiting for the lock", c, cl.dlHi, v.lnow, v.nowMs())
			}
			v.held = append(v.held, c17Done{c, r, cl.dlHi})
			v.stats.waits++
			return "wait"
		}
		return r
	default:
		v.stats.waits++
		return "wait"
	}
}

// One BatchWrite of the service: a transaction the service begins ITSELF (engine.BeginTransaction,
// not the registry), uses and must end — commit, or rollback on any rejection — before it answers.
// Oracle (from the property text alone): once the call has returned, the transaction lock is free
// again and the registry holds what it held.
func (v *c17Env) oneshot(c int, kind string, k, val int) string {
	if !v.svc {
		return "IMPL-ERROR oneshot needs svc=1"
	}
	put := func(key, value []byte) *pb.Operation {
		return &pb.Operation{Type: pb.Operation_PUT, Key: key, Value: value}
	}
	first := put(c17Key(k), c17Val(val))
	var ops []*pb.Operation
	what := ""
	switch kind {
	case "ok":
		ops, what = []*pb.Operation{first}, "one put"
	case "del":
		ops, what = []*pb.Operation{{Type: pb.Operation_DELETE, Key: c17Key(k)}}, "one delete"
	case "emptykey":
		ops, what = []*pb.Operation{first, put([]byte{}, []byte("x"))}, "rejected: invalid key (empty)"
	case "longkey":
		ops, what = []*pb.Operation{first, put([]byte(strings.Repeat("K", c17MaxKey+1)), []byte("x"))}, "rejected: invalid key (longer than the limit)"
	case "badtype":
		ops, what = []*pb.Operation{first, {Type: pb.Operation_Type(7), Key: c17Key(5), Value: []byte("x")}}, "rejected: unknown operation type"
	case "bigvalue":
		ops, what = []*pb.Operation{first, put(c17Key(5), make([]byte, c17MaxValue+1))}, "rejected: value larger than the limit"
	case "scanabort":
		// not a BatchWrite: a Scan whose client goes away after the first row (below)
		what = "Scan given up by its client after the first row"
	case "compactfail":
		// not a BatchWrite: a forced Compact whose memtable flush fails (below)
		what = "Compact(force) whose flush fails"
	default:
		return "IMPL-ERROR bad oneshot kind " + kind
	}
	if k == 0 && (kind == "ok" || kind == "del") {
		what = "rejected: invalid key (empty)"
	}
	if v.lockState() != "free" {
		// somebody holds or waits for the lock: BatchWrite would park in sync.RWMutex.Lock with no
		// way to give up
		v.stats.oneshotBusy++
		return fmt.Sprintf("R %d busy", c)
	}
	regBefore := v.regIDs()
	if kind == "compactfail" {
		// the service's Compact begins (and must end) a transaction of its own whatever the forced
		// flush does: the table directory is a plain file for the length of the call, so writing the
		// table fails
		v.e.Put([]byte("~compactfail"), []byte("x")) // something to flush
		sst := filepath.Join(v.dir, "sst")
		bak := sst + ".aside"
		swapped := os.Rename(sst, bak) == nil && os.WriteFile(sst, nil, 0644) == nil
		v.stats.oneshots++
		ctx, cancel := context.WithTimeout(v.ctxFor(c, context.Background()), 5*time.Second)
		_, cerr := v.cli.Compact(ctx, &pb.CompactRequest{Force: true})
		cancel()
		if swapped {
			os.Remove(sst)
			os.Rename(bak, sst)
		}
		v.out(fmt.Sprintf("NOTE compactfail swapped=%v err=%v", swapped, cerr != nil))
		v.stats.oneshotRejected++
		dl := time.Now().Add(5 * time.Second)
		for time.Now().Before(dl) && v.lockState() != "free" {
			time.Sleep(5 * time.Millisecond)
		}
		v.quiesce()
		if ls := v.lockState(); ls != "free" {
			v.fail("the service's Compact (%s; error=%v) left the transaction lock held (lock=%s five seconds after the call returned)", what, cerr != nil, ls)
			v.abort = true
		} else if after := v.regIDs(); after != regBefore {
			v.fail("the service's Compact (%s) changed the registered transactions (%s -> %s)", what, regBefore, after)
		}
		return fmt.Sprintf("R %d invalid", c) // as a rejected call: no effect on the programs' keys
	}
	if kind == "scanabort" {
		// the service's Scan begins a read-only transaction of its own and must end it on EVERY way
		// out, also when sending fails because the client has gone. 200 rows of 600 bytes under keys
		// outside the programs' alphabet (written once per case, straight through the engine) are
		// more than the 64 KB the client's fixed flow-control window lets the handler send ahead.
		if !v.bulk {
			for i := 0; i < 200; i++ {
				v.e.Put([]byte(fmt.Sprintf("~bulk-%04d", i)), bytes.Repeat([]byte{byte('a' + i%26)}, 600))
			}
			v.bulk = true
		}
		v.stats.oneshots++
		sctx, scancel := context.WithCancel(v.ctxFor(c, context.Background()))
		st, err := v.cli.Scan(sctx, &pb.ScanRequest{})
		if err == nil {
			_, err = st.Recv()
		}
		scancel()
		if err != nil {
			v.fail("the service's Scan failed before its client gave it up: %v", err)
			v.abort = true
			return fmt.Sprintf("R %d invalid", c)
		}
		v.stats.oneshotRejected++
		// the handler notices the cancellation at its next Send; give it up to 5 s to return
		dl := time.Now().Add(5 * time.Second)
		for time.Now().Before(dl) && v.lockState() != "free" {
			time.Sleep(5 * time.Millisecond)
		}
		v.quiesce()
		if ls := v.lockState(); ls != "free" {
			v.fail("the service's Scan (%s) left the transaction lock held (lock=%s five seconds after the client went away)", what, ls)
			v.abort = true
		} else if after := v.regIDs(); after != regBefore {
			v.fail("the service's Scan (%s) changed the registered transactions (%s -> %s)", what, regBefore, after)
		}
		return fmt.Sprintf("R %d invalid", c) // as a rejected call: an error for the client, no effect
	}
	v.mu.Lock()
	n0 := len(v.inners)
	v.mu.Unlock()
	v.stats.oneshots++
	ctx, cancel := context.WithTimeout(v.ctxFor(c, context.Background()), 5*time.Second)
	resp, err := v.cli.BatchWrite(ctx, &pb.BatchWriteRequest{Operations: ops})
	cancel()
	res := c17Class(err)
	if err != nil {
		msg := err.Error()
		if st, ok := status.FromError(err); ok {
			msg = st.Message()
		}
		if strings.Contains(msg, "value too large") || strings.Contains(msg, "unknown operation type") {
			res = "invalid"
		}
	} else if !resp.Success {
		res = "err:success=false_without_error"
	}
	if res == "timeout" {
		// where is the handler? parked in a lock (the transaction lock was free when it was called) or
		// otherwise asleep: it will not return; in a system call / not even started: the machine
		var in *c17Inner
		v.mu.Lock()
		if len(v.inners) > n0 {
			in = v.inners[n0]
		}
		v.mu.Unlock()
		st := "not started"
		if in != nil {
			st = goroutineStates()[in.gid]
		}
		v.abort = true
		if in == nil || st == "" || st == "syscall" || st == "IO wait" || st == "running" || st == "runnable" {
			v.ambiguous("BatchWrite took more than 5 s (handler: %s)", st)
		} else {
			v.fail("the service's BatchWrite (%s) did not return within 5 s although the transaction lock was free (its handler is parked: %s)", what, st)
		}
		return fmt.Sprintf("R %d timeout", c)
	}
	switch res {
	case "ok":
		// the batch was applied: one more acknowledged commit
		if kind == "del" {
			delete(v.ref, k)
		} else {
			v.ref[k] = val
		}
		v.commits++
	case "invalid":
		v.stats.oneshotRejected++
	}
	// the handler has answered; let its goroutine finish, then look at what it left behind
	v.quiesce()
	if ls := v.lockState(); ls != "free" {
		v.fail("the service's BatchWrite (%s; answered %q) left the transaction lock held (lock=%s after the call returned)", what, res, ls)
		v.abort = true
	} else if after := v.regIDs(); after != regBefore {
		v.fail("the service's BatchWrite (%s; answered %q) changed the registered transactions (%s -> %s)", what, res, regBefore, after)
	}
	return fmt.Sprintf("R %d %s", c, res)
}

func (v *c17Env) noteResult(t *c17Tx, what, res string) {
	// "fails with a closed error and no side effect": after the end of a transaction every call on
	// it is refused
	dead := t.finished != "" || t.mustDead != ""
	refused := res == "closed" || res == "txnotfound" || (v.svc && what == "get" && res == "notfound")
	if dead {
		v.stats.afterFinish++
		if !refused {
			why := t.finished
			if why == "" {
				why = t.mustDead
			}
			v.fail("client %d: %s answered %q on a transaction that had ended (%s)", t.client, what, res, why)
		}
		return
	}
	if res == "closed" || res == "txnotfound" {
		t.seenDead = true // ended by the server before its limits: not this property's business
	}
}

// by handle: the service, or registry.Get + the transaction
func (v *c17Env) handleOp(c int, what string, k, val int) string {
	cs := v.client(c)
	t := cs.cur
	if t == nil || !t.granted {
		return "R " + strconv.Itoa(c) + " nohandle"
	}
	res := ""
	gv := ""
	if v.svc {
		ctx, cancel := context.WithTimeout(v.ctxFor(c, context.Background()), 5*time.Second)
		defer cancel()
		switch what {
		case "get":
			r, err := v.cli.TxGet(ctx, &pb.TxGetRequest{TransactionId: t.id, Key: c17Key(k)})
			if err != nil {
				res = c17Class(err)
			} else if !r.Found {
				res = "notfound"
			} else {
				res, gv = "ok", c17ParseVal(r.Value)
			}
		case "scan":
			// TxScan over a prefix no program writes: no rows; for the registry the call is activity
			// on the handle like a TxGet (the model runs it as a get of a key that is never written)
			st, err := v.cli.TxScan(ctx, &pb.TxScanRequest{TransactionId: t.id, Prefix: []byte("no-such-prefix/")})
			if err == nil {
				for {
					if _, err = st.Recv(); err != nil {
						break
					}
				}
				if err == io.EOF {
					err = nil
				}
			}
			if err != nil {
				res = c17Class(err)
			} else {
				res = "notfound"
			}
			what = "get"
		case "put":
			_, err := v.cli.TxPut(ctx, &pb.TxPutRequest{TransactionId: t.id, Key: c17Key(k), Value: c17Val(val)})
			res = c17Class(err)
		case "del":
			_, err := v.cli.TxDelete(ctx, &pb.TxDeleteRequest{TransactionId: t.id, Key: c17Key(k)})
			res = c17Class(err)
		case "commit":
			_, err := v.cli.CommitTransaction(ctx, &pb.CommitTransactionRequest{TransactionId: t.id})
			res = c17Class(err)
		case "rollback":
			_, err := v.cli.RollbackTransaction(ctx, &pb.RollbackTransactionRequest{TransactionId: t.id})
			res = c17Class(err)
		}
	} else {
		tx, ok := v.reg.Get(t.id)
		if !ok {
			res = "txnotfound"
		} else {
			res, gv = c17ObjOp(tx, what, k, val)
		}
	}
	return v.afterOp(c, t, what, k, val, res, gv)
}

func c17ObjOp(tx transaction.Transaction, what string, k, val int) (string, string) {
	switch what {
	case "get":
		b, err := tx.Get(c17Key(k))
		if err != nil {
			if errors.Is(err, transaction.ErrKeyNotFound) || strings.Contains(err.Error(), "not found") {
				return "notfound", ""
			}
			return c17Class(err), ""
		}
		return "ok", c17ParseVal(b)
	case "put":
		return c17Class(tx.Put(c17Key(k), c17Val(val))), ""
	case "del":
		return c17Class(tx.Delete(c17Key(k))), ""
	case "commit":
		return c17Class(tx.Commit()), ""
	case "rollback":
		return c17Class(tx.Rollback()), ""
	}
	return "err:bad-op", ""
}

func (v *c17Env) objOp(c int, what string, k, val int) string {
	cs := v.client(c)
	t := cs.cur
	if t == nil || !t.granted || t.obj == nil {
		return "R " + strconv.Itoa(c) + " nohandle"
	}
	res, gv := c17ObjOp(t.obj, what, k, val)
	return v.afterOp(c, t, what, k, val, res, gv)
}

func (v *c17Env) afterOp(c int, t *c17Tx, what string, k, val int, res, gv string) string {
	wasLive := t.finished == "" && t.mustDead == ""
	v.noteResult(t, what, res)
	t.lastCallL = v.nowMs()
	t.brackets = append(t.brackets, [2]int{v.lnow, t.lastCallL})
	if wasLive && (res == "ok" || res == "notfound") && (what == "get" || what == "put" || what == "del") {
		t.lastOkL = v.lnow
	}
	if wasLive {
		switch what {
		case "put":
			if res == "ok" {
				t.writes = append(t.writes, [2]int{k, val})
			}
		case "del":
			if res == "ok" {
				t.writes = append(t.writes, [2]int{k, -1})
			}
		case "commit":
			if res == "ok" {
				t.finished = "commit"
				for _, w := range t.writes {
					if w[1] < 0 {
						delete(v.ref, w[0])
					} else {
						v.ref[w[0]] = w[1]
					}
				}
				if len(t.writes) > 0 {
					v.commits++
				}
			} else if res != "closed" && res != "txnotfound" {
				t.finished = "fail" // Commit reported an error: the transaction is over all the same
			}
		case "rollback":
			if res == "ok" {
				t.finished = "rollback"
			}
		}
		if v.svc && (what == "commit" || what == "rollback") && t.finished != "" {
			t.removed = true
		}
	}
	if what == "get" {
		switch res {
		case "ok":
			return fmt.Sprintf("G %d v:%s", c, gv)
		default:
			return fmt.Sprintf("G %d %s", c, res)
		}
	}
	return fmt.Sprintf("R %d %s", c, res)
}

// obligations of the server towards transactions nobody finishes (from the property text: the
// limits are counted from the latest instant compatible with it — the grant, the client's last
// call of any kind)
func (v *c17Env) oracleStale(why string) {
	end := v.nowMs()
	for _, t := range v.txs {
		if !t.live() || t.removed {
			continue
		}
		ttl := v.ttlrw
		if t.ro {
			ttl = v.ttlro
		}
		// ... and must not end a transaction that is clearly within both limits (counted from the
		// earliest instants compatible with the text: the Begin request, the last served call)
		if t.grantLine < v.lineNo && end-t.beginL < ttl*v.scale-2 && end-t.lastOkL < v.idle*v.scale-2 {
			if _, ok := v.reg.Get(t.id); !ok {
				v.fail("transaction of client %d (age %d ms, last served call %d ms ago; limits %d/%d ms) was ended by the %s",
					t.client, end-t.beginL, end-t.lastOkL, ttl*v.scale, v.idle*v.scale, why)
				t.seenDead = true
				continue
			}
		}
		if v.lnow-t.grantL > ttl*v.scale {
			t.mustDead = "lifetime limit passed at " + why
		} else if v.lnow-t.lastCallL > v.idle*v.scale {
			t.mustDead = "idle limit passed at " + why
		}
		if t.mustDead != "" {
			v.stats.cleaned++
			v.checkDead(t)
		}
	}
}

func (v *c17Env) oracleKill(why string, pred func(*c17Tx) bool) {
	for _, t := range v.txs {
		if t.live() && !t.removed && t.grantLine < v.lineNo && pred(t) {
			t.mustDead = why
			v.stats.cleaned++
			v.checkDead(t)
		}
	}
}

// the transaction must be gone: not registered, and closed
func (v *c17Env) checkDead(t *c17Tx) {
	if _, ok := v.reg.Get(t.id); ok {
		v.fail("transaction of client %d still registered after %s", t.client, t.mustDead)
	}
	if t.obj != nil {
		if _, err := t.obj.Get([]byte("k1")); !errors.Is(err, transaction.ErrTransactionClosed) {
			v.fail("transaction of client %d still usable after %s", t.client, t.mustDead)
		}
	}
}

func (v *c17Env) liveCount() int {
	n := 0
	for _, t := range v.txs {
		if t.live() {
			n++
		}
	}
	return n
}

// ---------------------------------------------------------------------------------------
// one attempt at a case
// ---------------------------------------------------------------------------------------

func (v *c17Env) runLines(c *Case) {
	v.out(fmt.Sprintf("NOTE scale %d", v.scale))
	for li, l := range c.Lines {
		v.lineNo = li + 1
		ai := func(i int) int {
			if i < len(l) {
				x, _ := strconv.Atoi(l[i])
				return x
			}
			return 0
		}
		switch l[0] {
		case "abandon":
			if cs := v.client(ai(1)); cs.cur != nil {
				cs.cur.abandoned = true
			}
			continue
		case "dump":
			v.dump()
			continue
		case "sleep":
			time.Sleep(time.Duration(ai(1)*v.scale) * time.Millisecond)
		}
		v.stamp()
		pend := append([]*c17Call{}, v.calls...)
		releasing := false
		switch l[0] {
		case "sleep":
		case "begin":
			cnum, ro, d := ai(1), len(l) > 2 && l[2] == "ro", ai(3)
			liveBefore, pendBefore := v.liveCount(), len(v.calls)
			r := v.begin(cnum, ro, d)
			v.out(fmt.Sprintf("B %d %s", cnum, r))
			if r == "wait" && liveBefore == 0 && pendBefore == 0 && len(v.parked()) <= 1 {
				v.fail("Begin of client %d has to wait although no transaction is alive", cnum)
			}
		case "scan":
			if !v.svc {
				v.out("IMPL-ERROR scan needs svc=1")
				break
			}
			v.out(v.handleOp(ai(1), "scan", 99, 0))
		case "get", "put", "del", "commit", "rollback":
			v.out(v.handleOp(ai(1), l[0], ai(2), ai(3)))
			releasing = l[0] == "commit" || l[0] == "rollback"
		case "oget", "oput", "odel", "ocommit", "orollback":
			v.out(v.objOp(ai(1), l[0][1:], ai(2), ai(3)))
			releasing = l[0] == "ocommit" || l[0] == "orollback"
		case "remove":
			cs := v.client(ai(1))
			if cs.cur == nil || !cs.cur.granted {
				v.out(fmt.Sprintf("R %d nohandle", ai(1)))
			} else {
				v.reg.Remove(cs.cur.id)
				cs.cur.removed = true
				v.out(fmt.Sprintf("R %d ok", ai(1)))
			}
		case "stale":
			v.reg.CleanupStaleTransactions()
			v.out("M ok")
			v.quiesce()
			v.checkCleanupWindow()
			v.oracleStale("cleanup")
			releasing = true
		case "cleanconn":
			name := v.connName(ai(1))
			if v.svc {
				v.srv.CleanupConnection(name)
			} else {
				v.reg.CleanupConnection(name)
			}
			v.out("M ok")
			v.quiesce()
			conn := v.connOf(ai(1))
			v.oracleKill("cleanup of its connection", func(t *c17Tx) bool { return t.conn == conn })
			releasing = true
		case "shutdown":
			// `shutdown expired`: the context is over before the call (cmd/kevo passes the context of
			// a GracefulStop that missed its deadline): every transaction is rolled back all the same
			expired := len(l) > 1 && l[1] == "expired"
			v.out("M " + v.shutdown(expired))
			v.quiesce()
			if expired {
				// with a context that is over, GracefulShutdown does not wait for the rollbacks it
				// started (one goroutine each, not among the calls this harness tracks): they get 2 s
				dl := time.Now().Add(2 * time.Second)
				for time.Now().Before(dl) {
					open := false
					for _, t := range v.txs {
						if t.live() && !t.removed && t.obj != nil && t.grantLine < v.lineNo {
							if _, err := t.obj.Get([]byte("k1")); !errors.Is(err, transaction.ErrTransactionClosed) {
								open = true
							}
						}
					}
					if !open {
						break
					}
					time.Sleep(5 * time.Millisecond)
				}
				v.quiesce()
			}
			v.oracleKill("registry shutdown", func(t *c17Tx) bool { return true })
			releasing = true
		case "failnext":
			if v.store != nil {
				v.store.failNext.Store(true)
			}
			v.out("M ok")
		case "probe":
			v.probe()
			releasing = true
		case "oneshot":
			kind := ""
			if len(l) > 2 {
				kind = l[2]
			}
			v.out(v.oneshot(ai(1), kind, ai(3), ai(4)))
		default:
			v.out("IMPL-ERROR bad line " + strings.Join(l, " "))
		}
		v.quiesce()
		v.checkWindow(pend, releasing)
		v.flushCompl()
		v.stateLine()
		if v.stuck {
			v.fail("the implementation did not come to rest within 10 s after %q", strings.Join(l, " "))
			v.stuck = false
		}
		if v.abort {
			break
		}
	}
}

// creating goroutines parked in the lock
func (v *c17Env) parked() []*c17Inner {
	var r []*c17Inner
	v.mu.Lock()
	defer v.mu.Unlock()
	for _, in := range v.inners {
		if !in.exited && !in.granted.Load() {
			r = append(r, in)
		}
	}
	return r
}

func (v *c17Env) shutdown(expired bool) (res string) {
	defer func() {
		if r := recover(); r != nil {
			res = "panic"
		}
	}()
	ctx, cancel := context.WithTimeout(context.Background(), 2*time.Second)
	defer cancel()
	if expired {
		cancel()
	}
	v.shut = true
	v.reg.GracefulShutdown(ctx)
	return "ok"
}

// a fresh read-write transaction must begin (not park in the lock once everything has come to rest)
// and commit
func (v *c17Env) probe() {
	live, pend := v.liveCount(), len(v.calls)
	nfail := func() int64 {
		if v.store == nil {
			return 0
		}
		return v.store.failed.Load()
	}
	injected := nfail()
	r := v.begin(c17ProbeClient, false, 0)
	if r == "ok" {
		a := v.handleOp(c17ProbeClient, "put", c17ProbeKey, 1)
		v.quiesce()
		b := v.handleOp(c17ProbeClient, "commit", 0, 0)
		v.quiesce()
		if strings.HasSuffix(a, " ok") && strings.HasSuffix(b, " ok") {
			v.out("P ok")
		} else {
			v.out("P failed")
			switch {
			case strings.HasSuffix(a, " ok") && strings.HasSuffix(b, " fail") && injected != nfail():
				// an injected storage failure hit the probe's own commit
			case strings.HasSuffix(a, " timeout") || strings.HasSuffix(b, " timeout"):
				// the probe HAS the lock (its begin succeeded): a write or commit that does not return
				// within 5 s is the machine (fsync under heavy I/O load), not a database that was not
				// released; the case is repeated on a stretched time axis and, if that goes on, skipped
				v.ambiguous("the probe's own write/commit took more than 5 s (%s / %s)", a, b)
			default:
				v.fail("fresh read-write transaction could not write and commit: %s / %s", a, b)
			}
		}
		return
	}
	v.out("P blocked")
	if live == 0 && pend == 0 {
		v.fail("a fresh read-write transaction cannot begin (%s) although every transaction has ended or been cleaned up", r)
	}
}

func (v *c17Env) dump() {
	var ks []int
	got := map[int]string{}
	for k := 1; k < 10; k++ {
		b, err := v.e.Get(c17Key(k))
		if err == nil {
			ks = append(ks, k)
			got[k] = c17ParseVal(b)
		}
	}
	v.out(fmt.Sprintf("D n=%d", len(ks)))
	for _, k := range ks {
		v.out(fmt.Sprintf("d %d %s", k, got[k]))
	}
}

// checks at the end of the script, then release everything
func (v *c17Env) finish() {
	// data: exactly the acknowledged commits
	for k := 1; k < 10; k++ {
		b, err := v.e.Get(c17Key(k))
		want, has := v.ref[k]
		switch {
		case err != nil && has:
			v.fail("key %d of an acknowledged commit is missing", k)
		case err == nil && !has:
			v.fail("key %d is present (%s) although no acknowledged commit wrote it", k, c17ParseVal(b))
		case err == nil && c17ParseVal(b) != strconv.Itoa(want):
			v.fail("key %d = %s, the acknowledged commits say %d", k, c17ParseVal(b), want)
		}
	}
	if v.store != nil && int(v.store.applied.Load()) != v.commits {
		v.fail("%d batches were applied for %d acknowledged commits with writes", v.store.applied.Load(), v.commits)
	}
	// a Begin that reported an error must not leave a usable transaction behind
	v.mu.Lock()
	inners := append([]*c17Inner{}, v.inners...)
	v.mu.Unlock()
	for _, in := range inners {
		if in.granted.Load() && in.tx != nil && in.call != nil && in.call.err != nil {
			if _, err := in.tx.Get([]byte("k1")); !errors.Is(err, transaction.ErrTransactionClosed) {
				v.fail("the Begin of client %d reported %q but its transaction is alive", in.call.c, c17Class(in.call.err))
			}
		}
	}
	// every transaction that started has ended, is alive with its client, or is still waiting
	st := v.tm.GetTransactionStats()
	active, _ := st["tx_active"].(uint64)
	alive := 0
	for _, t := range v.txs {
		if t.granted && t.finished == "" && t.mustDead == "" {
			if t.obj != nil {
				if _, err := t.obj.Get([]byte("k1")); errors.Is(err, transaction.ErrTransactionClosed) {
					continue
				}
			}
			alive++
		}
	}
	if want := uint64(alive + len(v.parked())); active != want {
		v.fail("manager counts %d active transactions, %d are alive or waiting", active, want)
	}
}

func (v *c17Env) stop() {
	for _, cl := range v.calls {
		if cl.cancel != nil {
			cl.cancel()
		}
	}
	if v.reg != nil && !v.shut {
		v.shutdown(false)
	}
	// whatever still holds the lock (only after a failure) is released by hand
	for i := 0; i < 20; i++ {
		v.quiesce()
		v.mu.Lock()
		inners := append([]*c17Inner{}, v.inners...)
		v.mu.Unlock()
		n := 0
		for _, in := range inners {
			if in.granted.Load() && in.tx != nil {
				in.tx.Rollback()
			} else if !in.exited {
				n++
			}
		}
		if n == 0 {
			break
		}
	}
	if v.conn != nil {
		v.conn.Close()
	}
	if v.gs != nil {
		v.gs.Stop()
	}
	if v.e != nil {
		v.e.Close()
	}
	os.RemoveAll(v.dir)
}

func runC17(c *Case, out func(string)) {
	if hdrVal(c.Hdr, "kind", "prog") == "race" {
		runC17Race(c, out)
		return
	}
	c17WarmUp()
	var v *c17Env
	maxScale, _ := strconv.Atoi(hdrVal(c.Hdr, "maxscale", "16"))
	scale := c17Scale
	if scale > maxScale {
		scale = maxScale
	}
	attempts := 0
	for {
		attempts++
		var err error
		v, err = c17Start(c, scale)
		if err != nil {
			out("IMPL-ERROR " + err.Error())
			if v != nil {
				v.stop()
			}
			return
		}
		func() {
			defer func() {
				if r := recover(); r != nil {
					v.out(fmt.Sprintf("IMPL-PANIC %v", r))
				}
			}()
			v.runLines(c)
			v.finish()
		}()
		v.stop()
		if !v.slipped || scale*2 > maxScale {
			break
		}
		if os.Getenv("C17_DEBUG") != "" {
			fmt.Fprintf(os.Stderr, "%s: scale %d ambiguous: %s\n", c.ID, scale, v.why)
		}
		scale *= 2
	}
	// a machine that needed a stretched axis will need it again: start the next case one step lower
	if attempts > 1 {
		c17Scale = scale / 2
	} else if c17Scale > 1 {
		c17Scale /= 2
	}
	if v.slipped {
		// no attempt was free of timing ambiguity: the case says nothing (counted in META)
		out("NOTE ambiguous-timing " + strings.ReplaceAll(v.why, " ", "_"))
		out("X skipped")
		out("ORACLE ok")
		out(fmt.Sprintf("META lines=%d svc=%v wiring=%s scale=%d attempts=%d ambiguous=1 nontrivial=0", len(c.Lines), v.svc, v.wiring, scale, attempts))
		return
	}
	for _, l := range v.lines {
		out(l)
	}
	if len(v.fails) > 0 {
		out("ORACLE FAIL " + v.fails[0])
	} else {
		out("ORACLE ok")
	}
	nt := 0
	if v.stats.waits > 0 && v.stats.afterFinish > 0 && (v.stats.timeouts > 0 || v.stats.cleaned > 0) {
		nt = 1
	}
	sl := 0
	if v.slipped {
		sl = 1
	}
	out(fmt.Sprintf("META lines=%d clients=%d svc=%v wiring=%s waits=%d async_ok=%d timeouts=%d after_finish=%d cleaned=%d oneshot=%d oneshot_rejected=%d oneshot_busy=%d scale=%d attempts=%d ambiguous=%d nontrivial=%d",
		len(c.Lines), v.stats.clients, v.svc, v.wiring, v.stats.waits, v.stats.asyncOk, v.stats.timeouts, v.stats.afterFinish, v.stats.cleaned,
		v.stats.oneshots, v.stats.oneshotRejected, v.stats.oneshotBusy, scale, attempts, sl, nt))
}

var (
	c17Scale  = 1
	c17Warmed bool
)

// one throw-away scenario per process: first-use costs (runtime threads, gRPC set-up, page faults)
// would otherwise be charged to the clock of the first case
func c17WarmUp() {
	if c17Warmed {
		return
	}
	c17Warmed = true
	for _, svc := range []string{"0", "1"} {
		c := &Case{ID: "warmup", Hdr: []string{"svc=" + svc}, Lines: [][]string{
			{"begin", "1", "rw", "0"}, {"begin", "2", "ro", "150"}, {"put", "1", "1", "1"}, {"commit", "1"},
			{"stale"}, {"rollback", "2"}, {"probe"}}}
		if v, err := c17Start(c, 1); err == nil {
			func() {
				defer func() { recover() }()
				v.runLines(c)
			}()
			v.stop()
		}
	}
}

// kind=race: the hand-off race of RegistryImpl.Begin. A writer holds the lock, a second Begin
// waits with a deadline, and the holder commits within a few hundred microseconds of that deadline
// (the offset sweeps over the rounds). Whichever way each round goes — the waiter gets its
// transaction, or it times out while its goroutine is being handed the lock — afterwards the lock
// must be free, the registry empty and the manager's counters balanced. Not compared with the
// model (it prints the same single line); the outcome mix is reported in META.
func runC17Race(c *Case, out func(string)) {
	c17WarmUp()
	rounds, _ := strconv.Atoi(hdrVal(c.Hdr, "rounds", "150"))
	v, err := c17Start(c, 1)
	if err != nil {
		out("IMPL-ERROR " + err.Error())
		return
	}
	defer v.stop()
	nOk, nTimeout, nOrphan := 0, 0, 0
	fail := ""
	call := func(ctx context.Context, ro bool) (string, error) {
		if v.svc {
			r, err := v.cli.BeginTransaction(v.ctxFor(1, ctx), &pb.BeginTransactionRequest{ReadOnly: ro})
			if err != nil {
				return "", err
			}
			return r.TransactionId, nil
		}
		return v.reg.Begin(ctx, v.weng, ro)
	}
	finish := func(id string) error {
		tx, ok := v.reg.Get(id)
		if !ok {
			return errors.New("transaction not found")
		}
		err := tx.Commit()
		v.reg.Remove(id)
		return err
	}
	for i := 0; i < rounds && fail == ""; i++ {
		var id1 string
		var err error
		for try := 0; try < 4; try++ {
			hctx, hcancel := context.WithTimeout(context.Background(), time.Second)
			id1, err = call(hctx, false)
			hcancel()
			if err == nil || !v.svc {
				break
			}
			// through the service a request whose client has given up can still be served later and
			// leave a registered transaction nobody knows: an abandoned transaction, which the server
			// ends once it has been idle for too long
			nOrphan++
			v.calls = nil
			time.Sleep(time.Duration(v.idle+60) * time.Millisecond)
			v.reg.CleanupStaleTransactions()
			v.quiesce()
		}
		if err != nil {
			fail = fmt.Sprintf("round %d: the holder cannot begin: %v", i, err)
			break
		}
		dl := time.Now().Add(4 * time.Millisecond)
		ctx, cancel := context.WithDeadline(context.Background(), dl)
		type res struct {
			id  string
			err error
		}
		done := make(chan res, 1)
		go func() { id, err := call(ctx, i%3 == 2); done <- res{id, err} }()
		// commit at deadline + offset, offset in [-100us, +300us): where the timer of the waiting
		// call and the goroutine that is handed the lock actually meet
		off := time.Duration((i*37)%400-100) * time.Microsecond
		for time.Until(dl.Add(off)) > 0 {
			runtime.Gosched()
		}
		if err := finish(id1); err != nil {
			fail = fmt.Sprintf("round %d: the holder cannot commit: %v", i, err)
		}
		var r res
		select {
		case r = <-done:
		case <-time.After(5 * time.Second):
			fail = fmt.Sprintf("round %d: the waiting Begin neither got the lock nor timed out", i)
		}
		cancel()
		if fail != "" {
			break
		}
		if r.err == nil {
			nOk++
			if err := finish(r.id); err != nil {
				fail = fmt.Sprintf("round %d: the transaction the waiter was given cannot commit: %v", i, err)
			}
		} else {
			nTimeout++
		}
		// everything comes to rest; then nothing may be left
		v.calls = nil
		v.quiesce()
		if v.svc {
			for k := 0; k < 2000 && v.inBeg.Load() != 0; k++ {
				time.Sleep(100 * time.Microsecond)
			}
			v.quiesce()
		}
		v.nBegun += 2
		left := func() string {
			if ls := v.lockState(); ls != "free" {
				return fmt.Sprintf("the lock is left in state %q", ls)
			} else if n := v.regSize(); n != 0 {
				return fmt.Sprintf("%d transactions left in the registry", n)
			} else if a, _ := v.tm.GetTransactionStats()["tx_active"].(uint64); a != 0 {
				return fmt.Sprintf("the manager counts %d active transactions", a)
			}
			return ""
		}
		l := left()
		if l != "" && v.svc && r.err != nil {
			// the client gave up (its own deadline) while the server was creating the transaction, or
			// the server served the request after the client had gone: an abandoned transaction, which
			// the server must end once it has been idle for too long
			nOrphan++
			time.Sleep(time.Duration(v.idle+60) * time.Millisecond)
			v.reg.CleanupStaleTransactions()
			v.quiesce()
			l = left()
		}
		if l != "" {
			fail = fmt.Sprintf("round %d (waiter: %s, commit %v after the deadline): %s", i, c17Class(r.err), off, l)
		}
	}
	// second race: two finish calls of ONE transaction issued at the same moment while other calls of
	// that transaction keep its mutex busy. Exactly one may succeed (the other is told the transaction
	// is closed), and afterwards the lock is free and nothing is left registered.
	nDouble := 0
	for i := 0; i < 5*rounds && fail == "" && !v.svc; i++ {
		hctx, hcancel := context.WithTimeout(context.Background(), 2*time.Second)
		id, err := call(hctx, false)
		hcancel()
		if err != nil {
			fail = fmt.Sprintf("double-finish round %d: begin failed: %v", i, err)
			break
		}
		tx, ok := v.reg.Get(id)
		if !ok {
			fail = fmt.Sprintf("double-finish round %d: the transaction just begun is not registered", i)
			break
		}
		key := []byte(fmt.Sprintf("df-%d", i))
		tx.Put(key, []byte("v"))
		var stop atomic.Bool
		var busy, fin sync.WaitGroup
		for g := 0; g < 2; g++ {
			busy.Add(1)
			go func() {
				defer busy.Done()
				for !stop.Load() {
					tx.Get(key)
				}
			}()
		}
		errs := make([]error, 2)
		start := make(chan struct{})
		for g := 0; g < 2; g++ {
			fin.Add(1)
			go func(g int) {
				defer fin.Done()
				<-start
				if g == 1 && i%3 == 0 {
					errs[g] = tx.Rollback()
				} else {
					errs[g] = tx.Commit()
				}
			}(g)
		}
		close(start)
		fin.Wait()
		stop.Store(true)
		busy.Wait()
		v.reg.Remove(id)
		won := 0
		for _, e := range errs {
			if e == nil {
				won++
			}
		}
		nDouble++
		if won != 1 {
			fail = fmt.Sprintf("double-finish round %d: %d of two concurrent finish calls of one transaction reported success (results: %v / %v)", i, won, errs[0], errs[1])
			break
		}
		v.quiesce()
		if ls := v.lockState(); ls != "free" {
			fail = fmt.Sprintf("double-finish round %d: the lock is left in state %q", i, ls)
		}
	}
	out("X race")
	if fail != "" {
		out("ORACLE FAIL " + fail)
	} else {
		out("ORACLE ok")
	}
	out(fmt.Sprintf("NOTE double_finish_rounds=%d", nDouble))
	nt := 0
	if nOk > 0 && nTimeout > 0 {
		nt = 1
	}
	out(fmt.Sprintf("META kind=race rounds=%d waiter_ok=%d waiter_timeout=%d orphaned_then_cleaned=%d svc=%v nontrivial=%d", rounds, nOk, nTimeout, nOrphan, v.svc, nt))
}

// ---------------------------------------------------------------------------------------
// generator
// ---------------------------------------------------------------------------------------

func genC17(w *bufio.Writer, seed int64, n int, tier string) {
	r := rand.New(rand.NewSource(seed*7919 + 17))
	// two racing scenarios per run (registry alone, through the service)
	rounds := 150
	if tier == "thorough" {
		rounds = 1500
	}
	if tier == "thorough" {
		// the registry's own limit on waiting for the lock (10 s, no deadline from the client)
		fmt.Fprintf(w, "case t%d-0 svc=0 peer=1 wiring=ttl idle=150 ttlro=650 ttlrw=450 maxscale=1\n", seed)
		for _, l := range []string{"begin 1 rw 0", "begin 2 rw 0", "begin 3 ro 0", "sleep 5000", "put 1 1 1", "sleep 5200",
			"commit 1", "begin 4 rw 0", "put 4 2 2", "commit 4", "probe", "dump"} {
			fmt.Fprintln(w, l)
		}
		fmt.Fprintln(w, "end")
		n--
	}
	if n >= 10 {
		fmt.Fprintf(w, "case r%d-0 kind=race svc=0 peer=1 wiring=ttl rounds=%d\nend\n", seed, rounds)
		fmt.Fprintf(w, "case r%d-1 kind=race svc=1 peer=0 wiring=facade rounds=%d\nend\n", seed, rounds)
		n -= 2
	}
	for i := 0; i < n; i++ {
		g := newG17(r, i)
		g.slow = tier == "thorough" && r.Intn(100) < 3
		if g.slow && g.ncl < 2 {
			g.ncl = 2
		}
		g.program()
		fmt.Fprintf(w, "case g%d-%d %s\n", seed, i, g.header())
		for _, l := range g.lines {
			fmt.Fprintln(w, l)
		}
		fmt.Fprintln(w, "end")
	}
}
