package main

// C04 — transactions are serializable with respect to each other.
//
// One case = the programs of 2..8 client goroutines; each client runs transactions one after
// the other (never two at once: with the single isolation lock a client holding a transaction
// and beginning another would wait for itself) against ONE engine (engine.NewEngineFacade).
//
//   case <id> mode=free|sched clients=<n> reps=<k> yseed=<s> [wait=<ms>]
//   <client> begin ro|rw | get K | put K V | del K | scan LO|* HI|* | commit | rollback
//   end
//
// mode=free : the clients run concurrently at their own pace (seeded Gosched/sleep between
//             calls, verifhook.Yield perturbation inside the storage manager).
// mode=sched: the lines are issued in file order, each waited for at most `wait` ms (a Begin
//             that blocks on the lock stays pending and completes when the lock is released):
//             deterministic interleavings for the corpus.
// The whole program is run `reps` times, each time on a fresh engine.
//
// Every call is recorded with a ticket taken immediately before it is issued and one taken
// immediately after it returned (one global atomic counter), so "returned before issued" in
// ticket order is real-time precedence. Output per repetition: "R <rep>" and one "H" line per
// call, ordered by return ticket (the format is documented in model/drv_c04.ml, which feeds
// the lines to the extracted checker Txn.ser_check).
//
// ORACLE (independent of the Coq model, written from the property text): a complete search
// for a serial order of the recorded transactions that respects real time and reproduces
// every Get/scan/status, preceded by direct checks of the three named guarantees (own
// writes, no dirty read, read-only snapshot) and of the error contract (read-only Put/Delete
// -> ErrReadOnlyTransaction, calls after Commit/Rollback -> ErrTransactionClosed).

import (
	"bufio"
	"bytes"
	"errors"
	"fmt"
	"math/rand"
	"os"
	"runtime"
	"sort"
	"strconv"
	"strings"
	"sync"
	"sync/atomic"
	"time"

	"github.com/KevoDB/kevo/pkg/engine"
	"github.com/KevoDB/kevo/pkg/engine/interfaces"
	"github.com/KevoDB/kevo/pkg/transaction"
	"github.com/KevoDB/kevo/pkg/verifhook"
)

func init() {
	register("C04", &Prop{Gen: genC04, Run: runC04})
}

// ---------------------------------------------------------------------------------------
// recorded events

type c04Row struct{ k, v []byte }

type c04Ev struct {
	tx       int
	inv, ret uint64
	kind     string // begin get put del scan commit rollback
	ro       bool   // begin
	k, v     []byte // get/put/del
	lo, hi   []byte // scan (nil = unbounded)
	status   string // ok | readonly | closed | notfound | v | rows | err:<msg>
	val      []byte // get result
	rows     []c04Row
}

func c04Bound(b []byte) string {
	if b == nil {
		return "*"
	}
	return mkTok(b)
}

func (e *c04Ev) line() string {
	h := fmt.Sprintf("H %d %d %d ", e.tx, e.inv, e.ret)
	switch e.kind {
	case "begin":
		m := "rw"
		if e.ro {
			m = "ro"
		}
		return h + "begin " + m + " " + e.status
	case "get":
		r := e.status
		if e.status == "v" {
			r = "v:" + mkTok(e.val)
		}
		return h + "get " + mkTok(e.k) + " " + r
	case "put":
		return h + "put " + mkTok(e.k) + " " + mkTok(e.v) + " " + e.status
	case "del":
		return h + "del " + mkTok(e.k) + " " + e.status
	case "scan":
		var sb strings.Builder
		sb.WriteString(h + "scan " + c04Bound(e.lo) + " " + c04Bound(e.hi) + " rows " + strconv.Itoa(len(e.rows)))
		for _, r := range e.rows {
			sb.WriteString(" " + mkTok(r.k) + " " + mkTok(r.v))
		}
		return sb.String()
	default:
		return h + e.kind + " " + e.status
	}
}

func c04Status(err error) string {
	switch {
	case err == nil:
		return "ok"
	case errors.Is(err, transaction.ErrReadOnlyTransaction):
		return "readonly"
	case errors.Is(err, transaction.ErrTransactionClosed):
		return "closed"
	case errors.Is(err, transaction.ErrKeyNotFound) || errors.Is(err, interfaces.ErrKeyNotFound) || strings.Contains(err.Error(), "not found"):
		return "notfound"
	}
	return "err:" + strings.ReplaceAll(err.Error(), " ", "_")
}

// ---------------------------------------------------------------------------------------
// running one repetition

type c04Op struct {
	client int
	kind   string
	ro     bool
	k, v   []byte
	lo, hi []byte
	txid   int // for begin: the id of the transaction it creates
	done   chan struct{}
}

type c04Client struct {
	id      int
	ops     chan *c04Op
	evs     []c04Ev
	tx      interfaces.Transaction
	txid    int
	open    bool
	stage   atomic.Int64 // index of the op being executed, -1 when the client is done
	inBegin atomic.Int64 // UnixNano at which the current BeginTransaction was issued, 0 outside Begin
}

func parseC04(c *Case) (ops []*c04Op, nclients int, err error) {
	nclients, _ = strconv.Atoi(hdrVal(c.Hdr, "clients", "0"))
	ntx := 0
	for _, l := range c.Lines {
		if len(l) < 2 {
			return nil, 0, fmt.Errorf("short line %v", l)
		}
		cl, e := strconv.Atoi(l[0])
		if e != nil {
			return nil, 0, fmt.Errorf("bad client in %v", l)
		}
		if cl+1 > nclients {
			nclients = cl + 1
		}
		op := &c04Op{client: cl, kind: l[1]}
		switch l[1] {
		case "begin":
			if len(l) < 3 {
				return nil, 0, fmt.Errorf("short line %v", l)
			}
			op.ro = l[2] == "ro"
			ntx++
			op.txid = ntx
		case "get", "del":
			if len(l) < 3 {
				return nil, 0, fmt.Errorf("short line %v", l)
			}
			op.k = tok(l[2])
		case "put":
			if len(l) < 4 {
				return nil, 0, fmt.Errorf("short line %v", l)
			}
			op.k, op.v = tok(l[2]), tok(l[3])
		case "scan":
			if len(l) < 4 {
				return nil, 0, fmt.Errorf("short line %v", l)
			}
			if l[2] != "*" {
				op.lo = tok(l[2])
			}
			if l[3] != "*" {
				op.hi = tok(l[3])
			}
		case "commit", "rollback":
		default:
			return nil, 0, fmt.Errorf("unknown op %v", l)
		}
		ops = append(ops, op)
	}
	return ops, nclients, nil
}

var c04Ticket atomic.Uint64

func (cl *c04Client) record(e c04Ev, f func(e *c04Ev)) {
	e.inv = c04Ticket.Add(1)
	f(&e)
	e.ret = c04Ticket.Add(1)
	cl.evs = append(cl.evs, e)
}

func c04Drain(it interface {
	SeekToFirst()
	Valid() bool
	Next() bool
	Key() []byte
	Value() []byte
	IsTombstone() bool
}) []c04Row {
	var rows []c04Row
	for it.SeekToFirst(); it.Valid(); it.Next() {
		if it.IsTombstone() {
			continue
		}
		rows = append(rows, c04Row{append([]byte{}, it.Key()...), append([]byte{}, it.Value()...)})
	}
	return rows
}

func (cl *c04Client) exec(e *engine.EngineFacade, op *c04Op) {
	switch op.kind {
	case "begin":
		if cl.open { // a client never holds two transactions: finish the open one first
			cl.record(c04Ev{tx: cl.txid, kind: "rollback"}, func(ev *c04Ev) { ev.status = c04Status(cl.tx.Rollback()) })
			cl.open = false
		}
		cl.record(c04Ev{tx: op.txid, kind: "begin", ro: op.ro}, func(ev *c04Ev) {
			cl.inBegin.Store(time.Now().UnixNano())
			tx, err := e.BeginTransaction(op.ro)
			cl.inBegin.Store(0)
			ev.status = c04Status(err)
			if err == nil {
				cl.tx, cl.txid, cl.open = tx, op.txid, true
			}
		})
	case "get":
		if cl.tx == nil {
			return
		}
		cl.record(c04Ev{tx: cl.txid, kind: "get", k: op.k}, func(ev *c04Ev) {
			v, err := cl.tx.Get(op.k)
			ev.status = c04Status(err)
			if err == nil {
				ev.status, ev.val = "v", append([]byte{}, v...)
			}
		})
	case "put":
		if cl.tx == nil {
			return
		}
		cl.record(c04Ev{tx: cl.txid, kind: "put", k: op.k, v: op.v}, func(ev *c04Ev) {
			ev.status = c04Status(cl.tx.Put(append([]byte{}, op.k...), append([]byte{}, op.v...)))
		})
	case "del":
		if cl.tx == nil {
			return
		}
		cl.record(c04Ev{tx: cl.txid, kind: "del", k: op.k}, func(ev *c04Ev) {
			ev.status = c04Status(cl.tx.Delete(append([]byte{}, op.k...)))
		})
	case "scan":
		if cl.tx == nil {
			return
		}
		cl.record(c04Ev{tx: cl.txid, kind: "scan", lo: op.lo, hi: op.hi}, func(ev *c04Ev) {
			ev.status = "rows"
			if op.lo == nil && op.hi == nil {
				ev.rows = c04Drain(cl.tx.NewIterator())
			} else {
				ev.rows = c04Drain(cl.tx.NewRangeIterator(op.lo, op.hi))
			}
		})
	case "commit", "rollback":
		if cl.tx == nil {
			return
		}
		cl.record(c04Ev{tx: cl.txid, kind: op.kind}, func(ev *c04Ev) {
			if op.kind == "commit" {
				ev.status = c04Status(cl.tx.Commit())
			} else {
				ev.status = c04Status(cl.tx.Rollback())
			}
		})
		cl.open = false
	}
}

// c04ClientLoop is the body of one client goroutine (a named function: the deadlock test
// below recognises client goroutines by this frame).
func c04ClientLoop(cl *c04Client, e *engine.EngineFacade, mode string, yseed int64, wg *sync.WaitGroup) {
	defer wg.Done()
	r := rand.New(rand.NewSource(yseed*131 + int64(cl.id)))
	n := int64(0)
	for op := range cl.ops {
		n++
		cl.stage.Store(n)
		if mode == "free" {
			switch r.Intn(10) {
			case 0, 1, 2:
				runtime.Gosched()
			case 3:
				time.Sleep(time.Duration(r.Intn(60)) * time.Microsecond)
			case 4:
				for i := 0; i < 200+r.Intn(2000); i++ {
					_ = i
				}
			}
		}
		cl.exec(e, op)
		close(op.done)
	}
	if cl.open { // leave nothing behind: the database must be released
		cl.record(c04Ev{tx: cl.txid, kind: "rollback"}, func(ev *c04Ev) { ev.status = c04Status(cl.tx.Rollback()) })
		cl.open = false
	}
	cl.stage.Store(-1)
}

// c04Parked counts the client goroutines that are PARKED on the isolation lock inside
// BeginTransaction (goroutine wait reason sync.RWMutex.Lock/RLock or sync.Mutex.Lock — a
// goroutine that has been woken but not yet scheduled is "runnable" and is not counted).
func c04Parked() int {
	buf := make([]byte, 1<<20)
	for {
		n := runtime.Stack(buf, true)
		if n < len(buf) {
			buf = buf[:n]
			break
		}
		buf = make([]byte, 2*len(buf))
	}
	cnt := 0
	for _, g := range strings.Split(string(buf), "\n\n") {
		nl := strings.IndexByte(g, '\n')
		if nl < 0 {
			continue
		}
		hdr := g[:nl]
		if !(strings.Contains(hdr, "[sync.RWMutex.Lock") || strings.Contains(hdr, "[sync.RWMutex.RLock") ||
			strings.Contains(hdr, "[sync.Mutex.Lock") || strings.Contains(hdr, "[semacquire")) {
			continue
		}
		if strings.Contains(g, "main.c04ClientLoop") && strings.Contains(g, "BeginTransaction") {
			cnt++
		}
	}
	return cnt
}

// goroutines abandoned by earlier hung repetitions stay parked for ever
var c04Abandoned int

// c04Await waits for done. It reports a deadlock when, on two looks 50 ms apart, every client
// that is not finished is parked on the lock inside BeginTransaction: each client ends its
// previous transaction before it begins the next, so nobody is left who could release the
// lock. This does not depend on how fast anything runs. hangAfter is only a backstop.
func c04Await(done chan struct{}, clients []*c04Client, hangAfter time.Duration) (hang bool, stuck string) {
	deadline := time.Now().Add(hangAfter)
	tick := time.NewTicker(50 * time.Millisecond)
	defer tick.Stop()
	strikes := 0
	for {
		select {
		case <-done:
			return false, ""
		case <-tick.C:
			unfinished, inBegin := 0, 0
			for _, cl := range clients {
				if cl.stage.Load() >= 0 {
					unfinished++
					if cl.inBegin.Load() != 0 {
						inBegin++
					}
				}
			}
			dead := unfinished > 0 && inBegin == unfinished && c04Parked()-c04Abandoned == unfinished
			if dead {
				strikes++
			} else {
				strikes = 0
			}
			if strikes >= 2 || time.Now().After(deadline) {
				var s []string
				for _, cl := range clients {
					if st := cl.stage.Load(); st >= 0 {
						w := "running"
						if cl.inBegin.Load() != 0 {
							w = "parked in BeginTransaction"
						}
						s = append(s, fmt.Sprintf("client %d at its op #%d %s", cl.id, st, w))
					}
				}
				if strikes >= 2 {
					c04Abandoned += unfinished
				}
				return true, strings.Join(s, ", ")
			}
		}
	}
}

// runRep runs the program once on a fresh engine; returns the history ordered by return
// ticket, or hang=true with the clients that never finished.
func runRepC04(ops []*c04Op, nclients int, mode string, yseed int64, waitMs int, hangAfter time.Duration) (hist []c04Ev, hang bool, stuck string, err error) {
	c04Ticket.Store(0)
	dir := tmpDir("c04-")
	e, err := openEngine(dir)
	if err != nil {
		os.RemoveAll(dir)
		return nil, false, "", err
	}
	verifhook.SetYield(uint64(yseed))
	defer verifhook.SetYield(0)
	clients := make([]*c04Client, nclients)
	var wg sync.WaitGroup
	nops := make([]int, nclients)
	for _, op := range ops {
		nops[op.client]++
	}
	for i := range clients {
		cl := &c04Client{id: i, ops: make(chan *c04Op, nops[i]+1)}
		clients[i] = cl
		wg.Add(1)
		go c04ClientLoop(cl, e, mode, yseed, &wg)
	}
	for _, op := range ops {
		op.done = make(chan struct{})
		clients[op.client].ops <- op
		if mode == "sched" {
			select {
			case <-op.done:
			case <-time.After(time.Duration(waitMs) * time.Millisecond):
			}
		}
	}
	for _, cl := range clients {
		close(cl.ops)
	}
	finished := make(chan struct{})
	go func() { wg.Wait(); close(finished) }()
	if hang, stuck := c04Await(finished, clients, hangAfter); hang {
		// the engine and the stuck goroutines are abandoned
		return nil, true, stuck, nil
	}
	for _, cl := range clients {
		hist = append(hist, cl.evs...)
	}
	// final observer: one read-only transaction after everything else, full scan
	maxtx := 0
	for _, ev := range hist {
		if ev.tx > maxtx {
			maxtx = ev.tx
		}
	}
	obs := &c04Client{id: nclients, ops: make(chan *c04Op, 3)}
	for _, op := range []*c04Op{{kind: "begin", ro: true, txid: maxtx + 1}, {kind: "scan"}, {kind: "commit"}} {
		op.done = make(chan struct{})
		obs.ops <- op
	}
	close(obs.ops)
	var owg sync.WaitGroup
	owg.Add(1)
	go c04ClientLoop(obs, e, "sched", yseed, &owg)
	obsDone := make(chan struct{})
	go func() { owg.Wait(); close(obsDone) }()
	if hang, _ := c04Await(obsDone, []*c04Client{obs}, hangAfter); hang {
		return nil, true, "all transactions have ended, yet a new read-only transaction cannot begin", nil
	}
	hist = append(hist, obs.evs...)
	sort.Slice(hist, func(i, j int) bool { return hist[i].ret < hist[j].ret })
	e.Close()
	os.RemoveAll(dir)
	return hist, false, "", nil
}

// ---------------------------------------------------------------------------------------
// oracle

type c04Tx struct {
	id       int
	evs      []*c04Ev
	ro       bool
	beginInv uint64
	beginRet uint64
	lastRet  uint64
	commitOK bool // has a Commit that returned ok
	endInv   uint64
}

func c04Group(hist []c04Ev) (txs []*c04Tx, msg string) {
	byID := map[int]*c04Tx{}
	for i := range hist {
		ev := &hist[i]
		t := byID[ev.tx]
		if t == nil {
			if ev.kind != "begin" {
				return nil, fmt.Sprintf("tx %d: first recorded call is %s, not begin", ev.tx, ev.kind)
			}
			t = &c04Tx{id: ev.tx, ro: ev.ro, beginInv: ev.inv, beginRet: ev.ret}
			byID[ev.tx] = t
			txs = append(txs, t)
		} else if ev.kind == "begin" {
			return nil, fmt.Sprintf("tx %d begins twice", ev.tx)
		}
		if len(t.evs) > 0 && t.evs[len(t.evs)-1].ret >= ev.inv {
			return nil, fmt.Sprintf("tx %d: calls overlap in time (harness error)", ev.tx)
		}
		t.evs = append(t.evs, ev)
		t.lastRet = ev.ret
	}
	return txs, ""
}

// direct checks of the error contract and the three named guarantees
func c04Direct(txs []*c04Tx) string {
	writer := map[string]*c04Tx{} // value (unique per put in generated cases) -> writing tx; "" key if ambiguous
	ambiguous := map[string]bool{}
	byID := map[int]*c04Tx{}
	for _, t := range txs {
		byID[t.id] = t
		for _, ev := range t.evs {
			if ev.kind == "put" && ev.status == "ok" {
				s := string(ev.v)
				if w, ok := writer[s]; ok && w != t {
					ambiguous[s] = true
				}
				writer[s] = t
			}
		}
	}
	for _, t := range txs {
		active := false
		buf := map[string][]byte{} // own writes; nil = deleted
		seen := map[string]string{}
		for _, ev := range t.evs {
			switch ev.kind {
			case "begin":
				if ev.status != "ok" {
					return fmt.Sprintf("tx %d: begin returned %s", t.id, ev.status)
				}
				active = true
			case "put", "del":
				want := "ok"
				if !active {
					want = "closed"
				} else if t.ro {
					want = "readonly"
				}
				if ev.status != want {
					return fmt.Sprintf("tx %d (%s): %s %s returned %s, expected %s", t.id, c04Mode(t.ro), ev.kind, render(ev.k), ev.status, want)
				}
				if want == "ok" {
					if ev.kind == "put" {
						buf[string(ev.k)] = ev.v
					} else {
						buf[string(ev.k)] = nil
					}
				}
			case "get":
				if !active {
					if ev.status != "closed" {
						return fmt.Sprintf("tx %d: get after commit/rollback returned %s, expected ErrTransactionClosed", t.id, ev.status)
					}
					continue
				}
				if ev.status != "v" && ev.status != "notfound" {
					return fmt.Sprintf("tx %d: get %s returned %s", t.id, render(ev.k), ev.status)
				}
				got := "notfound"
				if ev.status == "v" {
					got = "v:" + mkTok(ev.val)
				}
				if own, ok := buf[string(ev.k)]; ok { // own writes
					want := "notfound"
					if own != nil {
						want = "v:" + mkTok(own)
					}
					if got != want {
						return fmt.Sprintf("own write not visible: tx %d get %s returned %s after its own write %s", t.id, render(ev.k), got, want)
					}
					continue
				}
				if ev.status == "v" { // dirty read
					if w, ok := writer[string(ev.val)]; ok && !ambiguous[string(ev.val)] && w != t {
						cm := w.commitEv()
						if cm == nil {
							return fmt.Sprintf("dirty read: tx %d get %s returned %s written by tx %d, which never committed", t.id, render(ev.k), got, w.id)
						}
						if cm.inv > ev.ret {
							return fmt.Sprintf("dirty read: tx %d get %s returned %s written by tx %d before that transaction's Commit was issued", t.id, render(ev.k), got, w.id)
						}
					}
				}
				if t.ro { // snapshot stability
					if prev, ok := seen[string(ev.k)]; ok && prev != got {
						return fmt.Sprintf("read-only snapshot changed: tx %d read %s as %s and later as %s", t.id, render(ev.k), prev, got)
					}
					seen[string(ev.k)] = got
				}
			case "scan":
				if !active && len(ev.rows) != 0 {
					return fmt.Sprintf("tx %d: scan after commit/rollback returned %d rows", t.id, len(ev.rows))
				}
				for i := 1; i < len(ev.rows); i++ {
					if bytes.Compare(ev.rows[i-1].k, ev.rows[i].k) >= 0 {
						return fmt.Sprintf("tx %d: scan rows not strictly ascending at %s", t.id, render(ev.rows[i].k))
					}
				}
				if active && t.ro {
					for _, r := range ev.rows {
						got := "v:" + mkTok(r.v)
						if prev, ok := seen[string(r.k)]; ok && prev != got {
							return fmt.Sprintf("read-only snapshot changed: tx %d read %s as %s and later (scan) as %s", t.id, render(r.k), prev, got)
						}
						seen[string(r.k)] = got
					}
				}
			case "commit", "rollback":
				want := "ok"
				if !active {
					want = "closed"
				}
				if ev.status != want {
					return fmt.Sprintf("tx %d: %s returned %s, expected %s", t.id, ev.kind, ev.status, want)
				}
				if active && ev.kind == "commit" {
					t.commitOK = true
				}
				if active {
					t.endInv = ev.inv
				}
				active = false
			}
		}
	}
	return ""
}

func (t *c04Tx) commitEv() *c04Ev {
	for _, ev := range t.evs {
		if ev.kind == "commit" && ev.status == "ok" {
			return ev
		}
	}
	return nil
}

func c04Mode(ro bool) string {
	if ro {
		return "read-only"
	}
	return "read-write"
}

// replay one transaction alone on store; returns the store after it and "" or the first
// difference between a recorded result and the serial one
func c04Replay(t *c04Tx, store map[string][]byte) (map[string][]byte, string) {
	buf := map[string][]byte{}
	active := false
	out := store
	view := func(k string) ([]byte, bool) {
		if v, ok := buf[k]; ok {
			return v, v != nil
		}
		v, ok := store[k]
		return v, ok
	}
	for idx, ev := range t.evs {
		switch ev.kind {
		case "begin":
			active = true
		case "put":
			if active && !t.ro {
				buf[string(ev.k)] = ev.v
			}
		case "del":
			if active && !t.ro {
				buf[string(ev.k)] = nil
			}
		case "get":
			if !active {
				continue
			}
			v, ok := view(string(ev.k))
			if ok != (ev.status == "v") || (ok && !bytes.Equal(v, ev.val)) {
				want := "notfound"
				if ok {
					want = "v:" + mkTok(v)
				}
				got := ev.status
				if ev.status == "v" {
					got = "v:" + mkTok(ev.val)
				}
				return nil, fmt.Sprintf("tx %d call #%d get %s returned %s, serial execution gives %s", t.id, idx, render(ev.k), got, want)
			}
		case "scan":
			if !active {
				continue
			}
			keys := map[string]bool{}
			for k := range store {
				keys[k] = true
			}
			for k := range buf {
				keys[k] = true
			}
			var ks []string
			for k := range keys {
				if _, ok := view(k); !ok {
					continue
				}
				if ev.lo != nil && bytes.Compare([]byte(k), ev.lo) < 0 {
					continue
				}
				if ev.hi != nil && bytes.Compare([]byte(k), ev.hi) >= 0 {
					continue
				}
				ks = append(ks, k)
			}
			sort.Strings(ks)
			same := len(ks) == len(ev.rows)
			for i := 0; same && i < len(ks); i++ {
				v, _ := view(ks[i])
				same = ks[i] == string(ev.rows[i].k) && bytes.Equal(v, ev.rows[i].v)
			}
			if !same {
				var w []string
				for _, k := range ks {
					v, _ := view(k)
					w = append(w, render([]byte(k))+"="+render(v))
				}
				var g []string
				for _, r := range ev.rows {
					g = append(g, render(r.k)+"="+render(r.v))
				}
				return nil, fmt.Sprintf("tx %d call #%d scan [%s,%s) returned {%s}, serial execution gives {%s}", t.id, idx, c04Bound(ev.lo), c04Bound(ev.hi), strings.Join(g, " "), strings.Join(w, " "))
			}
		case "commit":
			if active && !t.ro && len(buf) > 0 {
				out = make(map[string][]byte, len(store)+len(buf))
				for k, v := range store {
					out[k] = v
				}
				for k, v := range buf {
					if v == nil {
						delete(out, k)
					} else {
						out[k] = v
					}
				}
			}
			active = false
		case "rollback":
			active = false
		}
	}
	return out, ""
}

func c04StoreKey(done uint64, store map[string][]byte) string {
	ks := make([]string, 0, len(store))
	for k := range store {
		ks = append(ks, k)
	}
	sort.Strings(ks)
	var sb strings.Builder
	sb.WriteString(strconv.FormatUint(done, 16))
	for _, k := range ks {
		sb.WriteString("|" + k + "=" + string(store[k]))
	}
	return sb.String()
}

// c04Search: is there a serial order consistent with real time that reproduces all results?
// Returns "" if so; otherwise the explanation of the most natural candidate (begin order).
func c04Search(txs []*c04Tx) string {
	n := len(txs)
	if n > 62 {
		return "too many transactions for the oracle search"
	}
	sort.Slice(txs, func(i, j int) bool { return txs[i].beginRet < txs[j].beginRet })
	pred := make([]uint64, n) // real-time predecessors
	for i, a := range txs {
		for j, b := range txs {
			if i != j && b.lastRet < a.beginInv {
				pred[i] |= 1 << uint(j)
			}
		}
	}
	dead := map[string]bool{}
	nodes := 0
	firstMsg := ""
	var rec func(done uint64, store map[string][]byte) bool
	rec = func(done uint64, store map[string][]byte) bool {
		if done == (uint64(1)<<uint(n))-1 {
			return true
		}
		key := c04StoreKey(done, store)
		if dead[key] {
			return false
		}
		nodes++
		if nodes > 400000 {
			return false
		}
		for i := 0; i < n; i++ {
			if done&(1<<uint(i)) != 0 || pred[i]&^done != 0 {
				continue
			}
			st, msg := c04Replay(txs[i], store)
			if msg != "" {
				if firstMsg == "" {
					firstMsg = msg
				}
				continue
			}
			if rec(done|1<<uint(i), st) {
				return true
			}
		}
		dead[key] = true
		return false
	}
	if rec(0, map[string][]byte{}) {
		return ""
	}
	if nodes > 400000 {
		return "oracle search budget exceeded; first mismatch in lock order: " + firstMsg
	}
	return "no serial order consistent with real time explains the recorded results; in order of lock acquisition: " + firstMsg
}

func c04Oracle(hist []c04Ev) string {
	txs, msg := c04Group(hist)
	if msg != "" {
		return msg
	}
	if msg := c04Direct(txs); msg != "" {
		return msg
	}
	return c04Search(txs)
}

// ---------------------------------------------------------------------------------------
// Run

func runC04(c *Case, out func(string)) {
	ops, nclients, err := parseC04(c)
	if err != nil {
		out("IMPL-ERROR case " + err.Error())
		return
	}
	mode := hdrVal(c.Hdr, "mode", "free")
	reps, _ := strconv.Atoi(hdrVal(c.Hdr, "reps", "1"))
	yseed, _ := strconv.ParseInt(hdrVal(c.Hdr, "yseed", "1"), 10, 64)
	waitMs, _ := strconv.Atoi(hdrVal(c.Hdr, "wait", "4"))
	hangS, _ := strconv.Atoi(hdrVal(c.Hdr, "hang", "120"))
	if reps < 1 {
		reps = 1
	}
	fail := ""
	var nev, ntx, nro, nrw, ncommit, nrollback, noverlap, nblocked, nreadsfrom, nerrs int
	for rep := 0; rep < reps; rep++ {
		hist, hang, stuck, err := runRepC04(ops, nclients, mode, yseed+int64(rep)*7919, waitMs, time.Duration(hangS)*time.Second)
		if err != nil {
			out("IMPL-ERROR open " + err.Error())
			return
		}
		if hang {
			if fail == "" {
				fail = fmt.Sprintf("rep %d: no progress possible, the isolation lock is never released: %s", rep, stuck)
			}
			break
		}
		out(fmt.Sprintf("R %d", rep))
		for i := range hist {
			out(hist[i].line())
			if strings.HasPrefix(hist[i].status, "err:") {
				nerrs++
				if fail == "" {
					fail = fmt.Sprintf("rep %d: tx %d %s failed: %s", rep, hist[i].tx, hist[i].kind, hist[i].status)
				}
			}
		}
		if msg := c04Oracle(hist); msg != "" && fail == "" {
			fail = fmt.Sprintf("rep %d: %s", rep, msg)
		}
		// statistics (input distribution)
		txs, _ := c04Group(hist)
		nev += len(hist)
		ntx += len(txs)
		written := map[string]int{}
		for _, t := range txs {
			if t.ro {
				nro++
			} else {
				nrw++
			}
			if t.evs[0].ret-t.evs[0].inv > 1 {
				nblocked++ // somebody else's call was issued or returned while this Begin was in flight
			}
			cm := t.commitEv()
			for _, ev := range t.evs {
				if ev.kind == "commit" && ev.status == "ok" {
					ncommit++
				}
				if ev.kind == "rollback" && ev.status == "ok" {
					nrollback++
				}
				if ev.kind == "put" && ev.status == "ok" && cm != nil {
					written[string(ev.v)] = t.id
				}
			}
		}
		for _, t := range txs {
			for _, ev := range t.evs {
				if ev.kind == "get" && ev.status == "v" {
					if w, ok := written[string(ev.val)]; ok && w != t.id {
						nreadsfrom++
					}
				}
			}
		}
		for i, a := range txs {
			for _, b := range txs[i+1:] {
				if a.beginInv < b.lastRet && b.beginInv < a.lastRet {
					noverlap++
				}
			}
		}
	}
	if fail != "" {
		out("ORACLE FAIL C04: " + fail)
	} else {
		out("ORACLE ok")
	}
	nontrivial := 0
	if noverlap > 0 && nreadsfrom > 0 && nrw >= 2 {
		nontrivial = 1
	}
	out(fmt.Sprintf("META mode=%s clients=%d reps=%d events=%d txs=%d ro=%d rw=%d commits=%d rollbacks=%d overlapping_pairs=%d begins_in_flight=%d reads_from_other=%d call_errors=%d nontrivial=%d",
		mode, nclients, reps, nev, ntx, nro, nrw, ncommit, nrollback, noverlap, nblocked, nreadsfrom, nerrs, nontrivial))
}

// ---------------------------------------------------------------------------------------
// Gen

var c04Keys = []string{"61", "62", "63", "6162", "00", "ff"}

func genC04(w *bufio.Writer, seed int64, n int, tier string) {
	r := rand.New(rand.NewSource(seed*1000003 + 404))
	for i := 0; i < n; i++ {
		nclients := 2 + r.Intn(7)
		nkeys := 2 + r.Intn(3)
		mode := "free"
		if r.Intn(4) == 0 {
			mode = "sched"
		}
		reps := 2
		if mode == "sched" {
			reps = 1
		}
		valctr := 0
		progs := make([][]string, nclients)
		for cl := 0; cl < nclients; cl++ {
			ntx := 1 + r.Intn(4)
			if mode == "sched" {
				ntx = 1 + r.Intn(2)
			}
			var p []string
			for t := 0; t < ntx; t++ {
				ro := r.Intn(5) < 2
				if ro {
					p = append(p, "begin ro")
				} else {
					p = append(p, "begin rw")
				}
				nops := 1 + r.Intn(6)
				for o := 0; o < nops; o++ {
					k := c04Keys[r.Intn(nkeys)]
					var choice int
					if ro {
						choice = pick(r, 55, 4, 2, 39) // get put del scan
					} else {
						choice = pick(r, 35, 35, 12, 18)
					}
					switch choice {
					case 0:
						p = append(p, "get "+k)
					case 1:
						valctr++
						p = append(p, fmt.Sprintf("put %s %02x%02x%02x", k, i&0xff, valctr>>8, valctr&0xff))
					case 2:
						p = append(p, "del "+k)
					case 3:
						switch r.Intn(4) {
						case 0, 1:
							p = append(p, "scan * *")
						case 2:
							p = append(p, "scan "+c04Keys[r.Intn(nkeys)]+" *")
						default:
							a, b := c04Keys[r.Intn(nkeys)], c04Keys[r.Intn(nkeys)]
							if a > b {
								a, b = b, a
							}
							p = append(p, "scan "+a+" "+b)
						}
					}
				}
				switch pick(r, 70, 24, 6) {
				case 0:
					p = append(p, "commit")
				case 1:
					p = append(p, "rollback")
				default: // left open: finished by the next begin / the end of the client
				}
				if r.Intn(8) == 0 { // calls on a finished transaction
					switch r.Intn(4) {
					case 0:
						p = append(p, "get "+c04Keys[r.Intn(nkeys)])
					case 1:
						p = append(p, "commit")
					case 2:
						p = append(p, "put "+c04Keys[r.Intn(nkeys)]+" ee")
					default:
						p = append(p, "scan * *")
					}
				}
			}
			progs[cl] = p
		}
		fmt.Fprintf(w, "case g%d-%d mode=%s clients=%d reps=%d yseed=%d\n", seed, i, mode, nclients, reps, 1+r.Intn(1<<20))
		// interleave the programs (the file order is the schedule in sched mode)
		pos := make([]int, nclients)
		left := 0
		for _, p := range progs {
			left += len(p)
		}
		for left > 0 {
			cl := r.Intn(nclients)
			if pos[cl] >= len(progs[cl]) {
				continue
			}
			burst := 1 + r.Intn(3)
			for b := 0; b < burst && pos[cl] < len(progs[cl]); b++ {
				fmt.Fprintf(w, "%d %s\n", cl, progs[cl][pos[cl]])
				pos[cl]++
				left--
			}
		}
		fmt.Fprintln(w, "end")
	}
}
