//go:build verif

package main

import (
	"sync/atomic"
	"time"

	"github.com/KevoDB/kevo/pkg/verifhook"
)

const hooksOn = true

func setYield(seed uint64) { verifhook.SetYield(seed) }

// stallRotations makes some log rotations slow: every so often the gate between "old log marked
// as rotating" and "new log installed" is held for longer than the write path's retry budget
// (3 attempts, 10 ms apart), so that writes and commits in flight FAIL with "WAL is rotating".
// What a failed call leaves behind (locks, flags) is then exercised by the calls that follow.
func stallRotations(stop *atomic.Bool) {
	go func() {
		for !stop.Load() {
			time.Sleep(120 * time.Millisecond)
			verifhook.Hold("rotate.marked")
			time.Sleep(70 * time.Millisecond)
			verifhook.Release("rotate.marked")
		}
		verifhook.Release("rotate.marked")
	}()
}
