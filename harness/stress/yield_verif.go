//go:build verif

package main

import "github.com/KevoDB/kevo/pkg/verifhook"

const hooksOn = true

func setYield(seed uint64) { verifhook.SetYield(seed) }
