//go:build !verif

package main

const hooksOn = false

func setYield(seed uint64) {}
