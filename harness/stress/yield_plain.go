//go:build !verif

package main

import "sync/atomic"

const hooksOn = false

func setYield(seed uint64) {}

func stallRotations(stop *atomic.Bool) {}
