// kevo_stress: the dynamic half of the C07 check ("concurrent use never races, crashes or
// hangs the process"). One process = one stress run over ONE open engine: N goroutines issue
// the property's mix of public calls (put/delete/get/scan/batch/read-only and read-write
// transactions/explicit flush/TriggerCompaction/CompactRange/GetStats/GetCompactionStats) for
// a fixed time while the background flush and compaction goroutines run.
//
// Built twice by the harness: `go build -race -tags verif` (schedule perturbation through
// verifhook.Yield; note that verifhook.Point takes a package mutex, which adds
// happens-before edges the race detector honours) and `go build -race` without the tag
// (hooks compiled out: no extra synchronisation, no perturbation).
//
// What the parent (harness/c07.go) looks for on stderr: "WARNING: DATA RACE" blocks,
// "fatal error:", "panic:", and the watchdog line printed below when a call has not
// returned within -watchdog seconds (followed by a dump of every goroutine).
package main

import (
	"context"
	"flag"
	"fmt"
	"math/rand"
	"os"
	"runtime"
	"runtime/pprof"
	"sort"
	"strings"
	"sync"
	"sync/atomic"
	"time"

	"github.com/KevoDB/kevo/pkg/config"
	"github.com/KevoDB/kevo/pkg/engine"
	"github.com/KevoDB/kevo/pkg/stats"
	"github.com/KevoDB/kevo/pkg/transaction"
	"github.com/KevoDB/kevo/pkg/wal"
)

var opNames = []string{"put", "delete", "get", "isdeleted", "scan", "range", "batch", "rotx", "rwtx",
	"flush", "compact", "compactrange", "stats", "cstats", "txstats", "regtx", "regclean", "collector"}

// weights per mix, in the order of opNames
var mixes = map[string][]int{
	//            put del get isd scan rng bat rotx rwtx fl cmp crg st cst txs regtx regclean collector
	"all":      {20, 14, 12, 2, 4, 4, 6, 4, 5, 3, 2, 2, 4, 3, 1, 3, 1, 2},
	"delete":   {6, 50, 6, 2, 2, 2, 10, 0, 2, 2, 2, 1, 3, 3, 0, 0, 0, 0},
	"putflush": {40, 6, 10, 0, 6, 4, 6, 0, 0, 12, 0, 0, 4, 0, 0, 0, 0, 0},
	"tx":       {10, 6, 6, 0, 2, 2, 4, 20, 24, 2, 0, 0, 4, 0, 4, 0, 0, 0},
	"compact":  {24, 14, 6, 0, 3, 3, 6, 1, 2, 8, 10, 8, 4, 8, 0, 0, 0, 0},
	"scan":     {24, 10, 6, 0, 20, 16, 6, 4, 2, 6, 1, 1, 2, 1, 0, 0, 0, 0},
	"stats":    {20, 10, 6, 2, 2, 2, 6, 2, 2, 4, 4, 2, 20, 14, 4, 0, 0, 20},
	"registry": {10, 6, 6, 0, 2, 2, 4, 4, 4, 2, 0, 0, 4, 0, 4, 30, 8, 0},
	// writers only, up to the moment of Close: the background flush is then still at work
	"puts": {80, 8, 6, 0, 0, 0, 6, 0, 0, 0, 0, 0, 0, 0, 0, 0, 0, 0},
}

type slot struct {
	start atomic.Int64 // unix nanos of the call in flight, 0 = none
	op    atomic.Int32
	_     [40]byte
}

func key(r *rand.Rand, nkeys int) []byte {
	return []byte(fmt.Sprintf("k%04d", r.Intn(nkeys)))
}

// values are unique (goroutine.counter prefix) so that a write that reported an error can be
// recognised if it is visible afterwards; one in twenty is empty
func val(r *rand.Rand, g int, ctr *int) []byte {
	if r.Intn(20) == 0 {
		return []byte{}
	}
	*ctr++
	b := []byte(fmt.Sprintf("g%d.%d|", g, *ctr))
	n := r.Intn(110)
	for i := 0; i < n; i++ {
		b = append(b, byte('a'+r.Intn(26)))
	}
	return b
}

// a write that returned an error
type failedWrite struct {
	call, err string
	k, v      []byte
}

type iter interface {
	SeekToFirst()
	Valid() bool
	Next() bool
	Key() []byte
	Value() []byte
	Seek([]byte) bool
	IsTombstone() bool
}

func drain(it iter, r *rand.Rand) int {
	n := 0
	if r.Intn(4) == 0 {
		it.Seek([]byte(fmt.Sprintf("k%04d", r.Intn(64))))
	} else {
		it.SeekToFirst()
	}
	for it.Valid() && n < 100000 {
		_ = it.Key()
		_ = it.Value()
		_ = it.IsTombstone()
		n++
		it.Next()
	}
	return n
}

// firstSamples: the statistics collector while operation types, error kinds and latency trackers
// are seen for the FIRST time (map entries being created) under concurrent readers. Each round
// uses a fresh collector: three goroutines read (GetStats / GetStatsFiltered), two record first
// samples of new names, four record the same new names at the same time. A panic or fatal error ends the process (the parent reports it).
func firstSamples(seed int64, rounds int) {
	for rd := 0; rd < rounds; rd++ {
		coll := stats.NewAtomicCollector()
		var stop atomic.Bool
		var wg, readers sync.WaitGroup
		for p := 0; p < 3; p++ {
			readers.Add(1)
			go func(p int) {
				defer readers.Done()
				for !stop.Load() {
					if p == 0 {
						for k, v := range coll.GetStatsFiltered("op") {
							_, _ = k, v
						}
					} else {
						for k, v := range coll.GetStats() {
							_, _ = k, v
						}
					}
				}
			}(p)
		}
		for t := 0; t < 2; t++ {
			wg.Add(1)
			go func(t int) {
				defer wg.Done()
				r := rand.New(rand.NewSource(seed*7 + int64(rd*2+t)))
				for i := 0; i < 24; i++ {
					op := stats.OperationType(fmt.Sprintf("op%d-%d", t, i))
					switch r.Intn(4) {
					case 0:
						coll.TrackOperation(op)
					case 1:
						coll.TrackError(fmt.Sprintf("err%d-%d", t, i))
					default:
						coll.TrackOperationWithLatency(op, uint64(r.Intn(1000)))
					}
				}
			}(t)
		}
		// ... and the SAME new name recorded for the first time by several goroutines at once (the
		// double-checked creation of its counter: the loser of the race must use the winner's)
		start := make(chan struct{})
		for t := 0; t < 4; t++ {
			wg.Add(1)
			go func(t int) {
				defer wg.Done()
				<-start
				for i := 0; i < 6; i++ {
					op := stats.OperationType(fmt.Sprintf("same-op-%d", i))
					coll.TrackError(fmt.Sprintf("same-err-%d", i))
					coll.TrackOperation(op)
					coll.TrackOperationWithLatency(stats.OperationType(fmt.Sprintf("same-lat-%d", i)), uint64(i))
				}
			}(t)
		}
		close(start)
		wg.Wait()
		stop.Store(true)
		readers.Wait()
	}
}

func main() {
	dir := flag.String("dir", "", "database directory (created)")
	seed := flag.Int64("seed", 1, "seed of the operation streams and of the yield perturbation")
	gor := flag.Int("gor", 16, "client goroutines")
	ms := flag.Int("ms", 3000, "duration of the stress phase in milliseconds")
	mix := flag.String("mix", "all", "operation mix")
	mem := flag.Int64("mem", 4096, "memtable size in bytes")
	nkeys := flag.Int("keys", 64, "size of the key alphabet")
	yield := flag.Int("yield", 1, "1 = verifhook.SetYield(seed) (only with the verif build tag)")
	wd := flag.Int("watchdog", 30, "seconds a single call may take")
	cint := flag.Int64("cint", 1, "compaction interval in seconds (background compaction)")
	syncMode := flag.Int("sync", 0, "WAL sync mode 0 none, 1 batch, 2 immediate")
	flag.Parse()
	w, ok := mixes[*mix]
	if !ok || *dir == "" {
		fmt.Fprintln(os.Stderr, "kevo_stress: bad -mix or missing -dir")
		os.Exit(2)
	}
	wal.DisableRecoveryLogs = true
	cfg := config.NewDefaultConfig(*dir)
	cfg.MemTableSize = *mem
	cfg.MaxMemTables = 4
	cfg.CompactionInterval = *cint
	cfg.WALSyncMode = config.SyncMode(*syncMode)
	if err := os.MkdirAll(*dir, 0755); err != nil {
		fmt.Fprintln(os.Stderr, "kevo_stress: mkdir:", err)
		os.Exit(2)
	}
	if err := cfg.SaveManifest(*dir); err != nil {
		fmt.Fprintln(os.Stderr, "kevo_stress: manifest:", err)
		os.Exit(2)
	}
	if *yield != 0 {
		setYield(uint64(*seed))
	}
	fmt.Fprintln(os.Stderr, "STRESS-PHASE first-samples")
	firstSamples(*seed, 400)
	fmt.Fprintln(os.Stderr, "STRESS-PHASE stress")
	e, err := engine.NewEngineFacade(*dir)
	if err != nil {
		fmt.Fprintln(os.Stderr, "kevo_stress: open:", err)
		os.Exit(2)
	}

	// a transaction registry over the engine (what the network service puts in front of
	// BeginTransaction) and a free-standing statistics collector: both are public entry points
	reg := transaction.NewRegistry()
	coll := stats.NewAtomicCollector()

	slots := make([]slot, *gor)
	counts := make([][]int64, *gor)
	errs := make([]map[string]int, *gor)
	failed := make([][]failedWrite, *gor)
	var stop atomic.Bool
	var done atomic.Bool
	phase := atomic.Value{}
	phase.Store("stress")

	// watchdog: every call must return within wd seconds
	go func() {
		for !done.Load() {
			time.Sleep(200 * time.Millisecond)
			now := time.Now().UnixNano()
			for g := range slots {
				s := slots[g].start.Load()
				if s != 0 && now-s > int64(*wd)*int64(time.Second) {
					fmt.Fprintf(os.Stderr, "\nWATCHDOG call=%s goroutine=%d phase=%s not returned after %ds seed=%d mix=%s\n",
						opNames[slots[g].op.Load()], g, phase.Load(), *wd, *seed, *mix)
					pprof.Lookup("goroutine").WriteTo(os.Stderr, 2)
					os.Exit(3)
				}
			}
		}
	}()

	total := 0
	for _, x := range w {
		total += x
	}
	if *seed%8 != 7 {
		stallRotations(&stop)
	}
	var wg sync.WaitGroup
	for g := 0; g < *gor; g++ {
		wg.Add(1)
		counts[g] = make([]int64, len(opNames))
		errs[g] = map[string]int{}
		go func(g int) {
			defer wg.Done()
			r := rand.New(rand.NewSource(*seed*1000 + int64(g)))
			ctr := 0
			fail := func(call string, err error, k, v []byte) {
				if err != nil && len(v) > 0 {
					failed[g] = append(failed[g], failedWrite{call, err.Error(), k, v})
				}
			}
			note := func(op string, err error) {
				if err != nil {
					m := err.Error()
					if strings.Contains(m, "not found") {
						return
					}
					if len(m) > 60 {
						m = m[:60]
					}
					errs[g][op+":"+m]++
				}
			}
			for !stop.Load() {
				k := r.Intn(total)
				op := 0
				for i, x := range w {
					if k < x {
						op = i
						break
					}
					k -= x
				}
				slots[g].op.Store(int32(op))
				slots[g].start.Store(time.Now().UnixNano())
				switch opNames[op] {
				case "put":
					k, v := key(r, *nkeys), val(r, g, &ctr)
					err := e.Put(k, v)
					note("put", err)
					fail("put", err, k, v)
				case "delete":
					note("delete", e.Delete(key(r, *nkeys)))
				case "get":
					_, err := e.Get(key(r, *nkeys))
					note("get", err)
				case "isdeleted":
					_, err := e.IsDeleted(key(r, *nkeys))
					note("isdeleted", err)
				case "scan":
					it, err := e.GetIterator()
					note("scan", err)
					if err == nil {
						drain(it, r)
					}
				case "range":
					a, b := key(r, *nkeys), key(r, *nkeys)
					if string(a) > string(b) {
						a, b = b, a
					}
					it, err := e.GetRangeIterator(a, b)
					note("range", err)
					if err == nil {
						drain(it, r)
					}
				case "batch":
					n := 1 + r.Intn(6)
					var es []*wal.Entry
					for i := 0; i < n; i++ {
						if r.Intn(3) == 0 {
							es = append(es, &wal.Entry{Type: wal.OpTypeDelete, Key: key(r, *nkeys)})
						} else {
							es = append(es, &wal.Entry{Type: wal.OpTypePut, Key: key(r, *nkeys), Value: val(r, g, &ctr)})
						}
					}
					err := e.ApplyBatch(es)
					note("batch", err)
					for _, en := range es {
						if en.Type == wal.OpTypePut {
							fail("batch", err, en.Key, en.Value)
						}
					}
				case "rotx", "rwtx":
					ro := opNames[op] == "rotx"
					tx, err := e.BeginTransaction(ro)
					note("begin", err)
					if err != nil {
						break
					}
					_ = tx.IsReadOnly()
					var txPuts [][2][]byte
					n := 1 + r.Intn(5)
					for i := 0; i < n; i++ {
						switch r.Intn(5) {
						case 0, 1:
							_, err := tx.Get(key(r, *nkeys))
							note("tx.get", err)
						case 2:
							k, v := key(r, *nkeys), val(r, g, &ctr)
							err := tx.Put(k, v)
							if !ro {
								note("tx.put", err)
								txPuts = append(txPuts, [2][]byte{k, v})
							}
						case 3:
							err := tx.Delete(key(r, *nkeys))
							if !ro {
								note("tx.delete", err)
							}
						case 4:
							if r.Intn(2) == 0 {
								drain(tx.NewIterator(), r)
							} else {
								a, b := key(r, *nkeys), key(r, *nkeys)
								if string(a) > string(b) {
									a, b = b, a
								}
								drain(tx.NewRangeIterator(a, b), r)
							}
						}
					}
					if r.Intn(4) == 0 {
						note("rollback", tx.Rollback())
					} else {
						err := tx.Commit()
						note("commit", err)
						for _, p := range txPuts {
							fail("commit", err, p[0], p[1])
						}
					}
				case "flush":
					note("flush", e.FlushImMemTables())
				case "compact":
					note("compact", e.TriggerCompaction())
				case "compactrange":
					a, b := key(r, *nkeys), key(r, *nkeys)
					if string(a) > string(b) {
						a, b = b, a
					}
					note("compactrange", e.CompactRange(a, b))
				case "stats":
					st := e.GetStats()
					for k, v := range st { // consume the returned map, values included
						_ = k + fmt.Sprint(v)
					}
					_ = e.IsReadOnly()
					if w := e.GetWAL(); w != nil { // what the replication manager does at start-up
						_ = w.GetNextSequence()
					}
				case "cstats":
					st, err := e.GetCompactionStats()
					note("cstats", err)
					// a caller reads what it was handed, every element of every slice and map in it,
					// now and a little later (statistics given to a caller are the caller's)
					for k, v := range st {
						_ = k + fmt.Sprint(v)
					}
					runtime.Gosched()
					for k, v := range st {
						_ = k + fmt.Sprint(v)
					}
				case "regtx":
					conn := fmt.Sprintf("conn-%d", r.Intn(4))
					ctx := context.WithValue(context.Background(), "peer", conn)
					ro := r.Intn(2) == 0
					id, err := reg.Begin(ctx, e, ro)
					note("reg.begin", err)
					if err != nil {
						break
					}
					n := 1 + r.Intn(4)
					for i := 0; i < n; i++ {
						tx, ok := reg.Get(id)
						if !ok {
							break // cleaned up by another client's CleanupConnection
						}
						switch r.Intn(3) {
						case 0:
							tx.Get(key(r, *nkeys))
						case 1:
							tx.Put(key(r, *nkeys), val(r, g, &ctr))
						case 2:
							tx.Delete(key(r, *nkeys))
						}
					}
					// now and then the transaction is used by two goroutines at once (a client that
					// pipelines its calls): one walks an iterator of the transaction while the other
					// overwrites and deletes keys the transaction has already written
					if tx, ok := reg.Get(id); ok && !ro && r.Intn(4) == 0 {
						k1, k2 := key(r, *nkeys), key(r, *nkeys)
						tx.Put(k1, val(r, g, &ctr))
						tx.Put(k2, val(r, g, &ctr))
						it := tx.NewIterator()
						var hw sync.WaitGroup
						hw.Add(1)
						go func() {
							defer hw.Done()
							for i := 0; i < 20; i++ {
								tx.Put(k1, []byte(fmt.Sprintf("again-%d", i)))
								if i%5 == 4 {
									tx.Delete(k2)
								}
							}
						}()
						for it.SeekToFirst(); it.Valid(); it.Next() {
							_ = string(it.Key()) + string(it.Value())
							_ = it.IsTombstone()
						}
						hw.Wait()
					}
					if tx, ok := reg.Get(id); ok {
						if r.Intn(3) == 0 {
							tx.Rollback()
						} else {
							tx.Commit()
						}
					}
					reg.Remove(id)
				case "regclean":
					if r.Intn(2) == 0 {
						reg.CleanupConnection(fmt.Sprintf("conn-%d", r.Intn(4)))
					} else if ri, ok := reg.(*transaction.RegistryImpl); ok {
						ri.CleanupStaleTransactions()
					}
				case "collector":
					op := stats.OperationType(fmt.Sprintf("op%d", r.Intn(40)))
					switch r.Intn(8) {
					case 0:
						coll.TrackOperation(op)
					case 1:
						coll.TrackOperationWithLatency(op, uint64(r.Intn(1000)))
					case 2:
						coll.TrackError(fmt.Sprintf("err%d", r.Intn(40)))
					case 3:
						coll.TrackBytes(r.Intn(2) == 0, 10)
						coll.TrackMemTableSize(uint64(r.Intn(1000)))
						coll.TrackFlush()
						coll.TrackCompaction()
					case 4:
						coll.FinishRecovery(coll.StartRecovery(), 1, 2, 3)
					case 5:
						for k, v := range coll.GetStatsFiltered("op1") {
							_, _ = k, v
						}
					default:
						for k, v := range coll.GetStats() {
							_, _ = k, v
						}
					}
				case "txstats":
					st := e.GetTransactionManager().GetTransactionStats()
					for k, v := range st {
						_, _ = k, v
					}
				}
				slots[g].start.Store(0)
				counts[g][op]++
			}
		}(g)
	}
	time.Sleep(time.Duration(*ms) * time.Millisecond)
	stop.Store(true)
	wg.Wait()

	// quiescent end: one more statistics call, then Close with no client call in flight
	// (Close racing client calls is outside the property; Close racing the engine's own
	// background goroutines is not)
	phase.Store("close")
	fmt.Fprintln(os.Stderr, "STRESS-PHASE close")
	slots[0].op.Store(12)
	slots[0].start.Store(time.Now().UnixNano())
	st := e.GetStats()
	// side check (C06's business, reported as a note): is a write that returned an error
	// really without effect?  Values are unique, so seeing one means the failed write landed.
	nFailed := 0
	checkFailed := func(when string, get func([]byte) ([]byte, error)) {
		for g := range failed {
			for _, f := range failed[g] {
				if v, err := get(f.k); err == nil && string(v) == string(f.v) {
					fmt.Fprintf(os.Stderr, "STRESS-EFFECT %s call=%s key=%s value=%.24s err=%q\n", when, f.call, f.k, f.v, f.err)
				}
			}
		}
	}
	for g := range failed {
		nFailed += len(failed[g])
	}
	checkFailed("live", e.Get)
	reg.GracefulShutdown(context.Background())
	// last sequential client calls: fill one memtable so that the background flush goroutine has
	// just been signalled when Close starts (Close races no client call, but it does run next to
	// the engine's own goroutines)
	{
		r := rand.New(rand.NewSource(*seed))
		ctr := 0
		for written := int64(0); written <= *mem+*mem/2; {
			v := val(r, 9999, &ctr)
			if err := e.Put(key(r, *nkeys), v); err != nil {
				break
			}
			written += int64(len(v)) + 16
		}
	}
	cerr := e.Close()
	// let a background flush that Close did not wait for run to its end, so that the race
	// detector sees both sides of a Close/flush race
	time.Sleep(300 * time.Millisecond)
	if nFailed > 0 && cerr == nil {
		if e2, err := engine.NewEngineFacade(*dir); err == nil {
			checkFailed("reopen", e2.Get)
			e2.Close()
		} else {
			fmt.Fprintf(os.Stderr, "STRESS-NOTE reopen failed: %v\n", err)
		}
	}
	slots[0].start.Store(0)
	done.Store(true)

	sum := make([]int64, len(opNames))
	var all int64
	for g := range counts {
		for i, c := range counts[g] {
			sum[i] += c
			all += c
		}
	}
	var parts []string
	for i, n := range opNames {
		parts = append(parts, fmt.Sprintf("%s=%d", n, sum[i]))
	}
	em := map[string]int{}
	for g := range errs {
		for k, v := range errs[g] {
			em[k] += v
		}
	}
	var ek []string
	for k := range em {
		ek = append(ek, k)
	}
	sort.Strings(ek)
	fmt.Fprintf(os.Stderr, "STRESS-DONE calls=%d %s sstables=%v flushes=%v failed_writes=%d close_err=%v\n", all, strings.Join(parts, " "),
		st["storage_sstable_count"], st["flush_count"], nFailed, cerr)
	for _, k := range ek {
		fmt.Fprintf(os.Stderr, "STRESS-ERR %d x %s\n", em[k], strings.ReplaceAll(k, "\n", " "))
	}
}
