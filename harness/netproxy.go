package main

// A TCP forwarder the harness controls (C14 temporary disconnects, C15 stalled / cut
// connections): it listens on a loopback port and relays every accepted connection to a
// target address.  Modes: pass (relay), cut (close every relayed connection and refuse new
// ones), stall (stop relaying bytes in both directions without closing anything: the peer's
// TCP window fills and its writes block).

import (
	"net"
	"sync"
	"sync/atomic"
)

type netProxy struct {
	ln     net.Listener
	target string
	mu     sync.Mutex
	conns  map[net.Conn]struct{}
	cut    atomic.Bool
	stall  atomic.Bool
	gate   chan struct{} // closed when not stalled
	closed atomic.Bool
	bytes  atomic.Int64 // bytes relayed towards the client side (primary -> replica)
}

func newNetProxy(target string) (*netProxy, error) {
	ln, err := net.Listen("tcp", "127.0.0.1:0")
	if err != nil {
		return nil, err
	}
	p := &netProxy{ln: ln, target: target, conns: map[net.Conn]struct{}{}, gate: make(chan struct{})}
	close(p.gate)
	go p.accept()
	return p, nil
}

func (p *netProxy) addr() string { return p.ln.Addr().String() }

func (p *netProxy) track(c net.Conn) {
	p.mu.Lock()
	p.conns[c] = struct{}{}
	p.mu.Unlock()
}

func (p *netProxy) untrack(c net.Conn) {
	p.mu.Lock()
	delete(p.conns, c)
	p.mu.Unlock()
}

func (p *netProxy) accept() {
	for {
		c, err := p.ln.Accept()
		if err != nil {
			return
		}
		if p.cut.Load() {
			c.Close()
			continue
		}
		up, err := net.Dial("tcp", p.target)
		if err != nil {
			c.Close()
			continue
		}
		p.track(c)
		p.track(up)
		go p.pipe(c, up, false)
		go p.pipe(up, c, true)
	}
}

func (p *netProxy) waitGate() {
	for {
		p.mu.Lock()
		g := p.gate
		p.mu.Unlock()
		<-g
		if !p.stall.Load() {
			return
		}
	}
}

func (p *netProxy) pipe(src, dst net.Conn, down bool) {
	defer func() {
		src.Close()
		dst.Close()
		p.untrack(src)
		p.untrack(dst)
	}()
	buf := make([]byte, 32*1024)
	for {
		if p.stall.Load() {
			p.waitGate()
		}
		n, err := src.Read(buf)
		if n > 0 {
			if p.stall.Load() {
				p.waitGate()
			}
			if _, werr := dst.Write(buf[:n]); werr != nil {
				return
			}
			if down {
				p.bytes.Add(int64(n))
			}
		}
		if err != nil {
			return
		}
	}
}

// Cut closes every relayed connection (abruptly: both sides see a reset/EOF) and refuses
// new ones until Heal.
func (p *netProxy) Cut() {
	p.cut.Store(true)
	p.dropAll()
}

func (p *netProxy) dropAll() {
	p.mu.Lock()
	cs := make([]net.Conn, 0, len(p.conns))
	for c := range p.conns {
		cs = append(cs, c)
	}
	p.mu.Unlock()
	for _, c := range cs {
		if tc, ok := c.(*net.TCPConn); ok {
			tc.SetLinger(0)
		}
		c.Close()
	}
}

func (p *netProxy) Heal() { p.cut.Store(false) }

// Stall freezes the relay (connections stay open, no byte moves).
func (p *netProxy) Stall() {
	p.mu.Lock()
	if !p.stall.Load() {
		p.gate = make(chan struct{})
		p.stall.Store(true)
	}
	p.mu.Unlock()
}

func (p *netProxy) Unstall() {
	p.mu.Lock()
	if p.stall.Load() {
		p.stall.Store(false)
		close(p.gate)
	}
	p.mu.Unlock()
}

func (p *netProxy) Close() {
	if p.closed.Swap(true) {
		return
	}
	p.ln.Close()
	p.Unstall()
	p.dropAll()
}

// freeAddr returns a loopback address whose port was free a moment ago (the replication
// manager listens inside a goroutine and does not report the port it got).
func freeAddr() string {
	l, err := net.Listen("tcp", "127.0.0.1:0")
	if err != nil {
		panic(err)
	}
	a := l.Addr().String()
	l.Close()
	return a
}
