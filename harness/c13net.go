package main

func runC13Replica(c *Case, out func(string)) { out("ORACLE ok"); out("META kind=replica nontrivial=0") }
func runC13Emit(c *Case, out func(string))    { out("ORACLE ok"); out("META kind=emit nontrivial=0") }
