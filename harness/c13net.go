package main

// C13, timing-dependent scenarios (oracle only; the model prints nothing for them).
//
// kind=emit     the real Primary emits: history written to a real WAL, then Primary.StreamWAL
//               is called directly with an in-memory server stream; every response goes to the
//               real WALBatchApplier, a gap is answered through Primary.NegativeAcknowledge,
//               an applied delivery through Primary.Acknowledge - the loop a replica runs, without
//               a network. The primary's fetch (100 entries, extended to the end of the
//               transaction since f62340e) must never leave a transaction torn: no known-
//               finding class excuses a failure here.  header: start=N (the StartSequence the replica asks for)
// kind=replica  a real replication.Replica (NewReplica(0, recorder, cfg) + Start) over loopback
//               gRPC against a scripted primary that serves the log from the requested
//               StartSequence in chunks.  header: chunk=N entries per response, codec=none|zstd|
//               snappy (payloads compressed with the real CompressionManager), skip=1 (the first
//               response of the second stream starts one entry late), restart=K (after K applied
//               entries the Replica is stopped and a new one built the way the manager does),
//               push=1 (the whole log is sent on the first stream, one response of chunk entries
//               behind the other: every part of a split transaction is delivered)

import (
	"context"
	"fmt"
	"net"
	"os"
	"path/filepath"
	"strconv"
	"sync"
	"time"

	"github.com/KevoDB/kevo/pkg/config"
	"github.com/KevoDB/kevo/pkg/replication"
	"github.com/KevoDB/kevo/pkg/wal"
	rpb "github.com/KevoDB/kevo/proto/kevo/replication"
	"google.golang.org/grpc"
	"google.golang.org/grpc/metadata"
)

// ---- in-memory server side of a StreamWAL call ----

type c13Stream struct {
	grpc.ServerStream
	ctx context.Context
	ch  chan *rpb.WALStreamResponse
	mu  sync.Mutex
	hdr metadata.MD
}

func (s *c13Stream) Send(r *rpb.WALStreamResponse) error {
	select {
	case s.ch <- r:
	default: // the consumer is gone
	}
	return nil
}
func (s *c13Stream) SendHeader(md metadata.MD) error { s.mu.Lock(); s.hdr = md; s.mu.Unlock(); return nil }
func (s *c13Stream) SetHeader(md metadata.MD) error  { return s.SendHeader(md) }
func (s *c13Stream) SetTrailer(metadata.MD)          {}
func (s *c13Stream) Context() context.Context        { return s.ctx }
func (s *c13Stream) SendMsg(any) error               { return nil }
func (s *c13Stream) RecvMsg(any) error               { return nil }

func c13WriteHistory(w *wal.WAL, lines [][]string) (ref []c13Entry, err error) {
	p := &c13Primary{w: w, kind: "sched"}
	ref, _, _, _, err = p.write(lines)
	return
}

// judge an applied list against the log: the common, model-free part of the oracle
// primaryProduced: the deliveries come from the real Primary, which (since f62340e) never cuts a
// transaction: the class cut_group_acknowledged does not excuse anything then
func c13JudgeApplied(o *c13Oracle, label string, app []c13Entry, cur uint64, primaryProduced bool) {
	cutClass := "cut_group_acknowledged"
	if primaryProduced {
		cutClass = ""
	}
	d := &c13Deliv{form: "seg", i: -1, j: -1, failat: -1}
	nBefore := o.n
	if !o.tainted {
		for x := range app {
			if o.n+x >= len(o.L) || !c13Same(app[x], o.L[o.n+x]) {
				want := "nothing (log exhausted)"
				if o.n+x < len(o.L) {
					want = "L[" + strconv.Itoa(o.n+x) + "] = " + o.L[o.n+x].String()
				}
				cls := ""
				if o.restarted {
					cls = "replica_restart_replays"
				} else if o.midGroup(o.n) {
					cls = cutClass // the rest of a cut transaction was skipped
				}
				o.fail(cls, fmt.Sprintf("%s: with L[0,%d) applied the replica applied {%s} where the primary's history continues with %s", label, o.n+x, app[x].String(), want))
				o.tainted = true
				break
			}
		}
		if !o.tainted {
			o.n += len(app)
		}
	}
	_ = d
	_ = nBefore
	o.all = append(o.all, app...)
	if cur < o.cur {
		o.fail("", fmt.Sprintf("%s: reported applied sequence went back from %d to %d", label, o.cur, cur))
	}
	if len(o.all) > 0 && cur != o.start && cur > o.all[len(o.all)-1].seq {
		o.fail("", fmt.Sprintf("%s: reports %d, the last applied entry carries %d", label, cur, o.all[len(o.all)-1].seq))
	}
	if !o.tainted && o.n < len(o.L) && o.L[o.n].seq <= cur {
		cls := ""
		if o.midGroup(o.n) && o.L[o.n].seq == cur {
			cls = cutClass
		}
		o.fail(cls, fmt.Sprintf("%s: reports %d as applied, but L[%d] = {%s} is not applied", label, cur, o.n, o.L[o.n].String()))
	}
	o.cur = cur
}

func runC13Emit(c *Case, out func(string)) {
	wal.DisableRecoveryLogs = true
	dir := tmpDir("c13e-")
	defer os.RemoveAll(dir)
	cfg := config.NewDefaultConfig(dir)
	cfg.WALSyncMode = config.SyncNone
	w, err := wal.NewWAL(cfg, filepath.Join(dir, "wal"))
	if err != nil {
		out("IMPL-ERROR " + err.Error())
		return
	}
	// the history is complete before the stream starts: a write racing with the primary's
	// poll can deadlock the primary (lock order WAL.mu / session.mu, a C15 matter)
	if _, err := c13WriteHistory(w, c.Lines); err != nil {
		out("IMPL-ERROR " + err.Error())
		return
	}
	got, err := w.GetEntriesFrom(1)
	if err != nil {
		out("IMPL-ERROR " + err.Error())
		return
	}
	start := parseNum(hdrVal(c.Hdr, "start", "1"))
	if start == 0 {
		start = 1
	}
	// a replica that asks for `start` owns everything below it
	o := &c13Oracle{start: start - 1, cur: start - 1}
	for _, e := range got {
		o.L = append(o.L, c13FromWal(e))
		if e.SequenceNumber < start {
			o.n++
		}
	}
	// live=1: the stream is open BEFORE the history is written (to a second, fresh log: the numbers
	// are the same): the primary pushes what is appended while the replica is connected, besides its
	// periodic fetch. Whatever path a response takes, it never carries part of a transaction.
	live := hdrVal(c.Hdr, "live", "0") == "1"
	if live {
		w.Close()
		dir2 := tmpDir("c13l-")
		defer os.RemoveAll(dir2)
		cfg2 := config.NewDefaultConfig(dir2)
		cfg2.WALSyncMode = config.SyncNone
		if w, err = wal.NewWAL(cfg2, filepath.Join(dir2, "wal")); err != nil {
			out("IMPL-ERROR " + err.Error())
			return
		}
	}
	pcfg := replication.DefaultPrimaryConfig()
	pcfg.CompressionCodec = rpb.CompressionCodec_NONE
	pcfg.EnableCompression = false
	p, err := replication.NewPrimary(w, pcfg)
	if err != nil {
		out("IMPL-ERROR " + err.Error())
		return
	}
	ctx, cancel := context.WithCancel(context.Background())
	fs := &c13Stream{ctx: ctx, ch: make(chan *rpb.WALStreamResponse, 256)}
	done := make(chan struct{})
	go func() {
		p.StreamWAL(&rpb.WALStreamRequest{StartSequence: start, ProtocolVersion: 1, ListenerAddress: "c13:1"}, fs)
		close(done)
	}()
	if live {
		go func() {
			time.Sleep(150 * time.Millisecond) // the session is registered
			if _, err := c13WriteHistory(w, c.Lines); err != nil {
				out("NOTE live history: " + err.Error())
			}
			w.Sync()
		}()
	}
	ap := replication.NewWALBatchApplier(start - 1)
	lastSeq := uint64(0)
	if len(o.L) > 0 {
		lastSeq = o.L[len(o.L)-1].seq
	}
	deliveries, gaps := 0, 0
	deadline := time.After(4 * time.Second)
	idle := 0
	finished := make(chan struct{})
	go func() {
		defer close(finished)
		for idle < 6 {
			select {
			case r := <-fs.ch:
				idle = 0
				var app []c13Entry
				ret, gap, err := ap.ApplyEntries(r.Entries, func(e *wal.Entry) error { app = append(app, c13FromWal(e)); return nil })
				deliveries++
				fs.mu.Lock()
				sid := ""
				if v := fs.hdr.Get("session-id"); len(v) > 0 {
					sid = v[0]
				}
				fs.mu.Unlock()
				actx := metadata.NewIncomingContext(context.Background(), metadata.Pairs("session-id", sid))
				if gap {
					gaps++
					p.NegativeAcknowledge(actx, &rpb.Nack{MissingFromSequence: ap.GetExpectedNext()})
				} else if err == nil {
					p.Acknowledge(actx, &rpb.Ack{AcknowledgedUpTo: ret})
				}
				c13JudgeApplied(o, fmt.Sprintf("delivery %d (%d entries from %d)", deliveries, len(r.Entries), r.Entries[0].SequenceNumber), app, ap.GetMaxApplied(), true)
				if ap.GetMaxApplied() >= lastSeq {
					return // everything is acknowledged: the primary has nothing more to send
				}
			case <-time.After(120 * time.Millisecond):
				idle++
				if ap.GetMaxApplied() < lastSeq && idle < 6 {
					continue
				}
			}
		}
	}()
	hung := false
	select {
	case <-finished:
	case <-deadline:
		hung = true
	}
	cancel()
	if !hung {
		select {
		case <-done:
		case <-time.After(time.Second):
			hung = true
		}
	}
	if !hung {
		p.Close()
		w.Close()
	} else {
		out("NOTE the primary did not return (lock order inversion between its poll and Acknowledge/append: C15)")
	}
	if !hung && !o.tainted && o.n < len(o.L) && len(o.kfs) == 0 {
		// the stream was quiet for 6 polls with entries outstanding: nothing more will come
		o.fail("", fmt.Sprintf("the primary stopped sending with L[%d] = {%s} never delivered (cursor %d)", o.n, o.L[o.n].String(), o.cur))
	}
	o.verdict(out)
	nt := 0
	if len(o.all) >= 3 && deliveries >= 2 {
		nt = 1
	}
	out(fmt.Sprintf("META kind=emit entries=%d deliveries=%d gaps=%d applied=%d kf=%d nontrivial=%d", len(o.L), deliveries, gaps, len(o.all), len(o.kfs), nt))
}

// ---- scripted primary for a real Replica ----

type c13Recorder struct {
	mu    sync.Mutex
	app   []c13Entry
	syncs int
}

func (r *c13Recorder) Apply(e *wal.Entry) error {
	r.mu.Lock()
	defer r.mu.Unlock()
	r.app = append(r.app, c13FromWal(e))
	return nil
}
func (r *c13Recorder) Sync() error { r.mu.Lock(); r.syncs++; r.mu.Unlock(); return nil }
func (r *c13Recorder) take() []c13Entry {
	r.mu.Lock()
	defer r.mu.Unlock()
	a := r.app
	r.app = nil
	return a
}

type c13FakePrimary struct {
	rpb.UnimplementedWALReplicationServiceServer
	mu      sync.Mutex
	L       []c13Entry
	chunk   int
	codec   rpb.CompressionCodec
	cm      *replication.CompressionManager
	skip    bool
	push    bool // all chunks of the log follow one another on the same stream
	resume  bool // a new stream continues behind the last entry SENT (position, not number)
	pos     int
	starts  []uint64
	nacks   []uint64
	acks    []uint64
	streams int
	sent    int
}

func (f *c13FakePrimary) response(from uint64, late bool) *rpb.WALStreamResponse {
	var es []*rpb.WALEntry
	for _, e := range f.L {
		if e.seq >= from && len(es) < f.chunk+1 {
			pe, _ := replication.WALEntryToProto(&wal.Entry{SequenceNumber: e.seq, Type: e.op, Key: e.k, Value: e.v}, rpb.FragmentType_FULL)
			es = append(es, pe)
		}
	}
	if late && len(es) > 1 {
		es = es[1:]
	} else if len(es) > f.chunk {
		es = es[:f.chunk]
	}
	resp := &rpb.WALStreamResponse{Entries: es, Codec: rpb.CompressionCodec_NONE}
	if f.codec != rpb.CompressionCodec_NONE {
		for _, e := range es {
			c, err := f.cm.Compress(e.Payload, f.codec)
			if err == nil {
				e.Payload = c
			}
		}
		resp.Compressed = true
		resp.Codec = f.codec
	}
	return resp
}

func (f *c13FakePrimary) StreamWAL(req *rpb.WALStreamRequest, stream rpb.WALReplicationService_StreamWALServer) error {
	f.mu.Lock()
	f.streams++
	k := f.streams
	f.starts = append(f.starts, req.StartSequence)
	late := f.skip && k == 2
	f.mu.Unlock()
	stream.SendHeader(metadata.Pairs("session-id", fmt.Sprintf("c13-%d", k)))
	if f.push {
		// the log from the first entry numbered >= StartSequence on, chunk entries per response, one
		// response behind the other on this stream: a transaction (one number) may be spread over
		// several responses, each of which is delivered
		first := len(f.L)
		for i, e := range f.L {
			if e.seq >= req.StartSequence {
				first = i
				break
			}
		}
		for i := first; i < len(f.L); i += f.chunk {
			j := i + f.chunk
			if j > len(f.L) {
				j = len(f.L)
			}
			var es []*rpb.WALEntry
			for _, e := range f.L[i:j] {
				pe, _ := replication.WALEntryToProto(&wal.Entry{SequenceNumber: e.seq, Type: e.op, Key: e.k, Value: e.v}, rpb.FragmentType_FULL)
				es = append(es, pe)
			}
			f.mu.Lock()
			f.sent++
			f.mu.Unlock()
			if err := stream.Send(&rpb.WALStreamResponse{Entries: es, Codec: rpb.CompressionCodec_NONE}); err != nil {
				return err
			}
			time.Sleep(5 * time.Millisecond)
		}
		<-stream.Context().Done()
		return nil
	}
	if f.resume {
		// the primary keeps its own cursor per replica: the next stream begins with the entry behind
		// the last one it sent, also when that is the rest of a transaction whose number the
		// replica reports already (StartSequence is one too high then). Every entry is delivered
		// exactly once, in order.
		f.mu.Lock()
		i := f.pos
		for i < len(f.L) && f.L[i].seq+1 < req.StartSequence {
			i++ // (never the case when the replica applies what it is sent)
		}
		j := i + f.chunk
		if j > len(f.L) {
			j = len(f.L)
		}
		f.pos = j
		f.mu.Unlock()
		var es []*rpb.WALEntry
		for _, e := range f.L[i:j] {
			pe, _ := replication.WALEntryToProto(&wal.Entry{SequenceNumber: e.seq, Type: e.op, Key: e.k, Value: e.v}, rpb.FragmentType_FULL)
			es = append(es, pe)
		}
		if len(es) > 0 {
			f.mu.Lock()
			f.sent++
			f.mu.Unlock()
			if err := stream.Send(&rpb.WALStreamResponse{Entries: es, Codec: rpb.CompressionCodec_NONE}); err != nil {
				return err
			}
		}
		<-stream.Context().Done()
		return nil
	}
	resp := f.response(req.StartSequence, late)
	if len(resp.Entries) > 0 {
		f.mu.Lock()
		f.sent++
		f.mu.Unlock()
		if err := stream.Send(resp); err != nil {
			return err
		}
	}
	<-stream.Context().Done()
	return nil
}

func (f *c13FakePrimary) Acknowledge(ctx context.Context, a *rpb.Ack) (*rpb.AckResponse, error) {
	f.mu.Lock()
	f.acks = append(f.acks, a.AcknowledgedUpTo)
	f.mu.Unlock()
	return &rpb.AckResponse{Success: true}, nil
}

func (f *c13FakePrimary) NegativeAcknowledge(ctx context.Context, n *rpb.Nack) (*rpb.NackResponse, error) {
	f.mu.Lock()
	f.nacks = append(f.nacks, n.MissingFromSequence)
	f.mu.Unlock()
	return &rpb.NackResponse{Success: true}, nil
}

func runC13Replica(c *Case, out func(string)) {
	wal.DisableRecoveryLogs = true
	dir := tmpDir("c13n-")
	defer os.RemoveAll(dir)
	cfg := config.NewDefaultConfig(dir)
	cfg.WALSyncMode = config.SyncNone
	w, err := wal.NewWAL(cfg, filepath.Join(dir, "wal"))
	if err != nil {
		out("IMPL-ERROR " + err.Error())
		return
	}
	defer w.Close()
	if _, err := c13WriteHistory(w, c.Lines); err != nil {
		out("IMPL-ERROR " + err.Error())
		return
	}
	got, _ := w.GetEntriesFrom(1)
	o := &c13Oracle{}
	for _, e := range got {
		o.L = append(o.L, c13FromWal(e))
	}
	chunk, _ := strconv.Atoi(hdrVal(c.Hdr, "chunk", "3"))
	restartAt, _ := strconv.Atoi(hdrVal(c.Hdr, "restart", "-1"))
	codec := rpb.CompressionCodec_NONE
	switch hdrVal(c.Hdr, "codec", "none") {
	case "zstd":
		codec = rpb.CompressionCodec_ZSTD
	case "snappy":
		codec = rpb.CompressionCodec_SNAPPY
	}
	cm, err := replication.NewCompressionManager()
	if err != nil {
		out("IMPL-ERROR " + err.Error())
		return
	}
	defer cm.Close()
	// the hypothesis of C13_wire on the real codecs, for every payload of this log
	for _, e := range o.L {
		pe, _ := replication.WALEntryToProto(&wal.Entry{SequenceNumber: e.seq, Type: e.op, Key: e.k, Value: e.v}, rpb.FragmentType_FULL)
		for _, cd := range []rpb.CompressionCodec{rpb.CompressionCodec_ZSTD, rpb.CompressionCodec_SNAPPY} {
			z, err := cm.Compress(pe.Payload, cd)
			if err != nil || len(z) == 0 {
				o.fail("", fmt.Sprintf("codec %v: compress of a %d byte payload gave %d bytes, err %v", cd, len(pe.Payload), len(z), err))
				continue
			}
			back, err := cm.Decompress(z, cd)
			if err != nil || string(back) != string(pe.Payload) {
				o.fail("", fmt.Sprintf("codec %v: decompress(compress(p)) != p (err %v)", cd, err))
			}
		}
	}
	fp := &c13FakePrimary{L: o.L, chunk: chunk, codec: codec, cm: cm, skip: hdrVal(c.Hdr, "skip", "0") == "1", push: hdrVal(c.Hdr, "push", "0") == "1", resume: hdrVal(c.Hdr, "resume", "0") == "1"}
	lis, err := net.Listen("tcp", "127.0.0.1:0")
	if err != nil {
		out("IMPL-ERROR " + err.Error())
		return
	}
	gs := grpc.NewServer()
	rpb.RegisterWALReplicationServiceServer(gs, fp)
	go gs.Serve(lis)
	defer gs.Stop()
	rec := &c13Recorder{}
	mkReplica := func() (*replication.Replica, error) {
		rc := replication.DefaultReplicaConfig()
		rc.Connection.PrimaryAddress = lis.Addr().String()
		rc.Connection.DialTimeout = 2 * time.Second
		rc.Connection.RetryBaseDelay = 10 * time.Millisecond
		rc.Connection.RetryMaxDelay = 20 * time.Millisecond
		rc.ReplicationListenerAddr = "127.0.0.1:1"
		r, err := replication.NewReplica(0, rec, rc) // manager.startReplica: lastApplied := 0
		if err != nil {
			return nil, err
		}
		return r, r.Start()
	}
	rep, err := mkReplica()
	if err != nil {
		out("IMPL-ERROR " + err.Error())
		return
	}
	budget, _ := strconv.Atoi(hdrVal(c.Hdr, "budget_ms", "6000"))
	deadline := time.Now().Add(time.Duration(budget) * time.Millisecond)
	samples, restarts := 0, 0
	quiet := 0
	var pushed []c13Entry
	for time.Now().Before(deadline) {
		time.Sleep(40 * time.Millisecond)
		app := rec.take()
		cur := rep.GetLastAppliedSequence()
		if len(app) > 0 && (fp.push || fp.resume) {
			// every part of a transaction is delivered: the state in between two responses is the
			// known finding C13-F1 (a number reported with its transaction half applied), what counts
			// here is what has been applied when the stream is quiet
			samples++
			quiet = 0
			pushed = append(pushed, app...)
		} else if len(app) > 0 {
			samples++
			quiet = 0
			c13JudgeApplied(o, fmt.Sprintf("sample %d", samples), app, cur, false)
		} else {
			quiet++
			if cur < o.cur {
				o.fail("", fmt.Sprintf("GetLastAppliedSequence went back from %d to %d", o.cur, cur))
			}
		}
		if restartAt >= 0 && restarts == 0 && len(o.all) >= restartAt {
			rep.Stop()
			restarts++
			o.restart()
			rep, err = mkReplica()
			if err != nil {
				out("IMPL-ERROR " + err.Error())
				return
			}
			continue
		}
		if (o.n == len(o.L) || o.tainted || len(pushed) >= len(o.L)) && quiet > 10 {
			break
		}
		if quiet > 60 {
			break
		}
	}
	if fp.push || fp.resume {
		// nothing excuses a missing or repeated entry: no delivery was withheld
		c13JudgeApplied(o, "when the stream was quiet", pushed, rep.GetLastAppliedSequence(), true)
		if !o.tainted && o.n < len(o.L) {
			o.fail("", fmt.Sprintf("every entry was delivered, L[%d] = {%s} was never applied", o.n, o.L[o.n].String()))
		}
	}
	stopped := make(chan struct{})
	go func() { rep.Stop(); close(stopped) }()
	select {
	case <-stopped:
	case <-time.After(3 * time.Second):
		out("NOTE Replica.Stop did not return within 3 s")
	}
	fp.mu.Lock()
	starts := append([]uint64{}, fp.starts...)
	nacks, acks, sent := len(fp.nacks), len(fp.acks), fp.sent
	fp.mu.Unlock()
	// every new stream asks for the entry behind what the replica reports as applied
	prev := uint64(0)
	for i, s := range starts {
		if s < prev && !(restarts > 0) {
			o.fail("", fmt.Sprintf("stream %d asks for sequence %d after an earlier stream asked for %d", i+1, s, prev))
		}
		prev = s
	}
	o.verdict(out)
	nt := 0
	if len(o.all) >= 3 && len(starts) >= 2 {
		nt = 1
	}
	out(fmt.Sprintf("META kind=replica entries=%d streams=%d responses=%d nacks=%d acks=%d applied=%d restarts=%d kf=%d nontrivial=%d",
		len(o.L), len(starts), sent, nacks, acks, len(o.all), restarts, len(o.kfs), nt))
}
