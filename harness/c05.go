package main

// C05 (scans return exactly the live keys, once, in order, within bounds).
// A C01-style program builds the data set (small memtable size: data spreads over the active
// table, immutable tables and SSTables); iterator sections then drive the real iterators:
//   iter full | iter range LO HI                     engine.GetIterator / GetRangeIterator
//   txiter full N | txiter range LO HI N  (+N lines "p K V" / "d K")
//                                                    read-write transaction with buffered ops,
//                                                    tx.NewIterator / tx.NewRangeIterator
//   filt P S                                         wraps the iterator the way service.Scan does
//                                                    (prefix inside, suffix outside; "nil"/"-" = none)
//   first | seek T | next | last                     positioning; observation line
//                                                    P <op> r=<ret> v=<valid> [k= x= t=]
//   scan LIMIT                                       a FRESH iterator of the section's kind consumed
//                                                    by the loop of service.Scan: lines "s K V", "S n="
// LO/HI/P/S are byte tokens or "nil". Oracle: sorted reference map of the acknowledged writes
// (plus the transaction's own operations), written from the property text.
// The concurrent clause is exercised by cases with header conc=1 (oracle only; the model side
// prints the same fixed line).

import (
	"bufio"
	"bytes"
	"fmt"
	"math/rand"
	"os"
	"sort"
	"strconv"
	"strings"
	"sync"
	"sync/atomic"
	"time"

	"github.com/KevoDB/kevo/pkg/common/iterator"
	"github.com/KevoDB/kevo/pkg/common/iterator/filtered"
	"github.com/KevoDB/kevo/pkg/engine"
	"github.com/KevoDB/kevo/pkg/engine/interfaces"
	engiter "github.com/KevoDB/kevo/pkg/engine/iterator"
	"github.com/KevoDB/kevo/pkg/memtable"
	"github.com/KevoDB/kevo/pkg/sstable"
	"github.com/KevoDB/kevo/pkg/verifhook"
	"github.com/KevoDB/kevo/pkg/wal"
)

func init() {
	register("C05", &Prop{Gen: genC05, Run: runC05})
}

func optTok(t string) []byte {
	if t == "nil" {
		return nil
	}
	return tok(t)
}

type refEntry struct {
	k    string
	v    []byte
	live bool
}

// c05View is what the property says an iterator section must show: every key that was ever
// written (or is touched by the transaction), ascending, with its latest value or the fact
// that it is deleted, restricted to the bounds and filters of the section.
type c05View struct {
	ents []refEntry // ascending, in range; deleted keys included (they may surface as tombstones)
}

func (v *c05View) find(k []byte) *refEntry {
	i := sort.Search(len(v.ents), func(i int) bool { return v.ents[i].k >= string(k) })
	if i < len(v.ents) && v.ents[i].k == string(k) {
		return &v.ents[i]
	}
	return nil
}

// liveBetween reports a live key k' with lo < k' < hi (bounds optional, loIncl makes lo inclusive)
func (v *c05View) liveBetween(lo *string, loIncl bool, hi *string) *refEntry {
	for i := range v.ents {
		e := &v.ents[i]
		if !e.live {
			continue
		}
		if lo != nil && (e.k < *lo || (!loIncl && e.k == *lo)) {
			continue
		}
		if hi != nil && e.k >= *hi {
			continue
		}
		return e
	}
	return nil
}

type c05Section struct {
	kind           string // full | range | txfull | txrange
	lo, hi         []byte
	prefix, suffix []byte
	tx             interfaces.Transaction
	txops          []bop
	mk             func() (iterator.Iterator, error)
	view           *c05View
	cur            iterator.Iterator
	prevValid      bool
	prevKey        string
	positioned     bool
}

func runC05(c *Case, out func(string)) {
	if hdrVal(c.Hdr, "conc", "0") == "1" {
		runC05Conc(c, out)
		return
	}
	dir := tmpDir("c05-")
	defer os.RemoveAll(dir)
	memsize, _ := strconv.ParseInt(hdrVal(c.Hdr, "memsize", "4096"), 10, 64)
	maxmem, _ := strconv.Atoi(hdrVal(c.Hdr, "maxmem", "1000"))
	stackMode := hdrVal(c.Hdr, "stack", "0") == "1"
	var e *engine.EngineFacade
	var err error
	var getIter func() (iterator.Iterator, error)
	var getRange func(lo, hi []byte) (iterator.Iterator, error)
	var layerStats func() (nonEmpty, tombstones, multiLayerKeys int)
	var stack *c05Stack
	if !stackMode {
		if err := writeManifest(dir, memsize, maxmem, nil); err != nil {
			out("IMPL-ERROR manifest " + err.Error())
			return
		}
		holdBackground()
		e, err = openEngine(dir)
		if err != nil {
			out("IMPL-ERROR open " + err.Error())
			return
		}
		defer func() { e.Close() }()
		getIter = func() (iterator.Iterator, error) { return e.GetIterator() }
		getRange = func(lo, hi []byte) (iterator.Iterator, error) { return e.GetRangeIterator(lo, hi) }
		layerStats = func() (int, int, int) {
			n, tomb := 0, 0
			seen := map[string]int{}
			for _, l := range e.VerifStorage().VerifLayers() {
				if len(l.Entries) > 0 {
					n++
				}
				ks := map[string]bool{}
				for _, en := range l.Entries {
					ks[string(en.Key)] = true
					if en.Tombstone {
						tomb++
					}
				}
				for k := range ks {
					seen[k]++
				}
			}
			multi := 0
			for _, cnt := range seen {
				if cnt > 1 {
					multi++
				}
			}
			return n, tomb, multi
		}
	}

	ref := map[string][]byte{} // latest acknowledged write per key (nil = deleted)
	oracleOK := true
	fail := func(m string) {
		if oracleOK {
			out("ORACLE FAIL " + m)
		}
		oracleOK = false
	}
	apply := func(ops []bop) {
		for _, o := range ops {
			if o.del {
				ref[string(o.k)] = nil
			} else {
				ref[string(o.k)] = append([]byte{}, o.v...)
			}
		}
	}
	var sec *c05Section
	endSection := func() {
		if sec != nil && sec.tx != nil {
			sec.tx.Rollback()
		}
		sec = nil
	}
	defer func() { endSection() }()
	nSections, nOps, nScans, maxSources, nTomb, nMultiLayerKeys := 0, 0, 0, 0, 0, 0

	inRange := func(s *c05Section, k string) bool {
		if s.lo != nil && k < string(s.lo) {
			return false
		}
		if s.hi != nil && k >= string(s.hi) {
			return false
		}
		if len(s.prefix) > 0 && !strings.HasPrefix(k, string(s.prefix)) {
			return false
		}
		if len(s.suffix) > 0 && !strings.HasSuffix(k, string(s.suffix)) {
			return false
		}
		return true
	}
	buildView := func(s *c05Section) {
		m := map[string][]byte{}
		for k, v := range ref {
			m[k] = v
		}
		for _, o := range s.txops {
			if o.del {
				m[string(o.k)] = nil
			} else {
				// a put stores a value, also when the caller passes nil ("no bytes")
				m[string(o.k)] = append([]byte{}, o.v...)
			}
		}
		v := &c05View{}
		for k, val := range m {
			if inRange(s, k) {
				v.ents = append(v.ents, refEntry{k: k, v: val, live: val != nil})
			}
		}
		sort.Slice(v.ents, func(i, j int) bool { return v.ents[i].k < v.ents[j].k })
		s.view = v
	}
	startSection := func(s *c05Section) bool {
		endSection()
		sec = s
		nSections++
		buildView(s)
		it, err := s.mk()
		if err != nil {
			out("IMPL-ERROR iterator " + err.Error())
			return false
		}
		s.cur = it
		// layer statistics for META
		n, tomb, multi := layerStats()
		if n > maxSources {
			maxSources = n
		}
		nTomb = tomb
		nMultiLayerKeys = multi
		return true
	}
	wrap := func(s *c05Section, it iterator.Iterator) iterator.Iterator {
		// as service.Scan: prefix iterator inside, suffix iterator outside
		if len(s.prefix) > 0 {
			it = filtered.NewPrefixIterator(it, s.prefix)
		}
		if len(s.suffix) > 0 {
			it = filtered.NewSuffixIterator(it, s.suffix)
		}
		return it
	}
	desc := func(s *c05Section) string {
		d := s.kind
		if s.kind == "range" || s.kind == "txrange" {
			d += fmt.Sprintf("[%s,%s)", renderOpt(s.lo), renderOpt(s.hi))
		}
		if len(s.prefix) > 0 {
			d += " prefix=" + render(s.prefix)
		}
		if len(s.suffix) > 0 {
			d += " suffix=" + render(s.suffix)
		}
		if len(s.txops) > 0 {
			d += fmt.Sprintf(" txops=%d", len(s.txops))
		}
		return d
	}
	// observation + oracle for the position after op
	observe := func(op string, ret string, target []byte) {
		s := sec
		it := s.cur
		valid := it.Valid()
		if !valid {
			out(fmt.Sprintf("P %s r=%s v=0", op, ret))
		} else {
			val := it.Value()
			x := "nil"
			if val != nil {
				x = render(val)
			}
			tb := 0
			if it.IsTombstone() {
				tb = 1
			}
			out(fmt.Sprintf("P %s r=%s v=1 k=%s x=%s t=%d", op, ret, render(it.Key()), x, tb))
		}
		// ---- oracle ----
		where := fmt.Sprintf("C05 %s: %s", desc(s), op)
		if target != nil {
			where += " " + render(target)
		}
		if (ret == "1") != valid && ret != "-" {
			fail(fmt.Sprintf("%s returned %s but Valid() is %v afterwards", where, ret, valid))
		}
		var lo *string
		loIncl := false
		switch op {
		case "seek":
			t := string(target)
			lo, loIncl = &t, true
		case "next":
			if !s.prevValid {
				// Next on an iterator that is not positioned on an entry: nothing is required
				s.prevValid = valid
				if valid {
					s.prevKey = string(it.Key())
				}
				return
			}
			pk := s.prevKey
			lo = &pk
		}
		if valid {
			k := string(it.Key())
			en := s.view.find([]byte(k))
			switch {
			case !inRange(s, k):
				fail(fmt.Sprintf("%s positioned on %s, outside the requested set", where, render([]byte(k))))
			case op == "seek" && k < string(target):
				fail(fmt.Sprintf("%s positioned on %s, smaller than the target", where, render([]byte(k))))
			case op == "next" && k <= s.prevKey:
				fail(fmt.Sprintf("%s moved from %s to %s: not strictly ascending", where, render([]byte(s.prevKey)), render([]byte(k))))
			case en == nil:
				fail(fmt.Sprintf("%s positioned on %s, a key that was never written", where, render([]byte(k))))
			case en.live && (it.IsTombstone() || !bytes.Equal(it.Value(), en.v)):
				fail(fmt.Sprintf("%s on live key %s shows tombstone=%v value=%s, latest value is %s", where, render([]byte(k)), it.IsTombstone(), render(it.Value()), render(en.v)))
			case !en.live && !it.IsTombstone():
				fail(fmt.Sprintf("%s on deleted key %s shows value %s and no deletion marker", where, render([]byte(k)), render(it.Value())))
			default:
				if op == "last" {
					if m := s.view.liveBetween(&k, false, nil); m != nil {
						fail(fmt.Sprintf("%s positioned on %s although the greater live key %s is in the requested set", where, render([]byte(k)), render([]byte(m.k))))
					}
				} else if m := s.view.liveBetween(lo, loIncl, &k); m != nil {
					fail(fmt.Sprintf("%s positioned on %s, skipping the live key %s", where, render([]byte(k)), render([]byte(m.k))))
				}
			}
		} else {
			if m := s.view.liveBetween(lo, loIncl, nil); m != nil {
				fail(fmt.Sprintf("%s left the iterator invalid although the live key %s is in the requested set", where, render([]byte(m.k))))
			}
		}
		s.prevValid = valid
		if valid {
			s.prevKey = string(it.Key())
		}
	}

	first := 0
	if stackMode {
		stack, first, err = buildC05Stack(c, dir)
		if err != nil {
			out("IMPL-ERROR stack " + err.Error())
			return
		}
		defer stack.close()
		for k, v := range stack.ref {
			ref[k] = v
		}
		getIter = func() (iterator.Iterator, error) {
			return engiter.NewFactory().CreateIterator(stack.mems, stack.ssts), nil
		}
		getRange = func(lo, hi []byte) (iterator.Iterator, error) {
			return engiter.NewFactory().CreateRangeIterator(stack.mems, stack.ssts, lo, hi), nil
		}
		layerStats = func() (int, int, int) { return stack.nonEmpty, stack.tombstones, stack.multi }
	}
	for i := first; i < len(c.Lines); i++ {
		l := c.Lines[i]
		if stackMode && (l[0] != "iter" && l[0] != "filt" && l[0] != "first" && l[0] != "last" && l[0] != "seek" && l[0] != "next" && l[0] != "scan") {
			out("IMPL-ERROR bad line in stack case " + strings.Join(l, " "))
			return
		}
		switch l[0] {
		case "put":
			endSection()
			k, v := tok(l[1]), tok(l[2])
			if err := e.Put(k, v); err != nil {
				out("W err:" + werrShort(err))
			} else {
				apply([]bop{{k: k, v: v}})
				out("W ok")
			}
		case "del":
			endSection()
			k := tok(l[1])
			if err := e.Delete(k); err != nil {
				out("W err:" + werrShort(err))
			} else {
				apply([]bop{{del: true, k: k}})
				out("W ok")
			}
		case "batch":
			endSection()
			n, _ := strconv.Atoi(l[1])
			ops := parseBops(c, i, n)
			i += n
			var es []*wal.Entry
			for _, o := range ops {
				if o.del {
					es = append(es, &wal.Entry{Type: wal.OpTypeDelete, Key: o.k})
				} else {
					es = append(es, &wal.Entry{Type: wal.OpTypePut, Key: o.k, Value: o.v})
				}
			}
			if err := e.ApplyBatch(es); err != nil {
				out("W err:" + werrShort(err))
			} else {
				apply(ops)
				out("W ok")
			}
		case "commit", "rollback":
			endSection()
			n, _ := strconv.Atoi(l[1])
			ops := parseBops(c, i, n)
			i += n
			tx, err := e.BeginTransaction(false)
			if err != nil {
				out("IMPL-ERROR begin " + err.Error())
				return
			}
			for _, o := range ops {
				if o.del {
					tx.Delete(o.k)
				} else {
					tx.Put(o.k, o.v)
				}
			}
			if l[0] == "rollback" {
				tx.Rollback()
				break
			}
			if err := tx.Commit(); err != nil {
				out("W err:" + werrShort(err))
			} else {
				apply(ops)
				out("W ok")
			}
		case "flush":
			endSection()
			if err := e.FlushImMemTables(); err != nil {
				out("IMPL-ERROR flush " + err.Error())
			}
		case "reopen":
			endSection()
			if err := e.Close(); err != nil {
				out("IMPL-ERROR close " + err.Error())
			}
			e, err = openEngine(dir)
			if err != nil {
				out("IMPL-ERROR reopen " + err.Error())
				return
			}
			if logSetAside(dir) {
				out("X lostlog")
				out("ORACLE FAIL C02/C01: recovery set the whole log aside (memtable budget exceeded)")
				out("KF recovery_budget_exceeded")
				out("META nontrivial=0 lostlog=1")
				return
			}
		case "iter":
			s := &c05Section{}
			if l[1] == "full" {
				s.kind = "full"
				s.mk = func() (iterator.Iterator, error) {
					it, err := getIter()
					if err != nil {
						return nil, err
					}
					return wrap(s, it), nil
				}
			} else {
				s.kind = "range"
				s.lo, s.hi = optTok(l[2]), optTok(l[3])
				s.mk = func() (iterator.Iterator, error) {
					it, err := getRange(s.lo, s.hi)
					if err != nil {
						return nil, err
					}
					return wrap(s, it), nil
				}
			}
			if !startSection(s) {
				return
			}
		case "txiter":
			s := &c05Section{}
			var n int
			if l[1] == "full" {
				s.kind = "txfull"
				n, _ = strconv.Atoi(l[2])
			} else {
				s.kind = "txrange"
				s.lo, s.hi = optTok(l[2]), optTok(l[3])
				n, _ = strconv.Atoi(l[4])
			}
			endSection()
			tx, err := e.BeginTransaction(false)
			if err != nil {
				out("IMPL-ERROR begin " + err.Error())
				return
			}
			s.tx = tx
			for j := 1; j <= n; j++ {
				tl := c.Lines[i+j]
				if tl[0] == "d" {
					k := tok(tl[1])
					tx.Delete(k)
					s.txops = append(s.txops, bop{del: true, k: k})
				} else {
					k := tok(tl[1])
					var v []byte // "nil": the caller passes no bytes (what an empty value is after protobuf decoding)
					if tl[2] != "nil" {
						v = tok(tl[2])
					}
					tx.Put(k, v)
					s.txops = append(s.txops, bop{k: k, v: v})
				}
			}
			i += n
			if s.kind == "txfull" {
				s.mk = func() (iterator.Iterator, error) { return wrap(s, tx.NewIterator()), nil }
			} else {
				s.mk = func() (iterator.Iterator, error) { return wrap(s, tx.NewRangeIterator(s.lo, s.hi)), nil }
			}
			sec = nil // the transaction of the previous section was rolled back above
			if !startSection(s) {
				return
			}
		case "filt":
			if sec == nil {
				out("IMPL-ERROR filt without iterator")
				return
			}
			sec.prefix, sec.suffix = optTok(l[1]), optTok(l[2])
			buildView(sec)
			it, err := sec.mk()
			if err != nil {
				out("IMPL-ERROR iterator " + err.Error())
				return
			}
			sec.cur = it
			sec.prevValid = false
		case "first", "last", "seek", "next", "scan":
			if sec == nil {
				out("IMPL-ERROR no iterator")
				return
			}
			nOps++
			switch l[0] {
			case "first":
				sec.cur.SeekToFirst()
				observe("first", "-", nil)
			case "last":
				sec.cur.SeekToLast()
				observe("last", "-", nil)
			case "seek":
				t := tok(l[1])
				r := sec.cur.Seek(t)
				observe("seek", c05b01(r), t)
			case "next":
				r := sec.cur.Next()
				observe("next", c05b01(r), nil)
			case "scan":
				nScans++
				limit, _ := strconv.Atoi(l[1])
				it, err := sec.mk()
				if err != nil {
					out("IMPL-ERROR iterator " + err.Error())
					return
				}
				type pair struct{ k, v []byte }
				var got []pair
				// the loop of service.Scan / TxScan
				count := 0
				it.SeekToFirst()
				for it.Valid() {
					if limit > 0 && count >= limit {
						break
					}
					if !it.IsTombstone() {
						got = append(got, pair{append([]byte{}, it.Key()...), append([]byte{}, it.Value()...)})
						count++
					}
					it.Next()
					if len(got) > 100000 {
						fail("C05 " + desc(sec) + ": scan does not end")
						break
					}
				}
				for _, p := range got {
					out("s " + render(p.k) + " " + render(p.v))
				}
				out(fmt.Sprintf("S n=%d", len(got)))
				// oracle: exactly the live keys of the requested set, ascending, latest values, first `limit`
				var want []refEntry
				for _, en := range sec.view.ents {
					if en.live {
						want = append(want, en)
					}
				}
				if limit > 0 && len(want) > limit {
					want = want[:limit]
				}
				where := fmt.Sprintf("C05 %s: scan limit=%d", desc(sec), limit)
				for j := 0; j < len(got) || j < len(want); j++ {
					if j >= len(got) {
						fail(fmt.Sprintf("%s returned %d entries, live key %s is missing", where, len(got), render([]byte(want[j].k))))
						break
					}
					if j > 0 && bytes.Compare(got[j-1].k, got[j].k) >= 0 {
						fail(fmt.Sprintf("%s: %s after %s, not strictly ascending", where, render(got[j].k), render(got[j-1].k)))
						break
					}
					if j >= len(want) {
						fail(fmt.Sprintf("%s returned the extra entry %s", where, render(got[j].k)))
						break
					}
					if string(got[j].k) != want[j].k {
						fail(fmt.Sprintf("%s: entry %d is %s, expected %s", where, j, render(got[j].k), render([]byte(want[j].k))))
						break
					}
					if !bytes.Equal(got[j].v, want[j].v) {
						fail(fmt.Sprintf("%s: key %s has value %s, latest value is %s", where, render(got[j].k), render(got[j].v), render(want[j].v)))
						break
					}
				}
			}
		default:
			out("IMPL-ERROR bad line " + strings.Join(l, " "))
		}
	}
	endSection()
	nLive := 0
	for _, v := range ref {
		if v != nil {
			nLive++
		}
	}
	nt := 0
	if maxSources >= 2 && (nMultiLayerKeys > 0 || nTomb > 0) && nLive >= 2 && nOps >= 3 {
		nt = 1
	}
	if oracleOK {
		out("ORACLE ok")
	}
	out(fmt.Sprintf("META sections=%d iterops=%d scans=%d sources=%d live=%d multilayer_keys=%d tombstones=%d nontrivial=%d",
		nSections, nOps, nScans, maxSources, nLive, nMultiLayerKeys, nTomb, nt))
}

// ---- explicit layer stacks (header stack=1): the iterator factory over hand-built memtables
// and SSTables, so that tables are NOT shadowed by memtables (which engine programs cannot
// produce: the memtables of a running engine always hold the whole history).
// Lines before the first "iter": "mem" starts a memtable (the first is the active one, the
// following ones are immutable, newest first) with "e K V SEQ" / "t K SEQ" inserts in the
// given order; "sst" starts an SSTable (listed oldest first, like Manager.sstables) with
// "e K V" / "t K" entries in ascending key order.
type c05Stack struct {
	mems                         []*memtable.MemTable
	ssts                         []*sstable.Reader
	ref                          map[string][]byte
	nonEmpty, tombstones, multi  int
}

func (st *c05Stack) close() {
	for _, r := range st.ssts {
		r.Close()
	}
}

func buildC05Stack(c *Case, dir string) (*c05Stack, int, error) {
	st := &c05Stack{ref: map[string][]byte{}}
	type ent struct {
		k, v []byte
		del  bool
		seq  uint64
	}
	type layer struct {
		mem  bool
		ents []ent
	}
	var layers []*layer
	i := 0
	for ; i < len(c.Lines); i++ {
		l := c.Lines[i]
		if l[0] == "iter" {
			break
		}
		switch l[0] {
		case "mem":
			layers = append(layers, &layer{mem: true})
		case "sst":
			layers = append(layers, &layer{})
		case "e", "t":
			if len(layers) == 0 {
				return nil, 0, fmt.Errorf("entry before a layer")
			}
			cur := layers[len(layers)-1]
			en := ent{k: tok(l[1]), del: l[0] == "t"}
			rest := l[2:]
			if !en.del {
				en.v = tok(l[2])
				rest = l[3:]
			}
			if cur.mem {
				en.seq = parseNum(rest[0])
			}
			cur.ents = append(cur.ents, en)
		default:
			return nil, 0, fmt.Errorf("bad stack line %v", l)
		}
	}
	// build; precedence order: memtables as listed, then SSTables from the last listed to the first
	var order []*layer
	nmem := 0
	for _, ly := range layers {
		if ly.mem {
			m := memtable.NewMemTable()
			for _, en := range ly.ents {
				if en.del {
					m.Delete(en.k, en.seq)
				} else {
					m.Put(en.k, en.v, en.seq)
				}
			}
			if nmem > 0 {
				m.SetImmutable()
			}
			nmem++
			st.mems = append(st.mems, m)
			order = append(order, ly)
		}
	}
	var sstLayers []*layer
	for n, ly := range layers {
		if ly.mem {
			continue
		}
		path := fmt.Sprintf("%s/t%03d.sst", dir, n)
		w, err := sstable.NewWriter(path)
		if err != nil {
			return nil, 0, err
		}
		for _, en := range ly.ents {
			if en.del {
				err = w.AddTombstone(en.k)
			} else {
				err = w.Add(en.k, append([]byte{}, en.v...))
			}
			if err != nil {
				return nil, 0, err
			}
		}
		if err := w.Finish(); err != nil {
			return nil, 0, err
		}
		r, err := sstable.OpenReader(path)
		if err != nil {
			return nil, 0, err
		}
		st.ssts = append(st.ssts, r)
		sstLayers = append(sstLayers, ly)
	}
	for j := len(sstLayers) - 1; j >= 0; j-- {
		order = append(order, sstLayers[j])
	}
	// reference: the first layer (in precedence order) that has the key decides; inside a
	// memtable the greatest sequence number, among equal numbers the latest insert
	seen := map[string]int{}
	for _, ly := range order {
		if len(ly.ents) > 0 {
			st.nonEmpty++
		}
		best := map[string]ent{}
		for _, en := range ly.ents {
			if b, ok := best[string(en.k)]; !ok || !ly.mem || en.seq >= b.seq {
				best[string(en.k)] = en
			}
			if en.del {
				st.tombstones++
			}
		}
		for k, en := range best {
			seen[k]++
			if _, ok := st.ref[k]; ok {
				continue
			}
			if en.del {
				st.ref[k] = nil
			} else {
				st.ref[k] = append([]byte{}, en.v...)
			}
		}
	}
	for _, n := range seen {
		if n > 1 {
			st.multi++
		}
	}
	return st, i, nil
}

func c05b01(b bool) string {
	if b {
		return "1"
	}
	return "0"
}

func renderOpt(b []byte) string {
	if b == nil {
		return "nil"
	}
	return render(b)
}

// ---- concurrent clause: a scan that runs while other clients write ----
// Header conc=1 writers=<n> rounds=<n>. Lines: put/del/flush build the initial data ("old" keys);
// then the harness starts writer goroutines that put/delete keys of a DISJOINT key set and
// trigger flushes, while scanners run full and range scans. Every scan must be strictly
// ascending, duplicate free, and contain every old live key with its value; no old deleted key.
func runC05Conc(c *Case, out func(string)) {
	dir := tmpDir("c05c-")
	defer os.RemoveAll(dir)
	memsize, _ := strconv.ParseInt(hdrVal(c.Hdr, "memsize", "2000"), 10, 64)
	writers, _ := strconv.Atoi(hdrVal(c.Hdr, "writers", "2"))
	rounds, _ := strconv.Atoi(hdrVal(c.Hdr, "rounds", "20"))
	bg := hdrVal(c.Hdr, "bg", "1") == "1"
	if err := writeManifest(dir, memsize, 1000, nil); err != nil {
		out("IMPL-ERROR manifest " + err.Error())
		return
	}
	if bg {
		// let the storage manager's background flusher run: layers are swapped under the scans
		verifhook.Release("bgflush.signal")
		verifhook.Release("bgflush.tick")
	} else {
		holdBackground()
	}
	defer holdBackground()
	e, err := openEngine(dir)
	if err != nil {
		out("IMPL-ERROR open " + err.Error())
		return
	}
	defer e.Close()
	ref := map[string][]byte{}
	for _, l := range c.Lines {
		switch l[0] {
		case "put":
			k, v := tok(l[1]), tok(l[2])
			if e.Put(k, v) == nil {
				ref[string(k)] = append([]byte{}, v...)
			}
		case "del":
			k := tok(l[1])
			if e.Delete(k) == nil {
				ref[string(k)] = nil
			}
		case "flush":
			e.FlushImMemTables()
		}
	}
	var oldLive []string
	for k, v := range ref {
		if v != nil {
			oldLive = append(oldLive, k)
		}
	}
	sort.Strings(oldLive)
	var stop atomic.Bool
	var wg sync.WaitGroup
	var nWrites atomic.Int64
	for w := 0; w < writers; w++ {
		wg.Add(1)
		go func(w int) {
			defer wg.Done()
			r := rand.New(rand.NewSource(int64(w) + 77))
			for i := 0; !stop.Load(); i++ {
				// keys of the writers never collide with the old keys: they start with 'w' + writer digit
				k := []byte(fmt.Sprintf("w%d-%03d", w, r.Intn(40)))
				// interleave in key space with the old keys: half of them sort before, half after
				if r.Intn(2) == 0 {
					k = append([]byte{0x01}, k...)
				}
				switch r.Intn(10) {
				case 0:
					e.Delete(k)
				case 1:
					if !bg {
						e.FlushImMemTables()
					}
				default:
					e.Put(k, lcgBytes(20+r.Intn(60), i))
				}
				nWrites.Add(1)
			}
		}(w)
	}
	var failMsg atomic.Value
	fail := func(m string) { failMsg.CompareAndSwap(nil, m) }
	isOld := func(k []byte) bool { _, ok := ref[string(k)]; return ok }
	var seekFrom []byte // when set, checkScan positions with Seek(seekFrom) instead of SeekToFirst
	checkScan := func(what string, it iterator.Iterator, lo, hi []byte) int {
		var prev []byte
		seen := map[string][]byte{}
		n := 0
		if seekFrom != nil {
			it.Seek(seekFrom)
			if lo == nil || bytes.Compare(seekFrom, lo) > 0 {
				lo = seekFrom
			}
		} else {
			it.SeekToFirst()
		}
		for ; it.Valid(); it.Next() {
			k := append([]byte{}, it.Key()...)
			if prev != nil && bytes.Compare(prev, k) >= 0 {
				fail(fmt.Sprintf("C05 concurrent %s: %s after %s: not strictly ascending / duplicate", what, render(k), render(prev)))
				return n
			}
			prev = k
			n++
			if it.IsTombstone() {
				continue
			}
			seen[string(k)] = append([]byte{}, it.Value()...)
			if lo != nil && bytes.Compare(k, lo) < 0 || hi != nil && bytes.Compare(k, hi) >= 0 {
				fail(fmt.Sprintf("C05 concurrent %s: key %s outside the range", what, render(k)))
				return n
			}
			if n > 1000000 {
				fail("C05 concurrent " + what + ": scan does not end")
				return n
			}
		}
		for _, k := range oldLive {
			if lo != nil && k < string(lo) || hi != nil && k >= string(hi) {
				continue
			}
			v, ok := seen[k]
			if !ok {
				fail(fmt.Sprintf("C05 concurrent %s: key %s existed before the scan and was not written during it, but is missing", what, render([]byte(k))))
				return n
			}
			if !bytes.Equal(v, ref[k]) {
				fail(fmt.Sprintf("C05 concurrent %s: key %s has value %s, expected %s", what, render([]byte(k)), render(v), render(ref[k])))
				return n
			}
		}
		for k := range seen {
			if isOld([]byte(k)) && ref[k] == nil {
				fail(fmt.Sprintf("C05 concurrent %s: deleted key %s returned", what, render([]byte(k))))
			}
		}
		return n
	}
	total := 0
	// let the writers get going, then scan until enough writes happened under the scans
	t0 := time.Now()
	for nWrites.Load() < 5 && time.Since(t0) < 200*time.Millisecond {
		time.Sleep(time.Millisecond)
	}
	for r := 0; (r < rounds || nWrites.Load() < 60) && time.Since(t0) < 600*time.Millisecond && failMsg.Load() == nil; r++ {
		it, err := e.GetIterator()
		if err != nil {
			fail("GetIterator: " + err.Error())
			break
		}
		total += checkScan("full scan", it, nil, nil)
		if len(oldLive) >= 2 {
			lo, hi := []byte(oldLive[len(oldLive)/4]), []byte(oldLive[len(oldLive)*3/4])
			it, err = e.GetRangeIterator(lo, hi)
			if err == nil {
				total += checkScan("range scan", it, lo, hi)
			}
		}
		tx, err := e.BeginTransaction(true)
		if err == nil {
			total += checkScan("read-only transaction scan", tx.NewIterator(), nil, nil)
			tx.Rollback()
		}
	}
	stop.Store(true)
	wg.Wait()
	// directed interleavings: another client's write lands between the creation of an iterator and
	// its positioning, and becomes the first entry at or above the point the scan starts from
	// (a new key right there, written once or twice, or deleted). The written keys are not old keys.
	directed := 0
	for i := 0; i < len(oldLive) && failMsg.Load() == nil && i < 12; i++ {
		lo := append([]byte(oldLive[i]), '!')
		wk := append(append([]byte{}, lo...), 'w')
		if isOld(lo) || isOld(wk) {
			continue
		}
		var hi []byte
		if i+3 < len(oldLive) {
			hi = append([]byte(oldLive[i+3]), '!')
		}
		// the keys the scans must show have their latest value in the active memtable only: they are
		// overwritten before the scans of this round start (older layers hold the previous value)
		for j := i + 1; j < len(oldLive) && j <= i+2; j++ {
			nv := append(append([]byte{}, ref[oldLive[j]]...), byte('a'+i%26))
			if e.Put([]byte(oldLive[j]), nv) == nil {
				ref[oldLive[j]] = nv
			}
		}
		write := func(n int) {
			switch n % 3 {
			case 0:
				e.Put(wk, []byte("w1"))
			case 1:
				e.Put(wk, []byte("w1"))
				e.Put(wk, []byte("w2"))
			case 2:
				e.Put(wk, []byte("w1"))
				e.Delete(wk)
			}
		}
		if it, err := e.GetRangeIterator(lo, hi); err == nil {
			write(i)
			total += checkScan("range scan positioned after a write by another client", it, lo, hi)
		}
		if it, err := e.GetIterator(); err == nil {
			write(i + 1)
			seekFrom = lo
			total += checkScan("scan from Seek after a write by another client", it, nil, nil)
			seekFrom = nil
		}
		if tx, err := e.BeginTransaction(true); err == nil {
			it := tx.NewRangeIterator(lo, hi)
			// a read-only transaction holds the read lock: plain writes do not take it
			write(i + 2)
			total += checkScan("transaction range scan positioned after a write by another client", it, lo, hi)
			tx.Rollback()
		}
		directed++
	}
	out("C conc")
	if m := failMsg.Load(); m != nil {
		out("ORACLE FAIL " + m.(string))
	} else {
		out("ORACLE ok")
	}
	nt := 0
	if nWrites.Load() > 20 && len(oldLive) >= 3 {
		nt = 1
	}
	out(fmt.Sprintf("META conc=1 old_live=%d writes_during=%d directed_interleavings=%d entries_scanned=%d nontrivial=%d", len(oldLive), nWrites.Load(), directed, total, nt))
}

// ---- generators ----

var c05Alphabet = [][]byte{
	[]byte("a"), []byte("b"), []byte("ab"), {0x00}, {0xff}, {0x00, 0xff}, []byte("key-0001"),
	[]byte("key-0002"), {0x61, 0x00}, []byte("zz"), {0xff, 0xff, 0x01}, []byte("m"),
	[]byte("key-0010"), []byte("abz"), []byte("bz"), []byte("mz"), []byte("k"),
}

func c05Key(r *rand.Rand, nkeys int) []byte {
	if nkeys > len(c05Alphabet) {
		nkeys = len(c05Alphabet)
	}
	return c05Alphabet[r.Intn(nkeys)]
}

// a seek target / bound: a key of the alphabet, a gap next to one, before everything, after everything
func c05Target(r *rand.Rand, nkeys int) []byte {
	k := c05Key(r, nkeys+2)
	switch pick(r, 6, 2, 2, 1, 1, 1) {
	case 0:
		return k
	case 1:
		return append(append([]byte{}, k...), 0x00) // just behind k
	case 2:
		if len(k) > 1 {
			return k[:len(k)-1] // a proper prefix: before k
		}
		if k[0] > 0 {
			return []byte{k[0] - 1, 0xff}
		}
		return k
	case 3:
		return []byte{} // before every key
	case 4:
		return []byte{0xff, 0xff, 0xff} // behind every key
	default:
		return []byte{k[0]}
	}
}

func c05Bound(r *rand.Rand, nkeys int) string {
	if r.Intn(6) == 0 {
		return "nil"
	}
	return mkTok(c05Target(r, nkeys))
}

func c05Val(r *rand.Rand) string {
	switch pick(r, 2, 10, 3) {
	case 0:
		return "-"
	case 1:
		b := make([]byte, 1+r.Intn(12))
		r.Read(b)
		return mkTok(b)
	default:
		return fmt.Sprintf("@%d:%d", 50+r.Intn(300), r.Intn(1<<20))
	}
}

func c05Bops(w *bufio.Writer, r *rand.Rand, n, nkeys int) {
	for j := 0; j < n; j++ {
		if r.Intn(4) == 0 {
			fmt.Fprintf(w, "d %s\n", mkTok(c05Key(r, nkeys)))
		} else {
			fmt.Fprintf(w, "p %s %s\n", mkTok(c05Key(r, nkeys)), c05Val(r))
		}
	}
}

func c05StackScript(w *bufio.Writer, r *rand.Rand, nkeys int) { c05ScriptK(w, r, nkeys, false) }

func c05Script(w *bufio.Writer, r *rand.Rand, nkeys int) { c05ScriptK(w, r, nkeys, true) }

func c05ScriptK(w *bufio.Writer, r *rand.Rand, nkeys int, tx bool) {
	// section
	filtOK := true
	txw := 0
	if tx {
		txw = 1
	}
	switch pick(r, 3, 4, 2*txw, 3*txw) {
	case 0:
		fmt.Fprintf(w, "iter full\n")
	case 1:
		fmt.Fprintf(w, "iter range %s %s\n", c05Bound(r, nkeys), c05Bound(r, nkeys))
	case 2:
		n := r.Intn(5)
		fmt.Fprintf(w, "txiter full %d\n", n)
		c05TxOps(w, r, n, nkeys)
	default:
		n := r.Intn(5)
		fmt.Fprintf(w, "txiter range %s %s %d\n", c05Bound(r, nkeys), c05Bound(r, nkeys), n)
		c05TxOps(w, r, n, nkeys)
	}
	if filtOK && r.Intn(4) == 0 {
		p, s := "nil", "nil"
		k := c05Key(r, nkeys)
		switch r.Intn(3) {
		case 0:
			p = mkTok(k[:1+r.Intn(len(k))])
		case 1:
			s = mkTok(k[r.Intn(len(k)):])
		default:
			p = mkTok(k[:1])
			k2 := c05Key(r, nkeys)
			s = mkTok(k2[len(k2)-1:])
		}
		fmt.Fprintf(w, "filt %s %s\n", p, s)
	}
	nops := 3 + r.Intn(8)
	for j := 0; j < nops; j++ {
		switch pick(r, 3, 5, 6, 3, 3) {
		case 0:
			fmt.Fprintf(w, "first\n")
		case 1:
			fmt.Fprintf(w, "seek %s\n", mkTok(c05Target(r, nkeys)))
		case 2:
			fmt.Fprintf(w, "next\n")
		case 3:
			fmt.Fprintf(w, "last\n")
		default:
			fmt.Fprintf(w, "scan %d\n", []int{0, 0, 1, 2, 3, 100}[r.Intn(6)])
		}
	}
}

func c05TxOps(w *bufio.Writer, r *rand.Rand, n, nkeys int) {
	for j := 0; j < n; j++ {
		k := c05Key(r, nkeys+2)
		switch pick(r, 3, 8, 1) {
		case 0:
			fmt.Fprintf(w, "d %s\n", mkTok(k))
		case 1:
			fmt.Fprintf(w, "p %s %s\n", mkTok(k), c05Val(r))
		default:
			fmt.Fprintf(w, "p %s nil\n", mkTok(k))
		}
	}
}

func genC05(w *bufio.Writer, seed int64, n int, tier string) {
	r := rand.New(rand.NewSource(seed*7368787 + 5))
	for ci := 0; ci < n; ci++ {
		id := fmt.Sprintf("c05-%d-%d", seed, ci)
		if ci%25 == 24 {
			// concurrent clause
			fmt.Fprintf(w, "case %s conc=1 memsize=%d writers=%d rounds=%d bg=%d\n", id, []int{800, 2000, 6000}[r.Intn(3)], 1+r.Intn(3), 10+r.Intn(20), r.Intn(2))
			nk := 4 + r.Intn(12)
			for i := 0; i < 5+r.Intn(30); i++ {
				fmt.Fprintf(w, "put %s %s\n", mkTok([]byte(fmt.Sprintf("old-%03d", r.Intn(60)))), c05Val(r))
				if r.Intn(8) == 0 {
					fmt.Fprintf(w, "flush\n")
				}
			}
			for i := 0; i < 10+r.Intn(40); i++ {
				switch pick(r, 8, 2, 1) {
				case 0:
					fmt.Fprintf(w, "put %s %s\n", mkTok(c05Key(r, nk)), c05Val(r))
				case 1:
					fmt.Fprintf(w, "del %s\n", mkTok(c05Key(r, nk)))
				default:
					fmt.Fprintf(w, "flush\n")
				}
			}
			fmt.Fprintf(w, "end\n")
			continue
		}
		if ci%40 == 33 {
			// one table of more than 16 data blocks (the index block gets a second restart point),
			// scans that start in the data blocks around that point and run on across it
			fmt.Fprintf(w, "case %s stack=1\n", id)
			fmt.Fprintf(w, "mem\ne %s %s %d\n", mkTok([]byte("k0007")), mkTok([]byte("m")), 9000)
			fmt.Fprintf(w, "sst\n")
			nk := 1850 + r.Intn(100)
			for j := 0; j < nk; j++ {
				fmt.Fprintf(w, "e %s @%d:%d\n", mkTok([]byte(fmt.Sprintf("k%04d", j))), 640+r.Intn(20), r.Intn(1<<20))
			}
			for sct := 0; sct < 10; sct++ {
				a := 15*96 + r.Intn(3*96) // entries of blocks 15..17 (about 96 entries per 64 KB block)
				if sct%5 == 4 {
					a = r.Intn(nk)
				}
				b := a + 100 + r.Intn(200)
				switch sct % 3 {
				case 0:
					fmt.Fprintf(w, "iter full\nseek %s\nscan 250\n", mkTok([]byte(fmt.Sprintf("k%04d", a))))
				case 1:
					fmt.Fprintf(w, "iter range %s %s\nfirst\nscan 400\n", mkTok([]byte(fmt.Sprintf("k%04d", a))), mkTok([]byte(fmt.Sprintf("k%04d", b))))
				default:
					fmt.Fprintf(w, "iter full\nseek %s\nnext\nscan 250\n", mkTok([]byte(fmt.Sprintf("k%04dx", a))))
				}
			}
			fmt.Fprintf(w, "end\n")
			continue
		}
		if ci%20 == 13 {
			// explicit stack with a multi-block SSTable that no memtable shadows: positioned
			// scans (Seek / range start) that begin in one data block and run on across the
			// following blocks
			fmt.Fprintf(w, "case %s stack=1\n", id)
			fmt.Fprintf(w, "mem\ne %s %s %d\nt %s %d\n", mkTok([]byte("k0007")), mkTok([]byte("m")), 900, mkTok([]byte("k0150")), 901)
			fmt.Fprintf(w, "sst\n")
			nk := 280 + r.Intn(60)
			for j := 0; j < nk; j++ {
				fmt.Fprintf(w, "e %s @%d:%d\n", mkTok([]byte(fmt.Sprintf("k%04d", j))), 500+r.Intn(300), r.Intn(1<<20))
			}
			for sct := 0; sct < 8; sct++ {
				a, b := r.Intn(nk), r.Intn(nk)
				if a > b {
					a, b = b, a
				}
				switch sct % 4 {
				case 0:
					fmt.Fprintf(w, "iter full\nseek %s\nscan 1000\n", mkTok([]byte(fmt.Sprintf("k%04d", a))))
				case 1:
					fmt.Fprintf(w, "iter full\nseek %s\nnext\nnext\nscan 1000\n", mkTok([]byte(fmt.Sprintf("k%04dx", a))))
				case 2:
					fmt.Fprintf(w, "iter range %s %s\nfirst\nscan 1000\n", mkTok([]byte(fmt.Sprintf("k%04d", a))), mkTok([]byte(fmt.Sprintf("k%04d", b))))
				default:
					fmt.Fprintf(w, "iter range %s %s\nlast\nfirst\nscan 1000\n", mkTok([]byte(fmt.Sprintf("k%04d", a))), mkTok([]byte(fmt.Sprintf("k%04dz", b))))
				}
			}
			fmt.Fprintf(w, "end\n")
			continue
		}
		if ci%10 == 3 {
			// explicit layer stack: tables that no memtable shadows
			fmt.Fprintf(w, "case %s stack=1\n", id)
			nkeys := 3 + r.Intn(10)
			for m := 0; m < 1+r.Intn(3); m++ {
				fmt.Fprintf(w, "mem\n")
				for j := 0; j < r.Intn(9); j++ {
					if r.Intn(4) == 0 {
						fmt.Fprintf(w, "t %s %d\n", mkTok(c05Key(r, nkeys)), 1+r.Intn(60))
					} else {
						fmt.Fprintf(w, "e %s %s %d\n", mkTok(c05Key(r, nkeys)), c05Val(r), 1+r.Intn(60))
					}
				}
			}
			for t := 0; t < r.Intn(5); t++ {
				fmt.Fprintf(w, "sst\n")
				var ks []string
				seen := map[string]bool{}
				for j := 0; j < 1+r.Intn(8); j++ {
					k := string(c05Key(r, nkeys+2))
					if !seen[k] {
						seen[k] = true
						ks = append(ks, k)
					}
				}
				sort.Strings(ks)
				for _, k := range ks {
					if r.Intn(4) == 0 {
						fmt.Fprintf(w, "t %s\n", mkTok([]byte(k)))
					} else {
						fmt.Fprintf(w, "e %s %s\n", mkTok([]byte(k)), c05Val(r))
					}
				}
			}
			for j := 0; j < 8; j++ {
				c05StackScript(w, r, nkeys)
			}
			fmt.Fprintf(w, "end\n")
			continue
		}
		memsize := []int{120, 200, 400, 1000, 4096, 100000}[r.Intn(6)]
		big := ci%20 == 7 // multi-block SSTable: ~70 KB of values in one table
		if big {
			memsize = 1 << 20
		}
		fmt.Fprintf(w, "case %s memsize=%d maxmem=1000\n", id, memsize)
		nkeys := 3 + r.Intn(12)
		nops := 5 + r.Intn(50)
		if big {
			for j := 0; j < 3; j++ {
				fmt.Fprintf(w, "put %s @%d:%d\n", mkTok(c05Key(r, nkeys)), []int{20000, 30000, 32000}[r.Intn(3)], r.Intn(1<<20))
			}
			for j := 0; j < 40; j++ {
				fmt.Fprintf(w, "put %s @%d:%d\n", mkTok(append([]byte("blk"), byte('0'+j/10), byte('0'+j%10))), 600+r.Intn(600), r.Intn(1<<20))
			}
			fmt.Fprintf(w, "flush\n")
		}
		for i := 0; i < nops; i++ {
			switch pick(r, 12, 4, 2, 3, 1, 3, 1) {
			case 0:
				fmt.Fprintf(w, "put %s %s\n", mkTok(c05Key(r, nkeys)), c05Val(r))
			case 1:
				fmt.Fprintf(w, "del %s\n", mkTok(c05Key(r, nkeys)))
			case 2:
				k := r.Intn(5)
				fmt.Fprintf(w, "batch %d\n", k)
				c05Bops(w, r, k, nkeys)
			case 3:
				k := r.Intn(6)
				fmt.Fprintf(w, "commit %d\n", k)
				c05Bops(w, r, k, nkeys)
			case 4:
				k := 1 + r.Intn(3)
				fmt.Fprintf(w, "rollback %d\n", k)
				c05Bops(w, r, k, nkeys)
			case 5:
				fmt.Fprintf(w, "flush\n")
			case 6:
				fmt.Fprintf(w, "reopen\n")
			}
		}
		nscripts := 8
		if tier == "thorough" {
			nscripts = 16
		}
		for j := 0; j < nscripts; j++ {
			c05Script(w, r, nkeys)
			// now and then more writes between two iterator sections
			if r.Intn(6) == 0 {
				fmt.Fprintf(w, "put %s %s\n", mkTok(c05Key(r, nkeys)), c05Val(r))
				if r.Intn(2) == 0 {
					fmt.Fprintf(w, "flush\n")
				}
			}
		}
		fmt.Fprintf(w, "end\n")
	}
}

var _ = engine.ErrKeyNotFound
