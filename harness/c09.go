package main

// C09: the write-ahead log replays exactly what was appended, in order.
// Case lines (mirrored by model/drv_c09.ml):
//   start N | put K V | merge K V | del K | raw OP K V | seq OP S K V | batch n + n lines "p K V"/"d K"
//   rotate | reopen | from S
// Observations: A/B <seq|err>, G/g (GetEntriesFrom), F <len> <crc32> per file (byte-exact
// tie), R <entry> per replayed entry, S <status> per file, N <next sequence>.

import (
	"bufio"
	"bytes"
	"fmt"
	"github.com/KevoDB/kevo/pkg/verifhook"
	"hash/crc32"
	"math/rand"
	"os"
	"path/filepath"
	"strconv"
	"strings"
	"time"

	"github.com/KevoDB/kevo/pkg/config"
	"github.com/KevoDB/kevo/pkg/wal"
)

func init() {
	register("C09", &Prop{Gen: genC09, Run: runC09})
}

type walRec struct {
	seq  uint64
	op   uint8
	k, v []byte
}

func werr(err error) string {
	s := err.Error()
	switch {
	case strings.Contains(s, "invalid operation type"):
		return "err:invalidop"
	case strings.Contains(s, "overflow"):
		return "err:overflow"
	case strings.Contains(s, "too large"):
		return "err:toolarge"
	}
	return "err:other:" + strings.ReplaceAll(s, " ", "_")
}

func entryStr(e *wal.Entry) string {
	return fmt.Sprintf("%s %d %s %s", num(e.SequenceNumber), e.Type, render(e.Key), render(e.Value))
}

func opOf(s string) uint8 {
	switch s {
	case "put", "p":
		return 1
	case "del", "d":
		return 2
	case "merge", "m":
		return 3
	}
	v, _ := strconv.Atoi(s)
	return uint8(v)
}

func runC09(c *Case, out func(string)) {
	wal.DisableRecoveryLogs = true
	dir := tmpDir("c09-")
	defer os.RemoveAll(dir)
	wdir := filepath.Join(dir, "wal")
	cfg := config.NewDefaultConfig(dir)
	cfg.WALSyncMode = config.SyncNone
	w, err := wal.NewWAL(cfg, wdir)
	if err != nil {
		out("IMPL-ERROR " + err.Error())
		return
	}
	var appended []walRec // oracle: what was acknowledged, in order
	oracleOK := true
	fail := func(m string) {
		if oracleOK {
			out("ORACLE FAIL " + m)
		}
		oracleOK = false
	}
	// C08 at the level of the log: a number the log assigns itself (Append, AppendBatch) is above
	// every number accepted before, whoever chose it
	var maxSeen uint64
	haveSeen := false
	assigned := func(call string, s uint64) {
		if haveSeen && s <= maxSeen {
			fail(fmt.Sprintf("%s was stamped %d although %d had been accepted before: the log's numbers do not strictly increase", call, s, maxSeen))
		}
	}
	record := func(seq uint64, op uint8, k, v []byte) {
		if !haveSeen || seq > maxSeen {
			maxSeen, haveSeen = seq, true
		}
		if op == wal.OpTypeDelete {
			v = nil
		}
		appended = append(appended, walRec{seq, op, append([]byte{}, k...), append([]byte{}, v...)})
	}
	for i := 0; i < len(c.Lines); i++ {
		l := c.Lines[i]
		switch l[0] {
		case "start":
			w.UpdateNextSequence(parseNum(l[1]))
		case "put", "merge":
			k, v := tok(l[1]), tok(l[2])
			s, err := w.Append(opOf(l[0]), k, v)
			if err != nil {
				out("A " + werr(err))
			} else {
				out("A " + num(s))
				assigned(l[0], s)
				record(s, opOf(l[0]), k, v)
			}
		case "del":
			k := tok(l[1])
			s, err := w.Append(wal.OpTypeDelete, k, nil)
			if err != nil {
				out("A " + werr(err))
			} else {
				out("A " + num(s))
				assigned("del", s)
				record(s, wal.OpTypeDelete, k, nil)
			}
		case "raw":
			k, v := tok(l[2]), tok(l[3])
			s, err := w.Append(opOf(l[1]), k, v)
			if err != nil {
				out("A " + werr(err))
			} else {
				out("A " + num(s))
				assigned("raw", s)
				record(s, opOf(l[1]), k, v)
			}
		case "seq":
			k, v := tok(l[3]), tok(l[4])
			// the number: absolute, or relative to the log's next number ("=", "+n", "-n")
			sq := uint64(0)
			switch {
			case l[2] == "=":
				sq = w.GetNextSequence()
			case strings.HasPrefix(l[2], "+"):
				sq = w.GetNextSequence() + parseNum(l[2][1:])
			case strings.HasPrefix(l[2], "-"):
				if d := parseNum(l[2][1:]); d <= w.GetNextSequence() {
					sq = w.GetNextSequence() - d
				}
			default:
				sq = parseNum(l[2])
			}
			s, err := w.AppendWithSequence(opOf(l[1]), k, v, sq)
			if err != nil {
				out("A " + werr(err))
			} else {
				out("A " + num(s))
				record(s, opOf(l[1]), k, v)
			}
		case "batch":
			n, _ := strconv.Atoi(l[1])
			var es []*wal.Entry
			for j := 1; j <= n; j++ {
				o := c.Lines[i+j]
				e := &wal.Entry{Type: opOf(o[0]), Key: tok(o[1])}
				if len(o) > 2 {
					e.Value = tok(o[2])
				}
				es = append(es, e)
			}
			i += n
			s, err := w.AppendBatch(es)
			if err != nil {
				out("B " + werr(err))
			} else {
				out("B " + num(s))
				if len(es) > 0 {
					assigned("batch", s)
				}
				for _, e := range es {
					record(s, e.Type, e.Key, e.Value)
				}
			}
		case "rotate":
			next := w.GetNextSequence()
			if err := w.Close(); err != nil {
				out("IMPL-ERROR close " + err.Error())
			}
			nw, err := wal.NewWAL(cfg, wdir)
			if err != nil {
				out("IMPL-ERROR " + err.Error())
				return
			}
			nw.UpdateNextSequence(next)
			w = nw
		case "closerace":
			// an append that arrives while the log is being closed: Close is held behind its flush
			// and sync (hook site wal.close.synced), an append is started, Close goes on. The append
			// either is refused (the model: a reopen, nothing appended) or, if it is acknowledged,
			// is in the log like every acknowledged append.
			k, v := tok(l[1]), tok(l[2])
			next := w.GetNextSequence()
			verifhook.Hold("wal.close.synced")
			closed := make(chan struct{})
			go func() { w.Close(); close(closed) }()
			dl := time.Now().Add(5 * time.Second)
			for verifhook.Waiting("wal.close.synced") < 1 && time.Now().Before(dl) {
				time.Sleep(200 * time.Microsecond)
			}
			type ar struct {
				seq uint64
				err error
			}
			ach := make(chan ar, 1)
			ow := w
			go func() { s, e := ow.Append(wal.OpTypePut, k, v); ach <- ar{s, e} }()
			time.Sleep(20 * time.Millisecond) // the append is at the log's mutex (or through it)
			verifhook.Release("wal.close.synced")
			<-closed
			res := <-ach
			if res.err == nil {
				// acknowledged: it counts as appended (the model does not expect it: reported below
				// through the comparison of what was appended with what the log returns)
				record(res.seq, wal.OpTypePut, k, v)
				next = res.seq + 1
				out(fmt.Sprintf("NOTE closerace: the append was acknowledged with sequence %d", res.seq))
			}
			nw, err := wal.ReuseWAL(cfg, wdir, next)
			if err != nil || nw == nil {
				out(fmt.Sprintf("IMPL-ERROR reuse %v", err))
				return
			}
			w = nw
		case "reopen":
			next := w.GetNextSequence()
			w.Close()
			nw, err := wal.ReuseWAL(cfg, wdir, next)
			if err != nil || nw == nil {
				out(fmt.Sprintf("IMPL-ERROR reuse %v", err))
				return
			}
			w = nw
		case "from":
			s := parseNum(l[1])
			es, err := w.GetEntriesFrom(s)
			if err != nil {
				out("G err " + err.Error())
				break
			}
			out(fmt.Sprintf("G %s n=%d", l[1], len(es)))
			var want []walRec
			for _, a := range appended {
				if a.seq >= s {
					want = append(want, a)
				}
			}
			if len(want) != len(es) {
				fail(fmt.Sprintf("GetEntriesFrom(%d) returned %d entries, %d were appended at or after it", s, len(es), len(want)))
			}
			for j, e := range es {
				out("g " + entryStr(e))
				if j < len(want) && !sameRec(want[j], e) {
					fail(fmt.Sprintf("GetEntriesFrom(%d) entry %d differs from what was appended", s, j))
				}
			}
		default:
			out("IMPL-ERROR bad line " + strings.Join(l, " "))
		}
	}
	next := w.GetNextSequence()
	w.Close()
	files, _ := wal.FindWALFiles(wdir)
	for _, f := range files {
		b, _ := os.ReadFile(f)
		out(fmt.Sprintf("F %d %08x", len(b), crc32.ChecksumIEEE(b)))
	}
	var replayed []*wal.Entry
	for _, f := range files {
		_, err := wal.ReplayWALFile(f, func(e *wal.Entry) error {
			out("R " + entryStr(e))
			replayed = append(replayed, e)
			return nil
		})
		if err != nil {
			out("S error " + strings.ReplaceAll(err.Error(), dir, ""))
		} else {
			out("S clean")
		}
	}
	out("N " + num(next))
	// oracle: ReplayWALDir yields exactly the appended operations in order
	var dirEntries []*wal.Entry
	_, derr := wal.ReplayWALDir(wdir, func(e *wal.Entry) error { dirEntries = append(dirEntries, e); return nil })
	if derr != nil {
		fail("ReplayWALDir error: " + derr.Error())
	}
	if len(dirEntries) != len(appended) {
		fail(fmt.Sprintf("replayed %d entries, appended %d", len(dirEntries), len(appended)))
	} else {
		for i, e := range dirEntries {
			if !sameRec(appended[i], e) {
				fail(fmt.Sprintf("replayed entry %d differs from appended (seq %d vs %d)", i, e.SequenceNumber, appended[i].seq))
				break
			}
		}
	}
	if oracleOK {
		out("ORACLE ok")
	}
	nfrag := 0
	for _, a := range appended {
		if 13+len(a.k)+4+len(a.v) > wal.MaxRecordSize {
			nfrag++
		}
	}
	nbatch := 0
	for _, l := range c.Lines {
		if l[0] == "batch" {
			nbatch++
		}
	}
	nt := 0
	if len(appended) >= 2 && (nfrag > 0 || nbatch > 0 || len(files) > 1) {
		nt = 1
	}
	out(fmt.Sprintf("META entries=%d files=%d fragmented=%d batches=%d nontrivial=%d", len(appended), len(files), nfrag, nbatch, nt))
}

func sameRec(a walRec, e *wal.Entry) bool {
	return a.seq == e.SequenceNumber && a.op == e.Type && bytes.Equal(a.k, e.Key) && bytes.Equal(a.v, e.Value)
}

// ---- generator ----

func genSizedTok(r *rand.Rand, big bool) string {
	if !big {
		switch pick(r, 2, 6, 2) {
		case 0:
			return "-"
		case 1:
			n := 1 + r.Intn(24)
			b := make([]byte, n)
			r.Read(b)
			return mkTok(b)
		default:
			return fmt.Sprintf("@%d:%d", 49+r.Intn(400), r.Intn(1<<20))
		}
	}
	return fmt.Sprintf("@%d:%d", 30000+r.Intn(40000), r.Intn(1<<20))
}

// bigEntry picks key and value lengths of an entry aimed at a boundary of the record format:
// payload = 13 + klen + 4 + vlen (delete: 13 + klen); FULL iff payload <= Max; otherwise the
// first fragment holds 13 + min(klen, Max-13) bytes and the remaining bytes ("tail") are cut
// into Max-sized MIDDLE records and a final LAST record.
func bigEntry(r *rand.Rand, del bool) (klen, vlen int) {
	max := wal.MaxRecordSize
	d := r.Intn(5) - 2 // -2..2
	j := 1 + r.Intn(3)
	klen = []int{0, 1, 3, 10, 40}[r.Intn(5)]
	switch pick(r, 3, 5, 3, 2) {
	case 0: // payload right at the FULL/fragmented boundary
		if del {
			klen = max - 13 + d
			return klen, 0
		}
		vlen = max - 13 - 4 - klen + d
	case 1: // tail = j*Max + d (exact multiples included)
		if del {
			klen = max - 13 + j*max + d
			return klen, 0
		}
		vlen = j*max + d - 4
	case 2: // key fills the first fragment exactly / spills by a few bytes or by whole records
		klen = max - 13 + d
		if r.Intn(2) == 0 {
			klen = max - 13 + j*max + d
		}
		if del {
			return klen, 0
		}
		// value chosen so that the tail again ends near a record boundary
		spill := klen - (max - 13)
		if spill < 0 {
			spill = 0
		}
		vlen = ((spill+4)/max+1)*max - spill - 4 + (r.Intn(3) - 1)
		if vlen < 0 {
			vlen = 0
		}
	default:
		vlen = 30000 + r.Intn(70000)
	}
	if vlen < 0 {
		vlen = 0
	}
	if klen < 0 {
		klen = 0
	}
	return
}

func lenTok(r *rand.Rand, n int) string {
	if n == 0 {
		return "-"
	}
	return fmt.Sprintf("@%d:%d", n, r.Intn(1<<20))
}

func genC09(w *bufio.Writer, seed int64, n int, tier string) {
	r := rand.New(rand.NewSource(seed*7919 + 9))
	for ci := 0; ci < n; ci++ {
		if ci%8 == 5 {
			genC09Straddle(w, r, fmt.Sprintf("case c09-%d-%d", seed, ci))
			continue
		}
		genC09Case(w, r, fmt.Sprintf("case c09-%d-%d", seed, ci))
	}
}

// a record whose 7-byte header lies across a multiple of 64 KiB of the file (the size of the
// buffers the log is written and read through): small records up to 65536*m - d, d in 0..7, the
// record there, a few more, then everything is read back (from / reopen = replay)
func genC09Straddle(w *bufio.Writer, r *rand.Rand, caseLine string) {
	fmt.Fprintf(w, "%s\n", caseLine)
	const buf = 65536
	target := buf*(1+r.Intn(2)) - []int{1, 2, 3, 4, 5, 6, 0, 7}[r.Intn(8)]
	used, i := 0, 0
	for used+1400 < target {
		l := 600 + r.Intn(600)
		key := fmt.Sprintf("s%03d", i)
		if r.Intn(6) == 0 {
			fmt.Fprintf(w, "del %s\n", mkTok([]byte(key)))
			used += 7 + 13 + len(key)
		} else {
			fmt.Fprintf(w, "put %s @%d:%d\n", mkTok([]byte(key)), l, r.Intn(1<<20))
			used += 7 + 13 + len(key) + 4 + l
		}
		i++
	}
	key := fmt.Sprintf("s%03d", i)
	fmt.Fprintf(w, "put %s %s\n", mkTok([]byte(key)), lenTok(r, target-used-(7+13+len(key)+4)))
	// the record whose header straddles the boundary, and what follows it
	switch r.Intn(3) {
	case 0:
		fmt.Fprintf(w, "put %s %s\n", mkTok([]byte("edge")), mkTok([]byte("e")))
	case 1:
		fmt.Fprintf(w, "del %s\n", mkTok([]byte("edge")))
	default:
		fmt.Fprintf(w, "batch 2\np %s %s\nd %s\n", mkTok([]byte("edge")), mkTok([]byte("e")), mkTok([]byte("s000")))
	}
	for j := 0; j < 2+r.Intn(3); j++ {
		fmt.Fprintf(w, "put %s %s\n", mkTok([]byte(fmt.Sprintf("t%d", j))), mkTok([]byte("x")))
	}
	fmt.Fprintf(w, "from %d\n", r.Intn(3))
	fmt.Fprintf(w, "from %d\n", i)
	fmt.Fprintf(w, "reopen\nfrom 1\nend\n")
}

// one program over the log's own API (also used by C08 for its log-level cases)
func genC09Case(w *bufio.Writer, r *rand.Rand, caseLine string) {
	{
		fmt.Fprintf(w, "%s\n", caseLine)
		nops := 1 + r.Intn(14)
		if r.Intn(8) == 0 {
			fmt.Fprintf(w, "start %s\n", num([]uint64{1, 2, 1 << 32, 1<<63 + 5, 1 << 40, wal.MaxSequenceNumber - 2}[r.Intn(6)]))
		}
		bigBudget := 2
		for i := 0; i < nops; i++ {
			big := func() bool {
				if bigBudget > 0 && r.Intn(6) == 0 {
					bigBudget--
					return true
				}
				return false
			}
			switch pick(r, 8, 3, 2, 3, 2, 2, 2, 1, 2) {
			case 0:
				if big() {
					kl, vl := bigEntry(r, false)
					fmt.Fprintf(w, "put %s %s\n", lenTok(r, kl), lenTok(r, vl))
				} else {
					fmt.Fprintf(w, "put %s %s\n", genSizedTok(r, false), genSizedTok(r, false))
				}
			case 1:
				if big() {
					kl, _ := bigEntry(r, true)
					fmt.Fprintf(w, "del %s\n", lenTok(r, kl))
				} else {
					fmt.Fprintf(w, "del %s\n", genSizedTok(r, false))
				}
			case 2:
				// merge entries go through the same record formats as puts (fragmented ones too)
				if big() {
					kl, vl := bigEntry(r, false)
					fmt.Fprintf(w, "merge %s %s\n", lenTok(r, kl), lenTok(r, vl))
				} else {
					fmt.Fprintf(w, "merge %s %s\n", genSizedTok(r, false), genSizedTok(r, false))
				}
			case 3:
				k := 1 + r.Intn(6)
				if r.Intn(10) == 0 {
					k = 0
				}
				fmt.Fprintf(w, "batch %d\n", k)
				for j := 0; j < k; j++ {
					// entries of a batch go through their own size computation in AppendBatch:
					// aim some of them at the record-format boundaries too (deletes with keys
					// around Max-13, puts around the FULL/fragmented switch and exact multiples)
					bigOp := big() && r.Intn(2) == 0
					if r.Intn(3) == 0 {
						if bigOp {
							kl, _ := bigEntry(r, true)
							fmt.Fprintf(w, "d %s\n", lenTok(r, kl))
						} else {
							fmt.Fprintf(w, "d %s\n", genSizedTok(r, false))
						}
					} else if bigOp {
						kl, vl := bigEntry(r, false)
						fmt.Fprintf(w, "%s %s %s\n", []string{"p", "p", "m"}[r.Intn(3)], lenTok(r, kl), lenTok(r, vl))
					} else {
						fmt.Fprintf(w, "%s %s %s\n", []string{"p", "p", "p", "m"}[r.Intn(4)], genSizedTok(r, false), genSizedTok(r, false))
					}
				}
			case 4:
				fmt.Fprintf(w, "rotate\n")
			case 5:
				if r.Intn(4) == 0 {
					fmt.Fprintf(w, "closerace %s %s\n", genSizedTok(r, false), genSizedTok(r, false))
				} else {
					fmt.Fprintf(w, "reopen\n")
				}
			case 6:
				fmt.Fprintf(w, "from %d\n", r.Intn(nops+2))
			case 7:
				fmt.Fprintf(w, "raw %d %s %s\n", []int{0, 4, 255, 3}[r.Intn(4)], genSizedTok(r, false), genSizedTok(r, false))
			case 8:
				// an entry with a caller-chosen number (the replication entry point): exactly the
				// log's next number, ahead of it, behind it; the following appends must go on above it
				fmt.Fprintf(w, "seq %s %s %s %s\n", []string{"put", "del", "put"}[r.Intn(3)], []string{"=", "=", "=", "+1", "+7", "-1", "-3", "1", "5"}[r.Intn(9)], genSizedTok(r, false), genSizedTok(r, false))
				if r.Intn(2) == 0 {
					fmt.Fprintf(w, "put %s %s\n", genSizedTok(r, false), genSizedTok(r, false))
				}
			}
		}
		fmt.Fprintf(w, "from %d\n", r.Intn(nops+2))
		fmt.Fprintf(w, "end\n")
	}
}
