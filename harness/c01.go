package main

// C01 (reads return the latest write through every layer) and C08 (sequence numbers strictly
// increase): sequential programs over the embedded API.
// Header: memsize=<bytes> maxmem=<n>.  Lines: put K V | del K | get K | batch n | commit n |
// rollback n (each followed by n lines "p K V" / "d K") | flush | reopen | layers |
// mbatch n (ApplyBatch with merge operands: followed by up to n lines "m K V" / "p K V" / "d K";
// the lines that follow and start with m, p or d are taken, so that a shrunk case stays readable)
// Observations (mirrored by model/drv_c01.ml): W ok last=<seq> | G v:<val>|notfound |
// T rolledback | O last=<seq> (after reopen) | X lostlog | L/l layer dump | N <next seq>

import (
	"bufio"
	"bytes"
	"fmt"
	"math/rand"
	"os"
	"path/filepath"
	"strconv"
	"strings"
	"time"

	"github.com/KevoDB/kevo/pkg/config"
	"github.com/KevoDB/kevo/pkg/engine"
	"github.com/KevoDB/kevo/pkg/verifhook"
	"github.com/KevoDB/kevo/pkg/wal"
)

func init() {
	register("C01", &Prop{Gen: genC01, Run: runC01})
	register("C08", &Prop{Gen: genC08, Run: runC08})
}

type bop struct {
	del   bool
	merge bool // merge operand (mbatch only): logged, no effect on any table
	k, v  []byte
}

// the entries of an mbatch line: at most n of the directly following m/p/d lines
func parseMops(c *Case, i int, n int) []bop {
	var ops []bop
	for j := 1; j <= n && i+j < len(c.Lines); j++ {
		l := c.Lines[i+j]
		switch {
		case l[0] == "m" && len(l) == 3:
			ops = append(ops, bop{merge: true, k: tok(l[1]), v: tok(l[2])})
		case l[0] == "p" && len(l) == 3:
			ops = append(ops, bop{k: tok(l[1]), v: tok(l[2])})
		case l[0] == "d" && len(l) == 2:
			ops = append(ops, bop{del: true, k: tok(l[1])})
		default:
			return ops
		}
	}
	return ops
}

func parseBops(c *Case, i int, n int) []bop {
	var ops []bop
	for j := 1; j <= n; j++ {
		l := c.Lines[i+j]
		if l[0] == "d" {
			ops = append(ops, bop{del: true, k: tok(l[1])})
		} else {
			ops = append(ops, bop{k: tok(l[1]), v: tok(l[2])})
		}
	}
	return ops
}

// C08 cases are engine programs (runC01) or, with header level=wal, programs over the log's own
// API (runC09, which checks that every number the log assigns exceeds all numbers accepted before)
func runC08(c *Case, out func(string)) {
	if hdrVal(c.Hdr, "level", "engine") == "wal" {
		runC09(c, out)
		return
	}
	if hdrVal(c.Hdr, "level", "engine") == "crash" {
		// crash recoveries: C02's runner (a child process dies at an armed site), decided by its
		// oracle, which follows last_sequence over the recovery, the writes after it and a clean
		// restart; the observations are notes (the model runner sees no operation)
		runC02(c, func(s string) {
			switch strings.SplitN(s, " ", 2)[0] {
			case "ORACLE", "META", "KF", "NOTE", "IMPL-ERROR", "IMPL-PANIC":
				out(s)
			default:
				out("NOTE " + s)
			}
		})
		return
	}
	runC01(c, out)
}

func runC01(c *Case, out func(string)) {
	if hdrVal(c.Hdr, "mode", "seq") == "sched" {
		// directed-schedule cases are decided by the oracle only: observations become notes
		raw := out
		out = func(s string) {
			f := strings.SplitN(s, " ", 2)[0]
			switch f {
			case "ORACLE", "META", "KF", "NOTE", "IMPL-ERROR", "IMPL-PANIC":
				raw(s)
			default:
				raw("NOTE " + s)
			}
		}
	}
	dir := tmpDir("c01-")
	defer os.RemoveAll(dir)
	memsize, _ := strconv.ParseInt(hdrVal(c.Hdr, "memsize", "4096"), 10, 64)
	maxmem, _ := strconv.Atoi(hdrVal(c.Hdr, "maxmem", "1000"))
	// sync=none|batch|immediate: how long records stay in the log's write buffer (no observable
	// difference for a program without crashes: the model has no such parameter)
	smode := hdrVal(c.Hdr, "sync", "immediate")
	if err := writeManifest(dir, memsize, maxmem, func(cf *config.Config) { cf.WALSyncMode = syncMode(smode) }); err != nil {
		out("IMPL-ERROR manifest " + err.Error())
		return
	}
	holdBackground()
	e, err := openEngine(dir)
	if err != nil {
		out("IMPL-ERROR open " + err.Error())
		return
	}
	defer func() { e.Close() }()

	ref := map[string][]byte{} // oracle: latest acknowledged write per key (nil = deleted)
	written := map[string]bool{}
	var loggedSize int64
	oracleOK := true
	fail := func(m string) {
		if oracleOK {
			out("ORACLE FAIL " + m)
		}
		oracleOK = false
	}
	prevLast := uint64(0)
	checkSeq := func(what string) {
		l := lastSeq(e)
		if l <= prevLast {
			fail(fmt.Sprintf("C08: last sequence after %s is %d, not greater than %d before it", what, l, prevLast))
		}
		prevLast = l
	}
	layersTouched := map[string]bool{}
	nOverwriteOlder := 0
	nontrivialOps := 0
	nMerge := 0
	apply := func(ops []bop) {
		for _, o := range ops {
			if o.merge {
				// a merge operand is logged and acknowledged but no read may change
				continue
			}
			if o.del {
				ref[string(o.k)] = nil
			} else {
				ref[string(o.k)] = append([]byte{}, o.v...)
			}
			written[string(o.k)] = true
			loggedSize += int64(len(o.k) + len(o.v) + 16)
		}
	}
	flushedOnce := false
	compacted := false
	for i := 0; i < len(c.Lines); i++ {
		l := c.Lines[i]
		switch l[0] {
		case "put":
			k, v := tok(l[1]), tok(l[2])
			if flushedOnce && written[string(k)] {
				nOverwriteOlder++
			}
			hk, hv := handOver(k), handOver(v)
			err := e.Put(hk, hv)
			scribbleAll(hk, hv) // a client that reuses its buffers
			if err != nil {
				out("W err:" + werrShort(err))
			} else {
				apply([]bop{{k: k, v: v}})
				out("W ok last=" + num(lastSeq(e)))
				checkSeq("put")
			}
		case "del":
			k := tok(l[1])
			if flushedOnce && written[string(k)] {
				nOverwriteOlder++
			}
			hk := handOver(k)
			err := e.Delete(hk)
			scribbleAll(hk)
			if err != nil {
				out("W err:" + werrShort(err))
			} else {
				apply([]bop{{del: true, k: k}})
				out("W ok last=" + num(lastSeq(e)))
				checkSeq("delete")
			}
		case "get":
			k := tok(l[1])
			v, err := e.Get(k)
			out("G " + renderGet(v, err))
			want, ok := ref[string(k)]
			if !ok || want == nil {
				if err == nil {
					fail(fmt.Sprintf("C01: get %s returned %s but the key is not live", render(k), render(v)))
				}
			} else if err != nil || !bytes.Equal(v, want) {
				fail(fmt.Sprintf("C01: get %s returned %s, latest write is %s", render(k), renderGet(v, err), render(want)))
			}
		case "batch":
			n, _ := strconv.Atoi(l[1])
			ops := parseBops(c, i, n)
			i += n
			var es []*wal.Entry
			for _, o := range ops {
				if o.del {
					es = append(es, &wal.Entry{Type: wal.OpTypeDelete, Key: o.k})
				} else {
					es = append(es, &wal.Entry{Type: wal.OpTypePut, Key: o.k, Value: o.v})
				}
			}
			if err := e.ApplyBatch(es); err != nil {
				out("W err:" + werrShort(err))
			} else {
				apply(ops)
				out("W ok last=" + num(lastSeq(e)))
				if n > 0 {
					checkSeq("batch")
				}
			}
		case "mbatch":
			n, _ := strconv.Atoi(l[1])
			ops := parseMops(c, i, n)
			i += len(ops)
			var es []*wal.Entry
			for _, o := range ops {
				switch {
				case o.merge:
					es = append(es, &wal.Entry{Type: wal.OpTypeMerge, Key: o.k, Value: o.v})
					nMerge++
				case o.del:
					es = append(es, &wal.Entry{Type: wal.OpTypeDelete, Key: o.k})
				default:
					es = append(es, &wal.Entry{Type: wal.OpTypePut, Key: o.k, Value: o.v})
				}
			}
			if err := e.ApplyBatch(es); err != nil {
				out("W err:" + werrShort(err))
			} else {
				apply(ops)
				out("W ok last=" + num(lastSeq(e)))
				if len(ops) > 0 {
					// an acknowledged write, also when every entry is a merge operand
					checkSeq("batch with merge operands")
				}
			}
		case "commit", "rollback":
			n, _ := strconv.Atoi(l[1])
			ops := parseBops(c, i, n)
			i += n
			tx, err := e.BeginTransaction(false)
			if err != nil {
				out("IMPL-ERROR begin " + err.Error())
				return
			}
			for _, o := range ops {
				if o.del {
					tx.Delete(o.k)
				} else {
					tx.Put(o.k, o.v)
				}
			}
			if l[0] == "rollback" {
				tx.Rollback()
				out("T rolledback")
				break
			}
			if err := tx.Commit(); err != nil {
				out("W err:" + werrShort(err))
			} else {
				apply(ops)
				out("W ok last=" + num(lastSeq(e)))
				if n > 0 {
					checkSeq("commit")
				}
			}
		case "flushgate":
			// hold an explicit flush at a verifhook site and issue the NEXT line's put while
			// it waits there (a legal schedule: flush holds only the flush lock)
			site := l[1]
			i++
			nl := c.Lines[i]
			k, v := tok(nl[1]), tok(nl[2])
			verifhook.Hold(site)
			fdone := make(chan error, 1)
			go func() { fdone <- e.FlushImMemTables() }()
			reached := false
			for t := 0; t < 400; t++ {
				if verifhook.Waiting(site) > 0 {
					reached = true
					break
				}
				select {
				case <-fdone:
					t = 1000
					fdone <- nil
				default:
					time.Sleep(time.Millisecond)
				}
			}
			wdone := make(chan error, 1)
			go func() { wdone <- e.Put(k, v) }()
			var werr error
			finished := false
			select {
			case werr = <-wdone:
				finished = true
			case <-time.After(120 * time.Millisecond):
			}
			verifhook.Release(site)
			if !finished {
				select {
				case werr = <-wdone:
				case <-time.After(30 * time.Second):
					fail("put issued during a flush held at " + site + " did not return within 30 s")
					return
				}
			}
			select {
			case <-fdone:
			case <-time.After(30 * time.Second):
				fail("flush held at " + site + " did not finish within 30 s after release")
				return
			}
			flushedOnce = true
			if werr != nil {
				out(fmt.Sprintf("W err:%s (during flush at %s, reached=%v)", werrShort(werr), site, reached))
			} else {
				apply([]bop{{k: k, v: v}})
				out(fmt.Sprintf("W ok last=%s (during flush at %s, reached=%v)", num(lastSeq(e)), site, reached))
				checkSeq("put during flush at " + site)
			}
		case "flush":
			if err := e.FlushImMemTables(); err != nil {
				out("IMPL-ERROR flush " + err.Error())
			}
			flushedOnce = true
		case "reopen":
			before := lastSeq(e)
			if err := e.Close(); err != nil {
				out("IMPL-ERROR close " + err.Error())
			}
			e, err = openEngine(dir)
			if err != nil {
				out("IMPL-ERROR reopen " + err.Error())
				return
			}
			flushedOnce = true
			if logSetAside(dir) {
				out("X lostlog")
				fail("C02/C01: recovery set the whole log aside (memtable budget exceeded); unflushed acknowledged writes are gone")
				if loggedSize >= memsize*int64(maxmem) {
					out("KF recovery_budget_exceeded")
				}
				out(fmt.Sprintf("META ops=%d nontrivial=0 lostlog=1", len(c.Lines)))
				return
			}
			after := lastSeq(e)
			out("O last=" + num(after))
			if after < before {
				fail(fmt.Sprintf("C08: last sequence went from %d to %d across a clean reopen", before, after))
			}
			// the bar for the next write stays at the highest number acknowledged so far: a
			// counter restored too low shows up again at the first write after the reopen
			if after > prevLast {
				prevLast = after
			}
		case "compact":
			// TriggerCompaction runs one compaction cycle on the SSTable directory. The running
			// storage manager keeps reading its own (stale) reader list, a reopen sees the
			// compacted files: either way no key may read differently (oracle). After the first
			// compaction the layer dump is restricted to the memtables (the file set is C12's subject).
			if err := e.TriggerCompaction(); err != nil {
				out("NOTE compact error " + strings.ReplaceAll(err.Error(), " ", "_"))
			}
			if len(l) > 2 {
				if err := e.CompactRange(tok(l[1]), tok(l[2])); err != nil {
					out("NOTE compactrange error " + strings.ReplaceAll(err.Error(), " ", "_"))
				}
			}
			compacted = true
		case "layers":
			if compacted {
				dumpMemLayers(e, out)
			} else {
				dumpLayers(e, out)
			}
		default:
			out("IMPL-ERROR bad line " + strings.Join(l, " "))
		}
	}
	out("N " + num(e.VerifStorage().VerifNextSequence()))
	if hdrVal(c.Hdr, "mode", "seq") == "sched" {
		// C08 on the log itself: in file order the sequence numbers never decrease, and two
		// entries share a number only inside one batch (here: no batches in sched programs)
		var prev uint64
		first := true
		cfgDir := filepath.Join(dir, "wal")
		wal.ReplayWALDir(cfgDir, func(en *wal.Entry) error {
			if !first && en.SequenceNumber <= prev {
				fail(fmt.Sprintf("C08: log holds sequence number %d after %d (two writes share a number or the order is broken)", en.SequenceNumber, prev))
			}
			prev, first = en.SequenceNumber, false
			return nil
		})
	}
	// final sweep of the oracle over every key ever written
	for k, want := range ref {
		v, err := e.Get([]byte(k))
		if want == nil {
			if err == nil {
				fail(fmt.Sprintf("C01: final get %s returned %s but the key is deleted", render([]byte(k)), render(v)))
			}
		} else if err != nil || !bytes.Equal(v, want) {
			fail(fmt.Sprintf("C01: final get %s returned %s, latest write is %s", render([]byte(k)), renderGet(v, err), render(want)))
		}
	}
	for _, l := range e.VerifStorage().VerifLayers() {
		if len(l.Entries) > 0 {
			layersTouched[l.Kind] = true
		}
	}
	nt := 0
	if len(layersTouched) >= 2 && nOverwriteOlder > 0 {
		nt = 1
	}
	_ = nontrivialOps
	if oracleOK {
		out("ORACLE ok")
	}
	out(fmt.Sprintf("META ops=%d layers=%d overwrites_of_older=%d merge_entries=%d nontrivial=%d", len(c.Lines), len(layersTouched), nOverwriteOlder, nMerge, nt))
}

func werrShort(err error) string {
	s := err.Error()
	switch {
	case strings.Contains(s, "overflow"):
		return "overflow"
	case strings.Contains(s, "too large"):
		return "toolarge"
	case strings.Contains(s, "rotating"):
		return "rotating"
	}
	return "other:" + strings.ReplaceAll(s, " ", "_")
}

// ---- generators ----

func genVal(r *rand.Rand) string {
	switch pick(r, 2, 8, 3, 1) {
	case 0:
		return "-"
	case 1:
		b := make([]byte, 1+r.Intn(12))
		r.Read(b)
		return mkTok(b)
	case 2:
		return fmt.Sprintf("@%d:%d", 50+r.Intn(300), r.Intn(1<<20))
	default:
		// sizes aimed at the log record format (see bigEntry in c09.go): a value whose
		// fragments end exactly at / one byte around a record boundary, or just any big one
		_, vl := bigEntry(r, false)
		if vl > 140000 {
			vl = 70000
		}
		return lenTok(r, vl)
	}
}

func genBops(w *bufio.Writer, r *rand.Rand, n, nkeys int) {
	for j := 0; j < n; j++ {
		if r.Intn(4) == 0 {
			fmt.Fprintf(w, "d %s\n", mkTok(genKey(r, nkeys)))
		} else {
			fmt.Fprintf(w, "p %s %s\n", mkTok(genKey(r, nkeys)), genVal(r))
		}
	}
}

// the entries of an mbatch: merge operands, now and then mixed with puts and deletes
func genMops(w *bufio.Writer, r *rand.Rand, n, nkeys int, mixed bool) {
	for j := 0; j < n; j++ {
		switch {
		case mixed && r.Intn(3) == 0:
			fmt.Fprintf(w, "p %s %s\n", mkTok(genKey(r, nkeys)), genVal(r))
		case mixed && r.Intn(6) == 0:
			fmt.Fprintf(w, "d %s\n", mkTok(genKey(r, nkeys)))
		default:
			fmt.Fprintf(w, "m %s %s\n", mkTok(genKey(r, nkeys+1)), genVal(r))
		}
	}
}

func genProgram(w *bufio.Writer, r *rand.Rand, id string, nops int, reopenW int) {
	memsize := []int{120, 200, 400, 1000, 4096, 100000}[r.Intn(6)]
	maxmem := 1000
	if memsize <= 400 && r.Intn(5) == 0 {
		// more sealed tables wait for the (held) background flush than MaxMemTables: writes go on
		// all the same; no reopen in these programs (the log outgrows the recovery budget: D11)
		maxmem = 2 + r.Intn(2)
		reopenW = 0
	}
	fmt.Fprintf(w, "case %s memsize=%d maxmem=%d sync=%s\n", id, memsize, maxmem, []string{"immediate", "immediate", "none", "batch"}[r.Intn(4)])
	nkeys := 2 + r.Intn(5)
	for i := 0; i < nops; i++ {
		if r.Intn(25) == 0 {
			if r.Intn(2) == 0 {
				fmt.Fprintf(w, "compact\n")
			} else {
				fmt.Fprintf(w, "compact %s %s\n", mkTok(genKey(r, nkeys)), mkTok(genKey(r, nkeys)))
			}
			continue
		}
		switch pick(r, 10, 4, 8, 2, 3, 1, 3, reopenW, 1, 2) {
		case 0:
			fmt.Fprintf(w, "put %s %s\n", mkTok(genKey(r, nkeys)), genVal(r))
		case 1:
			fmt.Fprintf(w, "del %s\n", mkTok(genKey(r, nkeys)))
		case 2:
			fmt.Fprintf(w, "get %s\n", mkTok(genKey(r, nkeys+1)))
		case 3:
			n := r.Intn(5)
			fmt.Fprintf(w, "batch %d\n", n)
			genBops(w, r, n, nkeys)
		case 4:
			n := r.Intn(6)
			fmt.Fprintf(w, "commit %d\n", n)
			genBops(w, r, n, nkeys)
		case 5:
			n := 1 + r.Intn(3)
			fmt.Fprintf(w, "rollback %d\n", n)
			genBops(w, r, n, nkeys)
		case 6:
			fmt.Fprintf(w, "flush\n")
		case 7:
			fmt.Fprintf(w, "reopen\n")
		case 8:
			fmt.Fprintf(w, "layers\n")
		case 9:
			// ApplyBatch with merge operands (n = 0: the empty batch is accepted and only reads
			// the counter); one in three mixes them with puts and deletes
			n := r.Intn(4)
			fmt.Fprintf(w, "mbatch %d\n", n)
			genMops(w, r, n, nkeys, r.Intn(3) == 0)
		}
	}
	fmt.Fprintf(w, "layers\n")
	for k := 0; k < nkeys+1; k++ {
		fmt.Fprintf(w, "get %s\n", mkTok(genKey(r, k+1)))
	}
	fmt.Fprintf(w, "end\n")
}

// records waiting in the log's write buffer (sync none / batch), then a transaction or batch
// that is larger than the buffer (64 KB), more writes, a clean close and reopen
func genBigBatch(w *bufio.Writer, r *rand.Rand, id string) {
	fmt.Fprintf(w, "case %s memsize=10000000 maxmem=1000 sync=%s\n", id, []string{"none", "batch", "none", "immediate"}[r.Intn(4)])
	nkeys := 4 + r.Intn(4)
	small := func() {
		for k := 2 + r.Intn(6); k > 0; k-- {
			if r.Intn(5) == 0 {
				fmt.Fprintf(w, "del %s\n", mkTok(genKey(r, nkeys)))
			} else {
				fmt.Fprintf(w, "put %s %s\n", mkTok(genKey(r, nkeys)), mkTok([]byte(fmt.Sprintf("s%d", r.Intn(1000)))))
			}
		}
	}
	small()
	for rounds := 1 + r.Intn(2); rounds > 0; rounds-- {
		what := []string{"commit", "batch"}[r.Intn(2)]
		if r.Intn(2) == 0 {
			fmt.Fprintf(w, "%s 2\np %s @%d:%d\np %s %s\n", what, mkTok(genKey(r, nkeys)), 66000+r.Intn(60000), r.Intn(1000), mkTok(genKey(r, nkeys)), mkTok([]byte("x")))
		} else {
			n := 8 + r.Intn(4)
			fmt.Fprintf(w, "%s %d\n", what, n)
			for i := 0; i < n; i++ {
				fmt.Fprintf(w, "p %s @%d:%d\n", mkTok([]byte(fmt.Sprintf("big%02d", i))), 8500+r.Intn(3000), r.Intn(1000))
			}
		}
		small()
	}
	fmt.Fprintf(w, "reopen\n")
	for k := 0; k < nkeys+1; k++ {
		fmt.Fprintf(w, "get %s\n", mkTok(genKey(r, k+1)))
	}
	fmt.Fprintf(w, "get %s\nend\n", mkTok([]byte("big03")))
}

func genC01(w *bufio.Writer, seed int64, n int, tier string) {
	r := rand.New(rand.NewSource(seed*104729 + 1))
	for ci := 0; ci < n; ci++ {
		if ci%12 == 7 {
			genBigBatch(w, r, fmt.Sprintf("c01-%d-%d", seed, ci))
			continue
		}
		nops := 5 + r.Intn(60)
		if tier == "thorough" && ci%50 == 0 {
			nops = 400 + r.Intn(600)
		}
		genProgram(w, r, fmt.Sprintf("c01-%d-%d", seed, ci), nops, 2)
	}
}

// C08 programs weigh rotation (flush) and reopen more heavily
var schedSites = []string{"rotate.marked", "rotate.new_wal", "rotate.swapped", "rotate.closed", "flush.before_finish", "flush.sst_written", "flush.published"}

func genSched(w *bufio.Writer, r *rand.Rand, id string) {
	fmt.Fprintf(w, "case %s memsize=%d maxmem=1000 mode=sched\n", id, []int{200, 100000}[r.Intn(2)])
	nops := 6 + r.Intn(14)
	uniq := 0
	val := func() string { uniq++; return mkTok([]byte(fmt.Sprintf("u%04d", uniq))) }
	fmt.Fprintf(w, "put %s %s\n", mkTok(genKey(r, 4)), val())
	for i := 0; i < nops; i++ {
		switch pick(r, 6, 1, 3, 1) {
		case 0:
			fmt.Fprintf(w, "put %s %s\n", mkTok(genKey(r, 4)), val())
		case 1:
			fmt.Fprintf(w, "del %s\n", mkTok(genKey(r, 4)))
		case 2:
			fmt.Fprintf(w, "flushgate %s\nput %s %s\n", schedSites[r.Intn(len(schedSites))], mkTok(genKey(r, 4)), val())
		case 3:
			fmt.Fprintf(w, "get %s\n", mkTok(genKey(r, 4)))
		}
	}
	fmt.Fprintf(w, "put %s %s\nend\n", mkTok(genKey(r, 4)), val())
}

// a merge-only batch is the LAST write before a close and reopen (so the highest number in
// the log belongs to entries that recovery has nothing to rebuild from), then more writes; the
// final close of the case is the crash-free close. Variants: a flush (log rotation) before or
// after the merge batch, several rounds, a second reopen right away, a get between.
func genMergeLast(w *bufio.Writer, r *rand.Rand, id string) {
	fmt.Fprintf(w, "case %s memsize=%d maxmem=1000 sync=%s\n", id, []int{120, 400, 4096, 100000}[r.Intn(4)],
		[]string{"immediate", "none", "batch"}[r.Intn(3)])
	nkeys := 2 + r.Intn(4)
	write := func() {
		switch pick(r, 6, 2, 2, 2) {
		case 0:
			fmt.Fprintf(w, "put %s %s\n", mkTok(genKey(r, nkeys)), genVal(r))
		case 1:
			fmt.Fprintf(w, "del %s\n", mkTok(genKey(r, nkeys)))
		case 2:
			n := 1 + r.Intn(3)
			fmt.Fprintf(w, "batch %d\n", n)
			genBops(w, r, n, nkeys)
		case 3:
			n := 1 + r.Intn(3)
			fmt.Fprintf(w, "commit %d\n", n)
			genBops(w, r, n, nkeys)
		}
	}
	for rounds := 1 + r.Intn(3); rounds > 0; rounds-- {
		for k := r.Intn(4); k > 0; k-- {
			write()
		}
		if r.Intn(3) == 0 {
			fmt.Fprintf(w, "flush\n")
		}
		n := 1 + r.Intn(3)
		fmt.Fprintf(w, "mbatch %d\n", n)
		genMops(w, r, n, nkeys, false)
		switch r.Intn(5) {
		case 0:
			fmt.Fprintf(w, "flush\n")
		case 1:
			fmt.Fprintf(w, "get %s\n", mkTok(genKey(r, nkeys+1)))
		case 2:
			fmt.Fprintf(w, "mbatch 0\n")
		}
		fmt.Fprintf(w, "reopen\n")
		if r.Intn(4) == 0 {
			fmt.Fprintf(w, "reopen\n")
		}
		for k := 1 + r.Intn(3); k > 0; k-- {
			write()
		}
	}
	if r.Intn(2) == 0 {
		// the case ends with a merge-only batch and the crash-free close
		fmt.Fprintf(w, "mbatch 1\n")
		genMops(w, r, 1, nkeys, false)
	}
	fmt.Fprintf(w, "layers\n")
	for k := 0; k < nkeys+1; k++ {
		fmt.Fprintf(w, "get %s\n", mkTok(genKey(r, k+1)))
	}
	fmt.Fprintf(w, "end\n")
}

func genC08(w *bufio.Writer, seed int64, n int, tier string) {
	r := rand.New(rand.NewSource(seed*15485863 + 8))
	for ci := 0; ci < n; ci++ {
		if ci%10 == 3 {
			genMergeLast(w, r, fmt.Sprintf("c08-%d-%d", seed, ci))
			continue
		}
		if ci%5 == 4 {
			genSched(w, r, fmt.Sprintf("c08-%d-%d", seed, ci))
			continue
		}
		if ci%10 == 7 {
			genC09Case(w, r, fmt.Sprintf("case c08-%d-%d level=wal", seed, ci))
			continue
		}
		if ci%10 == 1 {
			// crash recoveries (every third of them with a large entry whose fragments end at the
			// end of the surviving file)
			genC02One(w, r, fmt.Sprintf("c08-%d-%d", seed, ci), " level=crash", []int{0, 2, 1, 5}[(ci/10)%4])
			continue
		}
		genProgram(w, r, fmt.Sprintf("c08-%d-%d", seed, ci), 5+r.Intn(50), 5)
	}
}

var _ = engine.ErrKeyNotFound
