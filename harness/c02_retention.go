package main

// C02, case kind mode=retention (known finding D20): acknowledged writes whose only durable copy
// is a NON-current log file are lost when the replication primary retires that file.
//
// Everything goes through the real code.  A child process opens the engine with synchronous
// logging and a small memtable (background flusher parked, as in every C02 case), runs the
// program (put / del / flush): the writes fill immutable memtables; the explicit flush rotates
// the log (rotateWAL closes the old file) and writes the PENDING immutable tables to SSTables,
// while the entries of the still active memtable stay in memory and in the old log file only;
// one more write lands in the new file.  Then a replication.Primary on the engine's WAL
// (VerifStorage().VerifWAL()) serves one session (Primary.StreamWAL with an in-memory stream) and
// receives Acknowledge(last sequence) — what an acknowledging replica sends.
// Primary.maybeManageWALRetention deletes every non-current log file whose highest number is
// below the acknowledged one, flushed or not.  The child dies (os.Exit(137), no Close); the parent
// reopens and applies C02's oracle: recovered state = state after m writes, acknowledged <= m.
// Oracle only: no model lines (observations are NOTE lines).  KF wal_retired_before_flush is
// emitted only if a lost write was logged in a file that retention deleted while its entry was in
// no SSTable (file lists before/after the Acknowledge and the SSTable contents are compared).

import (
	"bytes"
	"context"
	"fmt"
	"os"
	"os/exec"
	"path/filepath"
	"sort"
	"strconv"
	"strings"
	"sync"
	"time"

	"github.com/KevoDB/kevo/pkg/config"
	"github.com/KevoDB/kevo/pkg/replication"
	"github.com/KevoDB/kevo/pkg/wal"
	rproto "github.com/KevoDB/kevo/proto/kevo/replication"
	"google.golang.org/grpc"
	"google.golang.org/grpc/metadata"
)

// memStream: an in-memory server side of StreamWAL
type memStream struct {
	grpc.ServerStream
	ctx    context.Context
	mu     sync.Mutex
	header metadata.MD
	sent   int
}

func (s *memStream) Context() context.Context { return s.ctx }
func (s *memStream) SendHeader(md metadata.MD) error {
	s.mu.Lock()
	s.header = md
	s.mu.Unlock()
	return nil
}
func (s *memStream) SetHeader(metadata.MD) error { return nil }
func (s *memStream) SetTrailer(metadata.MD)      {}
func (s *memStream) Send(*rproto.WALStreamResponse) error {
	s.mu.Lock()
	s.sent++
	s.mu.Unlock()
	return nil
}
func (s *memStream) sessionID() string {
	s.mu.Lock()
	defer s.mu.Unlock()
	if v := s.header.Get("session-id"); len(v) > 0 {
		return v[0]
	}
	return ""
}

// walFileBounds: "<base name> <min seq> <max seq> <entries>" of every log file
func walFileBounds(dir string) []string {
	files, _ := wal.FindWALFiles(filepath.Join(dir, "wal"))
	var out []string
	for _, f := range files {
		r, err := wal.OpenReader(f)
		if err != nil {
			out = append(out, filepath.Base(f)+" 0 0 0")
			continue
		}
		var lo, hi uint64
		n := 0
		for {
			e, err := r.ReadEntry()
			if err != nil {
				break
			}
			if n == 0 || e.SequenceNumber < lo {
				lo = e.SequenceNumber
			}
			if e.SequenceNumber > hi {
				hi = e.SequenceNumber
			}
			n++
		}
		r.Close()
		out = append(out, fmt.Sprintf("%s %d %d %d", filepath.Base(f), lo, hi, n))
	}
	return out
}

func childC02Retention(c *Case, args []string) {
	dir := args[0]
	root := filepath.Dir(dir)
	ack, _ := os.OpenFile(filepath.Join(root, "acklog"), os.O_CREATE|os.O_WRONLY|os.O_APPEND, 0644)
	rep, _ := os.OpenFile(filepath.Join(root, "retention.report"), os.O_CREATE|os.O_WRONLY|os.O_APPEND, 0644)
	say := func(f string, a ...interface{}) { rep.WriteString(fmt.Sprintf(f, a...) + "\n") }
	holdBackground()
	e, err := openEngine(dir)
	if err != nil {
		ack.WriteString("openerr " + err.Error() + "\n")
		os.Exit(4)
	}
	wi := 0
	for _, l := range c.Lines {
		switch l[0] {
		case "put", "del":
			ack.WriteString(fmt.Sprintf("i %d\n", wi))
			var err error
			if l[0] == "put" {
				err = e.Put(tok(l[1]), tok(l[2]))
			} else {
				err = e.Delete(tok(l[1]))
			}
			if err == nil {
				ack.WriteString(fmt.Sprintf("a %d\n", wi))
			} else {
				ack.WriteString(fmt.Sprintf("e %d %s\n", wi, strings.ReplaceAll(err.Error(), "\n", " ")))
			}
			wi++
		case "flush":
			say("pending_before_flush %d", e.VerifStorage().VerifPendingFlush())
			if err := e.FlushImMemTables(); err != nil {
				say("flusherr %s", strings.ReplaceAll(err.Error(), "\n", " "))
			}
		}
	}
	st := e.VerifStorage()
	last := st.VerifNextSequence() - 1
	for _, b := range walFileBounds(dir) {
		say("before %s", b)
	}
	for _, ly := range st.VerifLayers() {
		var seqs []string
		for _, en := range ly.Entries {
			seqs = append(seqs, strconv.FormatUint(en.Seq, 10))
		}
		say("layer %s %s", ly.Kind, strings.Join(seqs, ","))
	}
	// the replication primary on the engine's WAL, one session, one acknowledgement
	pc := replication.DefaultPrimaryConfig()
	pc.HeartbeatConfig = &replication.HeartbeatConfig{Interval: time.Hour, Timeout: 2 * time.Hour}
	p, err := replication.NewPrimary(st.VerifWAL(), pc)
	if err != nil {
		say("primaryerr %v", err)
		os.Exit(4)
	}
	ctx, cancel := context.WithCancel(context.Background())
	ms := &memStream{ctx: ctx}
	go p.StreamWAL(&rproto.WALStreamRequest{StartSequence: 1, ListenerAddress: "127.0.0.1:1"}, ms)
	for i := 0; i < 500 && ms.sessionID() == ""; i++ {
		time.Sleep(10 * time.Millisecond)
	}
	sid := ms.sessionID()
	actx := metadata.NewIncomingContext(context.Background(), metadata.Pairs("session-id", sid))
	resp, err := p.Acknowledge(actx, &rproto.Ack{AcknowledgedUpTo: last})
	say("ack upto=%d session=%v success=%v err=%v", last, sid != "", resp.GetSuccess(), err)
	for _, b := range walFileBounds(dir) {
		say("after %s", b)
	}
	cancel()
	rep.Sync()
	os.Exit(137) // process stop: no Close, no flush
}

func runC02Retention(c *Case, out func(string)) {
	memsize, _ := strconv.ParseInt(hdrVal(c.Hdr, "memsize", "1024"), 10, 64)
	writes, _ := c02Writes(c)
	root := tmpDir("c02r-")
	defer os.RemoveAll(root)
	dir := filepath.Join(root, "db")
	if err := writeManifest(dir, memsize, 1000, func(cf *config.Config) {
		cf.WALSyncMode = config.SyncImmediate
	}); err != nil {
		out("IMPL-ERROR manifest " + err.Error())
		return
	}
	self, _ := os.Executable()
	cmd := exec.Command(self, "child", "C02", caseFilePath, c.ID, dir)
	cmd.Env = os.Environ()
	err := cmd.Run()
	if ee, isExit := err.(*exec.ExitError); !isExit || ee.ExitCode() != 137 {
		out(fmt.Sprintf("IMPL-ERROR child %v", err))
		return
	}
	acked, issued := 0, 0
	var fails []string
	if b, err := os.ReadFile(filepath.Join(root, "acklog")); err == nil {
		for _, ln := range strings.Split(string(b), "\n") {
			f := strings.Fields(ln)
			if len(f) >= 2 {
				n, _ := strconv.Atoi(f[1])
				switch f[0] {
				case "a":
					acked = n + 1
				case "i":
					issued = n + 1
				case "e":
					fails = append(fails, "write "+f[1]+" returned an error: "+strings.Join(f[2:], " "))
				}
			}
		}
	}
	type fb struct{ lo, hi uint64 }
	var ackUpTo uint64 // the sequence number the replica acknowledged
	before, after := map[string]fb{}, map[string]fb{}
	sst := map[uint64]bool{}
	if b, err := os.ReadFile(filepath.Join(root, "retention.report")); err == nil {
		for _, ln := range strings.Split(string(b), "\n") {
			f := strings.Fields(ln)
			if len(f) == 0 {
				continue
			}
			out("NOTE child: " + ln)
			switch {
			case (f[0] == "before" || f[0] == "after") && len(f) == 5:
				lo, _ := strconv.ParseUint(f[2], 10, 64)
				hi, _ := strconv.ParseUint(f[3], 10, 64)
				if f[0] == "before" {
					before[f[1]] = fb{lo, hi}
				} else {
					after[f[1]] = fb{lo, hi}
				}
			case f[0] == "ack" && len(f) >= 2 && strings.HasPrefix(f[1], "upto="):
				ackUpTo, _ = strconv.ParseUint(strings.TrimPrefix(f[1], "upto="), 10, 64)
			case f[0] == "layer" && len(f) == 3 && f[1] == "sst":
				for _, s := range strings.Split(f[2], ",") {
					n, _ := strconv.ParseUint(s, 10, 64)
					sst[n] = true
				}
			}
		}
	}
	var deleted []string
	for name := range before {
		if _, ok := after[name]; !ok {
			deleted = append(deleted, name)
		}
	}
	sort.Strings(deleted)
	out(fmt.Sprintf("NOTE acknowledged=%d issued=%d log files before=%d after=%d deleted by retention=%s", acked, issued, len(before), len(after), strings.Join(deleted, ",")))
	// reopen what the dead process left and read every key
	holdBackground()
	e, err := openEngine(dir)
	if err != nil {
		out("IMPL-ERROR reopen " + err.Error())
		return
	}
	seqAfter := lastSeq(e)
	got := map[string][]byte{}
	it, _ := e.GetIterator()
	for it.SeekToFirst(); it.Valid(); it.Next() {
		if !it.IsTombstone() {
			got[string(it.Key())] = append([]byte(nil), it.Value()...)
		}
	}
	e.Close()
	stateAfter := func(nw int) map[string][]byte {
		st := map[string][]byte{}
		for _, w := range writes[:nw] {
			for _, o := range w.ops {
				if o.del {
					delete(st, string(o.k))
				} else {
					st[string(o.k)] = o.v
				}
			}
		}
		return st
	}
	same := func(a, b map[string][]byte) bool {
		if len(a) != len(b) {
			return false
		}
		for k, v := range a {
			if w, ok := b[k]; !ok || !bytes.Equal(v, w) {
				return false
			}
		}
		return true
	}
	m := -1
	for k := issued; k >= acked; k-- {
		if k <= len(writes) && same(got, stateAfter(k)) {
			m = k
			break
		}
	}
	out(fmt.Sprintf("NOTE recovered keys=%d prefix m=%d", len(got), m))
	kf := false
	if m < 0 {
		// which acknowledged writes are gone: single writes are numbered 1, 2, ... on a fresh database
		var lost []uint64
		full := stateAfter(acked)
		for i := 0; i < acked; i++ {
			for _, o := range writes[i].ops {
				want, live := full[string(o.k)]
				if live && !o.del && bytes.Equal(want, o.v) {
					if v, ok := got[string(o.k)]; !ok || !bytes.Equal(v, want) {
						lost = append(lost, uint64(i+1))
					}
				}
			}
		}
		var ls []string
		for _, s := range lost {
			ls = append(ls, strconv.FormatUint(s, 10))
			for _, name := range deleted {
				b := before[name]
				// the known finding is about files whose highest number is BELOW the acknowledged
				// one (what the retention rule says it may delete); anything else is not excused
				if b.lo <= s && s <= b.hi && !sst[s] && (ackUpTo == 0 || b.hi < ackUpTo) {
					kf = true
				}
			}
		}
		fails = append(fails, fmt.Sprintf("after the process stop the database is not the state after m writes for any acknowledged=%d <= m <= issued=%d: acknowledged writes numbered %s are gone (log files deleted after the acknowledgement: %s)",
			acked, issued, strings.Join(ls, ","), strings.Join(deleted, ",")))
	}
	// C08 across retention and restart: single writes on a fresh database are numbered 1, 2, ...;
	// the counter the reopened database reports may not be behind the acknowledged writes (a log
	// file that holds the highest number may not be retired while no newer file has an entry)
	unexcused := false
	for _, name := range deleted {
		if b := before[name]; ackUpTo > 0 && b.hi >= ackUpTo {
			fails = append([]string{fmt.Sprintf("retention deleted the log file %s although its highest sequence number %d is not below the acknowledged sequence number %d", name, b.hi, ackUpTo)}, fails...)
			unexcused = true
		}
	}
	if seqAfter < uint64(acked) && !kf {
		fails = append([]string{fmt.Sprintf("last_sequence is %d after the restart, %d writes were acknowledged before it (log files deleted by retention: %s)", seqAfter, acked, strings.Join(deleted, ","))}, fails...)
		unexcused = true
	}
	if unexcused {
		kf = false
	}
	if len(fails) == 0 {
		out("ORACLE ok")
	} else {
		out("ORACLE FAIL " + fails[0])
		if kf {
			out("KF wal_retired_before_flush")
		}
	}
	nt := 0
	if len(deleted) > 0 && acked >= 3 {
		nt = 1
	}
	out(fmt.Sprintf("META mode=retention writes=%d deleted_files=%d nontrivial=%d", len(writes), len(deleted), nt))
}
