package main

// C16 — a replica refuses client writes but keeps applying replicated ones.
//
// One case = one node (real engine.EngineFacade + real replication.Manager started in the
// mode of the header + real KevoServiceServer behind an in-process gRPC server on a loopback
// port, TLS off) and a sequential program mixing client calls (embedded API by reflection on
// the method name, remote API by the service descriptor), replicated entries pushed through
// replication.EngineApplier (the applier type the manager builds; the replica's own network
// loop is left dialling a dead address), reads and node-information calls.
//
// Header: mode=replica|primary|standalone mgr=0|1 enabled=0|1 force=0|1 paddr=<tok> laddr=<tok>
//         kind=prog|table|race
// Lines:  e <Method> args      embedded call on *engine.EngineFacade (Put K V | Delete K |
//                              ApplyBatch n (+n lines p K V / d K) | BeginTransaction rw|ro |
//                              Get K | any other exported method, driven by its signature)
//         g <RPC> args         gRPC call (Put K V | Delete K | BatchWrite n (+n lines) |
//                              BeginTransaction rw|ro | Compact force|noforce | Get K | Scan |
//                              GetStats | GetNodeInfo | any other unary RPC, request filled by
//                              field name)
//         t <h> put K V | del K | get K | commit | rollback      on transaction handle h
//         l begin rw|ro        GetTransactionManager().BeginTransaction (the accessor path; F1, fixed in b9d5905)
//         r put K V | del K | merge K V (accepted, no effect) | bad K V | sync    EngineApplier.Apply / Sync
//         dump                 IsReadOnly + full scan through the embedded iterator
// Observations (mirrored by model/drv_c16.ml): R <result> | B h=<n> ok [ro=0|1] | G .. |
// S n=<count> + s K V | K keys=<n> | I role= paddr= ro= | A <result> | D ro= | E .. (table)

import (
	"bufio"
	"bytes"
	"context"
	"errors"
	"fmt"
	"io"
	"math/rand"
	"net"
	"os"
	"reflect"
	"sort"
	"strconv"
	"strings"
	"sync"
	"sync/atomic"
	"time"

	"github.com/KevoDB/kevo/pkg/engine"
	"github.com/KevoDB/kevo/pkg/engine/interfaces"
	"github.com/KevoDB/kevo/pkg/grpc/service"
	"github.com/KevoDB/kevo/pkg/replication"
	"github.com/KevoDB/kevo/pkg/transaction"
	"github.com/KevoDB/kevo/pkg/wal"
	pb "github.com/KevoDB/kevo/proto/kevo"
	"google.golang.org/grpc"
	"google.golang.org/grpc/credentials/insecure"
	"google.golang.org/grpc/status"
	"google.golang.org/protobuf/proto"
	"google.golang.org/protobuf/reflect/protoreflect"
	"google.golang.org/protobuf/reflect/protoregistry"
)

func init() { register("C16", &Prop{Gen: genC16, Run: runC16}) }

// keys of C16 programs: the shared alphabet without the empty key (the network service documents
// keys of 1..4096 bytes and rejects an empty key before it looks at the node's role: that rejection
// is C19's subject, not a read-only refusal)
func c16Key(r *rand.Rand, nkeys int) []byte {
	for {
		if k := genKey(r, nkeys); len(k) > 0 {
			return k
		}
	}
}

// ---------------------------------------------------------------------------------------
// node under test
// ---------------------------------------------------------------------------------------

type c16Node struct {
	dir  string
	e    *engine.EngineFacade
	mgr  *replication.Manager
	reg  transaction.Registry
	gs   *grpc.Server
	conn *grpc.ClientConn
	ap   *replication.EngineApplier
	mode string
	mgrStopped bool
	// the transaction manager as a component that was wired up before the node took its role
	// (before replication.Manager.Start made the engine read-only) holds it
	early interface{}
}

var c16DialTimeout = 20 * time.Millisecond

func c16Start(mode string, mgr, enabled, force bool, paddr, laddr string) (*c16Node, error) {
	n := &c16Node{dir: tmpDir("c16-"), mode: mode}
	if err := writeManifest(n.dir, 100000000, 1000, nil); err != nil {
		return nil, err
	}
	holdBackground()
	e, err := openEngine(n.dir)
	if err != nil {
		return nil, err
	}
	n.e = e
	if res, _, ok := callFacade(e, "GetTransactionManager", nil, nil); ok && len(res) == 1 {
		n.early = res[0].Interface()
	}
	var info service.ReplicationInfoProvider
	if mgr {
		rc := replication.DefaultReplicaConfig()
		// the replica's own loop dials a dead address once and then waits; keep the dial short
		// (Connect holds the replica's mutex while dialling, GetNodeInfo and Stop need it)
		rc.Connection.DialTimeout = c16DialTimeout
		rc.Connection.RetryBaseDelay = time.Hour
		rc.Connection.RetryMaxDelay = time.Hour
		cfg := &replication.ManagerConfig{Enabled: enabled, Mode: mode, PrimaryAddr: paddr, ListenAddr: laddr,
			PrimaryConfig: replication.DefaultPrimaryConfig(), ReplicaConfig: rc, ForceReadOnly: force}
		m, err := replication.NewManager(e, cfg)
		if err != nil {
			return nil, err
		}
		// the same call cmd/kevo/server.go makes; for a replica this is what sets the engine
		// read-only (Manager.startReplica -> setEngineReadOnly)
		if err := m.Start(); err != nil {
			e.Close()
			return nil, err
		}
		n.mgr = m
		info = m
	}
	n.reg = transaction.NewRegistry()
	svc := service.NewKevoServiceServer(e, n.reg, info)
	lis, err := net.Listen("tcp", "127.0.0.1:0")
	if err != nil {
		return nil, err
	}
	n.gs = grpc.NewServer()
	pb.RegisterKevoServiceServer(n.gs, svc)
	go n.gs.Serve(lis)
	conn, err := grpc.NewClient(lis.Addr().String(), grpc.WithTransportCredentials(insecure.NewCredentials()))
	if err != nil {
		return nil, err
	}
	n.conn = conn
	n.ap = replication.NewEngineApplier(e)
	return n, nil
}

func (n *c16Node) stop() {
	if n.conn != nil {
		n.conn.Close()
	}
	if n.reg != nil {
		ctx, cancel := context.WithTimeout(context.Background(), 2*time.Second)
		n.reg.GracefulShutdown(ctx)
		cancel()
	}
	if n.gs != nil {
		n.gs.Stop()
	}
	if n.mgr != nil && !n.mgrStopped {
		n.mgr.Stop()
	}
	if n.e != nil {
		n.e.Close()
	}
	os.RemoveAll(n.dir)
}

type kvPair struct{ k, v []byte }

func (n *c16Node) scan() ([]kvPair, error) {
	it, err := n.e.GetIterator()
	if err != nil {
		return nil, err
	}
	var out []kvPair
	for it.SeekToFirst(); it.Valid(); it.Next() {
		if it.IsTombstone() {
			continue
		}
		out = append(out, kvPair{append([]byte{}, it.Key()...), append([]byte{}, it.Value()...)})
	}
	return out, nil
}

func scanEqual(a, b []kvPair) bool {
	if len(a) != len(b) {
		return false
	}
	for i := range a {
		if !bytes.Equal(a[i].k, b[i].k) || !bytes.Equal(a[i].v, b[i].v) {
			return false
		}
	}
	return true
}

// classify an error of the embedded or the remote API
func c16Err(err error) string {
	if err == nil {
		return "ok"
	}
	msg := err.Error()
	if st, ok := status.FromError(err); ok {
		msg = st.Message()
	}
	switch {
	case errors.Is(err, engine.ErrReadOnlyMode) || strings.Contains(msg, engine.ErrReadOnlyMode.Error()):
		return "roerr"
	case errors.Is(err, transaction.ErrReadOnlyTransaction) || strings.Contains(msg, "read-only transaction"):
		return "rotx"
	case errors.Is(err, transaction.ErrTransactionClosed):
		return "closed"
	case strings.Contains(msg, "transaction not found"):
		return "notfound"
	case strings.Contains(msg, "unsupported WAL entry type"):
		return "badtype"
	case strings.Contains(msg, "overflow"):
		return "overflow"
	}
	return "err:" + strings.ReplaceAll(msg, " ", "_")
}

// the read-only error class of the property: what a client is told when a write is refused
// because the node is a replica
func roClass(r string) bool { return r == "roerr" || r == "rotx" }

// ---------------------------------------------------------------------------------------
// generic drivers: embedded API by reflection, remote API by descriptor
// ---------------------------------------------------------------------------------------

var (
	tBytes   = reflect.TypeOf([]byte(nil))
	tBool    = reflect.TypeOf(true)
	tEntries = reflect.TypeOf([]*wal.Entry(nil))
	tErr     = reflect.TypeOf((*error)(nil)).Elem()
)

// methods of the facade that end or reconfigure the node: never called generically
var c16Lifecycle = map[string]bool{"Close": true, "SetReadOnly": true}

func facadeMethods(e *engine.EngineFacade) []string {
	t := reflect.TypeOf(e)
	var out []string
	for i := 0; i < t.NumMethod(); i++ {
		if !strings.HasPrefix(t.Method(i).Name, "Verif") { // views added under the verif build tag
			out = append(out, t.Method(i).Name)
		}
	}
	sort.Strings(out)
	return out
}

type txLike interface {
	Get(key []byte) ([]byte, error)
	Put(key, value []byte) error
	Delete(key []byte) error
	Commit() error
	Rollback() error
	IsReadOnly() bool
}

// callFacade invokes method name with arguments synthesised from its signature: the first
// []byte is the key, the second the value, bool = false, []*wal.Entry = one put.
// ok=false: the signature cannot be driven.
func callFacade(e *engine.EngineFacade, name string, k, v []byte) (results []reflect.Value, err error, ok bool) {
	m := reflect.ValueOf(e).MethodByName(name)
	if !m.IsValid() {
		return nil, nil, false
	}
	mt := m.Type()
	var args []reflect.Value
	nb := 0
	for i := 0; i < mt.NumIn(); i++ {
		switch mt.In(i) {
		case tBytes:
			if nb == 0 {
				args = append(args, reflect.ValueOf(k))
			} else {
				args = append(args, reflect.ValueOf(v))
			}
			nb++
		case tBool:
			args = append(args, reflect.ValueOf(false))
		case tEntries:
			args = append(args, reflect.ValueOf([]*wal.Entry{{Type: wal.OpTypePut, Key: k, Value: v}}))
		default:
			return nil, nil, false
		}
	}
	res := m.Call(args)
	for _, r := range res {
		if r.Type().Implements(tErr) && !r.IsNil() {
			err = r.Interface().(error)
		}
	}
	return res, err, true
}

// does a returned value hand out a way to write on a read-only engine? Something that begins
// transactions is tried: the engine is made read-only, a read-write begin is asked for, and the
// value is a capability iff a read-write transaction comes back. Anything that appends to the log
// or applies batches directly counts by its method set.
func isCapability(e *engine.EngineFacade, v reflect.Value) bool {
	if !v.IsValid() || (v.Kind() == reflect.Ptr || v.Kind() == reflect.Interface) && v.IsNil() {
		return false
	}
	for _, nm := range []string{"Append", "AppendBatch", "ApplyBatch"} {
		if v.MethodByName(nm).IsValid() {
			return true
		}
	}
	if b := v.MethodByName("BeginTransaction"); b.IsValid() && b.Type().NumIn() == 1 && b.Type().In(0) == tBool {
		was := e.IsReadOnly()
		e.SetReadOnly(true)
		defer e.SetReadOnly(was)
		res := b.Call([]reflect.Value{reflect.ValueOf(false)})
		if len(res) > 0 && res[0].CanInterface() {
			if tx, ok := res[0].Interface().(txLike); ok && tx != nil && !reflect.ValueOf(tx).IsNil() {
				rw := !tx.IsReadOnly()
				tx.Rollback()
				return rw
			}
		}
	}
	return false
}

var kevoSvc = func() protoreflect.ServiceDescriptor {
	d, err := protoregistry.GlobalFiles.FindDescriptorByName(protoreflect.FullName(pb.KevoService_ServiceDesc.ServiceName))
	if err != nil {
		panic(err)
	}
	return d.(protoreflect.ServiceDescriptor)
}()

func rpcNames() (unary, streams []string) {
	for _, m := range pb.KevoService_ServiceDesc.Methods {
		unary = append(unary, m.MethodName)
	}
	for _, s := range pb.KevoService_ServiceDesc.Streams {
		streams = append(streams, s.StreamName)
	}
	sort.Strings(unary)
	sort.Strings(streams)
	return
}

type rpcArgs struct {
	k, v  []byte
	txid  string
	flag  bool // read_only / force
	batch []bop
}

// fill a request message by field name
func fillRequest(md protoreflect.MethodDescriptor, a rpcArgs) protoreflect.Message {
	it, err := protoregistry.GlobalTypes.FindMessageByName(md.Input().FullName())
	if err != nil {
		panic(err)
	}
	req := it.New()
	fs := md.Input().Fields()
	for i := 0; i < fs.Len(); i++ {
		f := fs.Get(i)
		switch {
		case f.IsList() && f.Kind() == protoreflect.MessageKind:
			l := req.Mutable(f).List()
			for _, o := range a.batch {
				el := l.NewElement()
				em := el.Message()
				ef := em.Descriptor().Fields()
				if kf := ef.ByName("key"); kf != nil {
					em.Set(kf, protoreflect.ValueOfBytes(o.k))
				}
				if o.del {
					if tf := ef.ByName("type"); tf != nil {
						em.Set(tf, protoreflect.ValueOfEnum(protoreflect.EnumNumber(pb.Operation_DELETE)))
					}
				} else if vf := ef.ByName("value"); vf != nil {
					em.Set(vf, protoreflect.ValueOfBytes(o.v))
				}
				l.Append(el)
			}
		case f.IsList() || f.IsMap():
		case f.Kind() == protoreflect.BytesKind && f.Name() == "key":
			req.Set(f, protoreflect.ValueOfBytes(a.k))
		case f.Kind() == protoreflect.BytesKind && f.Name() == "value":
			req.Set(f, protoreflect.ValueOfBytes(a.v))
		case f.Kind() == protoreflect.StringKind && f.Name() == "transaction_id":
			req.Set(f, protoreflect.ValueOfString(a.txid))
		case f.Kind() == protoreflect.BoolKind && (f.Name() == "read_only" || f.Name() == "force"):
			req.Set(f, protoreflect.ValueOfBool(a.flag))
		}
	}
	return req
}

func (n *c16Node) rpc(name string, a rpcArgs) (protoreflect.Message, error) {
	md := kevoSvc.Methods().ByName(protoreflect.Name(name))
	if md == nil {
		return nil, fmt.Errorf("no such rpc %s", name)
	}
	ot, err := protoregistry.GlobalTypes.FindMessageByName(md.Output().FullName())
	if err != nil {
		return nil, err
	}
	req := fillRequest(md, a)
	ctx, cancel := context.WithTimeout(context.Background(), 5*time.Second)
	defer cancel()
	full := "/" + pb.KevoService_ServiceDesc.ServiceName + "/" + name
	if md.IsStreamingServer() {
		st, err := n.conn.NewStream(ctx, &grpc.StreamDesc{ServerStreams: true}, full)
		if err != nil {
			return nil, err
		}
		if err := st.SendMsg(req.Interface()); err != nil {
			return nil, err
		}
		st.CloseSend()
		// collect the stream into a synthetic list kept in c16Node.lastStream
		n2 := []kvPair{}
		for {
			resp := ot.New()
			if err := st.RecvMsg(resp.Interface()); err != nil {
				if errors.Is(err, io.EOF) {
					break
				}
				return nil, err
			}
			kf, vf := resp.Descriptor().Fields().ByName("key"), resp.Descriptor().Fields().ByName("value")
			if kf != nil && vf != nil {
				n2 = append(n2, kvPair{resp.Get(kf).Bytes(), resp.Get(vf).Bytes()})
			}
		}
		lastStream = n2
		return nil, nil
	}
	resp := ot.New()
	err = n.conn.Invoke(ctx, full, req.Interface(), resp.Interface())
	return resp, err
}

var lastStream []kvPair

func msgString(m protoreflect.Message, name string) (string, bool) {
	if m == nil {
		return "", false
	}
	f := m.Descriptor().Fields().ByName(protoreflect.Name(name))
	if f == nil || f.Kind() != protoreflect.StringKind {
		return "", false
	}
	return m.Get(f).String(), true
}

// ---------------------------------------------------------------------------------------
// the table case: dynamic classification of every entry point on a writable node
// ---------------------------------------------------------------------------------------

func runC16Table(c *Case, out func(string)) {
	tw, err := c16Start("standalone", true, true, true, "127.0.0.1:1", "127.0.0.1:0")
	if err != nil {
		out("IMPL-ERROR start " + err.Error())
		return
	}
	defer tw.stop()
	tw.e.Put([]byte("base"), []byte("0"))
	unprobed := 0
	nmut := 0
	changed := func(f func()) bool {
		before, _ := tw.scan()
		f()
		after, _ := tw.scan()
		return !scanEqual(before, after)
	}
	for _, name := range facadeMethods(tw.e) {
		if c16Lifecycle[name] {
			out(fmt.Sprintf("E facade %s mut=0 cap=0", name))
			out("NOTE " + name + " is a lifecycle/configuration call: not driven")
			continue
		}
		capab := false
		driven := true
		tw.e.Put([]byte("probe-"+name), []byte("pre")) // so that a delete shows
		mut := changed(func() {
			res, _, ok := callFacade(tw.e, name, []byte("probe-"+name), []byte("x"))
			if !ok {
				driven = false
				return
			}
			for _, r := range res {
				if !r.IsValid() || !r.CanInterface() {
					continue
				}
				if tx, ok := r.Interface().(txLike); ok && tx != nil && !reflect.ValueOf(tx).IsNil() {
					// a transaction came back: use it
					tx.Put([]byte("probe-"+name), []byte("x"))
					tx.Commit()
					continue
				}
				if isCapability(tw.e, r) {
					capab = true
				}
				if it, ok := r.Interface().(interface{ Valid() bool }); ok && it != nil {
					_ = it // iterators need no release
				}
			}
		})
		if !driven {
			unprobed++
			out("NOTE facade method " + name + " has a signature the harness cannot drive; the fact table alone covers it")
		}
		if mut {
			nmut++
		}
		out(fmt.Sprintf("E facade %s mut=%s cap=%s", name, b01(mut), b01(capab)))
	}
	unary, streams := rpcNames()
	all := append(unary, streams...)
	sort.Strings(all)
	for _, name := range all {
		md := kevoSvc.Methods().ByName(protoreflect.Name(name))
		tw.e.Put([]byte("probe-rpc-"+name), []byte("pre"))
		mut := changed(func() {
			a := rpcArgs{k: []byte("probe-rpc-" + name), v: []byte("y"), flag: true,
				batch: []bop{{k: []byte("probe-rpc-" + name), v: []byte("y")}}}
			began := ""
			if md.Input().Fields().ByName("transaction_id") != nil {
				r, err := tw.rpc("BeginTransaction", rpcArgs{flag: false})
				if err == nil {
					began, _ = msgString(r, "transaction_id")
				}
				a.txid = began
			}
			if md.Input().Fields().ByName("read_only") != nil {
				a.flag = false // ask for a read-write transaction
			}
			resp, _ := tw.rpc(name, a)
			if id, ok := msgString(resp, "transaction_id"); ok && id != "" {
				// a transaction came back: use it
				tw.rpc("TxPut", rpcArgs{txid: id, k: a.k, v: a.v})
				tw.rpc("CommitTransaction", rpcArgs{txid: id})
			}
			if began != "" {
				tw.rpc("CommitTransaction", rpcArgs{txid: began}) // "not found" when the call ended it
			}
		})
		if mut {
			nmut++
		}
		out(fmt.Sprintf("E rpc %s mut=%s", name, b01(mut)))
	}
	out("ORACLE ok")
	out(fmt.Sprintf("META kind=table unprobed=%d mutators=%d nontrivial=%d", unprobed, nmut, b2i(nmut >= 6)))
}

func b01(b bool) string {
	if b {
		return "1"
	}
	return "0"
}

func b2i(b bool) int {
	if b {
		return 1
	}
	return 0
}

// ---------------------------------------------------------------------------------------
// the race case (F2, fixed in 574c666): Apply of Merge entries against concurrent client puts
// ---------------------------------------------------------------------------------------

func runC16Race(c *Case, out func(string)) {
	n, err := c16Start("replica", true, true, true, "127.0.0.1:1", "127.0.0.1:0")
	if err != nil {
		out("IMPL-ERROR start " + err.Error())
		return
	}
	defer n.stop()
	out("X race")
	iters := 300
	entryType := uint8(wal.OpTypeMerge)
	for _, l := range c.Lines {
		if l[0] == "x" && len(l) >= 3 {
			iters, _ = strconv.Atoi(l[2])
			switch l[1] {
			case "race-put":
				entryType = wal.OpTypePut
			case "race-delete":
				entryType = wal.OpTypeDelete
			case "race-all":
				entryType = 0 // puts, deletes and merge entries in turn
			}
		}
	}
	var accepted, attempts int64
	var done atomic.Bool
	var wg sync.WaitGroup
	for g := 0; g < 4; g++ {
		wg.Add(1)
		go func(g int) {
			defer wg.Done()
			for i := 0; !done.Load(); i++ {
				atomic.AddInt64(&attempts, 1)
				if err := n.e.Put([]byte(fmt.Sprintf("client-%d-%d", g, i)), []byte("w")); err == nil {
					atomic.AddInt64(&accepted, 1)
				}
			}
		}(g)
	}
	for i := 0; i < iters; i++ {
		t := entryType
		if t == 0 {
			t = []uint8{wal.OpTypePut, wal.OpTypeDelete, wal.OpTypeMerge}[i%3]
		}
		e := &wal.Entry{Type: t, Key: []byte("repl"), Value: []byte(strconv.Itoa(i))}
		if t == wal.OpTypeDelete {
			e.Value = nil
		}
		n.ap.Apply(e)
	}
	done.Store(true)
	wg.Wait()
	data, _ := n.scan()
	clientKeys := 0
	for _, p := range data {
		if strings.HasPrefix(string(p.k), "client-") {
			clientKeys++
		}
	}
	out(fmt.Sprintf("NOTE race applies=%d client_attempts=%d accepted=%d client_keys_in_data=%d", iters, attempts, accepted, clientKeys))
	if accepted > 0 || clientKeys > 0 {
		out(fmt.Sprintf("ORACLE FAIL C16: %d client puts were accepted (and %d client keys are in the data) on a replica while the applier applied entries of type %d", accepted, clientKeys, entryType))
	} else {
		out("ORACLE ok")
	}
	out(fmt.Sprintf("META kind=race accepted=%d nontrivial=%d", accepted, b2i(attempts > 100)))
}

// ---------------------------------------------------------------------------------------
// side observation F3: how long GetNodeInfo takes on a replica that is dialling its primary
// (DefaultPrimaryConnector.Connect holds Replica.mu for the whole blocking dial; GetNodeInfo
// needs it through Replica.GetLastAppliedSequence). Not part of the property: NOTE only.
// ---------------------------------------------------------------------------------------

func runC16InfoLatency(c *Case, out func(string)) {
	out("X infolat")
	old := c16DialTimeout
	c16DialTimeout = 600 * time.Millisecond
	defer func() { c16DialTimeout = old }()
	n, err := c16Start("replica", true, true, true, "127.0.0.1:1", "127.0.0.1:0")
	if err != nil {
		out("IMPL-ERROR start " + err.Error())
		return
	}
	defer n.stop()
	time.Sleep(100 * time.Millisecond) // let the replica's loop enter the dial
	t0 := time.Now()
	_, err = n.rpc("GetNodeInfo", rpcArgs{})
	d := time.Since(t0)
	_, gerr := n.rpc("Get", rpcArgs{k: []byte("a")})
	out(fmt.Sprintf("NOTE GetNodeInfo on a replica whose primary is unreachable took %d ms (dial timeout 600 ms; the default is 10 s) err=%v; a Get at the same time err=%v", d.Milliseconds(), err, gerr))
	out("ORACLE ok")
	out(fmt.Sprintf("META kind=infolat latency_ms=%d nontrivial=0", d.Milliseconds()))
}

// ---------------------------------------------------------------------------------------
// programs
// ---------------------------------------------------------------------------------------

type c16Handle struct {
	remote bool
	tx     txLike // embedded
	id     string // remote
	// oracle's own view
	rw      bool
	open    bool
	pending []bop
}

func runC16(c *Case, out func(string)) {
	switch hdrVal(c.Hdr, "kind", "prog") {
	case "table":
		runC16Table(c, out)
		return
	case "race":
		runC16Race(c, out)
		return
	case "infolat":
		runC16InfoLatency(c, out)
		return
	}
	mode := hdrVal(c.Hdr, "mode", "replica")
	mgr := hdrVal(c.Hdr, "mgr", "1") == "1"
	enabled := hdrVal(c.Hdr, "enabled", "1") == "1"
	force := hdrVal(c.Hdr, "force", "1") == "1"
	paddr := string(tok(hdrVal(c.Hdr, "paddr", "-")))
	laddr := string(tok(hdrVal(c.Hdr, "laddr", "-")))
	n, err := c16Start(mode, mgr, enabled, force, paddr, laddr)
	if err != nil && strings.Contains(err.Error(), "invalid replication mode") {
		// a mode string the manager does not know (another spelling, a typo): the node is not
		// started at all, so there is nothing that could run as a replica under another name
		out("X refused")
		out("ORACLE ok")
		out("META kind=prog refused_mode=1 nontrivial=0")
		return
	}
	if err != nil {
		out("IMPL-ERROR start " + err.Error())
		return
	}
	defer n.stop()
	// "a node running as a replica": started by the replication manager in replica mode with the
	// enforcement every shipped configuration uses
	isReplica := mgr && enabled && force && mode == "replica"

	oracleOK := true
	fail := func(m string) {
		if oracleOK {
			out("ORACLE FAIL " + m)
		}
		oracleOK = false
	}
	ref := map[string][]byte{} // what the data must be: on a replica only applied entries change it
	applyRef := func(ops []bop) {
		for _, o := range ops {
			if o.del {
				delete(ref, string(o.k))
			} else {
				ref[string(o.k)] = append([]byte{}, o.v...)
			}
		}
	}
	checkData := func(after string) {
		got, err := n.scan()
		if err != nil {
			fail("C16: scan failed after " + after + ": " + err.Error())
			return
		}
		bad := len(got) != len(ref)
		for _, p := range got {
			if w, ok := ref[string(p.k)]; !ok || !bytes.Equal(w, p.v) {
				bad = true
			}
		}
		if bad {
			what := "the data differs from what the accepted writes make it"
			if isReplica {
				what = "the replica's data is no longer what the applied entries make it"
			}
			fail(fmt.Sprintf("C16: after %s %s (%d live keys, expected %d)", after, what, len(got), len(ref)))
			return
		}
		for k, w := range ref {
			v, err := n.e.Get([]byte(k))
			if err != nil || !bytes.Equal(v, w) {
				fail(fmt.Sprintf("C16: after %s Get %s = %s, expected %s", after, render([]byte(k)), renderGet(v, err), render(w)))
				return
			}
		}
	}
	var handles []*c16Handle
	rwOpen := func() bool {
		for _, h := range handles {
			if h.open && h.rw {
				return true
			}
		}
		return false
	}
	anyOpen := func() bool {
		for _, h := range handles {
			if h.open {
				return true
			}
		}
		return false
	}
	// would this begin wait for the transaction lock? (sequential program: skip instead)
	blocks := func(wantRO bool, guarded bool) bool {
		effRO := wantRO || (guarded && n.e.IsReadOnly())
		if effRO {
			return rwOpen()
		}
		return anyOpen()
	}
	// a client mutation attempt: what the property demands of its outcome
	nAttempts, nRefused, nApplied, nReads, nInfo := 0, 0, 0, 0, 0
	kinds := map[string]bool{}
	attempt := func(what, r string, ops []bop) {
		nAttempts++
		kinds[strings.Fields(what)[0]+" "+strings.Fields(what)[1]] = true
		if isReplica {
			if !roClass(r) {
				fail(fmt.Sprintf("C16: %s on a replica returned %q, not a read-only error", what, r))
			} else {
				nRefused++
			}
		} else if r == "ok" {
			applyRef(ops)
		}
		checkData(what)
	}
	scanOut := func(l []kvPair) {
		out(fmt.Sprintf("S n=%d", len(l)))
		for _, p := range l {
			out("s " + render(p.k) + " " + render(p.v))
		}
	}
	checkScan := func(what string, l []kvPair) {
		nReads++
		if len(l) != len(ref) {
			fail(fmt.Sprintf("C16: %s returned %d keys, the data has %d", what, len(l), len(ref)))
			return
		}
		for i, p := range l {
			if w, ok := ref[string(p.k)]; !ok || !bytes.Equal(w, p.v) || (i > 0 && bytes.Compare(l[i-1].k, p.k) >= 0) {
				fail(fmt.Sprintf("C16: %s returned a wrong or misplaced pair %s=%s", what, render(p.k), render(p.v)))
				return
			}
		}
	}
	checkGet := func(what string, k, v []byte, found bool) {
		nReads++
		w, ok := ref[string(k)]
		if ok != found || (ok && !bytes.Equal(w, v)) {
			fail(fmt.Sprintf("C16: %s %s returned found=%v %s, the data says found=%v %s", what, render(k), found, render(v), ok, render(w)))
		}
	}

	for i := 0; i < len(c.Lines); i++ {
		l := c.Lines[i]
		line := strings.Join(l, " ")
		switch l[0] {
		case "e":
			switch l[1] {
			case "ApplyBatch":
				cnt, _ := strconv.Atoi(l[2])
				ops := parseBops(c, i, cnt)
				i += cnt
				var es []*wal.Entry
				for _, o := range ops {
					if o.del {
						es = append(es, &wal.Entry{Type: wal.OpTypeDelete, Key: o.k})
					} else {
						es = append(es, &wal.Entry{Type: wal.OpTypePut, Key: o.k, Value: o.v})
					}
				}
				res := reflect.ValueOf(n.e).MethodByName("ApplyBatch").Call([]reflect.Value{reflect.ValueOf(es)})
				var err error
				if !res[0].IsNil() {
					err = res[0].Interface().(error)
				}
				r := c16Err(err)
				out("R " + r)
				attempt(line, r, ops)
			case "BeginTransaction":
				wantRO := l[2] == "ro"
				if blocks(wantRO, true) {
					out("B blocked")
					break
				}
				// never wait for ever: if an earlier step handed out a read-write transaction that the
				// property forbids, this begin waits for a lock nobody will release
				bch := make(chan []reflect.Value, 1)
				go func() {
					bch <- reflect.ValueOf(n.e).MethodByName("BeginTransaction").Call([]reflect.Value{reflect.ValueOf(wantRO)})
				}()
				var res []reflect.Value
				select {
				case res = <-bch:
				case <-time.After(5 * time.Second):
					out("B hung")
					fail("C16: BeginTransaction on the facade does not return (the transaction lock is held by a transaction that should not exist on this node)")
				}
				if res == nil {
					break
				}
				if !res[1].IsNil() {
					out("B " + c16Err(res[1].Interface().(error)))
					break
				}
				tx := res[0].Interface().(interfaces.Transaction)
				handles = append(handles, &c16Handle{tx: tx, rw: !tx.IsReadOnly(), open: true})
				out(fmt.Sprintf("B h=%d ok ro=%s", len(handles)-1, b01(tx.IsReadOnly())))
				if isReplica && !wantRO && !tx.IsReadOnly() {
					fail("C16: BeginTransaction(false) on a replica handed out a read-write transaction")
				}
			case "Get":
				k := tok(l[2])
				res := reflect.ValueOf(n.e).MethodByName("Get").Call([]reflect.Value{reflect.ValueOf(k)})
				var err error
				if !res[1].IsNil() {
					err = res[1].Interface().(error)
				}
				v, _ := res[0].Interface().([]byte)
				out("G " + renderGet(v, err))
				checkGet("Get", k, v, err == nil)
			default:
				// Put, Delete and every other exported method: driven by signature
				var k, v []byte
				if len(l) > 2 {
					k = tok(l[2])
				}
				if len(l) > 3 {
					v = tok(l[3])
				}
				if c16Lifecycle[l[1]] {
					out("R skipped")
					break
				}
				m := reflect.ValueOf(n.e).MethodByName(l[1])
				if m.IsValid() && m.Type().NumIn() == 1 && m.Type().In(0) == tBool && blocks(false, true) {
					out("R blocked")
					break
				}
				before, _ := n.scan()
				res, err, ok := callFacade(n.e, l[1], k, v)
				if !ok {
					out("R undriven")
					break
				}
				for _, r := range res {
					if r.IsValid() && r.CanInterface() {
						if tx, ok := r.Interface().(txLike); ok && tx != nil && !reflect.ValueOf(tx).IsNil() {
							tx.Rollback()
						}
					}
				}
				r := c16Err(err)
				if l[1] != "Put" && l[1] != "Delete" && !roClass(r) {
					r = "ok" // generic call: only "refused as read-only or not" is observed
				}
				out("R " + r)
				switch l[1] {
				case "Put":
					attempt(line, r, []bop{{k: k, v: v}})
				case "Delete":
					attempt(line, r, []bop{{del: true, k: k}})
				default:
					// an entry point the harness has no name for: a mutation attempt iff it changes
					// the data of a writable twin
					after, _ := n.scan()
					if isReplica && !scanEqual(before, after) {
						fail(fmt.Sprintf("C16: %s changed the data of a replica", line))
						// the reference follows so that later lines are judged on their own
						ref = map[string][]byte{}
						for _, p := range after {
							ref[string(p.k)] = p.v
						}
					} else if isReplica && c16TwinMutates(l[1], k, v) && !roClass(r) {
						fail(fmt.Sprintf("C16: %s mutates a writable node but on a replica returned %q, not a read-only error", line, r))
					} else if !isReplica {
						ref = map[string][]byte{}
						for _, p := range after {
							ref[string(p.k)] = p.v
						}
					}
				}
			}
		case "l":
			wantRO := l[2] == "ro"
			if blocks(wantRO, true) {
				out("B blocked")
				break
			}
			res, _, ok := callFacade(n.e, "GetTransactionManager", nil, nil)
			if ok && len(l) > 3 && l[3] == "early" && n.early != nil {
				// the accessor's result taken when the node was opened, before it became a replica
				res = []reflect.Value{reflect.ValueOf(n.early)}
			}
			if !ok || len(res) != 1 || !res[0].MethodByName("BeginTransaction").IsValid() {
				out("B err:no_accessor")
				break
			}
			// the begin is expected not to wait (it is read-only on a read-only engine); should the
			// accessor hand out an unguarded manager again it would wait for the open readers
			ch := make(chan []reflect.Value, 1)
			go func() {
				ch <- res[0].MethodByName("BeginTransaction").Call([]reflect.Value{reflect.ValueOf(wantRO)})
			}()
			var r2 []reflect.Value
			select {
			case r2 = <-ch:
			case <-time.After(3 * time.Second):
				out("B hung")
				fail("C16: BeginTransaction through GetTransactionManager() waits for the transaction lock like a read-write begin although the engine is read-only")
			}
			if r2 == nil {
				break
			}
			if !r2[1].IsNil() {
				out("B " + c16Err(r2[1].Interface().(error)))
				break
			}
			tx := r2[0].Interface().(txLike)
			handles = append(handles, &c16Handle{tx: tx, rw: !tx.IsReadOnly(), open: true})
			out(fmt.Sprintf("B h=%d ok ro=%s", len(handles)-1, b01(tx.IsReadOnly())))
			if isReplica && !tx.IsReadOnly() {
				fail("C16: GetTransactionManager().BeginTransaction(false) on a replica handed out a read-write transaction")
			}
		case "g":
			switch l[1] {
			case "Put", "Delete":
				a := rpcArgs{k: tok(l[2])}
				ops := []bop{{del: true, k: a.k}}
				if l[1] == "Put" {
					a.v = tok(l[3])
					ops = []bop{{k: a.k, v: a.v}}
				}
				_, err := n.rpc(l[1], a)
				r := c16Err(err)
				out("R " + r)
				attempt(line, r, ops)
			case "BatchWrite":
				cnt, _ := strconv.Atoi(l[2])
				ops := parseBops(c, i, cnt)
				i += cnt
				if cnt > 0 && blocks(false, true) {
					out("R blocked")
					break
				}
				_, err := n.rpc("BatchWrite", rpcArgs{batch: ops})
				r := c16Err(err)
				out("R " + r)
				if cnt > 0 {
					attempt(line, r, c16Dedup(ops))
				} else {
					checkData(line)
				}
			case "Compact":
				if blocks(false, true) {
					out("R blocked")
					break
				}
				f := l[2] == "force"
				_, err := n.rpc("Compact", rpcArgs{flag: f})
				r := c16Err(err)
				out("R " + r)
				// maintenance (an empty transaction, and a memtable flush for force): served on
				// every node, and never a data change
				if err != nil {
					fail(fmt.Sprintf("C16: %s failed: %v", line, err))
				}
				checkData(line)
			case "BeginTransaction":
				wantRO := l[2] == "ro"
				if blocks(wantRO, true) {
					out("B blocked")
					break
				}
				resp, err := n.rpc("BeginTransaction", rpcArgs{flag: wantRO})
				if err != nil {
					out("B " + c16Err(err))
					break
				}
				id, _ := msgString(resp, "transaction_id")
				h := &c16Handle{remote: true, id: id, open: true}
				if tx, ok := n.reg.Get(id); ok {
					h.rw = !tx.IsReadOnly()
				}
				handles = append(handles, h)
				out(fmt.Sprintf("B h=%d ok", len(handles)-1))
				if isReplica && h.rw {
					fail("C16: BeginTransaction(read_only=false) on a replica registered a read-write transaction")
				}
			case "Get":
				k := tok(l[2])
				resp, err := n.rpc("Get", rpcArgs{k: k})
				if err != nil {
					out("R " + c16Err(err))
					fail("C16: remote Get failed: " + err.Error())
					break
				}
				g := resp.Interface().(*pb.GetResponse)
				if g.Found {
					out("G v:" + render(g.Value))
				} else {
					out("G notfound")
				}
				checkGet("remote Get", k, g.Value, g.Found)
			case "Scan":
				if rwOpen() {
					out("R blocked")
					break
				}
				if _, err := n.rpc("Scan", rpcArgs{}); err != nil {
					out("R " + c16Err(err))
					fail("C16: remote Scan failed: " + err.Error())
					break
				}
				scanOut(lastStream)
				checkScan("remote Scan", lastStream)
			case "GetStats":
				if rwOpen() {
					out("R blocked")
					break
				}
				resp, err := n.rpc("GetStats", rpcArgs{})
				if err != nil {
					out("R " + c16Err(err))
					fail("C16: GetStats failed: " + err.Error())
					break
				}
				kc := resp.Interface().(*pb.GetStatsResponse).KeyCount
				out(fmt.Sprintf("K keys=%d", kc))
				nReads++
				if int(kc) != len(ref) {
					fail(fmt.Sprintf("C16: GetStats counts %d keys, the data has %d", kc, len(ref)))
				}
			case "GetNodeInfo":
				resp, err := n.rpc("GetNodeInfo", rpcArgs{})
				if err != nil {
					out("R " + c16Err(err))
					fail("C16: GetNodeInfo failed: " + err.Error())
					break
				}
				ni := resp.Interface().(*pb.GetNodeInfoResponse)
				role := strings.ToLower(ni.NodeRole.String())
				out(fmt.Sprintf("I role=%s paddr=%s ro=%s", role, render([]byte(ni.PrimaryAddress)), b01(ni.ReadOnly)))
				nInfo++
				// truthfulness: against the configuration the node was started with and against
				// what the node does with a client write right now
				probe := n.e.Put([]byte("zz-info-probe"), []byte("p"))
				refuses := errors.Is(probe, engine.ErrReadOnlyMode)
				if probe == nil {
					n.e.Delete([]byte("zz-info-probe")) // writable node: remove the probe again
					n.e.GetStats()
				}
				if mgr {
					if role != mode {
						fail(fmt.Sprintf("C16: GetNodeInfo reports role %s, the node was started as %s", role, mode))
					}
					if ni.ReadOnly != refuses {
						fail(fmt.Sprintf("C16: GetNodeInfo reports read_only=%v but a client Put is refused=%v", ni.ReadOnly, refuses))
					}
					if mode == "replica" && ni.PrimaryAddress != paddr {
						fail(fmt.Sprintf("C16: GetNodeInfo reports primary address %q, configured %q", ni.PrimaryAddress, paddr))
					}
					if mode == "standalone" && ni.PrimaryAddress != "" {
						fail(fmt.Sprintf("C16: standalone node reports primary address %q", ni.PrimaryAddress))
					}
				}
				if isReplica && !(ni.ReadOnly && role == "replica") {
					fail("C16: a node running as a replica does not report role=replica read_only=true")
				}
			default:
				// any other unary RPC, request filled by field name
				a := rpcArgs{}
				if len(l) > 2 {
					a.k = tok(l[2])
				}
				if len(l) > 3 {
					a.v = tok(l[3])
				}
				before, _ := n.scan()
				_, err := n.rpc(l[1], a)
				r := c16Err(err)
				out("R " + r)
				after, _ := n.scan()
				if isReplica && !scanEqual(before, after) {
					fail(fmt.Sprintf("C16: %s changed the data of a replica", line))
				}
				ref = map[string][]byte{}
				for _, p := range after {
					ref[string(p.k)] = p.v
				}
			}
		case "t":
			hi, _ := strconv.Atoi(l[1])
			if hi < 0 || hi >= len(handles) {
				out("R notfound")
				break
			}
			h := handles[hi]
			var err error
			switch l[2] {
			case "put", "del":
				k := tok(l[3])
				var v []byte
				o := bop{del: true, k: k}
				if l[2] == "put" {
					v = tok(l[4])
					o = bop{k: k, v: v}
				}
				switch {
				case h.remote && l[2] == "put":
					_, err = n.rpc("TxPut", rpcArgs{txid: h.id, k: k, v: v})
				case h.remote:
					_, err = n.rpc("TxDelete", rpcArgs{txid: h.id, k: k})
				case l[2] == "put":
					err = h.tx.Put(k, v)
				default:
					err = h.tx.Delete(k)
				}
				r := c16Err(err)
				out("R " + r)
				if h.open {
					nAttempts++
					kinds["t "+l[2]+fmt.Sprint(h.remote)] = true
					if isReplica {
						if !roClass(r) {
							fail(fmt.Sprintf("C16: %s in a transaction on a replica returned %q, not a read-only error", l[2], r))
						} else {
							nRefused++
						}
					} else if r == "ok" {
						h.pending = append(h.pending, o)
					}
				}
				checkData(line)
			case "get":
				k := tok(l[3])
				var v []byte
				found := false
				if h.remote {
					var resp protoreflect.Message
					resp, err = n.rpc("TxGet", rpcArgs{txid: h.id, k: k})
					if err == nil {
						g := resp.Interface().(*pb.TxGetResponse)
						v, found = g.Value, g.Found
					}
				} else {
					v, err = h.tx.Get(k)
					if err != nil && strings.Contains(err.Error(), "not found") {
						err = nil
					} else if err == nil {
						found = true
					}
				}
				if err != nil {
					out("R " + c16Err(err))
					break
				}
				if found {
					out("G v:" + render(v))
				} else {
					out("G notfound")
				}
				if len(h.pending) == 0 {
					checkGet("transaction Get", k, v, found)
				}
			case "commit", "rollback":
				switch {
				case h.remote && l[2] == "commit":
					_, err = n.rpc("CommitTransaction", rpcArgs{txid: h.id})
				case h.remote:
					_, err = n.rpc("RollbackTransaction", rpcArgs{txid: h.id})
				case l[2] == "commit":
					err = h.tx.Commit()
				default:
					err = h.tx.Rollback()
				}
				r := c16Err(err)
				out("R " + r)
				if h.open && l[2] == "commit" && r == "ok" && !isReplica {
					applyRef(c16Dedup(h.pending))
				}
				if h.open && l[2] == "commit" && r == "ok" && isReplica && len(h.pending) > 0 {
					fail("C16: a transaction with accepted writes committed on a replica")
				}
				h.open = false
				h.pending = nil
				checkData(line)
			default:
				out("IMPL-ERROR bad line " + line)
			}
		case "r":
			var e *wal.Entry
			switch l[1] {
			case "put":
				e = &wal.Entry{Type: wal.OpTypePut, Key: tok(l[2]), Value: tok(l[3])}
			case "del":
				e = &wal.Entry{Type: wal.OpTypeDelete, Key: tok(l[2])}
			case "merge":
				e = &wal.Entry{Type: wal.OpTypeMerge, Key: tok(l[2]), Value: tok(l[3])}
			case "bad":
				e = &wal.Entry{Type: 9, Key: tok(l[2]), Value: tok(l[3])}
			}
			var err error
			if e != nil {
				err = n.ap.Apply(e)
			} else {
				err = n.ap.Sync()
			}
			r := c16Err(err)
			out("A " + r)
			if e != nil && e.Type != 9 {
				// replicated operations must be accepted and take effect. A merge entry has no
				// effect on the primary (no merge operator: neither the write path nor recovery
				// acts on it), so its effect on the replica is: none — the data must stay as it is
				if err != nil {
					fail(fmt.Sprintf("C16: applying the replicated entry %q failed: %v", line, err))
				} else if e.Type == wal.OpTypeDelete {
					nApplied++
					applyRef([]bop{{del: true, k: e.Key}})
				} else if e.Type == wal.OpTypePut {
					nApplied++
					applyRef([]bop{{k: e.Key, v: e.Value}})
				}
			}
			if isReplica && !n.e.IsReadOnly() {
				fail("C16: the engine is no longer read-only after " + line)
			}
			checkData(line)
		case "stopmgr":
			// the replication manager is stopped (what a shutdown does first) while the engine and the
			// client service stay up: the node is still configured as, and reports itself as, what it
			// was started as - a replica keeps refusing client writes
			if n.mgr != nil && !n.mgrStopped {
				withTimeout(10*time.Second, func() { n.mgr.Stop() })
				n.mgrStopped = true
			}
			out("M stopped")
			if isReplica && !n.e.IsReadOnly() {
				fail("C16: the engine is no longer read-only after the replication manager was stopped")
			}
		case "dump":
			out("D ro=" + b01(n.e.IsReadOnly()))
			got, _ := n.scan()
			scanOut(got)
			checkScan("scan", got)
		case "p", "d":
			out("IMPL-ERROR stray batch line " + line)
		default:
			out("IMPL-ERROR bad line " + line)
		}
	}
	checkData("the program")
	// at the very end: the engine is closed under the applier. A replicated entry that cannot take
	// effect is reported as a failure (the replica must not count it as applied and move on)
	if oracleOK && n.e != nil {
		n.e.Close()
		for _, en := range []*wal.Entry{
			{Type: wal.OpTypePut, Key: []byte("zz-after-close"), Value: []byte("x"), SequenceNumber: 1 << 40},
			{Type: wal.OpTypeDelete, Key: []byte("zz-after-close"), SequenceNumber: 1<<40 + 1},
		} {
			var aerr error
			if !withTimeout(5*time.Second, func() { aerr = n.ap.Apply(en) }) {
				fail("C16: applying a replicated entry on a closed engine did not return")
			} else if aerr == nil {
				fail(fmt.Sprintf("C16: the applier reported success for a replicated entry (type %d) although the engine is closed: an entry that took no effect counts as applied", en.Type))
			}
		}
	}
	if oracleOK {
		out("ORACLE ok")
	}
	nt := b2i(isReplica && nRefused >= 3 && nApplied >= 2 && len(kinds) >= 3 && nReads >= 1)
	out(fmt.Sprintf("META mode=%s replica=%d attempts=%d refused=%d applied=%d reads=%d info=%d kinds=%d nontrivial=%d",
		mode, b2i(isReplica), nAttempts, nRefused, nApplied, nReads, nInfo, len(kinds), nt))
}

// last operation per key, in key order — what a committed transaction leaves
func c16Dedup(ops []bop) []bop {
	last := map[string]bop{}
	for _, o := range ops {
		last[string(o.k)] = o
	}
	var out []bop
	for _, o := range last {
		out = append(out, o)
	}
	return out
}

// does calling the method with these arguments change the data of a writable node?
var (
	c16TwinMu    sync.Mutex
	c16TwinCache = map[string]bool{}
)

func c16TwinMutates(name string, k, v []byte) bool {
	c16TwinMu.Lock()
	defer c16TwinMu.Unlock()
	if r, ok := c16TwinCache[name]; ok {
		return r
	}
	tw, err := c16Start("standalone", false, false, false, "", "")
	if err != nil {
		return false
	}
	defer tw.stop()
	before, _ := tw.scan()
	res, _, _ := callFacade(tw.e, name, append([]byte("twin-"), k...), v)
	for _, r := range res {
		if r.IsValid() && r.CanInterface() {
			if tx, ok := r.Interface().(txLike); ok && tx != nil && !reflect.ValueOf(tx).IsNil() {
				tx.Put(append([]byte("twin-"), k...), v)
				tx.Commit()
			}
		}
	}
	after, _ := tw.scan()
	c16TwinCache[name] = !scanEqual(before, after)
	return c16TwinCache[name]
}

// ---------------------------------------------------------------------------------------
// generator
// ---------------------------------------------------------------------------------------

func c16Val(r *rand.Rand) string {
	switch pick(r, 1, 8, 2) {
	case 0:
		return "-"
	case 1:
		b := make([]byte, 1+r.Intn(10))
		r.Read(b)
		return mkTok(b)
	default:
		return fmt.Sprintf("@%d:%d", 50+r.Intn(200), r.Intn(1<<20))
	}
}

func c16Bops(w *bufio.Writer, r *rand.Rand, n, nkeys int) {
	for j := 0; j < n; j++ {
		if r.Intn(4) == 0 {
			fmt.Fprintf(w, "d %s\n", mkTok(c16Key(r, nkeys)))
		} else {
			fmt.Fprintf(w, "p %s %s\n", mkTok(c16Key(r, nkeys)), c16Val(r))
		}
	}
}

// entry points the generator writes dedicated lines for; every other exported facade method
// and unary RPC found by reflection gets generic lines
var c16KnownFacade = map[string]bool{"Put": true, "Delete": true, "ApplyBatch": true, "BeginTransaction": true, "Get": true}
var c16KnownRPC = map[string]bool{"Put": true, "Delete": true, "BatchWrite": true, "BeginTransaction": true, "Compact": true,
	"Get": true, "GetStats": true, "GetNodeInfo": true, "CommitTransaction": true, "RollbackTransaction": true,
	"TxGet": true, "TxPut": true, "TxDelete": true}

func genC16(w *bufio.Writer, seed int64, n int, tier string) {
	r := rand.New(rand.NewSource(seed*7919 + 16))
	// the API surface as it is now, by reflection
	var extraFacade, extraRPC []string
	for _, m := range facadeMethods((*engine.EngineFacade)(nil)) {
		mt, _ := reflect.TypeOf((*engine.EngineFacade)(nil)).MethodByName(m)
		drivable := true
		for i := 1; i < mt.Type.NumIn(); i++ {
			if t := mt.Type.In(i); t != tBytes && t != tBool && t != tEntries {
				drivable = false
			}
		}
		// *Internal are the applier's bypasses, not client entry points; iterators are left to
		// the scans; lifecycle calls end the node
		if !c16KnownFacade[m] && !c16Lifecycle[m] && !strings.HasSuffix(m, "Internal") && drivable &&
			m != "GetIterator" && m != "GetRangeIterator" && m != "GetTransactionManager" &&
			// compaction is maintenance, not a data mutation, and has defects of its own (C12): kept
			// out of the generated programs (the table case still drives it)
			m != "TriggerCompaction" && m != "CompactRange" {
			extraFacade = append(extraFacade, m)
		}
	}
	unary, _ := rpcNames()
	for _, m := range unary {
		if !c16KnownRPC[m] {
			extraRPC = append(extraRPC, m)
		}
	}
	fmt.Fprintf(w, "case c16-%d-table kind=table\nend\n", seed)
	for ci := 0; ci < n; ci++ {
		id := fmt.Sprintf("c16-%d-%d", seed, ci)
		mode := "replica"
		hdr := "mgr=1 enabled=1 force=1"
		switch pick(r, 14, 2, 2, 1, 1) {
		case 1:
			mode = "primary"
		case 2:
			mode = "standalone"
		case 3:
			mode = []string{"standalone", "replica"}[r.Intn(2)]
			hdr = "mgr=0 enabled=0 force=1"
		case 4:
			hdr = "mgr=1 enabled=1 force=0"
		}
		writable := !(mode == "replica" && hdr == "mgr=1 enabled=1 force=1")
		fmt.Fprintf(w, "case %s mode=%s %s paddr=%s laddr=%s\n", id, mode, hdr,
			mkTok([]byte(fmt.Sprintf("10.0.0.%d:1", 1+r.Intn(200)))), mkTok([]byte("127.0.0.1:0")))
		nkeys := 2 + r.Intn(5)
		nops := 8 + r.Intn(40)
		nh := 0         // handles begun so far
		var open []int  // handles believed open
		rwOpen := false // writable node: a read-write transaction is open, only its own lines may follow
		key := func() string { return mkTok(c16Key(r, nkeys)) }
		for i := 0; i < nops; i++ {
			if rwOpen {
				// finish the read-write transaction before anything that needs the lock
				h := open[len(open)-1]
				switch pick(r, 4, 2, 2, 3, 1) {
				case 0:
					fmt.Fprintf(w, "t %d put %s %s\n", h, key(), c16Val(r))
				case 1:
					fmt.Fprintf(w, "t %d del %s\n", h, key())
				case 2:
					fmt.Fprintf(w, "t %d get %s\n", h, key())
				case 3:
					fmt.Fprintf(w, "t %d commit\n", h)
					open = open[:len(open)-1]
					rwOpen = false
				default:
					fmt.Fprintf(w, "t %d rollback\n", h)
					open = open[:len(open)-1]
					rwOpen = false
				}
				continue
			}
			switch pick(r, 5, 3, 2, 3, 4, 3, 2, 2, 3, 2, 9, 4, 3, 2, 6, 1, 2, 1, 1) {
			case 0:
				fmt.Fprintf(w, "e Put %s %s\n", key(), c16Val(r))
			case 1:
				fmt.Fprintf(w, "e Delete %s\n", key())
			case 2:
				cnt := r.Intn(4)
				fmt.Fprintf(w, "e ApplyBatch %d\n", cnt)
				c16Bops(w, r, cnt, nkeys)
			case 3, 9:
				api := "e"
				if r.Intn(2) == 0 {
					api = "g"
				}
				m := "rw"
				if r.Intn(4) == 0 {
					m = "ro"
				}
				if writable && len(open) > 0 {
					m = "ro" // a read-write begin would wait for the open readers
				}
				if r.Intn(5) == 0 {
					if r.Intn(2) == 0 {
						fmt.Fprintf(w, "l begin %s early\n", m) // through a GetTransactionManager() result taken at open
					} else {
						fmt.Fprintf(w, "l begin %s\n", m) // through GetTransactionManager()
					}
				} else {
					fmt.Fprintf(w, "%s BeginTransaction %s\n", api, m)
				}
				open = append(open, nh)
				nh++
				if writable && m == "rw" {
					rwOpen = true
				}
			case 4:
				fmt.Fprintf(w, "g Put %s %s\n", key(), c16Val(r))
			case 5:
				fmt.Fprintf(w, "g Delete %s\n", key())
			case 6:
				cnt := r.Intn(4)
				if writable && len(open) > 0 {
					cnt = 0
				}
				fmt.Fprintf(w, "g BatchWrite %d\n", cnt)
				c16Bops(w, r, cnt, nkeys)
			case 7:
				if writable && len(open) > 0 {
					fmt.Fprintf(w, "g GetNodeInfo\n")
				} else {
					fmt.Fprintf(w, "g Compact %s\n", []string{"force", "noforce"}[r.Intn(2)])
				}
			case 8:
				if nh == 0 {
					fmt.Fprintf(w, "e Get %s\n", key())
					break
				}
				h := r.Intn(nh)
				switch pick(r, 4, 2, 2, 2, 1) {
				case 0:
					fmt.Fprintf(w, "t %d put %s %s\n", h, key(), c16Val(r))
				case 1:
					fmt.Fprintf(w, "t %d del %s\n", h, key())
				case 2:
					fmt.Fprintf(w, "t %d get %s\n", h, key())
				case 3:
					fmt.Fprintf(w, "t %d commit\n", h)
					open = c16Remove(open, h)
				default:
					fmt.Fprintf(w, "t %d rollback\n", h)
					open = c16Remove(open, h)
				}
			case 10:
				switch pick(r, 6, 3, 1, 1, 2) {
				case 0:
					fmt.Fprintf(w, "r put %s %s\n", key(), c16Val(r))
				case 1:
					fmt.Fprintf(w, "r del %s\n", key())
				case 2:
					fmt.Fprintf(w, "r merge %s %s\n", key(), c16Val(r))
				case 3:
					fmt.Fprintf(w, "r bad %s %s\n", key(), c16Val(r))
				default:
					fmt.Fprintf(w, "r sync\n")
				}
			case 11:
				fmt.Fprintf(w, "%s Get %s\n", []string{"e", "g"}[r.Intn(2)], mkTok(c16Key(r, nkeys+1)))
			case 12:
				fmt.Fprintf(w, "g Scan\n")
			case 13:
				fmt.Fprintf(w, "g GetStats\n")
			case 14:
				fmt.Fprintf(w, "g GetNodeInfo\n")
			case 15:
				fmt.Fprintf(w, "dump\n")
				if r.Intn(4) == 0 {
					fmt.Fprintf(w, "stopmgr\n") // shutdown order: the manager stops, the service still answers
				}
			case 16:
				if len(extraFacade) > 0 {
					fmt.Fprintf(w, "e %s %s %s\n", extraFacade[r.Intn(len(extraFacade))], key(), c16Val(r))
				}
			case 17:
				if len(extraRPC) > 0 {
					fmt.Fprintf(w, "g %s %s %s\n", extraRPC[r.Intn(len(extraRPC))], key(), c16Val(r))
				}
			case 18:
				fmt.Fprintf(w, "e Get %s\n", key())
			}
		}
		if rwOpen {
			fmt.Fprintf(w, "t %d commit\n", open[len(open)-1])
		}
		fmt.Fprintf(w, "g GetNodeInfo\ndump\nend\n")
	}
}

func c16Remove(a []int, h int) []int {
	var out []int
	for _, x := range a {
		if x != h {
			out = append(out, x)
		}
	}
	return out
}

var _ = proto.Marshal
