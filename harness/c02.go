package main

// C02: acknowledged writes survive a crash; recovery yields a history prefix.
// Header: memsize=<n> sync=none|batch|immediate.  Program lines as C01 (put/del/batch/commit/
// flush/reopen), then "crash <site> <hit>" directives: for each, a CHILD process runs the
// program with the site armed (os.Exit(137) at the n-th hit, no cleanup), the parent inspects
// what survived, reopens the database, reads every key, writes more, reopens again.
// Observations (mirrored by model/drv_c02.ml):
//   K <site> <hit> crashed=<0|1>      W <len of each log file>      R <key> <value|notfound> ...
//   P (after the post-recovery writes and a clean reopen)  R2 <key> ...
// The model gets the surviving log lengths from the W line of ITS OWN INPUT? No: the model
// runner is given the harness output (model_input=impl) and the case file path in the header.

import (
	"bufio"
	"bytes"
	"fmt"
	"math/rand"
	"os"
	"os/exec"
	"path/filepath"
	"sort"
	"strconv"
	"strings"

	"github.com/KevoDB/kevo/pkg/config"
	"github.com/KevoDB/kevo/pkg/wal"
)

func init() {
	register("C02", &Prop{Gen: genC02, Run: runC02, Child: childC02})
}

var c02Sites = []string{
	"wal.append.buffered", "wal.append.done", "wal.sync.flushed",
	"mgr.put.logged", "mgr.delete.logged", "mgr.batch.logged", "mgr.batch.insert",
	"mgr.schedule_flush", "rotate.marked", "rotate.new_wal", "rotate.swapped", "rotate.closed",
	"flush.before_finish", "sst.finish.before_rename", "flush.sst_written", "flush.published",
	"wal.close.synced", "wal.batch.buffered", "wal.batch.record",
}

func syncMode(s string) config.SyncMode {
	switch s {
	case "none":
		return config.SyncNone
	case "batch":
		return config.SyncBatch
	}
	return config.SyncImmediate
}

type c02write struct {
	ops []bop
}

// program interpretation shared by child and parent: returns the writes of the program in
// order (one element per acknowledged-able operation; empty batches yield no write)
func c02Writes(c *Case) (writes []c02write, opIdx []int) {
	for i := 0; i < len(c.Lines); i++ {
		l := c.Lines[i]
		switch l[0] {
		case "put":
			writes = append(writes, c02write{[]bop{{k: tok(l[1]), v: tok(l[2])}}})
			opIdx = append(opIdx, i)
		case "del":
			writes = append(writes, c02write{[]bop{{del: true, k: tok(l[1])}}})
			opIdx = append(opIdx, i)
		case "batch", "commit":
			n, _ := strconv.Atoi(l[1])
			ops := parseBops(c, i, n)
			if l[0] == "commit" {
				ops = bufferOps(ops)
			}
			if len(ops) > 0 {
				writes = append(writes, c02write{ops})
				opIdx = append(opIdx, i)
			}
			i += n
		}
	}
	return
}

// bufferOps mirrors the transaction buffer: last operation per key, sorted by key
func bufferOps(ops []bop) []bop {
	m := map[string]bop{}
	for _, o := range ops {
		m[string(o.k)] = o
	}
	keys := make([]string, 0, len(m))
	for k := range m {
		keys = append(keys, k)
	}
	sort.Strings(keys)
	var out []bop
	for _, k := range keys {
		out = append(out, m[k])
	}
	return out
}

// childC02 runs the program on the database in args[0]; every acknowledged write appends its
// index to <dir>/../acklog with a direct write system call.
func childC02(c *Case, args []string) {
	if hdrVal(c.Hdr, "mode", "") == "retention" {
		childC02Retention(c, args)
		return
	}
	dir := args[0]
	ack, _ := os.OpenFile(filepath.Join(filepath.Dir(dir), "acklog"), os.O_CREATE|os.O_WRONLY|os.O_APPEND, 0644)
	holdBackground()
	e, err := openEngine(dir)
	if err != nil {
		ack.WriteString("openerr " + err.Error() + "\n")
		os.Exit(4)
	}
	wi := 0
	acked := func(err error) {
		if err == nil {
			ack.WriteString(fmt.Sprintf("a %d %d\n", wi, lastSeq(e)))
		} else {
			ack.WriteString(fmt.Sprintf("e %d %s\n", wi, strings.ReplaceAll(err.Error(), "\n", " ")))
		}
		wi++
	}
	for i := 0; i < len(c.Lines); i++ {
		l := c.Lines[i]
		switch l[0] {
		case "put":
			ack.WriteString(fmt.Sprintf("i %d\n", wi))
			acked(e.Put(tok(l[1]), tok(l[2])))
		case "del":
			ack.WriteString(fmt.Sprintf("i %d\n", wi))
			acked(e.Delete(tok(l[1])))
		case "batch", "commit":
			n, _ := strconv.Atoi(l[1])
			ops := parseBops(c, i, n)
			i += n
			if l[0] == "batch" {
				if len(ops) == 0 {
					e.ApplyBatch(nil)
					break
				}
				var es []*wal.Entry
				for _, o := range ops {
					if o.del {
						es = append(es, &wal.Entry{Type: wal.OpTypeDelete, Key: o.k})
					} else {
						es = append(es, &wal.Entry{Type: wal.OpTypePut, Key: o.k, Value: o.v})
					}
				}
				ack.WriteString(fmt.Sprintf("i %d\n", wi))
				acked(e.ApplyBatch(es))
			} else {
				tx, err := e.BeginTransaction(false)
				if err != nil {
					os.Exit(5)
				}
				for _, o := range ops {
					if o.del {
						tx.Delete(o.k)
					} else {
						tx.Put(o.k, o.v)
					}
				}
				if len(ops) == 0 {
					tx.Commit()
					break
				}
				ack.WriteString(fmt.Sprintf("i %d\n", wi))
				acked(tx.Commit())
			}
		case "flush":
			e.FlushImMemTables()
		case "reopen":
			e.Close()
			holdBackground()
			e, err = openEngine(dir)
			if err != nil {
				ack.WriteString("reopenerr " + err.Error() + "\n")
				os.Exit(4)
			}
		}
	}
	e.Close()
	ack.WriteString("closed\n")
}

func runC02(c *Case, out func(string)) {
	if hdrVal(c.Hdr, "mode", "") == "retention" {
		runC02Retention(c, out)
		return
	}
	memsize, _ := strconv.ParseInt(hdrVal(c.Hdr, "memsize", "4096"), 10, 64)
	maxmem, _ := strconv.Atoi(hdrVal(c.Hdr, "maxmem", "1000"))
	mode := hdrVal(c.Hdr, "sync", "immediate")
	writes, _ := c02Writes(c)
	// bytes the program logs (payloads): recovery needs them to fit MaxMemTables memtables (D11)
	var loggedSize int64
	for _, w := range writes {
		for _, o := range w.ops {
			loggedSize += int64(13 + len(o.k) + 4 + len(o.v))
		}
	}
	// key alphabet of the program
	keyset := map[string]bool{}
	for _, w := range writes {
		for _, o := range w.ops {
			keyset[string(o.k)] = true
		}
	}
	keyset["post1"] = true
	keyset["post2"] = true
	var keys []string
	for k := range keyset {
		keys = append(keys, k)
	}
	sort.Strings(keys)
	stateAfter := func(nw int, extra []bop) map[string][]byte {
		st := map[string][]byte{}
		app := func(o bop) {
			if o.del {
				delete(st, string(o.k))
			} else {
				st[string(o.k)] = o.v
			}
		}
		for _, w := range writes[:nw] {
			for _, o := range w.ops {
				app(o)
			}
		}
		for _, o := range extra {
			app(o)
		}
		return st
	}
	same := func(a, b map[string][]byte) bool {
		if len(a) != len(b) {
			return false
		}
		for k, v := range a {
			w, ok := b[k]
			if !ok || !bytes.Equal(v, w) {
				return false
			}
		}
		return true
	}
	ok := true
	fail := func(m string) {
		if ok {
			out("ORACLE FAIL " + m)
		}
		ok = false
	}
	self, _ := os.Executable()
	ncrash, nhit := 0, 0
	for _, l := range c.Lines {
		if l[0] != "crash" {
			continue
		}
		site, hit := l[1], l[2]
		root := tmpDir("c02-")
		dir := filepath.Join(root, "db")
		if err := writeManifest(dir, memsize, maxmem, func(cf *config.Config) {
			cf.WALSyncMode = syncMode(mode)
			cf.WALSyncBytes = 256
		}); err != nil {
			out("IMPL-ERROR manifest " + err.Error())
			os.RemoveAll(root)
			return
		}
		cmd := exec.Command(self, "child", "C02", caseFilePath, c.ID, dir)
		cmd.Env = append(os.Environ(), "VERIF_CRASH="+site+":"+hit)
		if site == "none" {
			cmd.Env = os.Environ()
		}
		err := cmd.Run()
		crashed := 0
		if ee, isExit := err.(*exec.ExitError); isExit && ee.ExitCode() == 137 {
			crashed = 1
			nhit++
		} else if err != nil {
			out(fmt.Sprintf("IMPL-ERROR child %v", err))
			os.RemoveAll(root)
			continue
		}
		ncrash++
		// what the child acknowledged / had issued
		ackedW, issuedW, closed := 0, 0, false
		var ackedSeq uint64 // C08: highest last_sequence the child saw acknowledged
		if b, err := os.ReadFile(filepath.Join(root, "acklog")); err == nil {
			for _, ln := range strings.Split(string(b), "\n") {
				f := strings.Fields(ln)
				if len(f) >= 2 && f[0] == "a" {
					n, _ := strconv.Atoi(f[1])
					ackedW = n + 1
					if len(f) >= 3 {
						// last_sequence as the statistics reported it right after the acknowledgement
						q, _ := strconv.ParseUint(f[2], 10, 64)
						if q <= ackedSeq && !(q == ackedSeq && ackedSeq == 0) {
							fail(fmt.Sprintf("write %d was acknowledged with last_sequence %d, the write before it with %d", n, q, ackedSeq))
						}
						if q > ackedSeq {
							ackedSeq = q
						}
					}
				}
				if len(f) >= 2 && f[0] == "i" {
					n, _ := strconv.Atoi(f[1])
					issuedW = n + 1
				}
				if len(f) >= 2 && f[0] == "e" {
					fail(fmt.Sprintf("write %s returned an error in the child: %s", f[1], strings.Join(f[2:], " ")))
				}
				if ln == "closed" {
					closed = true
				}
			}
		}
		out(fmt.Sprintf("K %s %s crashed=%d", site, hit, crashed))
		files, _ := wal.FindWALFiles(filepath.Join(dir, "wal"))
		var lens []string
		for _, f := range files {
			st, _ := os.Stat(f)
			lens = append(lens, strconv.FormatInt(st.Size(), 10))
		}
		out("W " + strings.Join(lens, " "))
		holdBackground()
		e, err := openEngine(dir)
		if err != nil {
			fail(fmt.Sprintf("crash at %s:%s: reopening failed: %v", site, hit, err))
			os.RemoveAll(root)
			continue
		}
		if logSetAside(dir) {
			fail(fmt.Sprintf("crash at %s:%s: recovery moved the log to a backup directory", site, hit))
			if loggedSize >= memsize*int64(maxmem) {
				out("KF recovery_budget_exceeded") // known finding D11: the log outgrew MaxMemTables memtables
			}
		}
		got := map[string][]byte{}
		var sb strings.Builder
		for _, k := range keys {
			v, err := e.Get([]byte(k))
			sb.WriteString(" " + render([]byte(k)) + "=" + renderGet(v, err))
			if err == nil {
				got[k] = v
			}
		}
		out("R" + sb.String())
		// oracle: state = writes[:m] for some m between acknowledged and issued
		lo := ackedW
		if mode != "immediate" && crashed == 1 {
			lo = 0
		}
		m := -1
		for cand := issuedW; cand >= lo; cand-- {
			if cand <= len(writes) && same(got, stateAfter(cand, nil)) {
				m = cand
				break
			}
		}
		if m < 0 {
			// diagnose: is it a prefix at all?
			any := -1
			for cand := len(writes); cand >= 0; cand-- {
				if same(got, stateAfter(cand, nil)) {
					any = cand
					break
				}
			}
			fail(fmt.Sprintf("crash at %s:%s (sync=%s, %d writes acknowledged, %d issued, clean close=%v): recovered state is not the state after m writes for any %d <= m <= %d (it equals the state after %d writes; -1 = no prefix at all)",
				site, hit, mode, ackedW, issuedW, closed, lo, issuedW, any))
			e.Close()
			os.RemoveAll(root)
			continue
		}
		// C08: sequence numbers across the recovery. When acknowledged writes are durable (sync
		// immediate, or no crash) the counter may not be behind the last acknowledged number; in
		// every mode each write after the recovery is numbered above everything recovered.
		seq0 := lastSeq(e)
		if (mode == "immediate" || crashed == 0) && seq0 < ackedSeq {
			fail(fmt.Sprintf("crash at %s:%s: last_sequence went back from %d (acknowledged) to %d over the recovery", site, hit, ackedSeq, seq0))
		}
		// the same guarantees hold again for writes made after a recovery
		post := []bop{{k: []byte("post1"), v: []byte("x")}, {k: []byte("post2"), v: []byte("y")}, {del: true, k: []byte("post1")}}
		seqPrev := seq0
		for pi, perr := range []error{e.Put(post[0].k, post[0].v), nil, nil} {
			if pi == 1 {
				perr = e.Put(post[1].k, post[1].v)
			} else if pi == 2 {
				perr = e.Delete(post[2].k)
			}
			if q := lastSeq(e); perr == nil && q <= seqPrev {
				fail(fmt.Sprintf("crash at %s:%s: write %d after the recovery left last_sequence at %d, it was %d before the write", site, hit, pi+1, q, seqPrev))
			} else if perr == nil {
				seqPrev = q
			}
		}
		e.Close()
		holdBackground()
		e2, err := openEngine(dir)
		if err != nil {
			fail(fmt.Sprintf("crash at %s:%s: second reopen failed: %v", site, hit, err))
			os.RemoveAll(root)
			continue
		}
		if q := lastSeq(e2); q < seqPrev {
			fail(fmt.Sprintf("crash at %s:%s: last_sequence went back from %d to %d over a clean restart after the recovery", site, hit, seqPrev, q))
		}
		got2 := map[string][]byte{}
		var sb2 strings.Builder
		for _, k := range keys {
			v, err := e2.Get([]byte(k))
			sb2.WriteString(" " + render([]byte(k)) + "=" + renderGet(v, err))
			if err == nil {
				got2[k] = v
			}
		}
		out("R2" + sb2.String())
		if !same(got2, stateAfter(m, post)) {
			fail(fmt.Sprintf("crash at %s:%s: after recovery, 3 more writes and a clean reopen the state is not prefix(%d)+those writes", site, hit, m))
		}
		e2.Close()
		os.RemoveAll(root)
	}
	if ok {
		out("ORACLE ok")
	}
	nt := 0
	if nhit >= 1 && len(writes) >= 3 {
		nt = 1
	}
	out(fmt.Sprintf("META writes=%d crash_runs=%d crashes_hit=%d sync=%s nontrivial=%d", len(writes), ncrash, nhit, mode, nt))
}

// genStraddleBody emits a program whose unsynced single puts fill the 64 KB log buffer so
// that the free space left for the following batch is aimed exactly at the batch's size:
// free = (sum of the batch's record payloads) + d, for d around 0 and around 7*k (k record
// headers), i.e. the places where a wrong size estimate or flush condition in AppendBatch
// lets the buffer flush in the middle of the batch. Then crash directives inside and right
// after the batch append. The log buffer holds (bytes written so far) mod 65536.
func genStraddleBody(w *bufio.Writer, r *rand.Rand) {
	const buf = 65536
	k := 4 + r.Intn(8)
	if r.Intn(4) == 0 {
		k = 150 + r.Intn(100) // many small entries: 7 bytes per entry exceed any padding
	}
	type ent struct{ key string; vl int }
	var batch []ent
	payload := 0
	for j := 0; j < k; j++ {
		vl := 300 + r.Intn(500)
		if k > 100 {
			vl = 8 + r.Intn(24)
		}
		key := fmt.Sprintf("b%03d", j)
		batch = append(batch, ent{key, vl})
		payload += 13 + len(key) + 4 + vl
	}
	ds := []int{-1, 0, 1, 3, 7*k - 1, 7 * k, 7*k + 1, 7*k/2, 7*k + 1024, 7*k + 1025}
	free := payload%buf + ds[r.Intn(len(ds))]
	if free < 0 {
		free = 0
	}
	target := buf - free%buf // bytes to have written before the batch (mod buf)
	if target < 3000 {
		target += buf
	}
	used := 0
	i := 0
	for used+1400 < target {
		vl := 700 + r.Intn(500)
		key := fmt.Sprintf("s%03d", i)
		fmt.Fprintf(w, "put %s @%d:%d\n", mkTok([]byte(key)), vl, r.Intn(1<<20))
		used += 7 + 13 + len(key) + 4 + vl
		i++
	}
	// one last put sized to land exactly on the target
	key := fmt.Sprintf("s%03d", i)
	rest := target - used - (7 + 13 + len(key) + 4)
	if rest >= 0 {
		fmt.Fprintf(w, "put %s %s\n", mkTok([]byte(key)), lenTok(r, rest))
		i++
	}
	kind := []string{"batch", "commit"}[r.Intn(2)]
	fmt.Fprintf(w, "%s %d\n", kind, k)
	for _, e := range batch {
		fmt.Fprintf(w, "p %s @%d:%d\n", mkTok([]byte(e.key)), e.vl, r.Intn(1<<20))
	}
	fmt.Fprintf(w, "put %s %s\n", mkTok([]byte("after")), mkTok([]byte("x")))
	fmt.Fprintf(w, "crash wal.batch.record %d\ncrash wal.batch.record %d\ncrash wal.batch.record %d\ncrash wal.batch.buffered 1\ncrash mgr.batch.logged 1\ncrash mgr.batch.insert %d\ncrash mgr.put.logged %d\ncrash none 0\n",
		1+r.Intn(k), k, 1+k/2, 1+r.Intn(k), i+1)
	fmt.Fprintf(w, "end\n")
}

// genFragBoundaryBody: unsynced single puts fill the 64 KB log buffer so that a following
// fragmented entry (value over 32 KB) has one of its fragment boundaries exactly at the buffer
// boundary: the buffer writes itself out there, the rest of the entry is still in memory when the
// process stops, and the log file ends exactly between two fragments (d = 0; d = +-1, 7 around
// it). The harness then recovers, writes more, closes cleanly and reopens.
func genFragBoundaryBody(w *bufio.Writer, r *rand.Rand) {
	const buf = 65536
	bigKey := fmt.Sprintf("big%d", r.Intn(10))
	vl := 33000 + r.Intn(25000) // first + one full middle + a short last fragment, all below 64 KB
	first := 7 + 13 + len(bigKey)
	boundary := first // the file ends behind the first fragment
	if r.Intn(3) == 0 {
		boundary = first + 7 + 32768 // ... or behind the full middle fragment
	}
	d := []int{0, 0, 0, 1, -1, 7, -7}[r.Intn(7)]
	target := buf - boundary + d
	for target < 3000 {
		target += buf
	}
	used := 0
	i := 0
	for used+1400 < target {
		l := 700 + r.Intn(500)
		key := fmt.Sprintf("s%03d", i)
		fmt.Fprintf(w, "put %s @%d:%d\n", mkTok([]byte(key)), l, r.Intn(1<<20))
		used += 7 + 13 + len(key) + 4 + l
		i++
	}
	key := fmt.Sprintf("s%03d", i)
	rest := target - used - (7 + 13 + len(key) + 4)
	if rest >= 0 {
		fmt.Fprintf(w, "put %s %s\n", mkTok([]byte(key)), lenTok(r, rest))
		i++
	}
	fmt.Fprintf(w, "put %s @%d:%d\n", mkTok([]byte(bigKey)), vl, r.Intn(1<<20))
	fmt.Fprintf(w, "put %s %s\n", mkTok([]byte("after")), mkTok([]byte("x")))
	fmt.Fprintf(w, "crash wal.append.buffered %d\ncrash mgr.put.logged %d\ncrash wal.append.done %d\ncrash wal.append.buffered %d\ncrash none 0\n", i+1, i+1, i+1, i+2)
	fmt.Fprintf(w, "end\n")
}

func genC02(w *bufio.Writer, seed int64, n int, tier string) {
	r := rand.New(rand.NewSource(seed*7877 + 2))
	for ci := 0; ci < n; ci++ {
		genC02One(w, r, fmt.Sprintf("c02-%d-%d", seed, ci), "", ci)
	}
}

// one crash case (family chosen by ci); extra is appended to the header (C08 runs the same cases
// for its sequence-number oracle: "level=crash")
func genC02One(w *bufio.Writer, r *rand.Rand, id, extra string, ci int) {
	{
		if ci%6 == 2 {
			mode := []string{"none", "batch"}[r.Intn(2)]
			fmt.Fprintf(w, "case %s%s memsize=10000000 sync=%s\n", id, extra, mode)
			genFragBoundaryBody(w, r)
			return
		}
		if ci%6 == 5 {
			mode := []string{"none", "batch"}[r.Intn(2)]
			fmt.Fprintf(w, "case %s%s memsize=10000000 sync=%s\n", id, extra, mode)
			genStraddleBody(w, r)
			return
		}
		memsize := []int{150, 300, 1000, 100000}[r.Intn(4)]
		mode := []string{"immediate", "immediate", "batch", "none"}[r.Intn(4)]
		fmt.Fprintf(w, "case %s%s memsize=%d sync=%s\n", id, extra, memsize, mode)
		nops := 4 + r.Intn(16)
		nkeys := 2 + r.Intn(4)
		nflush, nwr := 0, 0
		for i := 0; i < nops; i++ {
			switch pick(r, 10, 3, 2, 3, 3, 1) {
			case 0:
				fmt.Fprintf(w, "put %s %s\n", mkTok(genKey(r, nkeys)), genVal(r))
				nwr++
			case 1:
				fmt.Fprintf(w, "del %s\n", mkTok(genKey(r, nkeys)))
				nwr++
			case 2:
				k := 1 + r.Intn(4)
				fmt.Fprintf(w, "batch %d\n", k)
				genBops(w, r, k, nkeys)
				nwr++
			case 3:
				k := 1 + r.Intn(5)
				fmt.Fprintf(w, "commit %d\n", k)
				genBops(w, r, k, nkeys)
				nwr++
			case 4:
				fmt.Fprintf(w, "flush\n")
				nflush++
			case 5:
				fmt.Fprintf(w, "reopen\n")
			}
		}
		fmt.Fprintf(w, "crash none 0\n")
		for d := 0; d < 7; d++ {
			site := c02Sites[r.Intn(len(c02Sites))]
			hit := 1 + r.Intn(1+nwr)
			if strings.HasPrefix(site, "rotate") || strings.HasPrefix(site, "flush") || strings.HasPrefix(site, "sst") {
				hit = 1 + r.Intn(1+nflush)
			}
			fmt.Fprintf(w, "crash %s %d\n", site, hit)
		}
		fmt.Fprintf(w, "end\n")
	}
}
