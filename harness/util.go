package main

import (
	"encoding/hex"
	"fmt"
	"hash/crc32"
	"math/rand"
	"os"
	"strconv"
	"strings"
)

// lcgBytes mirrors Kutil.lcg_bytes.
func lcgBytes(n int, seed int) []byte {
	x := uint64(seed) & 0x7fffffff
	b := make([]byte, n)
	for i := range b {
		x = (x*1103515245 + 12345) & 0x7fffffff
		b[i] = byte((x >> 16) & 0xff)
	}
	return b
}

// tok parses a byte-string token: "-" empty | hex | @n:seed
func tok(t string) []byte {
	if t == "-" {
		return []byte{}
	}
	if strings.HasPrefix(t, "@") {
		p := strings.Split(t[1:], ":")
		n, _ := strconv.Atoi(p[0])
		s, _ := strconv.Atoi(p[1])
		return lcgBytes(n, s)
	}
	b, err := hex.DecodeString(t)
	if err != nil {
		panic("bad token " + t)
	}
	return b
}

func mkTok(b []byte) string {
	if len(b) == 0 {
		return "-"
	}
	return hex.EncodeToString(b)
}

// render mirrors Kutil.render: "-" | hex (<= 48 bytes) | #len:crc32
func render(b []byte) string {
	if len(b) == 0 {
		return "-"
	}
	if len(b) <= 48 {
		return hex.EncodeToString(b)
	}
	return fmt.Sprintf("#%d:%08x", len(b), crc32.ChecksumIEEE(b))
}

// num mirrors Kutil.n_to_string.
func num(x uint64) string {
	if x < 1<<62 {
		return strconv.FormatUint(x, 10)
	}
	return fmt.Sprintf("0x%x", x)
}

func parseNum(s string) uint64 {
	if strings.HasPrefix(s, "0x") {
		v, _ := strconv.ParseUint(s[2:], 16, 64)
		return v
	}
	v, _ := strconv.ParseUint(s, 10, 64)
	return v
}

func tmpDir(prefix string) string {
	base := os.Getenv("VERIF_TMP")
	d, err := os.MkdirTemp(base, prefix)
	if err != nil {
		panic(err)
	}
	return d
}

// pick returns one of the choices with the given integer weights.
func pick(r *rand.Rand, w ...int) int {
	t := 0
	for _, x := range w {
		t += x
	}
	k := r.Intn(t)
	for i, x := range w {
		if k < x {
			return i
		}
		k -= x
	}
	return len(w) - 1
}

// genKey draws from a small alphabet so that keys collide; includes 0x00 and 0xff bytes.
func genKey(r *rand.Rand, nkeys int) []byte {
	alphabet := [][]byte{
		[]byte("a"), []byte("b"), {}, []byte("ab"), {0x00}, {0xff}, {0x00, 0xff}, []byte("key-0001"),
		[]byte("key-0002"), {0x61, 0x00}, []byte("zz"), {0xff, 0xff, 0x01}, []byte("m"),
	}
	if nkeys > len(alphabet) {
		nkeys = len(alphabet)
	}
	return alphabet[r.Intn(nkeys)]
}

// handOver returns a private copy of b for ONE call into the code under test; the caller scribbles
// over it right after the call (scribbleAll), as a client that reuses its buffers does: whatever the
// callee keeps must be its own copy.
func handOver(b []byte) []byte {
	if b == nil {
		return nil
	}
	return append(make([]byte, 0, len(b)+8), b...)
}

func scribbleAll(bs ...[]byte) {
	for _, b := range bs {
		b = b[:cap(b)]
		for i := range b {
			b[i] = 0xEE
		}
	}
}
