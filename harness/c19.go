package main

// C19 — the network API behaves like the embedded API.
//
// One case = a real engine.EngineFacade behind a real KevoServiceServer registered with an
// in-process gRPC server on a loopback port (server options: those cmd/kevo/server.go passes that
// matter for requests, i.e. its grpc.MaxRecvMsgSize option if it has one — read from the source of
// the tree under test — or none; header msg=big raises the receive limit so that the service's own
// limits can be reached), driven through the generated client stubs by a sequential request
// program, AND a second engine (the twin) with the same configuration that receives the same
// operations through the embedded API (EngineFacade, interfaces.Transaction, the iterator
// packages). Every response is printed canonically (compared with the extracted Service model by
// ./check) and judged by the oracle: same observable result as the embedded operation on the same
// data, requests outside the documented limits rejected without side effects, a handle unusable
// after commit/rollback; at the end both engines and a reference map must hold the same data.
//
// Header: memsize=<bytes> maxmem=<n> msg=default|big role=none|<tok> paddr=<tok> pseq=<n> pro=0|1 nrep=<n>
// Lines:  get K | put K V s | del K s | batch n s (+ n lines "o <type> K V") | scan P S A E L |
//         begin ro|rw | commit H | rollback H | tget H K | tput H K V | tdel H K | tscan H P S A E L |
//         stats | compact 0|1 | info | flush
//         H = $k (the id the k-th begin line returned) or =<tok> (a literal id string)
// Observations (mirrored by model/drv_c19.ml):
//         R value:<v> | R notfound | R ok | R err:<class> | R blocked | B tx-<n> |
//         S n=<rows> + "s K V" | T keys= size= mem= sst= | I role= paddr= seq= ro= nrep= + "i addr seq avail region" |
//         Z n=<rows> + "z K V" (final content of the server's engine)

import (
	"bufio"
	"bytes"
	"context"
	"errors"
	"fmt"
	"go/constant"
	"go/token"
	"go/types"
	"io"
	"math/rand"
	"net"
	"os"
	"path/filepath"
	"regexp"
	"sort"
	"strconv"
	"strings"
	"sync"
	"time"

	"github.com/KevoDB/kevo/pkg/common/iterator"
	"github.com/KevoDB/kevo/pkg/common/iterator/filtered"
	"github.com/KevoDB/kevo/pkg/engine"
	"github.com/KevoDB/kevo/pkg/engine/interfaces"
	"github.com/KevoDB/kevo/pkg/grpc/service"
	"github.com/KevoDB/kevo/pkg/transaction"
	"github.com/KevoDB/kevo/pkg/version"
	pb "github.com/KevoDB/kevo/proto/kevo"
	"google.golang.org/grpc"
	"google.golang.org/grpc/codes"
	"google.golang.org/grpc/credentials/insecure"
	"google.golang.org/grpc/status"
	"google.golang.org/protobuf/proto"
)

func init() { register("C19", &Prop{Gen: genC19, Run: runC19}) }

// the documented limits (comments of NewKevoServiceServer: 4KB keys, 10MB values, 1000 operations
// per batch); written down here independently of the model's generated constants
const (
	c19DocMaxKey   = 4096
	c19DocMaxVal   = 10 * 1024 * 1024
	c19DocMaxBatch = 1000
	c19BigMsg      = 64 << 20
	c19GrpcDefault = 4 << 20
)

var c19BlockedWait = 300 * time.Millisecond

// ---------------------------------------------------------------------------------------
// node under test and its twin
// ---------------------------------------------------------------------------------------

type c19Provider struct {
	role, paddr string
	reps        []service.ReplicaInfo
	seq         uint64
	ro          bool
}

func (p *c19Provider) GetNodeInfo() (string, string, []service.ReplicaInfo, uint64, bool) {
	return p.role, p.paddr, p.reps, p.seq, p.ro
}

// the receive limit cmd/kevo/server.go configures (grpc.MaxRecvMsgSize among its server options),
// 0 when it has none
func c19ServerRecvOption() int { return c19ServerOption("MaxRecvMsgSize") }

// the send limit it configures (grpc.MaxSendMsgSize), 0 when it has none: a response that carries
// a stored value (Get, TxGet, a Scan entry with its key) must fit into it
func c19ServerSendOption() int { return c19ServerOption("MaxSendMsgSize") }

func c19ServerOption(name string) int {
	repo := os.Getenv("VERIF_REPO")
	if repo == "" {
		repo = "/repo"
	}
	src, err := os.ReadFile(filepath.Join(repo, "cmd", "kevo", "server.go"))
	if err != nil {
		return 0
	}
	m := regexp.MustCompile(`grpc\.` + name + `\(([^)]*)\)`).FindSubmatch(src)
	if m == nil {
		return 0
	}
	// the argument may be a constant of the same file: its defining expression is put in its place
	expr := string(m[1])
	for depth := 0; depth < 8; depth++ {
		changed := false
		expr = regexp.MustCompile(`[A-Za-z_][A-Za-z0-9_]*`).ReplaceAllStringFunc(expr, func(id string) string {
			d := regexp.MustCompile(`(?m)^\s*(?:const\s+)?` + id + `\s*(?:[A-Za-z0-9_.]+\s*)?=\s*([^/\n]+)`).FindSubmatch(src)
			if d == nil {
				return id
			}
			changed = true
			return "(" + strings.TrimSpace(string(d[1])) + ")"
		})
		if !changed {
			break
		}
	}
	tv, err := types.Eval(token.NewFileSet(), nil, token.NoPos, expr)
	if err != nil || tv.Value == nil {
		return 0
	}
	v, ok := constant.Int64Val(constant.ToInt(tv.Value))
	if !ok {
		return 0
	}
	return int(v)
}

type c19Node struct {
	dir, dir2 string
	e, e2     *engine.EngineFacade
	reg       transaction.Registry
	gs        *grpc.Server
	conn      *grpc.ClientConn
	cli       pb.KevoServiceClient
	recvLimit int
	prov      *c19Provider
}

func c19Start(c *Case) (*c19Node, error) {
	n := &c19Node{dir: tmpDir("c19-"), dir2: tmpDir("c19t-")}
	memsize, _ := strconv.ParseInt(hdrVal(c.Hdr, "memsize", "4096"), 10, 64)
	maxmem, _ := strconv.Atoi(hdrVal(c.Hdr, "maxmem", "1000"))
	for _, d := range []string{n.dir, n.dir2} {
		if err := writeManifest(d, memsize, maxmem, nil); err != nil {
			return n, err
		}
	}
	holdBackground()
	var err error
	if n.e, err = openEngine(n.dir); err != nil {
		return n, err
	}
	if n.e2, err = openEngine(n.dir2); err != nil {
		return n, err
	}
	var info service.ReplicationInfoProvider
	if role := hdrVal(c.Hdr, "role", "none"); role != "none" {
		p := &c19Provider{role: string(tok(role)), paddr: string(tok(hdrVal(c.Hdr, "paddr", "-"))),
			seq: parseNum(hdrVal(c.Hdr, "pseq", "0")), ro: hdrVal(c.Hdr, "pro", "0") == "1"}
		nrep, _ := strconv.Atoi(hdrVal(c.Hdr, "nrep", "0"))
		for i := 0; i < nrep; i++ {
			p.reps = append(p.reps, service.ReplicaInfo{Address: fmt.Sprintf("r%d:1", i), LastSequence: uint64(i * 7),
				Available: i%2 == 1, Region: "eu", Meta: map[string]string{"n": strconv.Itoa(i)}})
		}
		n.prov = p
		info = p
	}
	n.reg = transaction.NewRegistry()
	svc := service.NewKevoServiceServer(n.e, n.reg, info)
	lis, err := net.Listen("tcp", "127.0.0.1:0")
	if err != nil {
		return n, err
	}
	var opts []grpc.ServerOption
	n.recvLimit = c19GrpcDefault
	if hdrVal(c.Hdr, "msg", "default") == "big" {
		opts = append(opts, grpc.MaxRecvMsgSize(c19BigMsg))
		n.recvLimit = c19BigMsg
	} else if o := c19ServerRecvOption(); o > 0 {
		opts = append(opts, grpc.MaxRecvMsgSize(o))
		n.recvLimit = o
	}
	if o := c19ServerSendOption(); o > 0 {
		opts = append(opts, grpc.MaxSendMsgSize(o))
	}
	n.gs = grpc.NewServer(opts...)
	pb.RegisterKevoServiceServer(n.gs, svc)
	go n.gs.Serve(lis)
	// the client never limits: only the server's behaviour is under test
	n.conn, err = grpc.NewClient(lis.Addr().String(), grpc.WithTransportCredentials(insecure.NewCredentials()),
		grpc.WithDefaultCallOptions(grpc.MaxCallRecvMsgSize(1<<30), grpc.MaxCallSendMsgSize(1<<30)),
		// fixed 64 KB flow-control windows (no dynamic growth): a server stream the client does not
		// read stands after 64 KB, which `scanwrite` relies on
		grpc.WithInitialWindowSize(65535), grpc.WithInitialConnWindowSize(65535))
	if err != nil {
		return n, err
	}
	n.cli = pb.NewKevoServiceClient(n.conn)
	return n, nil
}

func (n *c19Node) stop() {
	if n.conn != nil {
		n.conn.Close()
	}
	if n.gs != nil {
		n.gs.Stop()
	}
	if n.reg != nil {
		ctx, cancel := context.WithTimeout(context.Background(), 2*time.Second)
		n.reg.GracefulShutdown(ctx)
		cancel()
	}
	if n.e != nil {
		n.e.Close()
	}
	if n.e2 != nil {
		n.e2.Close()
	}
	os.RemoveAll(n.dir)
	os.RemoveAll(n.dir2)
}

// ---------------------------------------------------------------------------------------
// canonical results
// ---------------------------------------------------------------------------------------

func c19Class(err error) (string, codes.Code) {
	st, _ := status.FromError(err)
	msg := st.Message()
	switch {
	case st.Code() == codes.DeadlineExceeded:
		return "blocked", st.Code()
	case st.Code() == codes.ResourceExhausted && strings.Contains(msg, "larger than max"):
		return "msg", st.Code()
	case strings.Contains(msg, "invalid key size"):
		return "key", st.Code()
	case strings.Contains(msg, "value too large"):
		return "value", st.Code()
	case strings.Contains(msg, "batch size exceeds"):
		return "batch", st.Code()
	case strings.Contains(msg, "unknown operation type"):
		return "optype", st.Code()
	case strings.Contains(msg, "transaction not found"):
		return "notx", st.Code()
	case strings.Contains(msg, "read-only transaction"):
		return "rotx", st.Code()
	}
	return "other:" + strings.ReplaceAll(msg, " ", "_"), st.Code()
}

type scanOpts struct {
	prefix, suffix, start, end []byte
	limit                      int32
}

func parseScan(t []string) scanOpts {
	l, _ := strconv.ParseInt(t[4], 10, 32)
	return scanOpts{tok(t[0]), tok(t[1]), tok(t[2]), tok(t[3]), int32(l)}
}

func nilIfEmpty(b []byte) []byte {
	if len(b) == 0 {
		return nil
	}
	return b
}

// the scan an embedded user composes for the documented request semantics (a prefix or a suffix
// filters the whole key space and a range is ignored then; otherwise [start, end); limit > 0 caps
// the number of rows) out of the iterator packages the embedded API offers
func embScan(tx interfaces.Transaction, o scanOpts) []kvPair {
	var it iterator.Iterator
	switch {
	case len(o.prefix) > 0 && len(o.suffix) > 0:
		it = filtered.NewSuffixIterator(filtered.NewPrefixIterator(tx.NewIterator(), o.prefix), o.suffix)
	case len(o.prefix) > 0:
		it = filtered.NewPrefixIterator(tx.NewIterator(), o.prefix)
	case len(o.suffix) > 0:
		it = filtered.NewSuffixIterator(tx.NewIterator(), o.suffix)
	case len(o.start) > 0 || len(o.end) > 0:
		it = tx.NewRangeIterator(nilIfEmpty(o.start), nilIfEmpty(o.end))
	default:
		it = tx.NewIterator()
	}
	var rows []kvPair
	for it.SeekToFirst(); it.Valid(); it.Next() {
		if o.limit > 0 && int32(len(rows)) >= o.limit {
			break
		}
		if !it.IsTombstone() {
			rows = append(rows, kvPair{append([]byte{}, it.Key()...), append([]byte{}, it.Value()...)})
		}
	}
	return rows
}

// the same set computed from the property text over a plain map: ascending live keys k with
// prefix(k), suffix(k) and — when neither is given — start <= k < end, cut to the limit
func refScan(view map[string][]byte, o scanOpts) []kvPair {
	var keys []string
	for k, v := range view {
		if v == nil {
			continue
		}
		kb := []byte(k)
		if len(o.prefix) > 0 && !bytes.HasPrefix(kb, o.prefix) {
			continue
		}
		if len(o.suffix) > 0 && !bytes.HasSuffix(kb, o.suffix) {
			continue
		}
		if len(o.prefix) == 0 && len(o.suffix) == 0 {
			if len(o.start) > 0 && bytes.Compare(kb, o.start) < 0 {
				continue
			}
			if len(o.end) > 0 && bytes.Compare(kb, o.end) >= 0 {
				continue
			}
		}
		keys = append(keys, k)
	}
	sort.Strings(keys)
	if o.limit > 0 && int32(len(keys)) > o.limit {
		keys = keys[:o.limit]
	}
	rows := make([]kvPair, 0, len(keys))
	for _, k := range keys {
		rows = append(rows, kvPair{[]byte(k), view[k]})
	}
	return rows
}

func rowsEqual(a, b []kvPair) bool {
	if len(a) != len(b) {
		return false
	}
	for i := range a {
		if !bytes.Equal(a[i].k, b[i].k) || !bytes.Equal(a[i].v, b[i].v) {
			return false
		}
	}
	return true
}

func rowsStr(r []kvPair) string {
	var b strings.Builder
	b.WriteString("[")
	for i, x := range r {
		if i > 0 {
			b.WriteString(" ")
		}
		if i >= 8 {
			fmt.Fprintf(&b, "… %d rows", len(r))
			break
		}
		b.WriteString(render(x.k) + "=" + render(x.v))
	}
	b.WriteString("]")
	return b.String()
}

// ---------------------------------------------------------------------------------------
// one case
// ---------------------------------------------------------------------------------------

type c19Tx struct {
	id    string
	ro    bool
	live  bool
	twin  interfaces.Transaction
	buf   map[string][]byte // the handle's own writes: nil = deleted
	wrote map[string]bool
}

func runC19(c *Case, out func(string)) {
	n, err := c19Start(c)
	defer n.stop()
	if err != nil {
		out("IMPL-ERROR start " + err.Error())
		return
	}
	ref := map[string][]byte{} // acknowledged writes (nil = deleted)
	oracleOK := true
	fail := func(m string) {
		if oracleOK {
			out("ORACLE FAIL " + m)
		}
		oracleOK = false
	}
	codesSeen := map[string]map[string]bool{}
	noteCode := func(class string, code codes.Code) {
		if codesSeen[class] == nil {
			codesSeen[class] = map[string]bool{}
		}
		codesSeen[class][code.String()] = true
	}
	var txs []*c19Tx // by begin line
	byID := map[string]*c19Tx{}
	rwOpen, roOpen := 0, 0
	resolve := func(h string) (string, *c19Tx) {
		if strings.HasPrefix(h, "$") {
			k, _ := strconv.Atoi(h[1:])
			if k < len(txs) && txs[k] != nil {
				return txs[k].id, txs[k]
			}
			return fmt.Sprintf("none-%d", k), nil
		}
		id := string(tok(h[1:]))
		return id, byID[id]
	}
	// a call that is not expected to wait for a lock gets 20 s; if it runs into that limit the
	// service is stuck (e.g. a lock leaked by an earlier request): the rest of the program would
	// only repeat the wait, so the case ends there (hungCalls is checked at the top of the loop)
	hungCalls := 0
	ctxFor := func(blocked bool) (context.Context, context.CancelFunc) {
		if blocked {
			return context.WithTimeout(context.Background(), c19BlockedWait)
		}
		ctx, cancel := context.WithTimeout(context.Background(), 20*time.Second)
		return ctx, func() {
			if ctx.Err() == context.DeadlineExceeded {
				hungCalls++
			}
			cancel()
		}
	}
	// statistics for META
	nReq, nRej, nTxOwn, nScanHit, nBlocked, nHandleDead := 0, 0, 0, 0, 0, 0
	statsNote := ""
	kinds := map[string]int{}
	// view of a handle: the reference map with the handle's own writes on top
	viewOf := func(t *c19Tx) map[string][]byte {
		if t == nil || len(t.wrote) == 0 {
			return ref
		}
		v := make(map[string][]byte, len(ref)+len(t.buf))
		for k, x := range ref {
			v[k] = x
		}
		for k := range t.wrote {
			v[k] = t.buf[k]
		}
		return v
	}
	errObs := func(err error) string {
		cl, code := c19Class(err)
		noteCode(cl, code)
		if cl == "blocked" {
			return "R blocked"
		}
		return "R err:" + cl
	}
	// judge a rejection: rej = the rejections the property allows for this request
	judge := func(what string, got string, rej []string, req proto.Message) bool {
		// returns true when the request was (correctly or not) rejected, i.e. the twin must not run
		if len(rej) > 0 {
			nRej++
			ok := false
			for _, r := range rej {
				if got == "R err:"+r {
					ok = true
				}
			}
			if got == "R err:msg" || got == "R err:optype" {
				ok = true // rejected by another layer: still rejected
			}
			if !ok {
				fail(fmt.Sprintf("%s: must be rejected (%s) but the service answered %q", what, strings.Join(rej, "/"), got))
			}
			return true
		}
		if strings.HasPrefix(got, "R err:") || got == "R blocked" {
			if got == "R err:msg" {
				fail(fmt.Sprintf("%s: within the documented limits (%d bytes on the wire) but refused by the transport (receive limit of the server: %d bytes)", what, proto.Size(req), n.recvLimit))
			} else {
				fail(fmt.Sprintf("%s: the embedded operation is admissible but the service answered %q", what, got))
			}
			return true
		}
		return false
	}
	keyBad := func(k []byte) bool { return len(k) == 0 || len(k) > c19DocMaxKey }
	valBad := func(v []byte) bool { return len(v) > c19DocMaxVal }
	streamRows := func(recv func() ([]byte, []byte, error)) ([]kvPair, error) {
		rows := []kvPair{}
		for {
			k, v, err := recv()
			if err != nil {
				if errors.Is(err, io.EOF) {
					return rows, nil
				}
				return nil, err
			}
			rows = append(rows, kvPair{k, v})
		}
	}
	printRows := func(tag, row string, rows []kvPair) {
		out(fmt.Sprintf("%s n=%d", tag, len(rows)))
		for _, r := range rows {
			out(fmt.Sprintf("%s %s %s", row, render(r.k), render(r.v)))
		}
	}
	checkScan := func(what string, rows []kvPair, twinTx interfaces.Transaction, t *c19Tx, o scanOpts) {
		want := refScan(viewOf(t), o)
		if !rowsEqual(rows, want) {
			fail(fmt.Sprintf("%s: rows %s, the requested set over the acknowledged data is %s", what, rowsStr(rows), rowsStr(want)))
		}
		if twinTx != nil {
			tw := embScan(twinTx, o)
			if !rowsEqual(rows, tw) {
				fail(fmt.Sprintf("%s: rows %s, the embedded iterators give %s", what, rowsStr(rows), rowsStr(tw)))
			}
		}
		for _, r := range rows {
			if r.v == nil {
				_ = r
			}
		}
		if len(rows) > 0 && (len(o.prefix)+len(o.suffix)+len(o.start)+len(o.end) > 0 || o.limit > 0) {
			nScanHit++
		}
	}

	for i := 0; i < len(c.Lines); i++ {
		if hungCalls > 0 {
			fail(fmt.Sprintf("a request that needs no lock held by this client did not return within 20 s (before line %d: %s); the rest of the program is not run", i, strings.Join(c.Lines[i-1], " ")))
			break
		}
		l := c.Lines[i]
		kinds[l[0]]++
		if l[0] != "flush" {
			nReq++
		}
		switch l[0] {
		case "get":
			k := tok(l[1])
			ctx, cancel := ctxFor(false)
			req := &pb.GetRequest{Key: k}
			resp, err := n.cli.Get(ctx, req)
			cancel()
			var got string
			if err != nil {
				got = errObs(err)
			} else if resp.Found {
				got = "R value:" + render(resp.Value)
			} else {
				got = "R notfound"
			}
			out(got)
			var rej []string
			if keyBad(k) {
				rej = append(rej, "key")
			}
			if judge("Get "+render(k), got, rej, req) {
				break
			}
			v2, err2 := n.e2.Get(k)
			want := "R notfound"
			if err2 == nil {
				want = "R value:" + render(v2)
			}
			if got != want {
				fail(fmt.Sprintf("Get %s: service %q, embedded %q", render(k), got, want))
			}
			if rv, ok := ref[string(k)]; ok && rv != nil {
				if got != "R value:"+render(rv) {
					fail(fmt.Sprintf("Get %s: service %q, latest acknowledged write %s", render(k), got, render(rv)))
				}
			} else if got != "R notfound" {
				fail(fmt.Sprintf("Get %s: service %q but the key is not live", render(k), got))
			}
		case "put":
			k, v := tok(l[1]), tok(l[2])
			ctx, cancel := ctxFor(false)
			req := &pb.PutRequest{Key: k, Value: v, Sync: l[3] == "1"}
			resp, err := n.cli.Put(ctx, req)
			cancel()
			got := "R ok"
			if err != nil {
				got = errObs(err)
			} else if !resp.Success {
				got = "R err:other:success=false"
			}
			out(got)
			var rej []string
			if keyBad(k) {
				rej = append(rej, "key")
			}
			if valBad(v) {
				rej = append(rej, "value")
			}
			if judge(fmt.Sprintf("Put %s (%d-byte value)", render(k), len(v)), got, rej, req) {
				break
			}
			if err2 := n.e2.Put(k, v); err2 != nil {
				fail(fmt.Sprintf("Put %s: service ok, embedded %v", render(k), err2))
			}
			ref[string(k)] = append([]byte{}, v...)
		case "del":
			k := tok(l[1])
			ctx, cancel := ctxFor(false)
			req := &pb.DeleteRequest{Key: k, Sync: l[2] == "1"}
			resp, err := n.cli.Delete(ctx, req)
			cancel()
			got := "R ok"
			if err != nil {
				got = errObs(err)
			} else if !resp.Success {
				got = "R err:other:success=false"
			}
			out(got)
			var rej []string
			if keyBad(k) {
				rej = append(rej, "key")
			}
			if judge("Delete "+render(k), got, rej, req) {
				break
			}
			if err2 := n.e2.Delete(k); err2 != nil {
				fail(fmt.Sprintf("Delete %s: service ok, embedded %v", render(k), err2))
			}
			ref[string(k)] = nil
		case "batch":
			cnt, _ := strconv.Atoi(l[1])
			req := &pb.BatchWriteRequest{Sync: l[2] == "1"}
			type bo struct {
				typ  int32
				k, v []byte
			}
			var ops []bo
			for j := 1; j <= cnt; j++ {
				ol := c.Lines[i+j]
				ty, _ := strconv.Atoi(ol[1])
				o := bo{int32(ty), tok(ol[2]), tok(ol[3])}
				ops = append(ops, o)
				req.Operations = append(req.Operations, &pb.Operation{Type: pb.Operation_Type(o.typ), Key: o.k, Value: o.v})
			}
			i += cnt
			wouldBlock := cnt > 0 && cnt <= c19DocMaxBatch && rwOpen+roOpen > 0
			if wouldBlock {
				// not generated: the server-side call would be applied after the lock is released
				out("IMPL-ERROR batch while a transaction is open is outside the sequential programs")
				return
			}
			ctx, cancel := ctxFor(false)
			resp, err := n.cli.BatchWrite(ctx, req)
			cancel()
			got := "R ok"
			if err != nil {
				got = errObs(err)
			} else if !resp.Success {
				got = "R err:other:success=false"
			}
			out(got)
			var rej []string
			if cnt > c19DocMaxBatch {
				rej = append(rej, "batch")
			}
			for _, o := range ops {
				if keyBad(o.k) {
					rej = append(rej, "key")
				}
				if o.typ == 0 && valBad(o.v) {
					rej = append(rej, "value")
				}
				if o.typ != 0 && o.typ != 1 {
					rej = append(rej, "optype")
				}
			}
			if judge(fmt.Sprintf("BatchWrite of %d operations", cnt), got, rej, req) {
				break
			}
			// embedded: one read-write transaction
			tx, err2 := n.e2.BeginTransaction(false)
			if err2 != nil {
				fail("BatchWrite: embedded begin failed: " + err2.Error())
				break
			}
			for _, o := range ops {
				if o.typ == 1 {
					tx.Delete(o.k)
				} else {
					tx.Put(o.k, o.v)
				}
			}
			if err2 := tx.Commit(); err2 != nil {
				fail("BatchWrite: service ok, embedded commit " + err2.Error())
			}
			for _, o := range ops {
				if o.typ == 1 {
					ref[string(o.k)] = nil
				} else {
					ref[string(o.k)] = append([]byte{}, o.v...)
				}
			}
		case "scan":
			o := parseScan(l[1:])
			blocked := rwOpen > 0
			ctx, cancel := ctxFor(blocked)
			req := &pb.ScanRequest{Prefix: o.prefix, Suffix: o.suffix, StartKey: o.start, EndKey: o.end, Limit: o.limit}
			st, err := n.cli.Scan(ctx, req)
			var rows []kvPair
			if err == nil {
				rows, err = streamRows(func() ([]byte, []byte, error) {
					m, e := st.Recv()
					if e != nil {
						return nil, nil, e
					}
					return m.Key, m.Value, nil
				})
			}
			cancel()
			if err != nil {
				got := errObs(err)
				out(got)
				if blocked && got == "R blocked" {
					nBlocked++
				} else {
					judge("Scan", got, nil, req)
				}
				break
			}
			printRows("S", "s", rows)
			if blocked {
				fail("Scan answered while a read-write transaction holds the database")
				break
			}
			tx, err2 := n.e2.BeginTransaction(true)
			if err2 != nil {
				fail("Scan: embedded begin failed: " + err2.Error())
				break
			}
			checkScan("Scan "+strings.Join(l[1:], " "), rows, tx, nil, o)
			tx.Rollback()
		case "scanwrite":
			// scanwrite KA VA KB VB: a full Scan whose stream is left unread behind its first row while
			// a BatchWrite {put KA VA, put KB VB} is sent (KA sorts in front of the row read, KB behind
			// everything); then the stream is drained. The scan shows the state before the batch or
			// after it, never one of the two keys alone. (The model: the scan, then the batch - what
			// the code does, the batch waits for the scan's read lock.)
			if rwOpen+roOpen > 0 {
				out("IMPL-ERROR scanwrite while a transaction is open is outside the sequential programs")
				return
			}
			ka, va, kb, vb := tok(l[1]), tok(l[2]), tok(l[3]), tok(l[4])
			sctx, scancel := context.WithTimeout(context.Background(), 30*time.Second)
			st, err := n.cli.Scan(sctx, &pb.ScanRequest{})
			var rows []kvPair
			if err == nil {
				var m *pb.ScanResponse
				if m, err = st.Recv(); err == nil {
					rows = append(rows, kvPair{m.Key, m.Value})
				}
			}
			type bres struct {
				resp *pb.BatchWriteResponse
				err  error
			}
			bch := make(chan bres, 1)
			go func() {
				bctx, bcancel := context.WithTimeout(context.Background(), 30*time.Second)
				defer bcancel()
				r, e := n.cli.BatchWrite(bctx, &pb.BatchWriteRequest{Operations: []*pb.Operation{
					{Type: pb.Operation_PUT, Key: ka, Value: va}, {Type: pb.Operation_PUT, Key: kb, Value: vb}}})
				bch <- bres{r, e}
			}()
			time.Sleep(30 * time.Millisecond) // let the batch reach the server while the stream stands
			if err == nil {
				var more []kvPair
				more, err = streamRows(func() ([]byte, []byte, error) {
					m, e := st.Recv()
					if e != nil {
						return nil, nil, e
					}
					return m.Key, m.Value, nil
				})
				rows = append(rows, more...)
			}
			scancel()
			br := <-bch
			if err != nil {
				out(errObs(err))
				fail("scanwrite: the scan failed: " + err.Error())
				break
			}
			printRows("S", "s", rows)
			sawA, sawB := false, false
			for _, kv := range rows {
				if bytes.Equal(kv.k, ka) && bytes.Equal(kv.v, va) {
					sawA = true
				}
				if bytes.Equal(kv.k, kb) && bytes.Equal(kv.v, vb) {
					sawB = true
				}
			}
			if sawA != sawB {
				fail(fmt.Sprintf("a Scan that ran while the batch {%s, %s} was committed shows one of its two writes (%s: %v, %s: %v): not all-or-nothing",
					render(ka), render(kb), render(ka), sawA, render(kb), sawB))
			}
			if br.err != nil {
				out(errObs(br.err))
				break
			}
			out("R ok")
			if tx, err2 := n.e2.BeginTransaction(false); err2 == nil {
				tx.Put(ka, va)
				tx.Put(kb, vb)
				tx.Commit()
			}
			ref[string(ka)] = append([]byte{}, va...)
			ref[string(kb)] = append([]byte{}, vb...)
		case "cbegin":
			// l[1] clients begin a read-only transaction AT THE SAME TIME, l[2] rounds: every handle
			// handed out must be distinct and usable by its owner (one TxGet), then it is rolled back
			nc, _ := strconv.Atoi(l[1])
			rounds, _ := strconv.Atoi(l[2])
			bad := ""
			var bmu sync.Mutex
			note := func(m string) {
				bmu.Lock()
				if bad == "" {
					bad = m
				}
				bmu.Unlock()
			}
			for rd := 0; rd < rounds && bad == ""; rd++ {
				ids := make([]string, nc)
				var wg sync.WaitGroup
				start := make(chan struct{})
				for ci := 0; ci < nc; ci++ {
					wg.Add(1)
					go func(ci int) {
						defer wg.Done()
						<-start
						ctx, cancel := context.WithTimeout(context.Background(), 20*time.Second)
						defer cancel()
						resp, err := n.cli.BeginTransaction(ctx, &pb.BeginTransactionRequest{ReadOnly: true})
						if err != nil {
							note("concurrent BeginTransaction failed: " + err.Error())
							return
						}
						ids[ci] = resp.TransactionId
					}(ci)
				}
				close(start)
				wg.Wait()
				seen := map[string]int{}
				for ci, id := range ids {
					if id == "" {
						continue
					}
					if o, dup := seen[id]; dup {
						note(fmt.Sprintf("clients %d and %d were both given the handle %s by concurrent BeginTransaction calls", o, ci, id))
					}
					seen[id] = ci
				}
				for id := range seen {
					ctx, cancel := context.WithTimeout(context.Background(), 20*time.Second)
					if _, err := n.cli.TxGet(ctx, &pb.TxGetRequest{TransactionId: id, Key: []byte("k")}); err != nil {
						note("a handle from a concurrent BeginTransaction is not usable: " + err.Error())
					}
					if _, err := n.cli.RollbackTransaction(ctx, &pb.RollbackTransactionRequest{TransactionId: id}); err != nil {
						note("rollback of a handle from a concurrent BeginTransaction failed: " + err.Error())
					}
					cancel()
				}
			}
			if bad != "" {
				out("CB bad")
				fail(bad)
			} else {
				out(fmt.Sprintf("CB ok handles=%d", nc*rounds))
			}
		case "begin":
			ro := l[1] == "ro"
			blocked := rwOpen > 0 || (!ro && roOpen > 0)
			if !ro && roOpen > 0 && rwOpen == 0 {
				out("IMPL-ERROR begin rw while read-only transactions are open is outside the sequential programs")
				return
			}
			ctx, cancel := ctxFor(blocked)
			req := &pb.BeginTransactionRequest{ReadOnly: ro}
			resp, err := n.cli.BeginTransaction(ctx, req)
			cancel()
			if err != nil {
				got := errObs(err)
				out(got)
				txs = append(txs, nil)
				if blocked && got == "R blocked" {
					nBlocked++
				} else {
					judge("BeginTransaction", got, nil, req)
				}
				break
			}
			out("B " + resp.TransactionId)
			if blocked {
				fail("BeginTransaction succeeded although the transaction lock is held incompatibly")
			}
			if byID[resp.TransactionId] != nil {
				fail("BeginTransaction returned the id " + resp.TransactionId + " a second time")
			}
			tw, err2 := n.e2.BeginTransaction(ro)
			if err2 != nil {
				fail("BeginTransaction: embedded begin failed: " + err2.Error())
			}
			t := &c19Tx{id: resp.TransactionId, ro: ro, live: true, twin: tw, buf: map[string][]byte{}, wrote: map[string]bool{}}
			txs = append(txs, t)
			byID[t.id] = t
			if ro {
				roOpen++
			} else {
				rwOpen++
			}
		case "commit", "rollback":
			id, t := resolve(l[1])
			ctx, cancel := ctxFor(false)
			var err error
			var success bool
			var req proto.Message
			if l[0] == "commit" {
				r := &pb.CommitTransactionRequest{TransactionId: id}
				req = r
				var resp *pb.CommitTransactionResponse
				resp, err = n.cli.CommitTransaction(ctx, r)
				success = err == nil && resp.Success
			} else {
				r := &pb.RollbackTransactionRequest{TransactionId: id}
				req = r
				var resp *pb.RollbackTransactionResponse
				resp, err = n.cli.RollbackTransaction(ctx, r)
				success = err == nil && resp.Success
			}
			cancel()
			got := "R ok"
			if err != nil {
				got = errObs(err)
			} else if !success {
				got = "R err:other:success=false"
			}
			out(got)
			var rej []string
			if t == nil || !t.live {
				rej = append(rej, "notx")
				nHandleDead++
			}
			if judge(l[0]+" "+id, got, rej, req) {
				break
			}
			if l[0] == "commit" {
				if err2 := t.twin.Commit(); err2 != nil {
					fail("CommitTransaction: service ok, embedded " + err2.Error())
				}
				for k := range t.wrote {
					ref[k] = t.buf[k]
				}
			} else if err2 := t.twin.Rollback(); err2 != nil {
				fail("RollbackTransaction: service ok, embedded " + err2.Error())
			}
			t.live = false
			if t.ro {
				roOpen--
			} else {
				rwOpen--
			}
		case "tget":
			id, t := resolve(l[1])
			k := tok(l[2])
			ctx, cancel := ctxFor(false)
			req := &pb.TxGetRequest{TransactionId: id, Key: k}
			resp, err := n.cli.TxGet(ctx, req)
			cancel()
			var got string
			if err != nil {
				got = errObs(err)
			} else if resp.Found {
				got = "R value:" + render(resp.Value)
			} else {
				got = "R notfound"
			}
			out(got)
			var rej []string
			if t == nil || !t.live {
				rej = append(rej, "notx")
				nHandleDead++
			}
			if keyBad(k) {
				rej = append(rej, "key")
			}
			if judge("TxGet "+id+" "+render(k), got, rej, req) {
				break
			}
			v2, err2 := t.twin.Get(k)
			want := "R notfound"
			if err2 == nil {
				want = "R value:" + render(v2)
			}
			if got != want {
				fail(fmt.Sprintf("TxGet %s %s: service %q, embedded %q", id, render(k), got, want))
			}
			view := viewOf(t)
			if rv, ok := view[string(k)]; ok && rv != nil {
				if got != "R value:"+render(rv) {
					fail(fmt.Sprintf("TxGet %s %s: service %q, the transaction must read %s", id, render(k), got, render(rv)))
				}
				if t.wrote[string(k)] {
					nTxOwn++
				}
			} else if got != "R notfound" {
				fail(fmt.Sprintf("TxGet %s %s: service %q but the key is not live for the transaction", id, render(k), got))
			}
		case "tput", "tdel":
			id, t := resolve(l[1])
			k := tok(l[2])
			var v []byte
			ctx, cancel := ctxFor(false)
			var err error
			var success bool
			var req proto.Message
			if l[0] == "tput" {
				v = tok(l[3])
				r := &pb.TxPutRequest{TransactionId: id, Key: k, Value: v}
				req = r
				var resp *pb.TxPutResponse
				resp, err = n.cli.TxPut(ctx, r)
				success = err == nil && resp.Success
			} else {
				r := &pb.TxDeleteRequest{TransactionId: id, Key: k}
				req = r
				var resp *pb.TxDeleteResponse
				resp, err = n.cli.TxDelete(ctx, r)
				success = err == nil && resp.Success
			}
			cancel()
			got := "R ok"
			if err != nil {
				got = errObs(err)
			} else if !success {
				got = "R err:other:success=false"
			}
			out(got)
			var rej []string
			if t == nil || !t.live {
				rej = append(rej, "notx")
				nHandleDead++
			}
			if keyBad(k) {
				rej = append(rej, "key")
			}
			if l[0] == "tput" && valBad(v) {
				rej = append(rej, "value")
			}
			if len(rej) == 0 && t.ro {
				// the embedded transaction refuses too
				var err2 error
				if l[0] == "tput" {
					err2 = t.twin.Put(k, v)
				} else {
					err2 = t.twin.Delete(k)
				}
				if err2 == nil || !strings.Contains(err2.Error(), "read-only") {
					fail(fmt.Sprintf("%s on a read-only transaction: embedded answered %v", l[0], err2))
				}
				rej = append(rej, "rotx")
			}
			if judge(fmt.Sprintf("%s %s %s", l[0], id, render(k)), got, rej, req) {
				break
			}
			var err2 error
			if l[0] == "tput" {
				err2 = t.twin.Put(k, v)
				t.buf[string(k)] = append([]byte{}, v...)
			} else {
				err2 = t.twin.Delete(k)
				t.buf[string(k)] = nil
			}
			t.wrote[string(k)] = true
			if err2 != nil {
				fail(fmt.Sprintf("%s: service ok, embedded %v", l[0], err2))
			}
		case "tscan":
			id, t := resolve(l[1])
			o := parseScan(l[2:])
			ctx, cancel := ctxFor(false)
			req := &pb.TxScanRequest{TransactionId: id, Prefix: o.prefix, Suffix: o.suffix, StartKey: o.start, EndKey: o.end, Limit: o.limit}
			st, err := n.cli.TxScan(ctx, req)
			var rows []kvPair
			if err == nil {
				rows, err = streamRows(func() ([]byte, []byte, error) {
					m, e := st.Recv()
					if e != nil {
						return nil, nil, e
					}
					return m.Key, m.Value, nil
				})
			}
			cancel()
			var rej []string
			if t == nil || !t.live {
				rej = append(rej, "notx")
				nHandleDead++
			}
			if err != nil {
				got := errObs(err)
				out(got)
				judge("TxScan "+id, got, rej, req)
				break
			}
			printRows("S", "s", rows)
			if len(rej) > 0 {
				fail("TxScan on the dead or unknown handle " + id + " answered rows")
				break
			}
			checkScan("TxScan "+id+" "+strings.Join(l[2:], " "), rows, t.twin, t, o)
			if len(t.wrote) > 0 {
				for _, r := range rows {
					if t.wrote[string(r.k)] {
						nTxOwn++
						break
					}
				}
			}
		case "stats":
			blocked := rwOpen > 0
			ctx, cancel := ctxFor(blocked)
			req := &pb.GetStatsRequest{}
			resp, err := n.cli.GetStats(ctx, req)
			cancel()
			if err != nil {
				got := errObs(err)
				out(got)
				if blocked && got == "R blocked" {
					nBlocked++
				} else {
					judge("GetStats", got, nil, req)
				}
				break
			}
			out(fmt.Sprintf("T keys=%d size=%d mem=%d sst=%d", resp.KeyCount, resp.StorageSize, resp.MemtableCount, resp.SstableCount))
			if blocked {
				fail("GetStats answered while a read-write transaction holds the database")
				break
			}
			// embedded: count the live keys with the engine's own iterator, layer counts from its statistics
			var keys, size int64
			if it, err2 := n.e2.GetIterator(); err2 == nil {
				for it.SeekToFirst(); it.Valid(); it.Next() {
					if !it.IsTombstone() {
						keys++
						size += int64(len(it.Key()) + len(it.Value()))
					}
				}
			}
			st2 := n.e2.GetStats()
			imm, _ := st2["storage_immutable_memtable_count"].(int)
			sst, _ := st2["storage_sstable_count"].(int)
			if resp.KeyCount != keys || resp.StorageSize != size {
				fail(fmt.Sprintf("GetStats: service keys=%d size=%d, embedded keys=%d size=%d", resp.KeyCount, resp.StorageSize, keys, size))
			}
			// statistics values are outside the property (shape only); differences are reported as observations
			if int(resp.MemtableCount) != 1+imm || int(resp.SstableCount) != sst {
				statsNote = fmt.Sprintf("NOTE stats-layers service mem=%d sst=%d, embedded engine mem=%d sst=%d (and %d operation counters over the wire)",
					resp.MemtableCount, resp.SstableCount, 1+imm, sst, len(resp.OperationCounts))
			}
		case "compact":
			if rwOpen+roOpen > 0 {
				out("IMPL-ERROR compact while a transaction is open is outside the sequential programs")
				return
			}
			force := l[1] == "1"
			ctx, cancel := ctxFor(false)
			req := &pb.CompactRequest{Force: force}
			resp, err := n.cli.Compact(ctx, req)
			cancel()
			got := "R ok"
			if err != nil {
				got = errObs(err)
			} else if !resp.Success {
				got = "R err:other:success=false"
			}
			out(got)
			if judge("Compact", got, nil, req) {
				break
			}
			// embedded counterpart: a flush of the memtables (force) or nothing; maintenance never changes the data
			if force {
				if err2 := n.e2.FlushImMemTables(); err2 != nil {
					fail("Compact: embedded flush " + err2.Error())
				}
			}
			a, _ := c19Content(n.e)
			b, _ := c19Content(n.e2)
			if !rowsEqual(a, b) {
				fail(fmt.Sprintf("Compact(force=%v) changed the data: the server's engine now holds %s, the same operations through the embedded API leave %s", force, rowsStr(a), rowsStr(b)))
			}
		case "info":
			ctx, cancel := ctxFor(false)
			req := &pb.GetNodeInfoRequest{}
			resp, err := n.cli.GetNodeInfo(ctx, req)
			cancel()
			if err != nil {
				got := errObs(err)
				out(got)
				judge("GetNodeInfo", got, nil, req)
				break
			}
			out(fmt.Sprintf("I role=%d paddr=%s seq=%s ro=%s nrep=%d", int32(resp.NodeRole), render([]byte(resp.PrimaryAddress)),
				num(resp.LastSequence), b01(resp.ReadOnly), len(resp.Replicas)))
			for _, r := range resp.Replicas {
				out(fmt.Sprintf("i %s %s %s %s", render([]byte(r.Address)), num(r.LastSequence), b01(r.Available), render([]byte(r.Region))))
			}
			// embedded: what the provider itself reports (standalone defaults when there is none)
			wantRole, wantAddr, wantSeq, wantRO := "standalone", "", uint64(0), false
			var wantReps []service.ReplicaInfo
			if n.prov != nil {
				wantRole, wantAddr, wantReps, wantSeq, wantRO = n.prov.GetNodeInfo()
			}
			roleName := map[pb.GetNodeInfoResponse_NodeRole]string{pb.GetNodeInfoResponse_PRIMARY: "primary", pb.GetNodeInfoResponse_REPLICA: "replica", pb.GetNodeInfoResponse_STANDALONE: "standalone"}[resp.NodeRole]
			if wantRole != "primary" && wantRole != "replica" {
				wantRole = "standalone"
			}
			if roleName != wantRole || resp.PrimaryAddress != wantAddr || resp.LastSequence != wantSeq || resp.ReadOnly != wantRO || len(resp.Replicas) != len(wantReps) {
				fail(fmt.Sprintf("GetNodeInfo: service role=%s paddr=%q seq=%d ro=%v replicas=%d, provider role=%s paddr=%q seq=%d ro=%v replicas=%d",
					roleName, resp.PrimaryAddress, resp.LastSequence, resp.ReadOnly, len(resp.Replicas), wantRole, wantAddr, wantSeq, wantRO, len(wantReps)))
			} else {
				for j, r := range resp.Replicas {
					w := wantReps[j]
					same := r.Address == w.Address && r.LastSequence == w.LastSequence && r.Available == w.Available && r.Region == w.Region && len(r.Meta) == len(w.Meta)
					for k, v := range w.Meta {
						if r.Meta[k] != v {
							same = false
						}
					}
					if !same {
						fail(fmt.Sprintf("GetNodeInfo: replica %d differs from the provider's", j))
					}
				}
			}
			if resp.Version != version.GetVersion() {
				fail("GetNodeInfo: version " + resp.Version + ", embedded " + version.GetVersion())
			}
		case "flush":
			if err := n.e.FlushImMemTables(); err != nil {
				out("IMPL-ERROR flush " + err.Error())
			}
			if err := n.e2.FlushImMemTables(); err != nil {
				out("IMPL-ERROR twin flush " + err.Error())
			}
		case "o":
			out("IMPL-ERROR stray batch operation line")
		default:
			out("IMPL-ERROR bad line " + strings.Join(l, " "))
		}
	}
	// final content: server engine = twin = reference map
	a, err := c19Content(n.e)
	if err != nil {
		out("IMPL-ERROR final scan " + err.Error())
	}
	printRows("Z", "z", a)
	b, _ := c19Content(n.e2)
	if !rowsEqual(a, b) {
		fail(fmt.Sprintf("final content: the server's engine holds %s, the embedded twin %s", rowsStr(a), rowsStr(b)))
	}
	if want := refScan(ref, scanOpts{}); !rowsEqual(a, want) {
		fail(fmt.Sprintf("final content: the server's engine holds %s, the acknowledged writes give %s", rowsStr(a), rowsStr(want)))
	}
	// observations about status codes: one code per class would let a client tell the classes apart
	var cs []string
	for cl, m := range codesSeen {
		var cc []string
		for k := range m {
			cc = append(cc, k)
		}
		sort.Strings(cc)
		cs = append(cs, cl+"="+strings.Join(cc, "+"))
	}
	sort.Strings(cs)
	if len(cs) > 0 {
		out("NOTE codes " + strings.Join(cs, " "))
	}
	if statsNote != "" {
		out(statsNote)
	}
	if oracleOK {
		out("ORACLE ok")
	}
	nt := 0
	if nTxOwn > 0 && nScanHit > 0 && nRej > 0 {
		nt = 1
	}
	out(fmt.Sprintf("META requests=%d rejected=%d dead_handle=%d tx_own=%d scan_hits=%d blocked=%d scans=%d txops=%d writes=%d nontrivial=%d",
		nReq, nRej, nHandleDead, nTxOwn, nScanHit, nBlocked, kinds["scan"]+kinds["tscan"],
		kinds["tget"]+kinds["tput"]+kinds["tdel"]+kinds["tscan"]+kinds["commit"]+kinds["rollback"],
		kinds["put"]+kinds["del"]+kinds["batch"], nt))
}

// full live content through the embedded iterator
func c19Content(e *engine.EngineFacade) ([]kvPair, error) {
	it, err := e.GetIterator()
	if err != nil {
		return nil, err
	}
	rows := []kvPair{}
	for it.SeekToFirst(); it.Valid(); it.Next() {
		if !it.IsTombstone() {
			rows = append(rows, kvPair{append([]byte{}, it.Key()...), append([]byte{}, it.Value()...)})
		}
	}
	return rows, nil
}

// ---------------------------------------------------------------------------------------
// generator
// ---------------------------------------------------------------------------------------

// keys that are prefixes and suffixes of each other, binary bytes included
var c19Keys = []string{"61", "6162", "616263", "62", "6263", "63", "6162636162", "00", "00ff", "ff", "ff00", "6100", "ff6162", "6200", "ffff", "626162"}
var c19Prefixes = []string{"-", "61", "6162", "616263", "00", "ff", "7a7a", "62", "ffff", "00ff", "61ff", "ff00", "6100"}
var c19Suffixes = []string{"-", "62", "6162", "63", "ff", "00", "6263", "7a"}
var c19Bounds = []string{"-", "61", "6162", "6163", "62", "00", "0000", "ff", "ffff", "6200", "7a", "6263"}

func c19Key(r *rand.Rand, nk int) string { return c19Keys[r.Intn(nk)] }

func c19Value(r *rand.Rand) string {
	switch pick(r, 3, 10, 3, 1) {
	case 0:
		return "-"
	case 1:
		return fmt.Sprintf("%02x%02x", r.Intn(256), r.Intn(256))
	case 2:
		return fmt.Sprintf("@%d:%d", 20+r.Intn(200), r.Intn(1000))
	}
	return fmt.Sprintf("@%d:%d", 30000+r.Intn(50000), r.Intn(1000))
}

func c19Limit(r *rand.Rand) string {
	return []string{"0", "0", "0", "1", "2", "3", "5", "100", "-1", "-7"}[r.Intn(10)]
}

func c19ScanArgs(r *rand.Rand) string {
	p, s, a, e := "-", "-", "-", "-"
	switch pick(r, 2, 3, 3, 2, 5, 2) {
	case 0:
	case 1:
		p = c19Prefixes[r.Intn(len(c19Prefixes))]
	case 2:
		s = c19Suffixes[r.Intn(len(c19Suffixes))]
	case 3:
		p, s = c19Prefixes[r.Intn(len(c19Prefixes))], c19Suffixes[r.Intn(len(c19Suffixes))]
	case 4:
		a, e = c19Bounds[r.Intn(len(c19Bounds))], c19Bounds[r.Intn(len(c19Bounds))]
	case 5: // everything at once: a prefix or suffix makes the range irrelevant
		p, s = c19Prefixes[r.Intn(len(c19Prefixes))], c19Suffixes[r.Intn(len(c19Suffixes))]
		a, e = c19Bounds[r.Intn(len(c19Bounds))], c19Bounds[r.Intn(len(c19Bounds))]
	}
	return fmt.Sprintf("%s %s %s %s %s", p, s, a, e, c19Limit(r))
}

func c19Header(r *rand.Rand, msg string) string {
	mem := []int{300, 700, 4096, 100000000}[r.Intn(4)]
	h := fmt.Sprintf("memsize=%d maxmem=1000 msg=%s", mem, msg)
	switch r.Intn(5) {
	case 0:
		h += fmt.Sprintf(" role=%s paddr=%s pseq=%d pro=%d nrep=%d", mkTok([]byte("primary")), mkTok([]byte("10.0.0.1:50052")), r.Intn(100000), r.Intn(2), r.Intn(4))
	case 1:
		h += fmt.Sprintf(" role=%s paddr=%s pseq=%d pro=1 nrep=0", mkTok([]byte("replica")), mkTok([]byte("primary.example:50052")), r.Intn(1000))
	case 2:
		h += fmt.Sprintf(" role=%s paddr=- pseq=0 pro=%d nrep=%d", mkTok([]byte([]string{"standalone", "Primary", "weird"}[r.Intn(3)])), r.Intn(2), r.Intn(2))
	default:
		h += " role=none"
	}
	return h
}

// a generated program keeps the transaction lock discipline of a sequential client: at most one
// read-write handle, read-only handles only next to each other; calls that need the lock in a
// conflicting mode are issued only where the harness can observe "blocked" without side effects
type c19Gen struct {
	w      *bufio.Writer
	r      *rand.Rand
	nk     int
	begins int
	open   []int // begin indices of live handles
	openRW bool
	dead   []int
	lastK  string // key of the most recent tput / tdel
}

func (g *c19Gen) line(f string, a ...interface{}) { fmt.Fprintf(g.w, f+"\n", a...) }

func (g *c19Gen) handle() string {
	r := g.r
	switch {
	case len(g.open) > 0 && r.Intn(10) < 8:
		return fmt.Sprintf("$%d", g.open[r.Intn(len(g.open))])
	case len(g.dead) > 0 && r.Intn(3) < 2:
		return fmt.Sprintf("$%d", g.dead[r.Intn(len(g.dead))])
	}
	bad := []string{"tx-0", "tx-999", "tx-01", "TX-1", "tx-1 ", "", "1", "tx-", "tx--1", "tx-18446744073709551616", "tx-1\n", "ключ"}
	return "=" + mkTok([]byte(bad[r.Intn(len(bad))]))
}

func (g *c19Gen) txOp() {
	r := g.r
	h := g.handle()
	switch pick(r, 4, 5, 3, 4, 2, 2) {
	case 0:
		k := c19Key(r, g.nk)
		if g.lastK != "" && r.Intn(2) == 0 {
			k = g.lastK
		}
		g.line("tget %s %s", h, k)
	case 1:
		g.lastK = c19Key(r, g.nk)
		g.line("tput %s %s %s", h, g.lastK, c19Value(r))
	case 2:
		g.lastK = c19Key(r, g.nk)
		g.line("tdel %s %s", h, g.lastK)
	case 3:
		g.line("tscan %s %s", h, c19ScanArgs(r))
	case 4, 5:
		what := "commit"
		if r.Intn(3) == 0 {
			what = "rollback"
		}
		g.line("%s %s", what, h)
		if strings.HasPrefix(h, "$") {
			k, _ := strconv.Atoi(h[1:])
			for i, o := range g.open {
				if o == k {
					g.open = append(g.open[:i], g.open[i+1:]...)
					g.dead = append(g.dead, k)
					if len(g.open) == 0 {
						g.openRW = false
					}
					break
				}
			}
		}
	}
}

func (g *c19Gen) begin(ro bool) {
	m := "rw"
	if ro {
		m = "ro"
	}
	g.line("begin %s", m)
	blocked := g.openRW || (!ro && len(g.open) > 0)
	if !blocked {
		g.open = append(g.open, g.begins)
		g.openRW = !ro
	}
	g.begins++
}

func (g *c19Gen) plainOp() {
	r := g.r
	switch pick(r, 5, 8, 3, 4, 6, 1, 1, 2, 2) {
	case 8: // outside the limits
		switch r.Intn(4) {
		case 0:
			g.line("put - %s 0", c19Value(r))
		case 1:
			g.line("get @%d:%d", c19DocMaxKey+1+r.Intn(3), r.Intn(5))
		case 2:
			g.line("del - 1")
		case 3:
			g.line("put @%d:%d 01 0", c19DocMaxKey+1, r.Intn(5))
		}
	case 0:
		g.line("get %s", c19Key(r, g.nk))
	case 1:
		g.line("put %s %s %d", c19Key(r, g.nk), c19Value(r), r.Intn(2))
	case 2:
		g.line("del %s %d", c19Key(r, g.nk), r.Intn(2))
	case 3:
		if len(g.open) > 0 {
			g.line("get %s", c19Key(r, g.nk))
			return
		}
		cnt := r.Intn(6)
		g.line("batch %d %d", cnt, r.Intn(2))
		for j := 0; j < cnt; j++ {
			if r.Intn(4) == 0 {
				g.line("o 1 %s %s", c19Key(r, g.nk), []string{"-", "7878"}[r.Intn(2)])
			} else {
				g.line("o 0 %s %s", c19Key(r, g.nk), c19Value(r))
			}
		}
	case 4:
		if g.openRW && r.Intn(4) > 0 {
			g.line("get %s", c19Key(r, g.nk))
			return
		}
		g.line("scan %s", c19ScanArgs(r))
	case 5:
		if g.openRW {
			return
		}
		g.line("stats")
	case 6:
		g.line("info")
	case 7:
		g.line("flush")
	}
}

func (g *c19Gen) closeAll() {
	for len(g.open) > 0 {
		k := g.open[0]
		g.open = g.open[1:]
		what := "commit"
		if g.r.Intn(3) == 0 {
			what = "rollback"
		}
		g.line("%s $%d", what, k)
		g.dead = append(g.dead, k)
	}
	g.openRW = false
}

// every prefix, every suffix, a prefix with a limit and a sample of ranges over a table that holds
// all keys of the pool (some written twice, some deleted), plain and through a read-only handle
func c19Sweep(w *bufio.Writer, seed int64, r *rand.Rand) {
	g := &c19Gen{w: w, r: r, nk: len(c19Keys)}
	fmt.Fprintf(w, "case sweep%d memsize=%d maxmem=1000 msg=default role=none\n", seed, []int{300, 100000000}[r.Intn(2)])
	for _, k := range c19Keys {
		g.line("put %s %s 0", k, c19Value(r))
	}
	g.line("put 61ff %s 0", c19Value(r))
	g.line("put 61ff00 %s 0", c19Value(r))
	g.line("put 00ffff %s 0", c19Value(r))
	for i := 0; i < 3; i++ {
		g.line("del %s 0", c19Key(r, g.nk))
	}
	g.line("cbegin %d %d", 8+r.Intn(9), 150+r.Intn(100))
	g.begin(true)
	for _, p := range c19Prefixes[1:] {
		g.line("scan %s - - - 0", p)
		g.line("tscan $0 %s - - - 0", p)
		g.line("scan %s - - - %d", p, 1+r.Intn(2))
	}
	for _, x := range c19Suffixes[1:] {
		g.line("scan - %s - - 0", x)
		g.line("tscan $0 - %s - - 0", x)
	}
	for i := 0; i < 12; i++ {
		a, e := c19Bounds[r.Intn(len(c19Bounds))], c19Bounds[r.Intn(len(c19Bounds))]
		g.line("scan - - %s %s %s", a, e, c19Limit(r))
		g.line("tscan $0 - - %s %s %s", a, e, c19Limit(r))
	}
	g.closeAll()
	fmt.Fprintln(w, "end")
}

func genC19(w *bufio.Writer, seed int64, n int, tier string) {
	r := rand.New(rand.NewSource(seed*7919 + 19))
	c19Sweep(w, seed, rand.New(rand.NewSource(seed*31+5)))
	for ci := 0; ci < n; ci++ {
		g := &c19Gen{w: w, r: r, nk: 4 + r.Intn(len(c19Keys)-3)}
		kind := pick(r, 50, 15, 15, 12, 8)
		if ci < 5 {
			kind = ci
		}
		if tier == "thorough" && ci == 8 {
			// the transport boundary itself: a 1-byte key and an n-byte value are n + 8 bytes on the wire;
			// both sizes are over the value limit, only the error class tells which layer refused
			lim := c19ServerRecvOption()
			if lim == 0 {
				lim = c19GrpcDefault
			}
			fmt.Fprintf(w, "case t%d-%d memsize=100000000 maxmem=1000 msg=default role=none\n", seed, ci)
			g.line("put 6b @%d:1 0", lim-8)
			g.line("put 6b @%d:2 0", lim-7)
			g.line("get 6b")
			fmt.Fprintln(w, "end")
			continue
		}
		if tier == "thorough" && ci >= 5 && ci < 8 {
			// values around the 10 MB limit through a transaction and a batch (the model holds a value
			// as a list: a few such cases per run only)
			fmt.Fprintf(w, "case v%d-%d memsize=100000000 maxmem=1000 msg=default role=none\n", seed, ci)
			sz := []int{c19DocMaxVal - 1, c19DocMaxVal, c19DocMaxVal + 1}[ci-5]
			g.begin(false)
			g.line("tput $0 6c @%d:%d", sz, r.Intn(100))
			g.line("tget $0 6c")
			g.line("commit $0")
			g.line("get 6c")
			g.line("batch 2 0")
			g.line("o 0 6d 01")
			g.line("o 0 6e @%d:%d", sz, r.Intn(100))
			g.line("scan - - - - 0")
			fmt.Fprintln(w, "end")
			continue
		}
		switch kind {
		case 0: // general program with interleaved handles
			fmt.Fprintf(w, "case g%d-%d %s\n", seed, ci, c19Header(r, "default"))
			nops := 15 + r.Intn(40)
			for i := 0; i < nops; i++ {
				switch {
				case len(g.open) == 0 && r.Intn(5) == 0:
					g.begin(r.Intn(3) == 0)
				case len(g.open) > 0 && !g.openRW && r.Intn(6) == 0:
					g.begin(true) // a second read-only client
				case len(g.open) > 0 && r.Intn(2) == 0:
					g.txOp()
				case len(g.dead) > 0 && r.Intn(12) == 0:
					g.txOp()
				default:
					g.plainOp()
				}
			}
			if r.Intn(4) > 0 {
				g.closeAll()
			}
		case 1: // scan matrix over one data set
			fmt.Fprintf(w, "case s%d-%d %s\n", seed, ci, c19Header(r, "default"))
			for i := 0; i < 6+r.Intn(14); i++ {
				switch r.Intn(8) {
				case 0:
					g.line("del %s 0", c19Key(r, g.nk))
				case 1:
					g.line("flush")
				default:
					g.line("put %s %s 0", c19Key(r, g.nk), c19Value(r))
				}
			}
			inTx := r.Intn(2) == 0
			if inTx {
				g.begin(false)
				for i := 0; i < 2+r.Intn(5); i++ {
					if r.Intn(3) == 0 {
						g.line("tdel $0 %s", c19Key(r, g.nk))
					} else {
						g.line("tput $0 %s %s", c19Key(r, g.nk), c19Value(r))
					}
				}
			}
			for i := 0; i < 12+r.Intn(14); i++ {
				if inTx {
					g.line("tscan $0 %s", c19ScanArgs(r))
				} else {
					g.line("scan %s", c19ScanArgs(r))
				}
			}
			g.closeAll()
		case 2: // boundary sizes
			fmt.Fprintf(w, "case b%d-%d %s\n", seed, ci, c19Header(r, "default"))
			ksz := []int{0, 1, 2, c19DocMaxKey - 1, c19DocMaxKey, c19DocMaxKey + 1, 2 * c19DocMaxKey}
			bigKey := func() string {
				s := ksz[r.Intn(len(ksz))]
				if s == 0 {
					return "-"
				}
				return fmt.Sprintf("@%d:%d", s, r.Intn(3))
			}
			g.begin(false)
			for i := 0; i < 10+r.Intn(10); i++ {
				switch r.Intn(7) {
				case 0:
					g.line("put %s %s 0", bigKey(), c19Value(r))
				case 1:
					g.line("get %s", bigKey())
				case 2:
					g.line("del %s 1", bigKey())
				case 3:
					g.line("tput $0 %s %s", bigKey(), c19Value(r))
				case 4:
					g.line("tget $0 %s", bigKey())
				case 5:
					g.line("tdel $0 %s", bigKey())
				case 6:
					g.line("tscan $0 - - - - 0")
				}
			}
			g.closeAll()
			// batches: 0 / 1 / limit / limit+1 operations, a bad operation late in an otherwise good batch
			cnt := []int{0, 1, c19DocMaxBatch, c19DocMaxBatch + 1, 7}[r.Intn(5)]
			badAt := -1
			if cnt > 1 && r.Intn(2) == 0 {
				badAt = cnt - 1 - r.Intn(2)
			}
			g.line("batch %d 0", cnt)
			for j := 0; j < cnt; j++ {
				k := fmt.Sprintf("6b%04x", j)
				switch {
				case j == badAt && r.Intn(3) == 0:
					g.line("o 0 %s 01", fmt.Sprintf("@%d:1", c19DocMaxKey+1))
				case j == badAt && r.Intn(2) == 0:
					g.line("o 0 - 01")
				case j == badAt:
					g.line("o %d %s 01", 2+r.Intn(5), k)
				default:
					g.line("o %d %s %02x", j%5/4, k, j%251)
				}
			}
			g.line("scan 6b - - - 3")
			g.line("stats")
		case 3: // handles: unknown, stale, malformed, double commit, write on read-only
			fmt.Fprintf(w, "case h%d-%d %s\n", seed, ci, c19Header(r, "default"))
			g.line("put %s %s 0", c19Key(r, g.nk), c19Value(r))
			g.line("put %s %s 0", c19Key(r, g.nk), c19Value(r))
			for round := 0; round < 2+r.Intn(3); round++ {
				ro := r.Intn(3) == 0
				g.begin(ro)
				if ro && r.Intn(2) == 0 {
					g.begin(true)
				}
				for i := 0; i < 3+r.Intn(8); i++ {
					if r.Intn(5) == 0 {
						g.plainOp()
					} else {
						g.txOp()
					}
				}
				last := g.begins - 1
				g.closeAll()
				// the handle is dead now: every kind of request on it
				g.line("tget $%d %s", last, c19Key(r, g.nk))
				g.line("tput $%d %s 01", last, c19Key(r, g.nk))
				g.line("tdel $%d %s", last, c19Key(r, g.nk))
				g.line("tscan $%d - - - - 0", last)
				g.line("commit $%d", last)
				g.line("rollback $%d", last)
			}
			g.line("scan - - - - 0")
		case 4: // calls that wait for the transaction lock
			fmt.Fprintf(w, "case k%d-%d %s\n", seed, ci, c19Header(r, "default"))
			g.line("put %s %s 0", c19Key(r, g.nk), c19Value(r))
			g.begin(false)
			g.line("tput $0 %s %s", c19Key(r, g.nk), c19Value(r))
			switch r.Intn(4) {
			case 0:
				g.line("scan - - - - 0")
			case 1:
				g.begin(true)
			case 2:
				g.begin(false)
			case 3:
				g.line("stats")
			}
			g.line("put %s %s 0", c19Key(r, g.nk), c19Value(r)) // plain writes do not take the lock
			g.line("get %s", c19Key(r, g.nk))
			g.line("tscan $0 - - - - 0")
			g.line("commit $0")
			g.line("scan - - - - 0")
			g.begin(true)
			g.line("tscan $%d - - - - 2", g.begins-1)
			g.closeAll()
		}
		fmt.Fprintln(w, "end")
	}
}
