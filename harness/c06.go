package main

// C06 (concurrent gets, puts and deletes are linearizable): N client goroutines run their
// programs against ONE engine with a tiny memtable (the background flush goroutine is NOT
// parked: log rotation every few writes), while flusher goroutines call FlushImMemTables and
// compactor goroutines call TriggerCompaction; verifhook.SetYield perturbs the schedule at
// every hook site. Every call is bracketed by two tickets of one global atomic counter, so
// "a returned before b was called" in the recorded history implies real-time precedence.
//
// Header: threads=<n> memsize=<bytes> yield=<seed> flushers=<n> compactors=<n>
//         stall=none | flip:<ms> | every:<n>:<ms>   sync=immediate|none|batch   reopen=0|1
//   stall=flip:<ms>    directed schedule: when a rotation marks the log as rotating while a
//                      writer sits between Append's two status checks, the rotating goroutine is
//                      delayed by <ms> (a legal schedule: the OS may preempt it there);
//   stall=every:n:ms   every n-th rotation is delayed by <ms> right after marking the log
//                      (writers run out of attempts: ErrWALRotating);
//   stall=window:ms:n  the first n rotations are delayed by <ms> at rotate.new_wal (new log file created and the
//                      sequence counter handed over, pointer not yet swapped) and by <ms>/4 at rotate.swapped,
//                      while clients keep writing the same few keys into ONE memtable (large memsize, rotation
//                      comes from the FlushImMemTables goroutines). On the correct code the old log is already
//                      marked: those writes fail with ErrWALRotating. If they were still stamped by the old log
//                      the new log would re-issue their numbers and a later write would lose against an earlier one;
//   stall=closed       a writer that has loaded the log pointer (site mgr.*.wal_loaded) and sees a
//                      rotation start waits until that rotation has closed the old log: its Append
//                      meets a closed log (ErrWALClosed, not retried).
// Lines: t <tid> put <key> <val> | t <tid> del <key> | t <tid> get <key>   (per thread in order)
//        g <directive> ...   gate script run by one extra goroutine (see runGate)
// Output: H <tid> <kind> <key> <val|-> <result> <call> <ret>   (the history; read by the
//         model runner, the extracted lin_check), ORACLE, META.
// After the clients are done one goroutine (tid 0) reads every key; with reopen=1 the engine
// is closed and reopened and every key is read again: the state a restart recovers is part of
// the history.

import (
	"bufio"
	"fmt"
	"github.com/KevoDB/kevo/pkg/wal"
	"math/rand"
	"os"
	"sort"
	"strconv"
	"strings"
	"sync"
	"sync/atomic"
	"time"

	"github.com/KevoDB/kevo/pkg/config"
	"github.com/KevoDB/kevo/pkg/engine"
	"github.com/KevoDB/kevo/pkg/verifhook"
)

func init() {
	register("C06", &Prop{Gen: genC06, Run: runC06})
}

const c06Watchdog = 30 * time.Second

type hop struct {
	tid       int
	kind      string // put del get
	key, val  string // raw bytes
	res       string // ok fail pending notfound val
	rval      string
	errText   string
	call, ret uint64
}

func (o *hop) line() string {
	arg := "-"
	if o.kind == "put" {
		arg = mkTok([]byte(o.val))
	}
	res := o.res
	if o.res == "val" {
		res = "v:" + mkTok([]byte(o.rval))
	}
	return fmt.Sprintf("H %d %s %s %s %s %d %d", o.tid, o.kind, mkTok([]byte(o.key)), arg, res, o.call, o.ret)
}

type c06Run struct {
	e       *engine.EngineFacade
	ticket  atomic.Uint64
	mu      sync.Mutex // protects hist slices only at collection time
	hist    map[int][]*hop
	started sync.Map // goroutine name -> time.Time of the call in flight
	hung    atomic.Bool
	hungMsg atomic.Value
}

// call runs one engine call under the watchdog's eye.
func (r *c06Run) watch(name string, f func()) {
	r.started.Store(name, time.Now())
	f()
	r.started.Delete(name)
}

func (r *c06Run) doOp(tid int, l []string, rec *[]*hop) {
	o := &hop{tid: tid, kind: l[0], key: string(tok(l[1])), res: "pending"}
	if o.kind == "put" {
		o.val = string(tok(l[2]))
	}
	*rec = append(*rec, o)
	name := fmt.Sprintf("client-%d", tid)
	o.call = r.ticket.Add(1)
	r.started.Store(name, time.Now())
	var v []byte
	var err error
	switch o.kind {
	case "put":
		err = r.e.Put([]byte(o.key), []byte(o.val))
	case "del":
		err = r.e.Delete([]byte(o.key))
	case "get":
		v, err = r.e.Get([]byte(o.key))
	}
	r.started.Delete(name)
	ret := r.ticket.Add(1)
	if r.hung.Load() {
		return // the history was already collected with this call pending
	}
	switch {
	case err == nil && o.kind == "get":
		o.rval = string(v)
		o.res = "val"
	case err == nil:
		o.res = "ok"
	case o.kind == "get" && strings.Contains(err.Error(), "not found"):
		o.res = "notfound"
	default:
		o.res = "fail"
		o.errText = err.Error()
	}
	o.ret = ret
}

type stallCfg struct {
	mode   string // none flip every closed window
	marked atomic.Int64
	closed atomic.Int64
	n      int
	ms     int
	count  atomic.Int64
	inWin  atomic.Int64
	fired  atomic.Int64
}

func parseStall(s string) *stallCfg {
	p := strings.Split(s, ":")
	sc := &stallCfg{mode: p[0]}
	switch p[0] {
	case "flip":
		sc.ms, _ = strconv.Atoi(p[1])
	case "every":
		sc.n, _ = strconv.Atoi(p[1])
		sc.ms, _ = strconv.Atoi(p[2])
	case "window":
		sc.ms, _ = strconv.Atoi(p[1])
		sc.n, _ = strconv.Atoi(p[2])
	case "closed":
	default:
		sc.mode = "none"
	}
	return sc
}

func (sc *stallCfg) install() {
	if sc.mode == "none" {
		return
	}
	verifhook.OnHit(func(site string, n int) {
		switch site {
		case "wal.append.buffered":
			if sc.mode == "flip" {
				// the writer is between the status check at the top of Append and the one in
				// syncLocked: stay here a moment so that a rotation about to start can mark the log
				sc.inWin.Add(1)
				time.Sleep(150 * time.Microsecond)
				sc.inWin.Add(-1)
			}
		case "mgr.put.wal_loaded", "mgr.delete.wal_loaded":
			if sc.mode == "closed" {
				m0, c0 := sc.marked.Load(), sc.closed.Load()
				t0 := time.Now()
				for time.Since(t0) < 150*time.Microsecond && sc.marked.Load() == m0 {
					time.Sleep(10 * time.Microsecond)
				}
				if sc.marked.Load() != m0 {
					// a rotation of the log we hold has begun: let it run to the end
					for time.Since(t0) < 100*time.Millisecond && sc.closed.Load() == c0 {
						time.Sleep(20 * time.Microsecond)
					}
					if sc.closed.Load() != c0 {
						sc.fired.Add(1)
					}
				}
			}
		case "rotate.new_wal":
			if sc.mode == "window" && sc.count.Add(1) <= int64(sc.n) {
				sc.fired.Add(1)
				time.Sleep(time.Duration(sc.ms) * time.Millisecond)
			}
		case "rotate.swapped":
			if sc.mode == "window" && sc.count.Load() <= int64(sc.n) {
				time.Sleep(time.Duration(sc.ms) * time.Millisecond / 4)
			}
		case "rotate.closed":
			sc.closed.Add(1)
		case "rotate.marked":
			sc.marked.Add(1)
			if sc.mode == "flip" && sc.inWin.Load() > 0 {
				sc.fired.Add(1)
				time.Sleep(time.Duration(sc.ms) * time.Millisecond)
			}
			if sc.mode == "every" && sc.count.Add(1)%int64(sc.n) == 0 {
				sc.fired.Add(1)
				time.Sleep(time.Duration(sc.ms) * time.Millisecond)
			}
		}
	})
}

func runC06(c *Case, out func(string)) {
	dir := tmpDir("c06-")
	defer os.RemoveAll(dir)
	memsize, _ := strconv.ParseInt(hdrVal(c.Hdr, "memsize", "160"), 10, 64)
	yield, _ := strconv.ParseUint(hdrVal(c.Hdr, "yield", "0"), 10, 64)
	nflush, _ := strconv.Atoi(hdrVal(c.Hdr, "flushers", "1"))
	ncompact, _ := strconv.Atoi(hdrVal(c.Hdr, "compactors", "0"))
	reopen := hdrVal(c.Hdr, "reopen", "0") == "1"
	syncMode := hdrVal(c.Hdr, "sync", "immediate")
	stall := parseStall(hdrVal(c.Hdr, "stall", "none"))
	if err := writeManifest(dir, memsize, 65536, func(cfg *config.Config) {
		switch syncMode {
		case "none":
			cfg.WALSyncMode = config.SyncNone
		case "batch":
			cfg.WALSyncMode = config.SyncBatch
			cfg.WALSyncBytes = 256
		}
	}); err != nil {
		out("IMPL-ERROR manifest " + err.Error())
		return
	}
	verifhook.Reset()
	e, err := openEngine(dir)
	if err != nil {
		out("IMPL-ERROR open " + err.Error())
		return
	}
	run := &c06Run{e: e, hist: map[int][]*hop{}}
	// an observer of the log's sync notifications, as the replication primary is one (it stores every
	// value it is told as "last synced sequence", what node information and the protocol report):
	// the values are handed out under the log's mutex and must never go back, across rotations too
	// (the observers are handed over to the new log)
	sobs := &c06SyncObs{}
	if w := e.VerifStorage().VerifWAL(); w != nil {
		w.RegisterObserver("verif-c06-sync", sobs)
	}

	// programs
	progs := map[int][][]string{}
	var gate [][]string
	var tids []int
	keys := map[string]bool{}
	for _, l := range c.Lines {
		switch l[0] {
		case "t":
			tid, _ := strconv.Atoi(l[1])
			if _, ok := progs[tid]; !ok {
				tids = append(tids, tid)
			}
			progs[tid] = append(progs[tid], l[2:])
			keys[string(tok(l[3]))] = true
		case "g":
			gate = append(gate, l[1:])
		}
	}
	sort.Ints(tids)
	var keyList []string
	for k := range keys {
		keyList = append(keyList, k)
	}
	sort.Strings(keyList)

	stall.install()
	verifhook.SetYield(yield)

	// watchdog
	stopWatch := make(chan struct{})
	watchDone := make(chan struct{})
	go func() {
		defer close(watchDone)
		tk := time.NewTicker(100 * time.Millisecond)
		defer tk.Stop()
		for {
			select {
			case <-stopWatch:
				return
			case <-tk.C:
				now := time.Now()
				run.started.Range(func(k, v any) bool {
					if now.Sub(v.(time.Time)) > c06Watchdog {
						run.hungMsg.Store(fmt.Sprintf("%v did not return within %v", k, c06Watchdog))
						run.hung.Store(true)
						return false
					}
					return true
				})
				if run.hung.Load() {
					return
				}
			}
		}
	}()

	recs := map[int]*[]*hop{}
	for _, tid := range tids {
		recs[tid] = &[]*hop{}
	}
	recs[0] = &[]*hop{}
	startGate := map[int]chan struct{}{}
	manual := hdrVal(c.Hdr, "manual", "0") == "1"
	doneCh := map[int]chan struct{}{}
	for _, tid := range tids {
		startGate[tid] = make(chan struct{})
		doneCh[tid] = make(chan struct{})
		if !manual {
			close(startGate[tid])
		}
	}
	var clients sync.WaitGroup
	for _, tid := range tids {
		clients.Add(1)
		go func(tid int) {
			defer clients.Done()
			defer close(doneCh[tid])
			<-startGate[tid]
			for _, l := range progs[tid] {
				if run.hung.Load() {
					return
				}
				run.doOp(tid, l, recs[tid])
			}
		}(tid)
	}
	stopBg := make(chan struct{})
	var bgs sync.WaitGroup
	var flushCalls, flushErrs, compactCalls, compactErrs atomic.Int64
	for i := 0; i < nflush; i++ {
		bgs.Add(1)
		go func(i int) {
			defer bgs.Done()
			rr := rand.New(rand.NewSource(int64(yield)*31 + int64(i)))
			for {
				select {
				case <-stopBg:
					return
				default:
				}
				run.watch(fmt.Sprintf("flusher-%d", i), func() {
					if e.FlushImMemTables() != nil {
						flushErrs.Add(1)
					}
				})
				flushCalls.Add(1)
				time.Sleep(time.Duration(rr.Intn(1500)) * time.Microsecond)
			}
		}(i)
	}
	for i := 0; i < ncompact; i++ {
		bgs.Add(1)
		go func(i int) {
			defer bgs.Done()
			rr := rand.New(rand.NewSource(int64(yield)*37 + int64(i)))
			for {
				select {
				case <-stopBg:
					return
				default:
				}
				run.watch(fmt.Sprintf("compactor-%d", i), func() {
					if e.TriggerCompaction() != nil {
						compactErrs.Add(1)
					}
				})
				compactCalls.Add(1)
				time.Sleep(time.Duration(2000+rr.Intn(4000)) * time.Microsecond)
			}
		}(i)
	}
	gateFail := ""
	if len(gate) > 0 {
		gateFail = run.runGate(gate, startGate, doneCh)
	}
	// wait for the clients (or the watchdog)
	allDone := make(chan struct{})
	go func() { clients.Wait(); close(allDone) }()
	select {
	case <-allDone:
	case <-watchDone:
	}
	close(stopBg)
	if !run.hung.Load() {
		bgDone := make(chan struct{})
		go func() { bgs.Wait(); close(bgDone) }()
		select {
		case <-bgDone:
		case <-watchDone:
		}
	}
	rotations := verifhook.Hits("rotate.swapped")
	published := verifhook.Hits("flush.published")
	switches := verifhook.Hits("mgr.schedule_flush")
	verifhook.SetYield(0)
	verifhook.OnHit(nil)

	// final reads by thread 0, then (reopen=1) close, reopen, read again
	reopened := false
	if !run.hung.Load() {
		for _, k := range keyList {
			run.doOp(0, []string{"get", mkTok([]byte(k))}, recs[0])
		}
		if reopen {
			run.watch("close", func() { e.Close() })
			if !run.hung.Load() {
				var e2 *engine.EngineFacade
				var oerr error
				run.watch("reopen", func() { e2, oerr = openEngine(dir) })
				if oerr != nil {
					out("IMPL-ERROR reopen " + strings.ReplaceAll(oerr.Error(), " ", "_"))
				} else if !run.hung.Load() {
					reopened = true
					run.e = e2
					e = e2
					for _, k := range keyList {
						run.doOp(0, []string{"get", mkTok([]byte(k))}, recs[0])
					}
				}
			}
		}
	}
	if !run.hung.Load() {
		close(stopWatch)
		<-watchDone
		run.watch("close", func() { e.Close() })
	}
	verifhook.Reset()

	// collect the history
	var all []*hop
	for _, tid := range append([]int{0}, tids...) {
		for _, o := range *recs[tid] {
			cp := *o
			if cp.ret == 0 {
				cp.res = "pending"
			}
			all = append(all, &cp)
		}
	}
	sort.SliceStable(all, func(i, j int) bool { return all[i].call < all[j].call })
	for _, o := range all {
		out(o.line())
	}
	// oracle
	verdict := c06Oracle(all)
	switch {
	case run.hung.Load():
		out("ORACLE FAIL hang: " + run.hungMsg.Load().(string))
	case gateFail != "":
		out("ORACLE FAIL gate script: " + gateFail)
	case verdict != "":
		out("ORACLE FAIL " + verdict)
	case sobs.bad() != "":
		out("ORACLE FAIL " + sobs.bad())
	default:
		out("ORACLE ok")
	}
	// distribution
	nfail, npend, overlaps, crossReads := 0, 0, 0, 0
	failRotating, failClosed, failOther := 0, 0, 0
	firstErr := ""
	writer := map[string]int{}
	for _, o := range all {
		if o.kind == "put" {
			writer[o.key+"\x00"+o.val] = o.tid
		}
		if o.res == "fail" {
			nfail++
			switch {
			case strings.Contains(o.errText, "WAL is rotating"):
				failRotating++
			case strings.Contains(o.errText, "WAL is closed"):
				failClosed++
			default:
				failOther++
				if firstErr == "" {
					firstErr = o.errText
				}
			}
		}
		if o.res == "pending" {
			npend++
		}
	}
	for i, a := range all {
		if a.res == "val" {
			if w, ok := writer[a.key+"\x00"+a.rval]; ok && w != a.tid {
				crossReads++
			}
		}
		for j := i + 1; j < len(all) && all[j].call < a.ret; j++ {
			if all[j].key == a.key && all[j].tid != a.tid {
				overlaps++
			}
		}
	}
	nontrivial := 0
	if len(tids) >= 2 && overlaps >= 3 && rotations >= 1 && crossReads >= 1 {
		nontrivial = 1
	}
	if firstErr != "" {
		out("NOTE unexpected_error " + strings.ReplaceAll(firstErr, " ", "_"))
	}
	out(fmt.Sprintf("META ops=%d threads=%d keys=%d overlaps=%d cross_reads=%d rotations=%d switches=%d published=%d "+
		"flush_calls=%d flush_errs=%d compact_calls=%d compact_errs=%d write_fail=%d fail_rotating=%d fail_closed=%d fail_other=%d pending=%d stalls=%d reopened=%v sync=%s stall=%s nontrivial=%d",
		len(all), len(tids), len(keyList), overlaps, crossReads, rotations, switches, published,
		flushCalls.Load(), flushErrs.Load(), compactCalls.Load(), compactErrs.Load(), nfail, failRotating, failClosed, failOther, npend,
		stall.fired.Load(), reopened, syncMode, stall.mode, nontrivial))
}

// runGate executes the gate script of hand-written cases:
//
//	hold <site> | release <site> | waitsite <site> <n> | start <tid> | waitdone <tid> |
//	flush (asynchronous FlushImMemTables) | sleep <ms>
func (r *c06Run) runGate(script [][]string, start map[int]chan struct{}, done map[int]chan struct{}) string {
	for _, l := range script {
		switch l[0] {
		case "hold":
			verifhook.Hold(l[1])
		case "release":
			verifhook.Release(l[1])
		case "waitsite":
			n, _ := strconv.Atoi(l[2])
			dl := time.Now().Add(10 * time.Second)
			for verifhook.Waiting(l[1]) < n {
				if time.Now().After(dl) {
					return "nobody reached " + l[1]
				}
				time.Sleep(200 * time.Microsecond)
			}
		case "start":
			tid, _ := strconv.Atoi(l[1])
			close(start[tid])
		case "waitdone":
			tid, _ := strconv.Atoi(l[1])
			select {
			case <-done[tid]:
			case <-time.After(c06Watchdog):
				return "thread " + l[1] + " did not finish"
			}
		case "flush":
			go r.watch("gate-flush", func() { r.e.FlushImMemTables() })
		case "sleep":
			ms, _ := strconv.Atoi(l[1])
			time.Sleep(time.Duration(ms) * time.Millisecond)
		}
	}
	return ""
}

// ---------- the oracle: per-key linearizability of a register, written from the property ----------

// c06Oracle returns "" when every key's sub-history has a linearization, else a description.
func c06Oracle(all []*hop) string {
	byKey := map[string][]*hop{}
	var keys []string
	for _, o := range all {
		if _, ok := byKey[o.key]; !ok {
			keys = append(keys, o.key)
		}
		byKey[o.key] = append(byKey[o.key], o)
	}
	sort.Strings(keys)
	for _, k := range keys {
		ops := byKey[k]
		if why := c06Simple(ops); why != "" {
			return "key " + render([]byte(k)) + ": " + why
		}
		switch c06Search(ops) {
		case 1:
			return "key " + render([]byte(k)) + ": " + "no total order of its " + strconv.Itoa(len(ops)) + " operations is consistent with real time and the results"
		case 2:
			return "key " + render([]byte(k)) + ": search budget exhausted, undecided"
		}
	}
	return ""
}

func descr(o *hop) string {
	s := fmt.Sprintf("%s by thread %d [%d,%d]", o.kind, o.tid, o.call, o.ret)
	if o.kind == "put" {
		s += " of " + render([]byte(o.val))
	}
	return s
}

// c06Simple: necessary conditions with a readable diagnosis (each is implied by the search).
func c06Simple(ops []*hop) string {
	puts := map[string]*hop{}
	for _, o := range ops {
		if o.kind == "put" {
			if _, dup := puts[o.val]; dup {
				return "" // values not unique: leave it to the search
			}
			puts[o.val] = o
		}
	}
	effective := func(w *hop) bool { return w.res == "ok" }
	for _, g := range ops {
		if g.kind != "get" || (g.res != "val" && g.res != "notfound") {
			continue
		}
		if g.res == "val" {
			w, ok := puts[g.rval]
			if !ok {
				return fmt.Sprintf("%s returned %s, a value nobody wrote", descr(g), render([]byte(g.rval)))
			}
			if w.res == "fail" {
				return fmt.Sprintf("%s returned the value of %s, which reported an error (%s): a failed write took effect", descr(g), descr(w), w.errText)
			}
			if w.call > g.ret {
				return fmt.Sprintf("%s returned the value of %s, which was called later", descr(g), descr(w))
			}
			for _, x := range ops {
				if x != w && x.kind != "get" && effective(x) && w.res != "pending" && w.ret < x.call && x.ret < g.call {
					return fmt.Sprintf("stale read: %s returned the value of %s although %s came entirely between them", descr(g), descr(w), descr(x))
				}
			}
		} else {
			for _, w := range ops {
				if w.kind != "put" || !effective(w) || w.ret >= g.call {
					continue
				}
				covered := false
				for _, d := range ops {
					if d.kind == "del" && d.res != "fail" && (d.res == "pending" || d.ret > w.call) && d.call < g.ret {
						covered = true
					}
				}
				if !covered {
					return fmt.Sprintf("lost write: %s found nothing although %s had returned and no delete can follow it", descr(g), descr(w))
				}
			}
		}
	}
	return ""
}

// c06Search: 0 linearizable, 1 not, 2 undecided. Depth-first over the choice of the next
// operation (Wing & Gong), memoising (set of placed operations, register content).
func c06Search(ops []*hop) int {
	n := len(ops)
	placed := make([]bool, n)
	words := (n + 63) / 64
	bits := make([]uint64, words)
	seen := map[string]bool{}
	budget := 4000000
	uniqueVals := true
	vals := map[string]bool{}
	for _, o := range ops {
		if o.kind == "put" {
			if vals[o.val] {
				uniqueVals = false
			}
			vals[o.val] = true
		}
	}
	keyOf := func(state int) string {
		var sb strings.Builder
		for _, w := range bits {
			sb.WriteString(strconv.FormatUint(w, 36))
			sb.WriteByte('.')
		}
		sb.WriteString(strconv.Itoa(state))
		return sb.String()
	}
	var rec func(state int) int // state: -1 absent, else index of the put whose value is current
	rec = func(state int) int {
		remainingComplete := false
		minRet := ^uint64(0)
		for i, o := range ops {
			if !placed[i] && o.res != "pending" {
				remainingComplete = true
				if o.ret < minRet {
					minRet = o.ret
				}
			}
		}
		if !remainingComplete {
			return 0
		}
		budget--
		if budget <= 0 {
			return 2
		}
		k := keyOf(state)
		if seen[k] {
			return 1
		}
		for i, o := range ops {
			if placed[i] || o.call >= minRet {
				continue
			}
			next, okHere, noop := state, true, false
			switch {
			case o.kind == "get" && o.res == "pending":
				continue
			case o.kind == "get" && o.res == "val":
				okHere = state >= 0 && ops[state].val == o.rval
				noop = true
			case o.kind == "get" && o.res == "notfound":
				okHere = state == -1
				noop = true
			case o.res == "fail":
				noop = true
			case o.kind == "put":
				next = i
			case o.kind == "del":
				next = -1
			}
			if !okHere {
				continue
			}
			if !noop {
				// put values are unique: once the current value is overwritten it never comes back,
				// so a completed get of it that is still unplaced rules this write out now; and
				// nothing but a delete makes the key absent again
				blocked := false
				if state >= 0 {
					for j, g := range ops {
						if !placed[j] && g.kind == "get" && g.res == "val" && g.rval == ops[state].val {
							blocked = true
							break
						}
					}
				} else if o.kind == "put" {
					needAbsent, delLeft := false, false
					for j, g := range ops {
						if placed[j] {
							continue
						}
						if g.kind == "get" && g.res == "notfound" {
							needAbsent = true
						}
						if g.kind == "del" && g.res != "fail" {
							delLeft = true
						}
					}
					blocked = needAbsent && !delLeft
				}
				if blocked && uniqueVals {
					continue
				}
			}
			placed[i] = true
			bits[i/64] |= 1 << (i % 64)
			r := rec(next)
			placed[i] = false
			bits[i/64] &^= 1 << (i % 64)
			if r == 0 || r == 2 {
				return r
			}
			if noop {
				break // placing a matching no-op first never hurts: no alternative behind it
			}
		}
		seen[k] = true
		return 1
	}
	return rec(-1)
}

// ---------- generator ----------

func genC06(w *bufio.Writer, seed int64, n int, tier string) {
	r := rand.New(rand.NewSource(seed*7919 + 6))
	for ci := 0; ci < n; ci++ {
		threads := 4 + r.Intn(13)
		nkeys := 1 + r.Intn(4)
		nops := 140 + r.Intn(120)
		if tier == "thorough" && ci%40 == 0 {
			nops = 1500 + r.Intn(1500)
		}
		memsize := []int{64, 96, 160, 256, 512}[r.Intn(5)]
		stall := "none"
		flushers := r.Intn(3)
		switch pick(r, 5, 2, 2, 3, 3) {
		case 4:
			// writes into one memtable across delayed rotations
			stall = fmt.Sprintf("window:%d:%d", 30+r.Intn(31), 3+r.Intn(4))
			memsize = []int{4096, 16384}[r.Intn(2)]
			flushers = 1 + r.Intn(2)
			if nkeys > 3 {
				nkeys = 3
			}
		case 1:
			stall = fmt.Sprintf("flip:%d", 40+r.Intn(15))
		case 2:
			stall = fmt.Sprintf("every:%d:%d", 3+r.Intn(6), 33+r.Intn(10))
		case 3:
			stall = "closed"
		}
		syncMode := []string{"immediate", "immediate", "immediate", "batch", "none"}[r.Intn(5)]
		reopen := 0
		if r.Intn(3) == 0 || strings.HasPrefix(stall, "flip") {
			reopen = 1
		}
		// one-shot keys: written once and never again, so that what a restart recovers for
		// them shows whether exactly that write reached the log
		oneShot := 0
		if reopen == 1 {
			oneShot = 25
		}
		fmt.Fprintf(w, "case c06-%d-%d threads=%d memsize=%d yield=%d flushers=%d compactors=%d stall=%s sync=%s reopen=%d\n",
			seed, ci, threads, memsize, 1+r.Int63n(1<<40), flushers, r.Intn(2), stall, syncMode, reopen)
		ctr := make([]int, threads+1)
		// a thread either mixes everything or is mostly a reader / mostly a writer
		style := make([]int, threads+1)
		for t := 1; t <= threads; t++ {
			style[t] = pick(r, 3, 1, 1)
		}
		for i := 0; i < nops; i++ {
			t := 1 + r.Intn(threads)
			k := mkTok(genKey(r, nkeys))
			var wPut, wDel, wGet int
			switch style[t] {
			case 0:
				wPut, wDel, wGet = 5, 2, 5
			case 1:
				wPut, wDel, wGet = 1, 1, 10
			default:
				wPut, wDel, wGet = 8, 3, 1
			}
			switch pick(r, wPut, wDel, wGet) {
			case 0:
				ctr[t]++
				if r.Intn(100) < oneShot {
					k = mkTok([]byte(fmt.Sprintf("u%d.%d", t, ctr[t])))
				}
				fmt.Fprintf(w, "t %d put %s %s\n", t, k, mkTok([]byte(fmt.Sprintf("w%d.%d", t, ctr[t]))))
			case 1:
				fmt.Fprintf(w, "t %d del %s\n", t, k)
			default:
				fmt.Fprintf(w, "t %d get %s\n", t, k)
			}
		}
		fmt.Fprintf(w, "end\n")
	}
}

// c06SyncObs: records the sequence numbers the log reports as synced
type c06SyncObs struct {
	mu   sync.Mutex
	last uint64
	n    int
	viol string
}

func (o *c06SyncObs) OnWALEntryWritten(*wal.Entry)           {}
func (o *c06SyncObs) OnWALBatchWritten(uint64, []*wal.Entry) {}
func (o *c06SyncObs) OnWALSync(upTo uint64) {
	o.mu.Lock()
	o.n++
	if upTo < o.last && o.viol == "" {
		o.viol = fmt.Sprintf("the log reported sequence number %d as synced after it had reported %d (notification #%d): the last synced sequence an observer (the replication primary) publishes went back", upTo, o.last, o.n)
	}
	if upTo > o.last {
		o.last = upTo
	}
	o.mu.Unlock()
}
func (o *c06SyncObs) bad() string { o.mu.Lock(); defer o.mu.Unlock(); return o.viol }
