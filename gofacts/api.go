// api.go — generator of coq/gen/Api.v (property C16, also used by C19): one row per exported
// method of *engine.EngineFacade and per exported method of the KevoService server
// implementation (pkg/grpc/service), saying whether the body reaches a storage mutation,
// whether the replica read-only guard dominates it, and which engine methods the service
// reaches. Syntactic analysis (go/parser only) over the declared field types; the
// approximations are listed in the header of the generated file.
package main

import (
	"fmt"
	"go/ast"
	"go/parser"
	"go/token"
	"os"
	"path/filepath"
	"sort"
	"strings"
)

func init() { extraGenerators = append(extraGenerators, genApi) }

type apiRow struct {
	api, name                                                   string
	iface, writes, beginsRW, guarded, internal, leaks, setsFlag bool
	engineCalls                                                 []string
}

func parsePkg(rel string) []*ast.File {
	dir := filepath.Join(repo, rel)
	ents, _ := os.ReadDir(dir)
	var files []*ast.File
	for _, e := range ents {
		n := e.Name()
		if e.IsDir() || !strings.HasSuffix(n, ".go") || strings.HasSuffix(n, "_test.go") || strings.HasSuffix(n, "_verif.go") {
			continue
		}
		f, err := parser.ParseFile(fset, filepath.Join(dir, n), nil, 0)
		if err == nil {
			files = append(files, f)
		}
	}
	return files
}

func exprStr(e ast.Expr) string {
	switch x := e.(type) {
	case *ast.Ident:
		return x.Name
	case *ast.SelectorExpr:
		return exprStr(x.X) + "." + x.Sel.Name
	case *ast.StarExpr:
		return "*" + exprStr(x.X)
	case *ast.ArrayType:
		return "[]" + exprStr(x.Elt)
	case *ast.ParenExpr:
		return exprStr(x.X)
	}
	return "?"
}

// structFields: field name -> type expression text, of the named struct
func structFields(files []*ast.File, typ string) map[string]string {
	m := map[string]string{}
	for _, f := range files {
		ast.Inspect(f, func(n ast.Node) bool {
			ts, ok := n.(*ast.TypeSpec)
			if !ok || ts.Name.Name != typ {
				return true
			}
			if st, ok := ts.Type.(*ast.StructType); ok {
				for _, fl := range st.Fields.List {
					for _, nm := range fl.Names {
						m[nm.Name] = exprStr(fl.Type)
					}
				}
			}
			return false
		})
	}
	return m
}

// methodsOf: methods declared with receiver (*typ) or (typ); returns name -> decl
func methodsOf(files []*ast.File, typ string) map[string]*ast.FuncDecl {
	m := map[string]*ast.FuncDecl{}
	for _, f := range files {
		for _, d := range f.Decls {
			fd, ok := d.(*ast.FuncDecl)
			if !ok || fd.Recv == nil || len(fd.Recv.List) != 1 || fd.Body == nil {
				continue
			}
			if strings.TrimPrefix(exprStr(fd.Recv.List[0].Type), "*") == typ {
				m[fd.Name.Name] = fd
			}
		}
	}
	return m
}

func recvName(fd *ast.FuncDecl) string {
	if len(fd.Recv.List[0].Names) == 1 {
		return fd.Recv.List[0].Names[0].Name
	}
	return "_"
}

// interfaceMethods: method names of the named interface type (embedded interfaces of the
// same package are followed)
func interfaceMethods(files []*ast.File, typ string) []string {
	var out []string
	for _, f := range files {
		ast.Inspect(f, func(n ast.Node) bool {
			ts, ok := n.(*ast.TypeSpec)
			if !ok || ts.Name.Name != typ {
				return true
			}
			if it, ok := ts.Type.(*ast.InterfaceType); ok {
				for _, m := range it.Methods.List {
					if len(m.Names) == 0 {
						if id, ok := m.Type.(*ast.Ident); ok {
							out = append(out, interfaceMethods(files, id.Name)...)
						}
						continue
					}
					for _, nm := range m.Names {
						out = append(out, nm.Name)
					}
				}
			}
			return false
		})
	}
	return out
}

// fieldSel: is e the expression <recv>.<field> ? returns the field name
func fieldSel(e ast.Expr, recv string) (string, bool) {
	s, ok := e.(*ast.SelectorExpr)
	if !ok {
		return "", false
	}
	id, ok := s.X.(*ast.Ident)
	if !ok || id.Name != recv {
		return "", false
	}
	return s.Sel.Name, true
}

func isTrueLit(e ast.Expr) bool {
	id, ok := e.(*ast.Ident)
	return ok && id.Name == "true"
}

// storage methods that do not change the logical content; every other method called on a
// storage field (also one added later) counts as a mutation
var storageReadOnly = map[string]bool{"Get": true, "IsDeleted": true, "GetIterator": true, "GetRangeIterator": true,
	"FlushMemTables": true, "Close": true, "GetMemTableSize": true, "IsFlushNeeded": true, "GetSSTables": true,
	"ReloadSSTables": true, "RotateWAL": true, "GetStorageStats": true}

// transaction-manager methods that hand out no write capability
var txmgrReadOnly = map[string]bool{"GetRWLock": true, "IncrementTxCompleted": true, "IncrementTxAborted": true,
	"GetTransactionStats": true}

// result types that carry mutators (a method returning one of them hands out a capability)
var capabilityTypes = []string{"TransactionManager", "transaction.Manager", "wal.WAL", "StorageManager", "storage.Manager", "interfaces.Storage"}

type sink struct {
	kind string // "write" | "begin"
	arg  string // begin: the identifier passed as readOnly ("" if not an identifier)
}

type facadeInfo struct {
	fd             *ast.FuncDecl
	calls          []string
	escapes        bool
	returnsWrapper bool
	setsFlag       bool
}

func analyseFacade() []apiRow {
	files := parsePkg("pkg/engine")
	fields := structFields(files, "EngineFacade")
	storageF, txF := map[string]bool{}, map[string]bool{}
	for n, t := range fields {
		if strings.HasSuffix(t, "StorageManager") || strings.HasSuffix(t, "interfaces.Storage") {
			storageF[n] = true
		}
		if strings.HasSuffix(t, "transaction.Manager") || strings.HasSuffix(t, "TransactionManager") {
			txF[n] = true
		}
	}
	meths := methodsOf(files, "EngineFacade")
	// the flag field: the atomic field whose Load() is returned by IsReadOnly
	flag := ""
	if fd := meths["IsReadOnly"]; fd != nil {
		ast.Inspect(fd.Body, func(n ast.Node) bool {
			if c, ok := n.(*ast.CallExpr); ok {
				if s, ok := c.Fun.(*ast.SelectorExpr); ok && s.Sel.Name == "Load" {
					if f, ok := fieldSel(s.X, recvName(fd)); ok {
						flag = f
					}
				}
			}
			return true
		})
	}
	wrappers, wrapperRows := analyseWrappers(files, flag)
	ifaceSet := map[string]bool{}
	for _, m := range interfaceMethods(parsePkg("pkg/engine/interfaces"), "Engine") {
		ifaceSet[m] = true
	}
	info := map[string]*facadeInfo{}
	for name, fd := range meths {
		fi := &facadeInfo{fd: fd}
		recv := recvName(fd)
		usedAsCallee := map[ast.Expr]bool{}
		ast.Inspect(fd.Body, func(n ast.Node) bool {
			c, ok := n.(*ast.CallExpr)
			if !ok {
				return true
			}
			s, ok := c.Fun.(*ast.SelectorExpr)
			if !ok {
				return true
			}
			if f, ok := fieldSel(s.X, recv); ok {
				usedAsCallee[s.X] = true
				if f == flag && (s.Sel.Name == "Store" || s.Sel.Name == "Swap" || s.Sel.Name == "CompareAndSwap") {
					fi.setsFlag = true
				}
			}
			if id, ok := s.X.(*ast.Ident); ok && id.Name == recv {
				if _, isM := meths[s.Sel.Name]; isM {
					fi.calls = append(fi.calls, s.Sel.Name)
				}
			}
			return true
		})
		// escapes: the storage / tx-manager field used other than as the receiver of a call or in
		// a comparison with nil
		nilCmp := map[ast.Expr]bool{}
		ast.Inspect(fd.Body, func(n ast.Node) bool {
			if b, ok := n.(*ast.BinaryExpr); ok && (b.Op == token.EQL || b.Op == token.NEQ) {
				nilCmp[b.X] = true
				nilCmp[b.Y] = true
			}
			// a field handed to a guarded wrapper literal does not escape
			if cl, ok := n.(*ast.CompositeLit); ok {
				if id, ok := cl.Type.(*ast.Ident); ok && wrappers[id.Name] {
					for _, el := range cl.Elts {
						if kv, ok := el.(*ast.KeyValueExpr); ok {
							nilCmp[kv.Value] = true
						} else {
							nilCmp[el] = true
						}
					}
				}
			}
			return true
		})
		// does every return statement return a guarded wrapper literal?
		fi.returnsWrapper = true
		nret := 0
		ast.Inspect(fd.Body, func(n ast.Node) bool {
			if r, ok := n.(*ast.ReturnStmt); ok {
				nret++
				good := len(r.Results) == 1
				if good {
					e := r.Results[0]
					if u, ok := e.(*ast.UnaryExpr); ok && u.Op == token.AND {
						e = u.X
					}
					cl, ok := e.(*ast.CompositeLit)
					id, ok2 := (ast.Expr)(nil), false
					if ok {
						var idn *ast.Ident
						idn, ok2 = cl.Type.(*ast.Ident)
						if ok2 {
							id = idn
							ok2 = wrappers[idn.Name]
						}
					}
					_ = id
					good = ok && ok2
				}
				if !good {
					fi.returnsWrapper = false
				}
			}
			return true
		})
		if nret == 0 {
			fi.returnsWrapper = false
		}
		ast.Inspect(fd.Body, func(n ast.Node) bool {
			e, ok := n.(ast.Expr)
			if !ok {
				return true
			}
			if f, ok := fieldSel(e, recv); ok && (storageF[f] || txF[f]) && !usedAsCallee[e] && !nilCmp[e] {
				fi.escapes = true
			}
			return true
		})
		info[name] = fi
	}
	// guard analysis on the top-level statement list
	var guardedOf func(name string, seen map[string]bool) (mut, beg, guarded bool)
	guardedOf = func(name string, seen map[string]bool) (bool, bool, bool) {
		fi := info[name]
		if fi == nil || seen[name] {
			return false, false, true
		}
		seen[name] = true
		defer delete(seen, name)
		recv := recvName(fi.fd)
		isFlagLoad := func(e ast.Expr) bool {
			c, ok := e.(*ast.CallExpr)
			if !ok {
				return false
			}
			s, ok := c.Fun.(*ast.SelectorExpr)
			if !ok || s.Sel.Name != "Load" {
				return false
			}
			f, ok := fieldSel(s.X, recv)
			return ok && f == flag && flag != ""
		}
		guardSeen := false
		forced := map[string]bool{}
		mut, beg, allOK := false, false, true
		for _, st := range fi.fd.Body.List {
			if ifs, ok := st.(*ast.IfStmt); ok && ifs.Init == nil && ifs.Else == nil && isFlagLoad(ifs.Cond) && len(ifs.Body.List) > 0 {
				if _, ok := ifs.Body.List[len(ifs.Body.List)-1].(*ast.ReturnStmt); ok {
					guardSeen = true
					continue
				}
				if len(ifs.Body.List) == 1 {
					if as, ok := ifs.Body.List[0].(*ast.AssignStmt); ok && as.Tok == token.ASSIGN && len(as.Lhs) == 1 && len(as.Rhs) == 1 && isTrueLit(as.Rhs[0]) {
						if id, ok := as.Lhs[0].(*ast.Ident); ok {
							forced[id.Name] = true
							continue
						}
					}
				}
			}
			ast.Inspect(st, func(n ast.Node) bool {
				c, ok := n.(*ast.CallExpr)
				if !ok {
					return true
				}
				s, ok := c.Fun.(*ast.SelectorExpr)
				if !ok {
					return true
				}
				if f, ok := fieldSel(s.X, recv); ok {
					for _, k := range sinksOfCall(f, s.Sel.Name, c, fields) {
						if k.kind == "write" {
							mut = true
							if !guardSeen {
								allOK = false
							}
						} else {
							beg = true
							if !guardSeen && !(k.arg != "" && forced[k.arg]) {
								allOK = false
							}
						}
					}
				}
				if id, ok := s.X.(*ast.Ident); ok && id.Name == recv && info[s.Sel.Name] != nil {
					m2, b2, g2 := guardedOf(s.Sel.Name, seen)
					mut = mut || m2
					beg = beg || b2
					if (m2 || b2) && !g2 && !guardSeen {
						allOK = false
					}
				}
				return true
			})
		}
		return mut, beg, allOK && (mut || beg)
	}
	var rows []apiRow
	for name, fi := range info {
		if !ast.IsExported(name) {
			continue
		}
		mut, beg, g := guardedOf(name, map[string]bool{})
		leaks := fi.escapes
		if fi.fd.Type.Results != nil && !beg && !fi.returnsWrapper {
			for _, r := range fi.fd.Type.Results.List {
				t := strings.TrimPrefix(exprStr(r.Type), "*")
				for _, c := range capabilityTypes {
					if strings.HasSuffix(t, c) {
						leaks = true
					}
				}
			}
		}
		rows = append(rows, apiRow{api: "Facade", name: name, iface: ifaceSet[name], writes: mut, beginsRW: beg,
			guarded: g, internal: strings.HasSuffix(name, "Internal"), leaks: leaks, setsFlag: fi.setsFlag})
	}
	rows = append(rows, wrapperRows...)
	sort.Slice(rows, func(i, j int) bool { return rows[i].name < rows[j].name })
	return rows
}

// guarded wrappers: struct types of pkg/engine that hold a *EngineFacade and a transaction
// manager, and whose BeginTransaction forces read-only from the facade's flag before delegating.
// Returns the wrapper type names that qualify (every method delegating a begin is guarded) and
// one table row per begin-delegating method, named "<Type>.<Method>".
func analyseWrappers(files []*ast.File, flag string) (map[string]bool, []apiRow) {
	ok := map[string]bool{}
	var rows []apiRow
	for _, f := range files {
		for _, d := range f.Decls {
			gd, isG := d.(*ast.GenDecl)
			if !isG {
				continue
			}
			for _, sp := range gd.Specs {
				ts, isT := sp.(*ast.TypeSpec)
				if !isT || ts.Name.Name == "EngineFacade" {
					continue
				}
				st, isS := ts.Type.(*ast.StructType)
				if !isS {
					continue
				}
				engF, mgrF := "", ""
				for _, fl := range st.Fields.List {
					t := exprStr(fl.Type)
					names := []string{}
					for _, nm := range fl.Names {
						names = append(names, nm.Name)
					}
					if len(names) == 0 { // embedded: the field is named after the type
						names = []string{t[strings.LastIndexAny(t, ".*")+1:]}
					}
					if t == "*EngineFacade" {
						engF = names[0]
					}
					if strings.HasSuffix(t, "transaction.Manager") || strings.HasSuffix(t, "TransactionManager") {
						mgrF = names[0]
					}
				}
				if engF == "" || mgrF == "" {
					continue
				}
				allGuarded := true
				hasBegin := false
				for name, fd := range methodsOf(files, ts.Name.Name) {
					recv := recvName(fd)
					forced := map[string]bool{}
					guardSeen := false
					begins, guarded := false, true
					isFlagLoad := func(e ast.Expr) bool { // <recv>.<engF>.<flag>.Load()
						c, ok := e.(*ast.CallExpr)
						if !ok {
							return false
						}
						s, ok := c.Fun.(*ast.SelectorExpr)
						if !ok || s.Sel.Name != "Load" {
							return false
						}
						s2, ok := s.X.(*ast.SelectorExpr)
						if !ok || s2.Sel.Name != flag || flag == "" {
							return false
						}
						f, ok := fieldSel(s2.X, recv)
						return ok && f == engF
					}
					for _, stt := range fd.Body.List {
						if ifs, ok := stt.(*ast.IfStmt); ok && ifs.Init == nil && ifs.Else == nil && isFlagLoad(ifs.Cond) && len(ifs.Body.List) > 0 {
							if _, ok := ifs.Body.List[len(ifs.Body.List)-1].(*ast.ReturnStmt); ok {
								guardSeen = true
								continue
							}
							if as, ok := ifs.Body.List[0].(*ast.AssignStmt); ok && len(ifs.Body.List) == 1 && as.Tok == token.ASSIGN && len(as.Lhs) == 1 && len(as.Rhs) == 1 && isTrueLit(as.Rhs[0]) {
								if id, ok := as.Lhs[0].(*ast.Ident); ok {
									forced[id.Name] = true
									continue
								}
							}
						}
						ast.Inspect(stt, func(n ast.Node) bool {
							c, ok := n.(*ast.CallExpr)
							if !ok {
								return true
							}
							s, ok := c.Fun.(*ast.SelectorExpr)
							if !ok || s.Sel.Name != "BeginTransaction" {
								return true
							}
							if f, ok := fieldSel(s.X, recv); ok && f == mgrF {
								if len(c.Args) == 1 && isTrueLit(c.Args[0]) {
									return true
								}
								begins = true
								a := ""
								if len(c.Args) == 1 {
									if id, ok := c.Args[0].(*ast.Ident); ok {
										a = id.Name
									}
								}
								if !guardSeen && !(a != "" && forced[a]) {
									guarded = false
								}
							}
							return true
						})
					}
					if begins {
						hasBegin = true
						rows = append(rows, apiRow{api: "Facade", name: ts.Name.Name + "." + name, beginsRW: true, guarded: guarded})
						if !guarded {
							allGuarded = false
						}
					}
				}
				// the embedded manager's own BeginTransaction must be overridden
				if hasBegin && allGuarded && methodsOf(files, ts.Name.Name)["BeginTransaction"] != nil {
					ok[ts.Name.Name] = true
				}
			}
		}
	}
	return ok, rows
}

// sinksOfCall classifies <recv>.<field>.<method>(...) (shared by the direct scan above)
func sinksOfCall(field, method string, c *ast.CallExpr, fields map[string]string) []sink {
	t := fields[field]
	isStorage := strings.HasSuffix(t, "StorageManager") || strings.HasSuffix(t, "interfaces.Storage")
	isTx := strings.HasSuffix(t, "transaction.Manager") || strings.HasSuffix(t, "TransactionManager")
	switch {
	case isStorage && !storageReadOnly[method]:
		return []sink{{kind: "write"}}
	case isTx && method == "BeginTransaction":
		if len(c.Args) == 1 && isTrueLit(c.Args[0]) {
			return nil
		}
		a := ""
		if len(c.Args) == 1 {
			if id, ok := c.Args[0].(*ast.Ident); ok {
				a = id.Name
			}
		}
		return []sink{{kind: "begin", arg: a}}
	case isTx && !txmgrReadOnly[method]:
		return []sink{{kind: "write"}}
	}
	return nil
}

func analyseService() []apiRow {
	files := parsePkg("pkg/grpc/service")
	fields := structFields(files, "KevoServiceServer")
	engF, regF := map[string]bool{}, map[string]bool{}
	for n, t := range fields {
		if strings.HasSuffix(t, "interfaces.Engine") || t == "Engine" || strings.HasSuffix(t, "engine.EngineFacade") {
			engF[n] = true
		}
		if strings.HasSuffix(t, "transaction.Registry") || strings.HasSuffix(t, "TxRegistry") {
			regF[n] = true
		}
	}
	rpc := map[string]bool{}
	for _, m := range interfaceMethods(parsePkg("proto/kevo"), "KevoServiceServer") {
		if ast.IsExported(m) {
			rpc[m] = true
		}
	}
	meths := methodsOf(files, "KevoServiceServer")
	// unexported helper methods that hand back a transaction of the registry ("find the
	// transaction by id" moved into a method of its own): a variable bound from such a call is
	// a transaction variable like one bound from registry.Get directly
	helperTx := map[string]bool{}
	for name, fd := range meths {
		if ast.IsExported(name) || fd.Body == nil {
			continue
		}
		hr := recvName(fd)
		ast.Inspect(fd.Body, func(n ast.Node) bool {
			if c, ok := n.(*ast.CallExpr); ok {
				if s, ok := c.Fun.(*ast.SelectorExpr); ok && s.Sel.Name == "Get" {
					if f, ok := fieldSel(s.X, hr); ok && regF[f] {
						helperTx[name] = true
					}
				}
			}
			return true
		})
	}
	var rows []apiRow
	for name, fd := range meths {
		if !ast.IsExported(name) {
			continue
		}
		recv := recvName(fd)
		row := apiRow{api: "Service", name: name, iface: rpc[name]}
		calls := map[string]bool{}
		txVars := map[string]bool{}
		okUse := map[ast.Expr]bool{}
		// transactions: variables bound from engine.BeginTransaction(..) or registry.Get(..)
		ast.Inspect(fd.Body, func(n ast.Node) bool {
			as, ok := n.(*ast.AssignStmt)
			if !ok || len(as.Rhs) != 1 {
				return true
			}
			c, ok := as.Rhs[0].(*ast.CallExpr)
			if !ok {
				return true
			}
			s, ok := c.Fun.(*ast.SelectorExpr)
			if !ok {
				return true
			}
			if f, ok := fieldSel(s.X, recv); ok && ((engF[f] && s.Sel.Name == "BeginTransaction") || (regF[f] && s.Sel.Name == "Get")) {
				if id, ok := as.Lhs[0].(*ast.Ident); ok {
					txVars[id.Name] = true
				}
			}
			if id, ok := s.X.(*ast.Ident); ok && id.Name == recv && helperTx[s.Sel.Name] {
				if v, ok := as.Lhs[0].(*ast.Ident); ok {
					txVars[v.Name] = true
				}
			}
			return true
		})
		ast.Inspect(fd.Body, func(n ast.Node) bool {
			switch x := n.(type) {
			case *ast.CallExpr:
				s, ok := x.Fun.(*ast.SelectorExpr)
				if !ok {
					return true
				}
				if f, ok := fieldSel(s.X, recv); ok && engF[f] {
					okUse[s.X] = true
					calls[s.Sel.Name] = true
					// a transaction begun directly on the engine stays local to the method: its write
					// capability shows as a_writes when the method writes through it. Only a
					// transaction handed to the client (registry.Begin below) counts as a_begins_rw.
					if s.Sel.Name == "Put" || s.Sel.Name == "Delete" || s.Sel.Name == "ApplyBatch" {
						row.writes = true
					}
				}
				if f, ok := fieldSel(s.X, recv); ok && regF[f] && s.Sel.Name == "Begin" {
					// registry.Begin(ctx, engine, readOnly): calls BeginTransaction on the engine (by
					// reflection; the method names used there are emitted as registry_reflective_calls)
					for i, a := range x.Args {
						if ef, ok := fieldSel(a, recv); ok && engF[ef] {
							okUse[a] = true
							calls["BeginTransaction"] = true
							if !(i+1 < len(x.Args) && isTrueLit(x.Args[i+1])) {
								row.beginsRW = true
							}
						}
					}
				}
				if id, ok := s.X.(*ast.Ident); ok && txVars[id.Name] && (s.Sel.Name == "Put" || s.Sel.Name == "Delete") {
					row.writes = true
				}
			case *ast.TypeAssertExpr:
				if f, ok := fieldSel(x.X, recv); ok && engF[f] {
					okUse[x.X] = true
					if it, ok := x.Type.(*ast.InterfaceType); ok {
						for _, m := range it.Methods.List {
							for _, nm := range m.Names {
								calls[nm.Name] = true
							}
						}
					} else {
						calls["?"+exprStr(x.Type)] = true // assertion to a named type: not resolved
					}
				}
			}
			return true
		})
		// the engine field used in any other way (stored, passed to an unknown callee)
		ast.Inspect(fd.Body, func(n ast.Node) bool {
			if e, ok := n.(ast.Expr); ok {
				if f, ok := fieldSel(e, recv); ok && engF[f] && !okUse[e] {
					row.leaks = true
				}
			}
			return true
		})
		for c := range calls {
			row.engineCalls = append(row.engineCalls, c)
		}
		sort.Strings(row.engineCalls)
		rows = append(rows, row)
	}
	// RPCs of the descriptor that the service type does not implement itself (served by the
	// embedded Unimplemented stub): still listed, with no calls
	for m := range rpc {
		if meths[m] == nil {
			rows = append(rows, apiRow{api: "Service", name: m, iface: true})
		}
	}
	sort.Slice(rows, func(i, j int) bool { return rows[i].name < rows[j].name })
	return rows
}

// string literals passed to reflect's MethodByName in pkg/transaction (the registry begins
// transactions through the engine by reflection)
func reflectiveCalls() []string {
	var out []string
	for _, f := range parsePkg("pkg/transaction") {
		ast.Inspect(f, func(n ast.Node) bool {
			c, ok := n.(*ast.CallExpr)
			if !ok {
				return true
			}
			if s, ok := c.Fun.(*ast.SelectorExpr); ok && s.Sel.Name == "MethodByName" && len(c.Args) == 1 {
				if l, ok := c.Args[0].(*ast.BasicLit); ok && l.Kind == token.STRING {
					out = append(out, strings.Trim(l.Value, "\"`"))
				} else {
					out = append(out, "?")
				}
			}
			return true
		})
	}
	sort.Strings(out)
	return out
}

// packages (relative directory) that call a method whose name ends in "Internal"
func internalCallers() [][2]string {
	seen := map[[2]string]bool{}
	for _, root := range []string{"pkg", "cmd"} {
		filepath.Walk(filepath.Join(repo, root), func(p string, fi os.FileInfo, err error) error {
			if err != nil || fi.IsDir() || !strings.HasSuffix(p, ".go") || strings.HasSuffix(p, "_test.go") {
				return nil
			}
			f, err := parser.ParseFile(fset, p, nil, 0)
			if err != nil {
				return nil
			}
			rel, _ := filepath.Rel(repo, filepath.Dir(p))
			ast.Inspect(f, func(n ast.Node) bool {
				if c, ok := n.(*ast.CallExpr); ok {
					if s, ok := c.Fun.(*ast.SelectorExpr); ok && strings.HasSuffix(s.Sel.Name, "Internal") && ast.IsExported(s.Sel.Name) {
						seen[[2]string{rel, s.Sel.Name}] = true
					}
				}
				return true
			})
			return nil
		})
	}
	var out [][2]string
	for k := range seen {
		out = append(out, k)
	}
	sort.Slice(out, func(i, j int) bool { return out[i][0]+out[i][1] < out[j][0]+out[j][1] })
	return out
}

func coqBool(b bool) string {
	if b {
		return "true"
	}
	return "false"
}

func coqStrList(l []string) string {
	q := make([]string, len(l))
	for i, s := range l {
		q[i] = fmt.Sprintf("%q", s)
	}
	return "[" + strings.Join(q, "; ") + "]"
}

func genApi() (string, string) {
	var b strings.Builder
	b.WriteString(`(* GENERATED by /verif/gofacts (api.go) from the Go source under /repo — do not edit.
   One row per exported method of *engine.EngineFacade (pkg/engine) and of the KevoService
   server (pkg/grpc/service).
     a_iface     Facade: declared in interfaces.Engine; Service: an RPC of KevoServiceServer
     a_writes    Facade: the body — or an EngineFacade method it calls, transitively — calls a
                 method of a storage-typed field other than the listed read-only ones
                 (Get IsDeleted GetIterator GetRangeIterator FlushMemTables Close GetMemTableSize
                 IsFlushNeeded GetSSTables ReloadSSTables RotateWAL GetStorageStats), or a
                 transaction-manager method other than BeginTransaction and the counters;
                 Service: calls Put/Delete/ApplyBatch on the engine field, or Put/Delete on a
                 transaction obtained from engine.BeginTransaction / registry.Get
     a_begins_rw Facade: reaches BeginTransaction(x) with x not the literal true; Service: hands the
                 client a transaction begun through registry.Begin with a flag that is not the
                 literal true (a transaction begun and finished inside the method counts through
                 a_writes only)
     a_guarded   Facade: every such call is preceded, in the top-level statement list of the
                 method, by  if <recv>.<flag>.Load() { ...; return ... }  — or, for
                 BeginTransaction(x), by  if <recv>.<flag>.Load() { x = true }  — where <flag>
                 is the field IsReadOnly returns (a call to another guarded method counts as
                 guarded); Service: always false (see a_engine_calls)
     a_internal  name ends in "Internal"
     a_leaks     Facade: returns, or uses other than as a call receiver / nil comparison, the
                 storage or transaction-manager field, or has a result of a capability type;
                 Service: uses the engine field other than as call receiver, type-assertion
                 operand or argument of registry.Begin
                 (a field placed in the literal of a guarded wrapper type — a struct of pkg/engine
                 holding the facade and the manager whose own BeginTransaction forces read-only
                 from the facade's flag before delegating — is not a leak; the wrapper's begin
                 methods are rows named <Type>.<Method>)
     a_setsflag  stores to the read-only flag
     a_engine_calls  Service: methods invoked on the engine field (direct, through an ad-hoc
                 interface assertion, or BeginTransaction through registry.Begin)
   Approximations (trusted): syntactic matching on <recv>.<field>.<method>; local aliases of
   the fields are caught only as "leaks"; reassignment of a forced variable between the
   forcing statement and the call is not tracked; guards nested in other statements or
   combined with other conditions are NOT recognised (they make the row unguarded). *)
From Coq Require Import String List.
Import ListNotations.
Local Open Scope string_scope.
Inductive api_kind := Facade | Service.
Record api_row := mkApi {
  a_api : api_kind; a_name : string; a_iface : bool; a_writes : bool; a_begins_rw : bool;
  a_guarded : bool; a_internal : bool; a_leaks : bool; a_setsflag : bool;
  a_engine_calls : list string }.
Definition api_table : list api_row := [
`)
	rows := append(analyseFacade(), analyseService()...)
	for i, r := range rows {
		sep := ";"
		if i == len(rows)-1 {
			sep = ""
		}
		fmt.Fprintf(&b, "  mkApi %s %q %s %s %s %s %s %s %s %s%s\n", r.api, r.name, coqBool(r.iface), coqBool(r.writes),
			coqBool(r.beginsRW), coqBool(r.guarded), coqBool(r.internal), coqBool(r.leaks), coqBool(r.setsFlag),
			coqStrList(r.engineCalls), sep)
	}
	b.WriteString("].\n")
	fmt.Fprintf(&b, "(* string literals given to reflect's MethodByName in pkg/transaction *)\nDefinition registry_reflective_calls : list string := %s.\n", coqStrList(reflectiveCalls()))
	b.WriteString("(* (package directory, method) of every call of an exported method named *Internal in pkg/ and cmd/ (tests excluded) *)\nDefinition internal_callers : list (string * string) := [")
	for i, c := range internalCallers() {
		if i > 0 {
			b.WriteString("; ")
		}
		fmt.Fprintf(&b, "(%q, %q)", c[0], c[1])
	}
	b.WriteString("].\n")
	return "Api.v", b.String()
}
