// gofacts, C07: explicit Lock()/Unlock() pairs (no defer) and the ways out between them
// -> coq/gen/LockLeaks.v
// For every function and function literal of the covered packages the statement lists are
// walked with the set of mutexes locked explicitly (x.Lock()/x.RLock() not released by a
// deferred x.Unlock()/x.RUnlock()); a `return`, or a `continue`/`break`/`goto` that leaves the
// loop the lock was taken in, reached with such a mutex still locked is listed:
//   (package, function, mutex expression, statement kind).
// After a branching statement a mutex counts as locked if some non-terminating branch leaves it
// locked (conditional locking `if c { mu.Lock() } ... if c { mu.Unlock() }` is therefore
// listed too: the Coq side carries an allow list for reviewed entries).
// An x.Unlock()/x.RUnlock() reached on some path on which the mutex, taken earlier in the same
// function, has been released already and not taken again is listed with kind "unlock".
package main

import (
	"fmt"
	"go/ast"
	"go/token"
	"sort"
	"strings"
)

func init() { extraGenerators = append(extraGenerators, genLockLeaks) }

var lockLeakPkgs = append(append([]string{}, lockPkgs...), "pkg/replication", "pkg/grpc/service")

// releasedMark + mutex expression in the same map: the mutex was taken and released again on some
// path to this point (the map is merged by union after a branching statement, for both kinds)
const releasedMark = "~"

type heldLock struct {
	loopDepth int // number of enclosing loops (of this function) when it was taken
}

type leakScan struct {
	pkg, fn string
	rows    *[]string
}

func mutexCall(s ast.Stmt) (recv, method string, ok bool) {
	es, isExpr := s.(*ast.ExprStmt)
	if !isExpr {
		return "", "", false
	}
	return mutexCallExpr(es.X)
}

func mutexCallExpr(e ast.Expr) (recv, method string, ok bool) {
	c, isCall := e.(*ast.CallExpr)
	if !isCall || len(c.Args) != 0 {
		return "", "", false
	}
	se, isSel := c.Fun.(*ast.SelectorExpr)
	if !isSel {
		return "", "", false
	}
	switch se.Sel.Name {
	case "Lock", "RLock", "Unlock", "RUnlock":
		return exprStr(se.X), se.Sel.Name, true
	}
	return "", "", false
}

func cloneHeld(h map[string]heldLock) map[string]heldLock {
	c := map[string]heldLock{}
	for k, v := range h {
		c[k] = v
	}
	return c
}

// scan walks a statement list; returns the locks held at its end and whether every path through it
// ends in a statement that leaves the list (return / branch / panic)
func (ls *leakScan) scan(stmts []ast.Stmt, held map[string]heldLock, loopDepth int, deferred map[string]bool) (map[string]heldLock, bool) {
	report := func(kind string, minDepth int) {
		var names []string
		for m, h := range held {
			if deferred[m] || strings.HasPrefix(m, releasedMark) {
				continue
			}
			if h.loopDepth >= minDepth {
				names = append(names, m)
			}
		}
		sort.Strings(names)
		for _, m := range names {
			*ls.rows = append(*ls.rows, fmt.Sprintf("(%q, %q, %q, %q)", ls.pkg, ls.fn, m, kind))
		}
	}
	for _, st := range stmts {
		if recv, m, ok := mutexCall(st); ok {
			switch m {
			case "Lock", "RLock":
				held[recv] = heldLock{loopDepth}
				delete(held, releasedMark+recv)
			default:
				// released already on some path that reaches this statement (taken and released
				// earlier in this function, not taken again): the runtime aborts the process with
				// "unlock of unlocked mutex"
				if _, was := held[releasedMark+recv]; was && !deferred[recv] {
					*ls.rows = append(*ls.rows, fmt.Sprintf("(%q, %q, %q, %q)", ls.pkg, ls.fn, recv, "unlock"))
				}
				if _, is := held[recv]; is {
					held[releasedMark+recv] = heldLock{loopDepth}
				}
				delete(held, recv)
			}
			continue
		}
		switch s := st.(type) {
		case *ast.DeferStmt:
			if recv, m, ok := mutexCallExpr(s.Call); ok && (m == "Unlock" || m == "RUnlock") {
				deferred[recv] = true
			}
			if fl, ok := s.Call.Fun.(*ast.FuncLit); ok {
				// defer func() { ...; x.Unlock() }()
				ast.Inspect(fl.Body, func(n ast.Node) bool {
					if es, ok := n.(*ast.ExprStmt); ok {
						if recv, m, ok := mutexCallExpr(es.X); ok && (m == "Unlock" || m == "RUnlock") {
							deferred[recv] = true
						}
					}
					return true
				})
			}
		case *ast.ReturnStmt:
			report("return", 0)
			return held, true
		case *ast.BranchStmt:
			switch s.Tok {
			case token.CONTINUE, token.BREAK, token.GOTO:
				// leaves (an iteration of) the innermost loop: a lock taken inside that loop stays locked
				if loopDepth > 0 {
					report(strings.ToLower(s.Tok.String()), loopDepth)
				}
				return held, true
			}
		case *ast.ExprStmt:
			if c, ok := s.X.(*ast.CallExpr); ok {
				if id, ok := c.Fun.(*ast.Ident); ok && id.Name == "panic" {
					return held, true
				}
			}
		case *ast.BlockStmt:
			h, term := ls.scan(s.List, held, loopDepth, deferred)
			held = h
			if term {
				return held, true
			}
		case *ast.IfStmt:
			thenH, thenT := ls.scan(s.Body.List, cloneHeld(held), loopDepth, deferred)
			elseH, elseT := cloneHeld(held), false
			if s.Else != nil {
				switch e := s.Else.(type) {
				case *ast.BlockStmt:
					elseH, elseT = ls.scan(e.List, cloneHeld(held), loopDepth, deferred)
				case *ast.IfStmt:
					elseH, elseT = ls.scan([]ast.Stmt{e}, cloneHeld(held), loopDepth, deferred)
				}
			}
			switch {
			case thenT && elseT:
				return held, true
			case thenT:
				held = elseH
			case elseT:
				held = thenH
			default:
				held = thenH
				for k, v := range elseH {
					held[k] = v
				}
			}
		case *ast.ForStmt:
			h, _ := ls.scan(s.Body.List, cloneHeld(held), loopDepth+1, deferred)
			for k, v := range h {
				if v.loopDepth <= loopDepth {
					held[k] = v
				}
			}
		case *ast.RangeStmt:
			h, _ := ls.scan(s.Body.List, cloneHeld(held), loopDepth+1, deferred)
			for k, v := range h {
				if v.loopDepth <= loopDepth {
					held[k] = v
				}
			}
		case *ast.SwitchStmt, *ast.TypeSwitchStmt, *ast.SelectStmt:
			var body *ast.BlockStmt
			switch x := s.(type) {
			case *ast.SwitchStmt:
				body = x.Body
			case *ast.TypeSwitchStmt:
				body = x.Body
			case *ast.SelectStmt:
				body = x.Body
			}
			merged := cloneHeld(held)
			for _, cl := range body.List {
				var list []ast.Stmt
				switch c := cl.(type) {
				case *ast.CaseClause:
					list = c.Body
				case *ast.CommClause:
					list = c.Body
				}
				// a `break` inside a switch/select leaves the switch, not a loop: walk the clause with
				// loopDepth 0 so that it is not reported, then restore depths
				h, term := ls.scanClause(list, cloneHeld(held), loopDepth, deferred)
				if !term {
					for k, v := range h {
						merged[k] = v
					}
				}
			}
			held = merged
		case *ast.LabeledStmt:
			h, term := ls.scan([]ast.Stmt{s.Stmt}, held, loopDepth, deferred)
			held = h
			if term {
				return held, true
			}
		}
		// function literals started as goroutines or called later are scanned on their own (genLockLeaks)
	}
	return held, false
}

// scanClause: like scan, but a bare `break` ends the clause without being a way out of a loop
func (ls *leakScan) scanClause(stmts []ast.Stmt, held map[string]heldLock, loopDepth int, deferred map[string]bool) (map[string]heldLock, bool) {
	for i, st := range stmts {
		if b, ok := st.(*ast.BranchStmt); ok && b.Tok == token.BREAK && b.Label == nil {
			h, _ := ls.scan(stmts[:i], held, loopDepth, deferred)
			return h, false
		}
	}
	return ls.scan(stmts, held, loopDepth, deferred)
}

func genLockLeaks() (string, string) {
	var b strings.Builder
	b.WriteString("(* GENERATED by /verif/gofacts (lockleaks.go) from the Go source under /repo — do not edit.\n")
	b.WriteString("   Ways out of a region between an explicit x.Lock()/x.RLock() and its x.Unlock()/x.RUnlock()\n")
	b.WriteString("   (no deferred release): (package, function, mutex, kind of exit). *)\n")
	b.WriteString("From Coq Require Import String List.\nImport ListNotations.\nLocal Open Scope string_scope.\n")
	var rows []string
	for _, rel := range lockLeakPkgs {
		for _, f := range parsePkg(rel) {
			for _, d := range f.Decls {
				fd, ok := d.(*ast.FuncDecl)
				if !ok || fd.Body == nil {
					continue
				}
				name := fd.Name.Name
				if fd.Recv != nil && len(fd.Recv.List) == 1 {
					name = strings.TrimPrefix(exprStr(fd.Recv.List[0].Type), "*") + "." + name
				}
				ls := &leakScan{pkg: rel, fn: name, rows: &rows}
				ls.scan(fd.Body.List, map[string]heldLock{}, 0, map[string]bool{})
				// function literals (goroutines, callbacks) are functions of their own
				n := 0
				ast.Inspect(fd.Body, func(nd ast.Node) bool {
					if fl, ok := nd.(*ast.FuncLit); ok {
						n++
						l2 := &leakScan{pkg: rel, fn: fmt.Sprintf("%s.func%d", name, n), rows: &rows}
						l2.scan(fl.Body.List, map[string]heldLock{}, 0, map[string]bool{})
					}
					return true
				})
			}
		}
	}
	b.WriteString("Definition lock_leaks : list (string * string * string * string) :=\n  [" + strings.Join(rows, ";\n   ") + "].\n")
	return "LockLeaks.v", b.String()
}
