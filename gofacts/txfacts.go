package main

// txfacts: structural facts about pkg/transaction that the C04 model (coq/Txn.v) relies on,
// emitted as coq/gen/TxFacts.v. For each anchored method the relevant actions are listed in
// source order: calls through the receiver (lock, flags, buffer, storage, release helpers),
// the `== ReadOnly` branches with their else-parts, the error returns of the contract and the
// order of the sources handed to the merging iterator. coq/TxnFacts.v compares the lists with
// what the model assumes (BeginTransaction takes RLock/Lock by mode before handing out the
// transaction; Get asks the buffer before storage; Commit releases the lock after ApplyBatch;
// Rollback clears and releases; release* is guarded by a CAS on the has*Lock flag; ...).
// A function that no longer exists is emitted as a comment so the comparison stops compiling.

import (
	"fmt"
	"go/ast"
	"go/parser"
	"go/token"
	"os"
	"path/filepath"
	"sort"
	"strings"
)

func init() { extraGenerators = append(extraGenerators, genTxFacts) }

type txFn struct{ recv, name, coq string }

var txFns = []txFn{
	{"Manager", "BeginTransaction", "tx_Begin"},
	{"TransactionImpl", "Get", "tx_Get"},
	{"TransactionImpl", "Put", "tx_Put"},
	{"TransactionImpl", "Delete", "tx_Delete"},
	{"TransactionImpl", "NewIterator", "tx_NewIterator"},
	{"TransactionImpl", "NewRangeIterator", "tx_NewRangeIterator"},
	{"TransactionImpl", "Commit", "tx_Commit"},
	{"TransactionImpl", "Rollback", "tx_Rollback"},
	{"TransactionImpl", "releaseReadLock", "tx_releaseReadLock"},
	{"TransactionImpl", "releaseWriteLock", "tx_releaseWriteLock"},
}

// selector chain "a.b.c" of an expression, or ""
func selChain(e ast.Expr) string {
	switch x := e.(type) {
	case *ast.Ident:
		return x.Name
	case *ast.SelectorExpr:
		if p := selChain(x.X); p != "" {
			return p + "." + x.Sel.Name
		}
	}
	return ""
}

var txRelevant = []string{"txLock.", "rwLock.", "active.", "hasReadLock.", "hasWriteLock.", "buffer.", "storage.",
	"releaseReadLock", "releaseWriteLock"}

// txHelpers: the other methods of the package by "Type.name": a call of an unexported helper on
// the same receiver (a preamble moved into a method of its own) is read through, its actions
// appear where the call stands
var txHelpers map[string]*ast.FuncDecl

func recvOf(fd *ast.FuncDecl) (name, typ string) {
	if fd.Recv == nil || len(fd.Recv.List) == 0 {
		return "", ""
	}
	if len(fd.Recv.List[0].Names) > 0 {
		name = fd.Recv.List[0].Names[0].Name
	}
	t := fd.Recv.List[0].Type
	if st, ok := t.(*ast.StarExpr); ok {
		t = st.X
	}
	if id, ok := t.(*ast.Ident); ok {
		typ = id.Name
	}
	return
}

func txActions(fd *ast.FuncDecl) []string {
	recv, recvType := recvOf(fd)
	anchored := map[string]bool{}
	for _, f := range txFns {
		anchored[f.recv+"."+f.name] = true
	}
	inlining := map[string]bool{}
	var acts []string
	// roCond classifies a condition on the transaction mode: (true, false) for "read-only"
	// (mode == ReadOnly, readOnly, tx.readOnly, x.IsReadOnly()), (true, true) for its negation
	// (mode != ReadOnly, mode == ReadWrite, !readOnly)
	var roCond func(c ast.Expr) (bool, bool)
	roCond = func(c ast.Expr) (bool, bool) {
		switch e := c.(type) {
		case *ast.ParenExpr:
			return roCond(e.X)
		case *ast.UnaryExpr:
			if e.Op == token.NOT {
				if ok, neg := roCond(e.X); ok {
					return true, !neg
				}
			}
		case *ast.BinaryExpr:
			if e.Op == token.EQL || e.Op == token.NEQ {
				for _, side := range []ast.Expr{e.Y, e.X} {
					if y, ok := side.(*ast.Ident); ok && (y.Name == "ReadOnly" || y.Name == "ReadWrite") {
						return true, (y.Name == "ReadWrite") != (e.Op == token.NEQ)
					}
				}
			}
		case *ast.Ident:
			if e.Name == "readOnly" || e.Name == "isReadOnly" {
				return true, false
			}
		case *ast.SelectorExpr:
			if e.Sel.Name == "readOnly" {
				return true, false
			}
		case *ast.CallExpr:
			if sx, ok := e.Fun.(*ast.SelectorExpr); ok && sx.Sel.Name == "IsReadOnly" && len(e.Args) == 0 {
				return true, false
			}
		}
		return false, false
	}
	var walk func(n ast.Node)
	walk = func(n ast.Node) {
		if n == nil {
			return
		}
		ast.Inspect(n, func(m ast.Node) bool {
			switch x := m.(type) {
			case *ast.FuncLit:
				return false
			case *ast.DeferStmt:
				return false // tx.mu.Unlock bookkeeping
			case *ast.IfStmt:
				if x.Init != nil {
					walk(x.Init)
				}
				ro, neg := roCond(x.Cond)
				if !ro {
					walk(x.Cond)
					walk(x.Body)
					if x.Else != nil {
						walk(x.Else)
					}
					return false
				}
				// canonical form: the read-only branch first, whichever way the source spells the test
				var first, second ast.Node = x.Body, nil
				if x.Else != nil {
					second = x.Else
				}
				if neg {
					first, second = second, x.Body
				}
				acts = append(acts, "if-readonly")
				if first != nil {
					walk(first)
				}
				if second != nil {
					acts = append(acts, "else")
					walk(second)
				}
				acts = append(acts, "fi")
				return false
			case *ast.ReturnStmt:
				for _, r := range x.Results {
					walk(r)
				}
				if len(x.Results) > 0 {
					if id, ok := x.Results[0].(*ast.Ident); ok && id.Name == "tx" {
						acts = append(acts, "return tx")
					}
					last := x.Results[len(x.Results)-1]
					if id, ok := last.(*ast.Ident); ok && (id.Name == "ErrReadOnlyTransaction" || id.Name == "ErrTransactionClosed" || id.Name == "ErrKeyNotFound") {
						acts = append(acts, "return "+id.Name)
					}
				}
				return false
			case *ast.CallExpr:
				ch := selChain(x.Fun)
				// arguments first (evaluation order), then the call itself
				for _, a := range x.Args {
					walk(a)
				}
				if strings.HasSuffix(ch, "NewHierarchicalIterator") && len(x.Args) == 1 {
					if cl, ok := x.Args[0].(*ast.CompositeLit); ok {
						var els []string
						for _, e := range cl.Elts {
							els = append(els, selChain(e))
						}
						acts = append(acts, "merge "+strings.Join(els, ">"))
					}
				}
				if strings.HasSuffix(ch, "NewBoundedIterator") && len(x.Args) == 3 {
					acts = append(acts, "bound "+selChain(x.Args[0])+" "+selChain(x.Args[1])+" "+selChain(x.Args[2]))
				}
				if recv != "" && strings.HasPrefix(ch, recv+".") {
					rest := ch[len(recv)+1:]
					matched := false
					for _, p := range txRelevant {
						if strings.HasPrefix(rest, p) {
							acts = append(acts, rest)
							matched = true
							break
						}
					}
					// an unexported helper method of the same type: read through it
					key := recvType + "." + rest
					if h := txHelpers[key]; !matched && h != nil && h.Body != nil && !strings.Contains(rest, ".") &&
						!anchored[key] && !ast.IsExported(rest) && !inlining[key] {
						inlining[key] = true
						saved := recv
						recv, _ = recvOf(h)
						walk(h.Body)
						recv = saved
						delete(inlining, key)
					}
				}
				if sx, ok := x.Fun.(*ast.SelectorExpr); ok {
					if _, isIdent := sx.X.(*ast.Ident); !isIdent {
						walk(sx.X)
					}
				}
				return false
			}
			return true
		})
	}
	walk(fd.Body)
	return dropEmptyConditionals(acts)
}

// dropEmptyConditionals removes mode tests that guard no recorded action ("if-readonly fi",
// "if-readonly else fi", and an empty else branch), repeatedly: only tests with an action in a
// branch are part of the structure the model transcribes.
func dropEmptyConditionals(a []string) []string {
	for changed := true; changed; {
		changed = false
		var out []string
		for i := 0; i < len(a); i++ {
			switch {
			case a[i] == "if-readonly" && i+1 < len(a) && a[i+1] == "fi":
				i++
				changed = true
			case a[i] == "if-readonly" && i+2 < len(a) && a[i+1] == "else" && a[i+2] == "fi":
				i += 2
				changed = true
			case a[i] == "else" && i+1 < len(a) && a[i+1] == "fi":
				changed = true // keep the "fi" (next iteration), drop the empty else
			default:
				out = append(out, a[i])
			}
		}
		a = out
	}
	return a
}

func genTxFacts() (string, string) {
	var b strings.Builder
	b.WriteString("(* GENERATED by /verif/gofacts (txfacts.go) from pkg/transaction under /repo — do not edit.\n")
	b.WriteString("   Per anchored method: the lock / flag / buffer / storage actions in source order. *)\n")
	b.WriteString("From Coq Require Import String List.\nImport ListNotations.\nOpen Scope string_scope.\n")
	dir := filepath.Join(repo, "pkg", "transaction")
	fs := token.NewFileSet()
	pkgs, err := parser.ParseDir(fs, dir, func(fi os.FileInfo) bool {
		return !strings.HasSuffix(fi.Name(), "_test.go") && !strings.HasSuffix(fi.Name(), "_verif.go")
	}, 0)
	if err != nil {
		b.WriteString("(* parse error: " + strings.ReplaceAll(err.Error(), "*)", "* )") + " *)\n")
		return "TxFacts.v", b.String()
	}
	decls := map[string]*ast.FuncDecl{}
	for _, p := range pkgs {
		var names []string
		for fn := range p.Files {
			names = append(names, fn)
		}
		sort.Strings(names)
		for _, fn := range names {
			for _, d := range p.Files[fn].Decls {
				fd, ok := d.(*ast.FuncDecl)
				if !ok || fd.Recv == nil || len(fd.Recv.List) == 0 || fd.Body == nil {
					continue
				}
				t := fd.Recv.List[0].Type
				if st, ok := t.(*ast.StarExpr); ok {
					t = st.X
				}
				if id, ok := t.(*ast.Ident); ok {
					decls[id.Name+"."+fd.Name.Name] = fd
				}
			}
		}
	}
	txHelpers = decls
	for _, f := range txFns {
		fd := decls[f.recv+"."+f.name]
		if fd == nil {
			fmt.Fprintf(&b, "(* %s.%s: not found *)\n", f.recv, f.name)
			continue
		}
		acts := txActions(fd)
		q := make([]string, len(acts))
		for i, a := range acts {
			q[i] = "\"" + a + "\""
		}
		fmt.Fprintf(&b, "Definition %s : list string :=\n  [%s].\n", f.coq, strings.Join(q, "; "))
	}
	// the operations of a transaction OBJECT as critical sections of its own mutex: the body starts
	// with recv.mu.Lock() followed by `defer recv.mu.Unlock()` and releases the mutex nowhere else,
	// so a Commit / Rollback / clean-up from another goroutine waits for an operation in flight
	// (and the operation cannot outlive the isolation lock its transaction holds)
	var whole []string
	for _, name := range []string{"Get", "Put", "Delete", "NewIterator", "NewRangeIterator", "Commit", "Rollback"} {
		fd := decls["TransactionImpl."+name]
		if fd == nil {
			continue
		}
		whole = append(whole, fmt.Sprintf("(\"%s\", %v)", name, holdsOwnMutexThroughout(fd)))
	}
	fmt.Fprintf(&b, "Definition tx_mu_whole : list (string * bool) :=\n  [%s].\n", strings.Join(whole, "; "))
	return "TxFacts.v", b.String()
}

// holdsOwnMutexThroughout: first statement recv.mu.Lock(), second `defer recv.mu.Unlock()`, and no
// other call of recv.mu.Unlock / recv.mu.Lock anywhere in the body
func holdsOwnMutexThroughout(fd *ast.FuncDecl) bool {
	if fd.Recv == nil || len(fd.Recv.List) == 0 || len(fd.Recv.List[0].Names) == 0 || len(fd.Body.List) < 2 {
		return false
	}
	recv := fd.Recv.List[0].Names[0].Name
	es, ok := fd.Body.List[0].(*ast.ExprStmt)
	if !ok {
		return false
	}
	c, ok := es.X.(*ast.CallExpr)
	if !ok || selChain(c.Fun) != recv+".mu.Lock" {
		return false
	}
	ds, ok := fd.Body.List[1].(*ast.DeferStmt)
	if !ok || selChain(ds.Call.Fun) != recv+".mu.Unlock" {
		return false
	}
	n := 0
	ast.Inspect(fd.Body, func(m ast.Node) bool {
		if c, ok := m.(*ast.CallExpr); ok {
			if ch := selChain(c.Fun); ch == recv+".mu.Unlock" || ch == recv+".mu.Lock" {
				n++
			}
		}
		return true
	})
	return n == 2
}
