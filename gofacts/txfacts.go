package main

// txfacts: structural facts about pkg/transaction that the C04 model (coq/Txn.v) relies on,
// emitted as coq/gen/TxFacts.v. For each anchored method the relevant actions are listed in
// source order: calls through the receiver (lock, flags, buffer, storage, release helpers),
// the `== ReadOnly` branches with their else-parts, the error returns of the contract and the
// order of the sources handed to the merging iterator. coq/TxnFacts.v compares the lists with
// what the model assumes (BeginTransaction takes RLock/Lock by mode before handing out the
// transaction; Get asks the buffer before storage; Commit releases the lock after ApplyBatch;
// Rollback clears and releases; release* is guarded by a CAS on the has*Lock flag; ...).
// A function that no longer exists is emitted as a comment so the comparison stops compiling.
// TxFacts.v — facts about the transaction registry and manager that the Registry model (C17)
// takes from the source on every run: the literal time limits (they are not named constants) and
// whether GracefulShutdown closes its stop channel unguarded.

import (
	"fmt"
	"go/ast"
	"go/parser"
	"go/token"
	"os"
	"path/filepath"
	"sort"
	"go/constant"
	"strings"
)

func init() { extraGenerators = append(extraGenerators, genTxFacts) }

type txFn struct{ recv, name, coq string }

var txFns = []txFn{
	{"Manager", "BeginTransaction", "tx_Begin"},
	{"TransactionImpl", "Get", "tx_Get"},
	{"TransactionImpl", "Put", "tx_Put"},
	{"TransactionImpl", "Delete", "tx_Delete"},
	{"TransactionImpl", "NewIterator", "tx_NewIterator"},
	{"TransactionImpl", "NewRangeIterator", "tx_NewRangeIterator"},
	{"TransactionImpl", "Commit", "tx_Commit"},
	{"TransactionImpl", "Rollback", "tx_Rollback"},
	{"TransactionImpl", "releaseReadLock", "tx_releaseReadLock"},
	{"TransactionImpl", "releaseWriteLock", "tx_releaseWriteLock"},
}

// selector chain "a.b.c" of an expression, or ""
func selChain(e ast.Expr) string {
	switch x := e.(type) {
	case *ast.Ident:
		return x.Name
	case *ast.SelectorExpr:
		if p := selChain(x.X); p != "" {
			return p + "." + x.Sel.Name
		}
	}
	return ""
}

var txRelevant = []string{"txLock.", "rwLock.", "active.", "hasReadLock.", "hasWriteLock.", "buffer.", "storage.",
	"releaseReadLock", "releaseWriteLock"}

func txActions(fd *ast.FuncDecl) []string {
	recv := ""
	if fd.Recv != nil && len(fd.Recv.List) > 0 && len(fd.Recv.List[0].Names) > 0 {
		recv = fd.Recv.List[0].Names[0].Name
	}
	var acts []string
	isRO := func(c ast.Expr) bool {
		b, ok := c.(*ast.BinaryExpr)
		if !ok || b.Op != token.EQL {
			return false
		}
		y, ok := b.Y.(*ast.Ident)
		return ok && y.Name == "ReadOnly"
	}
	var walk func(n ast.Node)
	walk = func(n ast.Node) {
		if n == nil {
			return
		}
		ast.Inspect(n, func(m ast.Node) bool {
			switch x := m.(type) {
			case *ast.FuncLit:
				return false
			case *ast.DeferStmt:
				return false // tx.mu.Unlock bookkeeping
			case *ast.IfStmt:
				if x.Init != nil {
					walk(x.Init)
				}
				ro := isRO(x.Cond)
				if ro {
					acts = append(acts, "if-readonly")
				} else {
					walk(x.Cond)
				}
				walk(x.Body)
				if x.Else != nil {
					if ro {
						acts = append(acts, "else")
					}
					walk(x.Else)
				}
				if ro {
					acts = append(acts, "fi")
				}
				return false
			case *ast.ReturnStmt:
				for _, r := range x.Results {
					walk(r)
				}
				if len(x.Results) > 0 {
					if id, ok := x.Results[0].(*ast.Ident); ok && id.Name == "tx" {
						acts = append(acts, "return tx")
					}
					last := x.Results[len(x.Results)-1]
					if id, ok := last.(*ast.Ident); ok && (id.Name == "ErrReadOnlyTransaction" || id.Name == "ErrTransactionClosed" || id.Name == "ErrKeyNotFound") {
						acts = append(acts, "return "+id.Name)
					}
				}
				return false
			case *ast.CallExpr:
				ch := selChain(x.Fun)
				// arguments first (evaluation order), then the call itself
				for _, a := range x.Args {
					walk(a)
				}
				if strings.HasSuffix(ch, "NewHierarchicalIterator") && len(x.Args) == 1 {
					if cl, ok := x.Args[0].(*ast.CompositeLit); ok {
						var els []string
						for _, e := range cl.Elts {
							els = append(els, selChain(e))
						}
						acts = append(acts, "merge "+strings.Join(els, ">"))
					}
				}
				if strings.HasSuffix(ch, "NewBoundedIterator") && len(x.Args) == 3 {
					acts = append(acts, "bound "+selChain(x.Args[0])+" "+selChain(x.Args[1])+" "+selChain(x.Args[2]))
				}
				if recv != "" && strings.HasPrefix(ch, recv+".") {
					rest := ch[len(recv)+1:]
					for _, p := range txRelevant {
						if strings.HasPrefix(rest, p) {
							acts = append(acts, rest)
							break
						}
					}
				}
				if sx, ok := x.Fun.(*ast.SelectorExpr); ok {
					if _, isIdent := sx.X.(*ast.Ident); !isIdent {
						walk(sx.X)
					}
				}
				return false
			}
			return true
		})
	}
	walk(fd.Body)
	return acts
func findFunc(pi *pkgInfo, recv, name string) *ast.FuncDecl {
	for _, f := range pi.files {
		for _, d := range f.Decls {
			fd, ok := d.(*ast.FuncDecl)
			if !ok || fd.Name.Name != name {
				continue
			r := ""
			if fd.Recv != nil && len(fd.Recv.List) == 1 {
				t := fd.Recv.List[0].Type
				if s, ok := t.(*ast.StarExpr); ok {
					t = s.X
				if id, ok := t.(*ast.Ident); ok {
					r = id.Name
			if r == recv {
				return fd
	return nil
// value of a constant time.Duration expression in milliseconds
func durMs(pi *pkgInfo, e ast.Expr) (string, bool) {
	tv, ok := pi.info.Types[e]
	if !ok || tv.Value == nil {
		return "", false
	v := constant.ToInt(tv.Value)
	if v.Kind() != constant.Int {
		return "", false
	ms := constant.BinaryOp(v, token.QUO, constant.MakeInt64(1000000))
	if constant.Sign(ms) < 0 {
		return "", false
	return ms.ExactString(), true
// the value given to field `name` in the first composite literal of fd
func litField(pi *pkgInfo, fd *ast.FuncDecl, name string) (string, bool) {
	res, ok := "", false
	ast.Inspect(fd, func(n ast.Node) bool {
		cl, is := n.(*ast.CompositeLit)
		if !is || ok {
		for _, el := range cl.Elts {
			if kv, is := el.(*ast.KeyValueExpr); is {
				if id, is := kv.Key.(*ast.Ident); is && id.Name == name {
					res, ok = durMs(pi, kv.Value)
	return res, ok
// the duration argument of the first call of pkg.fn inside fd
func callDur(pi *pkgInfo, fd *ast.FuncDecl, pkg, fn string, arg int) (string, bool) {
	res, ok := "", false
	ast.Inspect(fd, func(n ast.Node) bool {
		c, is := n.(*ast.CallExpr)
		if !is || ok {
		if se, is := c.Fun.(*ast.SelectorExpr); is && se.Sel.Name == fn {
			if id, is := se.X.(*ast.Ident); is && id.Name == pkg && len(c.Args) > arg {
				res, ok = durMs(pi, c.Args[arg])
	return res, ok
}

func genTxFacts() (string, string) {
	var b strings.Builder
	b.WriteString("(* GENERATED by /verif/gofacts (txfacts.go) from pkg/transaction under /repo — do not edit.\n")
	b.WriteString("   Per anchored method: the lock / flag / buffer / storage actions in source order. *)\n")
	b.WriteString("From Coq Require Import String List.\nImport ListNotations.\nOpen Scope string_scope.\n")
	dir := filepath.Join(repo, "pkg", "transaction")
	fs := token.NewFileSet()
	pkgs, err := parser.ParseDir(fs, dir, func(fi os.FileInfo) bool {
		return !strings.HasSuffix(fi.Name(), "_test.go") && !strings.HasSuffix(fi.Name(), "_verif.go")
	}, 0)
	if err != nil {
		b.WriteString("(* parse error: " + strings.ReplaceAll(err.Error(), "*)", "* )") + " *)\n")
		return "TxFacts.v", b.String()
	}
	decls := map[string]*ast.FuncDecl{}
	for _, p := range pkgs {
		var names []string
		for fn := range p.Files {
			names = append(names, fn)
		}
		sort.Strings(names)
		for _, fn := range names {
			for _, d := range p.Files[fn].Decls {
				fd, ok := d.(*ast.FuncDecl)
				if !ok || fd.Recv == nil || len(fd.Recv.List) == 0 || fd.Body == nil {
					continue
				}
				t := fd.Recv.List[0].Type
				if st, ok := t.(*ast.StarExpr); ok {
					t = st.X
				}
				if id, ok := t.(*ast.Ident); ok {
					decls[id.Name+"."+fd.Name.Name] = fd
				}
			}
		}
	}
	for _, f := range txFns {
		fd := decls[f.recv+"."+f.name]
		if fd == nil {
			fmt.Fprintf(&b, "(* %s.%s: not found *)\n", f.recv, f.name)
			continue
		}
		acts := txActions(fd)
		q := make([]string, len(acts))
		for i, a := range acts {
			q[i] = "\"" + a + "\""
		}
		fmt.Fprintf(&b, "Definition %s : list string :=\n  [%s].\n", f.coq, strings.Join(q, "; "))
	b.WriteString("(* GENERATED by /verif/gofacts from pkg/transaction — do not edit.\n")
	b.WriteString("   Literal time limits (milliseconds) and the shape of GracefulShutdown. A fact that can no\n")
	b.WriteString("   longer be read off the source is emitted as a comment, so its users stop compiling. *)\n")
	b.WriteString("From Coq Require Import NArith.\nOpen Scope N_scope.\n")
	pi, err := load("pkg/transaction")
		fmt.Fprintf(&b, "(* pkg/transaction not loadable: %v *)\n", err)
	emit := func(coq, v string, ok bool, what string) {
		if ok {
			fmt.Fprintf(&b, "Definition %s : N := %s.  (* %s *)\n", coq, v, what)
		} else {
			fmt.Fprintf(&b, "(* %s: %s not found *)\n", coq, what)
	if fd := findFunc(pi, "RegistryImpl", "Begin"); fd != nil {
		v, ok := callDur(pi, fd, "context", "WithTimeout", 1)
		emit("registry_begin_timeout_ms", v, ok, "RegistryImpl.Begin: context.WithTimeout(ctx, ...)")
	} else {
		b.WriteString("(* RegistryImpl.Begin not found *)\n")
	if fd := findFunc(pi, "", "NewRegistry"); fd != nil {
		v, ok := litField(pi, fd, "idleTxTTL")
		emit("registry_default_idle_ms", v, ok, "NewRegistry: idleTxTTL")
		v, ok = callDur(pi, fd, "time", "NewTicker", 0)
		emit("registry_cleanup_period_ms", v, ok, "NewRegistry: time.NewTicker(...)")
	} else {
		b.WriteString("(* NewRegistry not found *)\n")
	if fd := findFunc(pi, "", "NewManager"); fd != nil {
		v, ok := litField(pi, fd, "readOnlyTxTTL")
		emit("manager_ro_ttl_ms", v, ok, "NewManager: readOnlyTxTTL")
		v, ok = litField(pi, fd, "readWriteTxTTL")
		emit("manager_rw_ttl_ms", v, ok, "NewManager: readWriteTxTTL")
	} else {
		b.WriteString("(* NewManager not found *)\n")
	// GracefulShutdown: is close(r.stopCleanup) a statement of the function body itself (runs on
	// every call: the second call panics) or nested in something (sync.Once.Do, an if, a select)?
	if fd := findFunc(pi, "RegistryImpl", "GracefulShutdown"); fd != nil && fd.Body != nil {
		top, any := false, false
		isClose := func(s ast.Stmt) bool {
			es, ok := s.(*ast.ExprStmt)
			if !ok {
				return false
			c, ok := es.X.(*ast.CallExpr)
			if !ok {
				return false
			id, ok := c.Fun.(*ast.Ident)
			if !ok || id.Name != "close" || len(c.Args) != 1 {
				return false
			se, ok := c.Args[0].(*ast.SelectorExpr)
			return ok && se.Sel.Name == "stopCleanup"
		for _, s := range fd.Body.List {
			if isClose(s) {
				top = true
		ast.Inspect(fd.Body, func(n ast.Node) bool {
			if s, ok := n.(ast.Stmt); ok && isClose(s) {
				any = true
			return true
		})
		switch {
		case top:
			b.WriteString("Definition registry_shutdown_close_guarded : bool := false.  (* close(r.stopCleanup) runs on every call *)\n")
		case any:
			b.WriteString("Definition registry_shutdown_close_guarded : bool := true.  (* close(r.stopCleanup) is nested in a guard *)\n")
		default:
			b.WriteString("Definition registry_shutdown_close_guarded : bool := true.  (* no close(r.stopCleanup) in GracefulShutdown *)\n")
	} else {
		b.WriteString("(* RegistryImpl.GracefulShutdown not found *)\n")
	}
	return "TxFacts.v", b.String()
}
